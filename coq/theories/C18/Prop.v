(* C18 - PCM byte codecs are exact: the statements, each closed by [exact] from C18.Proofs,
   each followed by its assumptions; then concrete evaluations (non-vacuity). *)
From Coq Require Import List Bool ZArith QArith Qcanon.
From Flocq Require Import IEEE754.BinarySingleNaN IEEE754.Binary IEEE754.Bits.
From AL Require Import Base.CaseLib C08.Model C18.Model C18.Spec C18.Proofs.
Import ListNotations.
Open Scope Z_scope.

(* ---------------- 1. integers <-> bytes ---------------- *)

(* Packing a signed integer of any width w >= 1 (all three byte orders) and unpacking it gives
   the integer back, on exactly w bytes. *)
Theorem C18_int_roundtrip : forall (w : nat) (o : order) (v : Z) (bs : list Z),
  (1 <= w)%nat -> enc_int w o v = Some bs -> dec_int w o bs = v /\ length bs = w.
Proof. exact int_roundtrip. Qed.
Print Assumptions C18_int_roundtrip.

(* Packing succeeds exactly on the signed range of the width. *)
Theorem C18_enc_int_in_range : forall (w : nat) (o : order) (v : Z),
  in_srange w v = true -> exists bs, enc_int w o v = Some bs.
Proof. exact enc_int_in_range. Qed.
Print Assumptions C18_enc_int_in_range.

Theorem C18_enc_int_out_of_range : forall (w : nat) (o : order) (v : Z),
  in_srange w v = false -> enc_int w o v = None.
Proof. exact enc_int_out_of_range. Qed.
Print Assumptions C18_enc_int_out_of_range.

(* What is written are bytes. *)
Theorem C18_enc_int_bytes : forall (w : nat) (o : order) (v : Z) (bs : list Z),
  enc_int w o v = Some bs -> Forall (fun b => 0 <= b < 256) bs.
Proof. exact enc_int_bytes. Qed.
Print Assumptions C18_enc_int_bytes.

(* The other direction: unpacking any w bytes and packing the result gives the same bytes. *)
Theorem C18_int_roundtrip_bytes : forall (w : nat) (o : order) (bs : list Z),
  (1 <= w)%nat -> length bs = w -> Forall (fun b => 0 <= b < 256) bs ->
  enc_int w o (dec_int w o bs) = Some bs.
Proof. exact int_roundtrip_bytes. Qed.
Print Assumptions C18_int_roundtrip_bytes.

(* ---------------- 2. WavStream ---------------- *)

(* Decoding the file bytes of one stored sample gives the sample (8 bit: unsigned). *)
Theorem C18_unpack_encode : forall (bits v : Z),
  In bits [8; 16; 24; 32] -> in_wav_range bits v = true ->
  unpack bits (le_bytes (Z.to_nat (bits / 8)) (v mod 2 ^ bits)) = v.
Proof. exact unpack_encode. Qed.
Print Assumptions C18_unpack_encode.

(* The 24-bit path (prepend a zero byte, decode 32 bits, shift right by 8) is the 3-byte
   little-endian two's complement decoder, for every 3-byte string. *)
Theorem C18_unpack_24_signext : forall (bs : list Z),
  length bs = 3%nat -> Forall (fun b => 0 <= b < 256) bs ->
  unpack 24 bs = dec_int 3 Little bs.
Proof. exact unpack_24_signext. Qed.
Print Assumptions C18_unpack_24_signext.

(* Reading a whole data chunk, mono or stereo, raw or normalised. *)
Theorem C18_wav_model_encode : forall (bits : Z) (channels : nat) (keep : bool) (samples : list Z),
  In bits [8; 16; 24; 32] -> (channels = 1 \/ channels = 2)%nat ->
  Forall (fun v => in_wav_range bits v = true) samples ->
  (length samples mod channels = 0)%nat ->
  wav_model bits channels keep (wav_encode bits samples) = wav_spec bits keep samples.
Proof. exact wav_model_encode. Qed.
Print Assumptions C18_wav_model_encode.

(* The normalised outputs lie in [-1, 1). *)
Theorem C18_wav_norm_range : forall (bits v : Z),
  In bits [8; 16; 24; 32] -> in_wav_range bits v = true ->
  let q := Q2Qc ((if bits =? 8 then v - 128 else v) # Z.to_pos (2 ^ (bits - 1))) in
  (Qcopp 1 <= q)%Qc /\ (q < 1)%Qc.
Proof. exact wav_norm_range. Qed.
Print Assumptions C18_wav_norm_range.

(* The same in the boolean form evaluated by C18.Check.holds_wav. *)
Theorem C18_wav_norm_range_bool : forall (bits v : Z),
  In bits [8; 16; 24; 32] -> in_wav_range bits v = true ->
  let q := Q2Qc ((if bits =? 8 then v - 128 else v) # Z.to_pos (2 ^ (bits - 1))) in
  Qc_leb (qc (-1) 1) q && Qc_ltb q (qc 1 1) = true.
Proof. exact wav_norm_range_bool. Qed.
Print Assumptions C18_wav_norm_range_bool.

(* The reader's trace: the samples, then exactly one close, as the last event. *)
Theorem C18_wav_trace_close_once : forall (bits : Z) (channels : nat) (keep : bool) (raw : list Z),
  let tr := wav_trace bits channels keep raw in
  length (filter is_close tr) = 1%nat /\
  last tr (EvSample (WInt 0)) = EvClose /\
  (exists pre, tr = pre ++ [EvClose] /\ Forall (fun e => is_close e = false) pre /\
               pre = map EvSample (wav_model bits channels keep raw)).
Proof. exact wav_trace_close_once. Qed.
Print Assumptions C18_wav_trace_close_once.

(* ---------------- 3. chunks ---------------- *)

(* Both strategies pack the same block list (the array loop rebuilds C08's blocks with hop = size). *)
Theorem C18_chunks_blocks_same : forall (size : nat) (pad : Z) (xs : list Z),
  (1 <= size)%nat ->
  arr_fin size pad (arr_loop size [] xs) = blocks_model size size pad xs.
Proof. exact chunks_blocks_same. Qed.
Print Assumptions C18_chunks_blocks_same.

(* Exact characterisation: struct and array give the same result iff no packed sample
   overflows binary32 under a strict ("<" / ">") float format. *)
Theorem C18_chunks_struct_eq_array_iff : forall (size : nat) (f : dfmt) (o : order) (pad : Z) (xs : list Z),
  (1 <= size)%nat ->
  (chunks_struct size f o pad xs = chunks_array size f o pad xs <->
   (f = Ff -> struct_strict o = true ->
    Forall (fun v => f32_overflows v = false) (padded size pad xs))).
Proof. exact chunks_struct_eq_array_iff. Qed.
Print Assumptions C18_chunks_struct_eq_array_iff.

(* Sufficient condition on the inputs (the equality of the two strategies is NOT unconditional). *)
Theorem C18_chunks_struct_eq_array_partial : forall (size : nat) (f : dfmt) (o : order) (pad : Z) (xs : list Z),
  (1 <= size)%nat ->
  (f = Ff -> struct_strict o = true ->
   Forall (fun v => f32_overflows v = false) (pad :: xs)) ->
  chunks_struct size f o pad xs = chunks_array size f o pad xs.
Proof. exact chunks_struct_eq_array_partial. Qed.
Print Assumptions C18_chunks_struct_eq_array_partial.

(* Unconditional for b, h, i, d and for the native byte order. *)
Theorem C18_chunks_struct_eq_array : forall (size : nat) (f : dfmt) (o : order) (pad : Z) (xs : list Z),
  (1 <= size)%nat -> f <> Ff \/ struct_strict o = false ->
  chunks_struct size f o pad xs = chunks_array size f o pad xs.
Proof. exact chunks_struct_eq_array. Qed.
Print Assumptions C18_chunks_struct_eq_array.

(* Whenever struct succeeds, array yields exactly the same chunks. *)
Theorem C18_chunks_struct_ok_array : forall (size : nat) (f : dfmt) (o : order) (pad : Z) (xs : list Z)
  (chs : list (list Z)),
  (1 <= size)%nat ->
  chunks_struct size f o pad xs = (chs, false) ->
  chunks_array size f o pad xs = (chs, false).
Proof. exact chunks_struct_ok_array. Qed.
Print Assumptions C18_chunks_struct_ok_array.

(* Unpacking the concatenated chunks gives the input followed by the minimal padding; every
   chunk has size * width bytes.  (For "d" a sample is its 64-bit pattern, hence the range.) *)
Theorem C18_chunks_unpack : forall (size : nat) (f : dfmt) (o : order) (pad : Z) (xs : list Z)
  (chs : list (list Z)),
  (1 <= size)%nat ->
  (f = Fd -> Forall (fun v => 0 <= v < 2 ^ 64) (pad :: xs)) ->
  chunks_struct size f o pad xs = (chs, false) ->
  unpack_all f o (concat chs) = map (stored f) (padded size pad xs) /\
  Forall (fun ch => length ch = (size * width f)%nat) chs.
Proof. exact chunks_unpack. Qed.
Print Assumptions C18_chunks_unpack.

Theorem C18_chunks_unpack_array : forall (size : nat) (f : dfmt) (o : order) (pad : Z) (xs : list Z)
  (chs : list (list Z)),
  (1 <= size)%nat ->
  (f = Fd -> Forall (fun v => 0 <= v < 2 ^ 64) (pad :: xs)) ->
  chunks_array size f o pad xs = (chs, false) ->
  unpack_all f o (concat chs) = map (stored f) (padded size pad xs) /\
  Forall (fun ch => length ch = (size * width f)%nat) chs.
Proof. exact chunks_unpack_array. Qed.
Print Assumptions C18_chunks_unpack_array.

Theorem C18_chunks_unpack_int : forall (size : nat) (f : dfmt) (o : order) (pad : Z) (xs : list Z)
  (chs : list (list Z)),
  (1 <= size)%nat -> (f = Fb \/ f = Fh \/ f = Fi) ->
  chunks_struct size f o pad xs = (chs, false) ->
  unpack_all f o (concat chs) = padded size pad xs /\
  Forall (fun ch => length ch = (size * width f)%nat) chs.
Proof. exact chunks_unpack_int. Qed.
Print Assumptions C18_chunks_unpack_int.

(* The padding is minimal: the padded length is the least multiple of size >= the length. *)
Theorem C18_padded_length : forall (size : nat) (pad : Z) (xs : list Z),
  (1 <= size)%nat ->
  (length (padded size pad xs) mod size = 0)%nat /\
  (length xs <= length (padded size pad xs) < length xs + size)%nat.
Proof. exact padded_length. Qed.
Print Assumptions C18_padded_length.

(* The hypothesis "no error" of the theorems above is met whenever the pad and every sample
   are encodable (the condition C18.Check.encodable evaluates). *)
Theorem C18_chunks_no_error : forall (size : nat) (f : dfmt) (o : order) (pad : Z) (xs : list Z),
  (1 <= size)%nat ->
  Forall (fun v => enc_sample true f o v <> None) (pad :: xs) ->
  snd (chunks_struct size f o pad xs) = false /\
  snd (chunks_array size f o pad xs) = false.
Proof. exact chunks_no_error. Qed.
Print Assumptions C18_chunks_no_error.

(* A double is identified with its bit pattern (Flocq). *)
Theorem C18_f64_bits_roundtrip : forall v : Z,
  0 <= v < 2 ^ 64 -> bits_of_b64 (b64_of_bits v) = v.
Proof. exact f64_bits_roundtrip. Qed.
Print Assumptions C18_f64_bits_roundtrip.

Theorem C18_f32_bits_roundtrip : forall v : Z,
  0 <= v < 2 ^ 32 -> bits_of_b32 (b32_of_bits v) = v.
Proof. exact f32_bits_roundtrip. Qed.
Print Assumptions C18_f32_bits_roundtrip.

(* ---------------- non-vacuity: concrete evaluations ---------------- *)

Example C18_ex_dec_big : dec_int 2 Big [255; 254] = -2.
Proof. vm_compute. reflexivity. Qed.
Print Assumptions C18_ex_dec_big.

Example C18_ex_enc_big : enc_int 2 Big (-2) = Some [255; 254].
Proof. vm_compute. reflexivity. Qed.
Print Assumptions C18_ex_enc_big.

Example C18_ex_enc_range : enc_int 1 Little 128 = None /\ enc_int 1 Little (-128) = Some [128].
Proof. vm_compute. split; reflexivity. Qed.
Print Assumptions C18_ex_enc_range.

Example C18_ex_unpack24_min : unpack 24 [0; 0; 128] = -8388608.
Proof. vm_compute. reflexivity. Qed.
Print Assumptions C18_ex_unpack24_min.

Example C18_ex_unpack24_m1 : unpack 24 [255; 255; 255] = -1 /\ unpack 24 [255; 255; 127] = 8388607.
Proof. vm_compute. split; reflexivity. Qed.
Print Assumptions C18_ex_unpack24_m1.

(* stereo 16-bit frames L=1 R=-1, L=-32768 R=32767, raw and normalised
   (normalised outputs are shown through their reduced fraction [this]) *)
Example C18_ex_wav_stereo :
  wav_model 16 2 true (wav_encode 16 [1; -1; -32768; 32767]) =
    [WInt 1; WInt (-1); WInt (-32768); WInt 32767] /\
  wav_encode 16 [1; -1; -32768; 32767] = [1; 0; 255; 255; 0; 128; 255; 127] /\
  map (fun o => match o with WFlt q => this q | WInt z => inject_Z z end)
      (wav_model 16 2 false [1; 0; 255; 255; 0; 128; 255; 127]) =
    [1 # 32768; -1 # 32768; -1 # 1; 32767 # 32768]%Q.
Proof. vm_compute. repeat split; reflexivity. Qed.
Print Assumptions C18_ex_wav_stereo.

Example C18_ex_wav_8bit :
  map (fun o => match o with WFlt q => this q | WInt z => inject_Z z end)
      (wav_model 8 1 false [0; 128; 255]) = [-1 # 1; 0 # 1; 127 # 128]%Q.
Proof. vm_compute. reflexivity. Qed.
Print Assumptions C18_ex_wav_8bit.

Example C18_ex_wav_trace : wav_trace 8 1 true [7; 9] = [EvSample (WInt 7); EvSample (WInt 9); EvClose].
Proof. vm_compute. reflexivity. Qed.
Print Assumptions C18_ex_wav_trace.

(* four samples, size 3: the second chunk is padded with two 7s *)
Example C18_ex_chunks_padded_tail :
  chunks_struct 3 Fh Little 7 [1; -2; 3; 4] = ([[1; 0; 254; 255; 3; 0]; [4; 0; 7; 0; 7; 0]], false) /\
  chunks_array 3 Fh Little 7 [1; -2; 3; 4] = ([[1; 0; 254; 255; 3; 0]; [4; 0; 7; 0; 7; 0]], false) /\
  unpack_all Fh Little [1; 0; 254; 255; 3; 0; 4; 0; 7; 0; 7; 0] = [1; -2; 3; 4; 7; 7] /\
  padded 3 7 [1; -2; 3; 4] = [1; -2; 3; 4; 7; 7].
Proof. vm_compute. repeat split; reflexivity. Qed.
Print Assumptions C18_ex_chunks_padded_tail.

(* an out-of-range integer: the first chunk is yielded, then the error *)
Example C18_ex_chunks_error : chunks_struct 2 Fb Little 0 [1; 2; 200] = ([[1; 2]], true).
Proof. vm_compute. reflexivity. Qed.
Print Assumptions C18_ex_chunks_error.

(* 1.5 as a big-endian binary32 *)
Example C18_ex_chunks_float :
  chunks_struct 1 Ff Big 0 [4609434218613702656] = ([[63; 192; 0; 0]], false) /\
  stored Ff 4609434218613702656 = 1069547520.
Proof. vm_compute. split; reflexivity. Qed.
Print Assumptions C18_ex_chunks_float.

(* the hypothesis of C18_chunks_struct_eq_array_iff cannot be dropped: 1e39 with "<f" *)
Example C18_ex_chunks_float_overflow :
  f32_overflows 5190260616003865117 = true /\
  chunks_struct 1 Ff Little 0 [5190260616003865117] = ([], true) /\
  chunks_array 1 Ff Little 0 [5190260616003865117] = ([[0; 0; 128; 127]], false) /\
  chunks_struct 1 Ff Native 0 [5190260616003865117] = ([[0; 0; 128; 127]], false).
Proof. vm_compute. repeat split; reflexivity. Qed.
Print Assumptions C18_ex_chunks_float_overflow.
