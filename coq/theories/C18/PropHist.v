(* C18 - several live streams / several calls: the statements (proofs in C18.Proofs_Hist), each followed by its
   assumptions; then concrete evaluations.  The packers and the WAV decoder are pure per call / per stream, so
   a history is checked call by call against the single-call model; what is stated here is that the model of an
   interleaved run has no cross-talk either. *)
From Coq Require Import List Bool ZArith QArith Qcanon.
From AL Require Import Base.CaseLib C18.Model C18.Spec C18.Check C18.Hist C18.Proofs_Hist.
Import ListNotations.

(* Whatever the order in which several live streams are pulled one element at a time, stream i gives what it
   gives when it is pulled alone the same number of times: its own elements, then StopIteration for ever. *)
Theorem C18_interleaved_view : forall (A : Type) (sched : list nat) (st : list (list A)) (i : nat),
  (i < length st)%nat ->
  view i (run_sched sched st) = pulls (count i sched) (nth i st []).
Proof. exact @run_sched_view. Qed.
Print Assumptions C18_interleaved_view.

(* For WavStreams over any files (same or different, any widths / channel counts / keep flags). *)
Theorem C18_wav_interleaved_independent : forall (files : list wfile) (sched : list nat) (i : nat) (f : wfile),
  nth_error files i = Some f ->
  view i (run_sched sched (map wfile_model files)) = pulls (count i sched) (wfile_model f).
Proof. exact wav_interleaved_independent. Qed.
Print Assumptions C18_wav_interleaved_independent.

(* the j-th pull gives the j-th element if there is one and StopIteration (None) otherwise *)
Theorem C18_pulls_spec : forall (A : Type) (k : nat) (outs : list A) (j : nat), (j < k)%nat ->
  nth j (pulls k outs) None = nth_error outs j.
Proof. exact @pulls_spec. Qed.
Print Assumptions C18_pulls_spec.

Open Scope Z_scope.

(* two 24-bit stereo files pulled alternately (what WavStream(a) + WavStream(b) does): no cross-talk *)
Example C18_ex_interleaved_24_stereo :
  let a := (24, 2%nat, true, [1; 0; 0; 254; 255; 255]) in      (* L = 1, R = -2 *)
  let b := (24, 2%nat, true, [24; 252; 255; 208; 7; 0]) in     (* L = -1000, R = 2000 *)
  let tr := run_sched [0; 1; 0; 1; 0; 1]%nat (map wfile_model [a; b]) in
  view 0 tr = [Some (WInt 1); Some (WInt (-2)); None] /\
  view 1 tr = [Some (WInt (-1000)); Some (WInt 2000); None].
Proof. vm_compute. split; reflexivity. Qed.
Print Assumptions C18_ex_interleaved_24_stereo.

(* the history checker is not vacuous: the observation of a stream that shows the OTHER file's right channel
   is rejected, the right one is accepted; an open file after StopIteration is rejected *)
Example C18_ex_holds_wavhist :
  let s (evs : list (option wout * bool)) :=
    HS 24 2 true [1; -2] [1; 0; 0; 254; 255; 255] 8000 (8000, 2, 24) true evs false true in
  holds_wavhist (HC [0; 0; 0]%nat [s [(Some (WInt 1), false); (Some (WInt (-2)), false); (None, true)]]) = true /\
  holds_wavhist (HC [0; 0; 0]%nat [s [(Some (WInt 1), false); (Some (WInt 2000), false); (None, true)]]) = false /\
  holds_wavhist (HC [0; 0; 0]%nat [s [(Some (WInt 1), false); (Some (WInt (-2)), false); (None, false)]]) = false.
Proof. vm_compute. repeat split; reflexivity. Qed.
Print Assumptions C18_ex_holds_wavhist.

(* the same array used twice: a second call that sees the first call's padding as data is rejected; a generator
   used twice is empty the second time *)
Example C18_ex_holds_ckinds :
  let c1 := KK 0 SArray 4 Native 9 (CO [[1; 2; 3; 9]] false) (Some [1; 2; 3]) in
  let good := KK 0 SStruct 1 Native 0 (CO [[1]; [2]; [3]] false) (Some [1; 2; 3]) in
  let bad := KK 0 SStruct 1 Native 0 (CO [[1]; [2]; [3]; [9]] false) (Some [1; 2; 3; 9]) in
  let g2 := KK 0 SStruct 1 Native 0 (CO [] false) (Some []) in
  holds_ckinds (KC Fb [KO KArrSame [1; 2; 3]] [] [c1; good]) = true /\
  holds_ckinds (KC Fb [KO KArrSame [1; 2; 3]] [] [c1; bad]) = false /\
  corr_ckinds (KC Fb [KO KArrSame [1; 2; 3]] [] [c1; bad]) = false /\
  holds_ckinds (KC Fb [KO KGen [1; 2; 3]] [] [c1; g2]) = true /\
  holds_ckinds (KC Fb [KO KGen [1; 2; 3]] [] [c1; good]) = false.
Proof. vm_compute. repeat split; reflexivity. Qed.
Print Assumptions C18_ex_holds_ckinds.
