(* Shared helpers for the correspondence case files (evaluated by vm_compute). *)
From Coq Require Import List Bool Arith ZArith QArith Qcanon String Ascii.
Import ListNotations.

Fixpoint bad_idx_from {T : Type} (f : T -> bool) (i : nat) (l : list T) : list nat :=
  match l with
  | [] => []
  | x :: r => if f x then bad_idx_from f (S i) r else i :: bad_idx_from f (S i) r
  end.
(* indices of the cases on which the boolean check is false *)
Definition bad_idx {T : Type} (f : T -> bool) (l : list T) : list nat := bad_idx_from f 0 l.

Lemma bad_idx_from_nil {T} (f : T -> bool) l : forall i,
  bad_idx_from f i l = [] <-> forallb f l = true.
Proof.
  induction l as [|x r IH]; intro i; simpl; [tauto|].
  destruct (f x); simpl; [apply IH|]. split; discriminate.
Qed.

Fixpoint list_eqb {T : Type} (e : T -> T -> bool) (a b : list T) : bool :=
  match a, b with
  | [], [] => true
  | x :: a', y :: b' => e x y && list_eqb e a' b'
  | _, _ => false
  end.

Lemma list_eqb_spec {T} (e : T -> T -> bool) :
  (forall x y, e x y = true <-> x = y) ->
  forall a b, list_eqb e a b = true <-> a = b.
Proof.
  intros He a. induction a as [|x a IH]; intros [|y b]; simpl; split; intro H;
    try reflexivity; try discriminate.
  - apply andb_true_iff in H as [H1 H2]. apply He in H1. apply IH in H2. congruence.
  - inversion H; subst. apply andb_true_iff; split; [apply He|apply IH]; reflexivity.
Qed.

Definition option_eqb {T : Type} (e : T -> T -> bool) (a b : option T) : bool :=
  match a, b with
  | None, None => true
  | Some x, Some y => e x y
  | _, _ => false
  end.

Lemma option_eqb_spec {T} (e : T -> T -> bool) :
  (forall x y, e x y = true <-> x = y) ->
  forall a b, option_eqb e a b = true <-> a = b.
Proof.
  intros He [x|] [y|]; simpl; split; intro H; try reflexivity; try discriminate.
  - apply He in H. congruence.
  - inversion H; subst. apply He. reflexivity.
Qed.

Definition prod_eqb {A B : Type} (ea : A -> A -> bool) (eb : B -> B -> bool)
  (a b : A * B) : bool := ea (fst a) (fst b) && eb (snd a) (snd b).

(* exact rationals: literal constructor and boolean equality *)
Definition qc (n : Z) (d : positive) : Qc := Q2Qc (n # d).
Definition Qc_eqb (a b : Qc) : bool := Qeq_bool (this a) (this b).

Lemma Qc_eqb_spec a b : Qc_eqb a b = true <-> a = b.
Proof.
  unfold Qc_eqb. rewrite Qeq_bool_iff. split; intro H.
  - apply Qc_is_canon. exact H.
  - subst. reflexivity.
Qed.

Definition Qc_leb (a b : Qc) : bool := Qle_bool (this a) (this b).
Lemma Qc_leb_spec a b : Qc_leb a b = true <-> (a <= b)%Qc.
Proof. unfold Qc_leb, Qcle. apply Qle_bool_iff. Qed.
Definition Qc_ltb (a b : Qc) : bool := negb (Qc_leb b a).
Lemma Qc_ltb_spec a b : Qc_ltb a b = true <-> (a < b)%Qc.
Proof.
  unfold Qc_ltb. rewrite negb_true_iff. split; intro H.
  - apply Qcnot_le_lt. intro L. apply Qc_leb_spec in L. congruence.
  - destruct (Qc_leb b a) eqn:E; [|reflexivity]. apply Qc_leb_spec in E.
    exfalso. apply (Qclt_not_le _ _ H). exact E.
Qed.

(* symbolic items for polymorphic code: integers, strings, and "None" *)
Inductive item := IZ (z : Z) | IS (s : string) | INone | IQ (q : Qc).
Definition item_eqb (a b : item) : bool :=
  match a, b with
  | IZ x, IZ y => Z.eqb x y
  | IS x, IS y => String.eqb x y
  | INone, INone => true
  | IQ x, IQ y => Qc_eqb x y
  | _, _ => false
  end.
Lemma item_eqb_spec a b : item_eqb a b = true <-> a = b.
Proof.
  destruct a, b; simpl; split; intro H; try discriminate; try reflexivity.
  - apply Z.eqb_eq in H. congruence.
  - inversion H. apply Z.eqb_refl.
  - apply String.eqb_eq in H. congruence.
  - inversion H. apply String.eqb_refl.
  - apply Qc_eqb_spec in H. congruence.
  - inversion H. apply Qc_eqb_spec. reflexivity.
Qed.
