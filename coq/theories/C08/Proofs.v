(* C08 - proofs: the generator model [blocks_model] equals the closed form
   [blocks_spec] for every input list, size >= 1 and hop >= 1 (hop <, =, > size),
   by induction on the input; plus the user-visible corollaries. *)
From Coq Require Import List Bool Arith ZArith Lia.
From AL Require Import C08.Model C08.Spec.
Import ListNotations.

Section Proofs.
Variable A : Type.
Implicit Types (l m d res xs r : list A) (x el pad : A).

(* ------------------------------------------------------------------ *)
(* The last [n] items of a list                                         *)
(* ------------------------------------------------------------------ *)

Definition lastn (n : nat) (l : list A) : list A := skipn (length l - n) l.

Lemma skipn_add (a b : nat) l : skipn a (skipn b l) = skipn (b + a) l.
Proof.
  revert l. induction b as [|b IH]; intros l.
  - reflexivity.
  - destruct l as [|x l].
    + cbn [Nat.add skipn]. apply skipn_nil.
    + cbn [Nat.add skipn]. apply IH.
Qed.

Lemma lastn_length n l : length (lastn n l) = Nat.min n (length l).
Proof. unfold lastn. rewrite skipn_length. lia. Qed.

Lemma lastn_all n l : (length l <= n)%nat -> lastn n l = l.
Proof.
  intros H. unfold lastn.
  replace (length l - n)%nat with 0%nat by lia. reflexivity.
Qed.

Lemma lastn_0 l : lastn 0 l = [].
Proof. unfold lastn. rewrite Nat.sub_0_r. apply skipn_all. Qed.

Lemma lastn_lastn_app (a b : nat) l m :
  (a <= b)%nat -> lastn a (lastn b l ++ m) = lastn a (l ++ m).
Proof.
  intros Hab. unfold lastn.
  rewrite !app_length, !skipn_app, skipn_add, !skipn_length.
  f_equal; f_equal; lia.
Qed.

Lemma lastn_app n l m :
  (length m <= n)%nat -> lastn n (l ++ m) = lastn (n - length m) l ++ m.
Proof.
  intros H. unfold lastn. rewrite app_length, skipn_app.
  replace (length l + length m - n - length l)%nat with 0%nat by lia.
  rewrite skipn_O. f_equal. f_equal. lia.
Qed.

(* ------------------------------------------------------------------ *)
(* The bounded deque                                                    *)
(* ------------------------------------------------------------------ *)

Lemma dq_push_eq (s : nat) d x : dq_push s d x = lastn s (d ++ [x]).
Proof. reflexivity. Qed.

Lemma dq_push_length (s : nat) d x :
  length (dq_push s d x) = Nat.min s (length d + 1).
Proof. rewrite dq_push_eq, lastn_length, app_length. reflexivity. Qed.

Lemma lastn_dq_push (i s : nat) d x :
  (i + 1 <= s)%nat -> lastn (i + 1) (dq_push s d x) = lastn i d ++ [x].
Proof.
  intros H. rewrite dq_push_eq.
  rewrite <- (app_nil_r (lastn s (d ++ [x]))).
  rewrite lastn_lastn_app by assumption.
  rewrite app_nil_r.
  rewrite lastn_app by (cbn [length]; lia).
  cbn [length]. replace (i + 1 - 1)%nat with i by lia. reflexivity.
Qed.

Lemma push_pads_eq (s : nat) pad (n : nat) : forall res,
  (length res <= s)%nat ->
  push_pads s res pad n = lastn s (res ++ repeat pad n).
Proof.
  induction n as [|n IH]; intros res Hres; cbn [push_pads repeat].
  - rewrite app_nil_r, lastn_all by assumption. reflexivity.
  - rewrite IH by (rewrite dq_push_length; lia).
    rewrite dq_push_eq, lastn_lastn_app by lia.
    rewrite <- app_assoc. reflexivity.
Qed.

(* ------------------------------------------------------------------ *)
(* Arithmetic of the number of complete blocks                          *)
(* ------------------------------------------------------------------ *)

Lemma nblocks_short (L s h : nat) : (L < s)%nat -> nblocks L s h = 0%nat.
Proof.
  intros H. unfold nblocks.
  destruct (Nat.ltb_spec L s) as [_|H1]; [reflexivity|lia].
Qed.

Lemma nblocks_step (L s h : nat) :
  (1 <= s)%nat -> (1 <= h)%nat -> (s <= L)%nat ->
  nblocks L s h = S (nblocks (L - h) s h).
Proof.
  intros Hs Hh HL. unfold nblocks.
  destruct (Nat.ltb_spec L s) as [H1|H1]; [lia|].
  destruct (Nat.ltb_spec (L - h) s) as [H2|H2].
  - rewrite Nat.div_small by lia. reflexivity.
  - replace (L - s)%nat with ((L - h - s) + 1 * h)%nat by lia.
    rewrite Nat.div_add by lia. lia.
Qed.

(* every complete block fits in the input *)
Lemma nblocks_fit (L s h k : nat) :
  (1 <= h)%nat -> (k < nblocks L s h)%nat -> (k * h + s <= L)%nat.
Proof.
  intros Hh. unfold nblocks.
  destruct (Nat.ltb_spec L s) as [H|H]; [lia|].
  intros Hk.
  assert (Hk' : (k <= (L - s) / h)%nat) by lia.
  assert (Hq : (h * ((L - s) / h) <= L - s)%nat) by (apply Nat.mul_div_le; lia).
  assert (Hm : (k * h <= (L - s) / h * h)%nat)
    by (apply Nat.mul_le_mono_r; assumption).
  lia.
Qed.

(* ... and one more would not *)
Lemma nblocks_max (L s h : nat) :
  (1 <= s)%nat -> (1 <= h)%nat -> (L < nblocks L s h * h + s)%nat.
Proof.
  intros Hs Hh. unfold nblocks.
  destruct (Nat.ltb_spec L s) as [H|H]; [lia|].
  assert (Hq : (L - s < h * S ((L - s) / h))%nat)
    by (apply Nat.mul_succ_div_gt; lia).
  lia.
Qed.

(* ------------------------------------------------------------------ *)
(* Unfolding the closed form                                            *)
(* ------------------------------------------------------------------ *)

Lemma blocks_spec_unfold (s h : nat) pad xs (K : nat) :
  K = nblocks (length xs) s h ->
  blocks_spec s h pad xs =
  map (block_k s h xs) (seq 0 K) ++
  (if (Z.max (Z.of_nat s - Z.of_nat h) 0
       <? Z.of_nat (length xs) - Z.of_nat K * Z.of_nat h)%Z
   then [skipn (K * h) xs ++
         repeat pad (Z.to_nat (Z.of_nat s -
                      (Z.of_nat (length xs) - Z.of_nat K * Z.of_nat h)))]
   else []).
Proof. intros ->. reflexivity. Qed.

Lemma blocks_spec_short (s h : nat) pad xs :
  (length xs < s)%nat ->
  blocks_spec s h pad xs =
  if (Z.max (Z.of_nat s - Z.of_nat h) 0 <? Z.of_nat (length xs))%Z
  then [xs ++ repeat pad (s - length xs)] else [].
Proof.
  intros H.
  rewrite (blocks_spec_unfold s h pad xs 0)
    by (symmetry; apply nblocks_short; assumption).
  replace (Z.of_nat (length xs) - Z.of_nat 0 * Z.of_nat h)%Z
    with (Z.of_nat (length xs)) by lia.
  replace (Z.to_nat (Z.of_nat s - Z.of_nat (length xs)))
    with (s - length xs)%nat by lia.
  reflexivity.
Qed.

Lemma blocks_spec_cons (s h : nat) pad xs :
  (1 <= s)%nat -> (1 <= h)%nat -> (s <= length xs)%nat ->
  blocks_spec s h pad xs = firstn s xs :: blocks_spec s h pad (skipn h xs).
Proof.
  intros Hs Hh HL.
  set (K' := nblocks (length (skipn h xs)) s h).
  rewrite (blocks_spec_unfold s h pad xs (S K')).
  2:{ unfold K'. rewrite skipn_length. symmetry. apply nblocks_step; assumption. }
  rewrite (blocks_spec_unfold s h pad (skipn h xs) K') by reflexivity.
  cbn [seq map app].
  f_equal.
  rewrite <- seq_shift, map_map.
  assert (Hnn : (0 <= Z.of_nat K' * Z.of_nat h)%Z)
    by (apply Z.mul_nonneg_nonneg; lia).
  rewrite skipn_add, skipn_length.
  f_equal.
  - apply map_ext. intros k. unfold block_k. rewrite skipn_add.
    f_equal; f_equal; lia.
  - destruct (Z.ltb_spec (Z.max (Z.of_nat s - Z.of_nat h) 0)
                (Z.of_nat (length xs) - Z.of_nat (S K') * Z.of_nat h)) as [H1|H1];
    destruct (Z.ltb_spec (Z.max (Z.of_nat s - Z.of_nat h) 0)
                (Z.of_nat (length xs - h) - Z.of_nat K' * Z.of_nat h)) as [H2|H2].
    + f_equal. f_equal; f_equal; lia.
    + exfalso. lia.
    + exfalso. lia.
    + reflexivity.
Qed.

(* ------------------------------------------------------------------ *)
(* The loop invariant                                                   *)
(* ------------------------------------------------------------------ *)

Definition tailblk (s h : nat) pad res (idx : Z) : list (list A) :=
  if (Z.max (Z.of_nat s - Z.of_nat h) 0 <? idx)%Z
  then [push_pads s res pad (Z.to_nat (Z.of_nat s - idx))] else [].

Definition finish (s h : nat) pad (p : list (list A) * (list A * Z))
  : list (list A) :=
  let '(ys, (res, idx)) := p in ys ++ tailblk s h pad res idx.

(* what the rest of the run must produce from state (res, idx) on input xs:
   idx < 0  : -idx items are still to be skipped;
   idx >= 0 : the last idx items of the deque already belong to the next block *)
Definition gspec (s h : nat) pad (idx : Z) res xs : list (list A) :=
  if (idx <? 0)%Z
  then blocks_spec s h pad (skipn (Z.to_nat (- idx)) xs)
  else blocks_spec s h pad (lastn (Z.to_nat idx) res ++ xs).

Lemma blocks_model_finish (s h : nat) pad xs :
  blocks_model s h pad xs =
  finish s h pad (loop (negb (h <=? s)%nat) s h [] 0%Z xs).
Proof.
  unfold blocks_model, finish, tailblk. cbv zeta.
  destruct (loop (negb (h <=? s)%nat) s h [] 0%Z xs) as [ys [res idx]].
  destruct (Z.max (Z.of_nat s - Z.of_nat h) 0 <? idx)%Z.
  - reflexivity.
  - rewrite app_nil_r. reflexivity.
Qed.

Lemma finish_yield (s h : nat) pad (b : list A) (p : list (list A) * (list A * Z)) :
  finish s h pad (let '(ys, st) := p in (b :: ys, st)) = b :: finish s h pad p.
Proof. destruct p as [ys [res idx]]. reflexivity. Qed.

Lemma loop_finish (s h : nat) pad :
  (1 <= s)%nat -> (1 <= h)%nat ->
  forall xs res (idx : Z),
  (idx < Z.of_nat s)%Z ->
  ((h <= s)%nat -> (0 <= idx)%Z) ->
  ((0 <= idx)%Z -> (Z.to_nat idx <= length res)%nat) ->
  (length res <= s)%nat ->
  finish s h pad (loop (negb (h <=? s)%nat) s h res idx xs) =
  gspec s h pad idx res xs.
Proof.
  intros Hs Hh. induction xs as [|el r IH]; intros res idx Hlt Hnn Hle Hres.
  - (* end of input: the padding tail *)
    cbn [loop finish app]. unfold gspec, tailblk.
    destruct (Z.ltb_spec idx 0) as [Hneg|Hpos].
    + rewrite skipn_nil.
      rewrite blocks_spec_short by (cbn [length]; lia).
      cbn [length].
      destruct (Z.ltb_spec (Z.max (Z.of_nat s - Z.of_nat h) 0) idx) as [H1|H1];
        [lia|].
      destruct (Z.ltb_spec (Z.max (Z.of_nat s - Z.of_nat h) 0) (Z.of_nat 0))
        as [H2|H2]; [lia|reflexivity].
    + specialize (Hle Hpos).
      rewrite app_nil_r.
      rewrite blocks_spec_short by (rewrite lastn_length; lia).
      rewrite lastn_length.
      replace (Z.of_nat (Nat.min (Z.to_nat idx) (length res))) with idx by lia.
      destruct (Z.ltb_spec (Z.max (Z.of_nat s - Z.of_nat h) 0) idx) as [H1|H1];
        [|reflexivity].
      rewrite push_pads_eq by assumption.
      rewrite lastn_app by (rewrite repeat_length; lia).
      rewrite repeat_length.
      f_equal. f_equal.
      * f_equal. lia.
      * f_equal. lia.
  - cbn [loop].
    destruct (negb (h <=? s)%nat && (idx <? 0)%Z) eqn:E.
    + (* skipping (only when hop > size) *)
      apply andb_true_iff in E. destruct E as [E1 E2].
      apply negb_true_iff in E1. apply Nat.leb_gt in E1.
      apply Z.ltb_lt in E2.
      rewrite IH by lia.
      unfold gspec.
      destruct (Z.ltb_spec idx 0) as [_|H0]; [|lia].
      destruct (Z.ltb_spec (idx + 1) 0) as [H1|H1].
      * replace (Z.to_nat (- idx)) with (S (Z.to_nat (- (idx + 1)))) by lia.
        reflexivity.
      * replace (Z.to_nat (- idx)) with 1%nat by lia.
        replace (Z.to_nat (idx + 1)) with 0%nat by lia.
        rewrite lastn_0. reflexivity.
    + (* the item is pushed *)
      assert (Hpos : (0 <= idx)%Z).
      { apply andb_false_iff in E. destruct E as [E|E].
        - apply negb_false_iff in E. apply Nat.leb_le in E. auto.
        - apply Z.ltb_ge in E. exact E. }
      specialize (Hle Hpos).
      cbv zeta.
      set (res' := dq_push s res el).
      assert (Hlen' : length res' = Nat.min s (length res + 1))
        by apply dq_push_length.
      destruct (Z.eqb_spec idx (Z.of_nat s - 1)) as [Heq|Hne].
      * (* a block is yielded *)
        rewrite finish_yield.
        rewrite IH by lia.
        assert (Hs' : length res' = s) by lia.
        assert (Hres' : res' = lastn (Z.to_nat idx) res ++ [el]).
        { unfold res'. rewrite dq_push_eq.
          rewrite lastn_app by (cbn [length]; lia).
          cbn [length]. f_equal. f_equal. lia. }
        unfold gspec at 2.
        destruct (Z.ltb_spec idx 0) as [H0|_]; [lia|].
        replace (lastn (Z.to_nat idx) res ++ el :: r) with (res' ++ r)
          by (rewrite Hres', <- app_assoc; reflexivity).
        rewrite blocks_spec_cons by (try assumption; rewrite app_length; lia).
        f_equal.
        -- symmetry. rewrite firstn_app.
           replace (s - length res')%nat with 0%nat by lia.
           rewrite firstn_O, app_nil_r. apply firstn_all2. lia.
        -- unfold gspec. rewrite skipn_app.
           destruct (Z.ltb_spec (Z.of_nat s - Z.of_nat h) 0) as [H1|H1].
           ++ rewrite (skipn_all2 res') by lia. cbn [app].
              f_equal. f_equal. lia.
           ++ replace (h - length res')%nat with 0%nat by lia.
              rewrite skipn_O. f_equal. f_equal.
              unfold lastn. f_equal. lia.
      * (* no yield *)
        rewrite IH by lia.
        unfold gspec.
        destruct (Z.ltb_spec (idx + 1) 0) as [H1|_]; [lia|].
        destruct (Z.ltb_spec idx 0) as [H0|_]; [lia|].
        f_equal.
        replace (Z.to_nat (idx + 1)) with (Z.to_nat idx + 1)%nat by lia.
        unfold res'. rewrite lastn_dq_push by lia.
        rewrite <- app_assoc. reflexivity.
Qed.

(* ------------------------------------------------------------------ *)
(* Main theorem                                                         *)
(* ------------------------------------------------------------------ *)

Theorem blocks_model_eq_spec_sec (size hop : nat) (pad : A) (xs : list A) :
  (1 <= size)%nat -> (1 <= hop)%nat ->
  blocks_model size hop pad xs = blocks_spec size hop pad xs.
Proof.
  intros Hs Hh.
  rewrite blocks_model_finish.
  rewrite loop_finish by (cbn [length Z.to_nat]; lia).
  reflexivity.
Qed.

(* ------------------------------------------------------------------ *)
(* Corollaries on the closed form                                       *)
(* ------------------------------------------------------------------ *)

Theorem blocks_complete_count_sec (size hop : nat) (pad : A) (xs : list A) :
  (1 <= size)%nat -> (1 <= hop)%nat ->
  let K := nblocks (length xs) size hop in
  (K <= length (blocks_spec size hop pad xs) <= K + 1)%nat /\
  (forall k : nat, (k < K)%nat ->
     nth_error (blocks_spec size hop pad xs) k
       = Some (firstn size (skipn (k * hop) xs)) /\
     length (firstn size (skipn (k * hop) xs)) = size /\
     (k * hop + size <= length xs)%nat) /\
  (length xs < K * hop + size)%nat /\
  (forall b : list A,
     nth_error (blocks_spec size hop pad xs) K = Some b ->
     exists n : nat,
       (1 <= n)%nat /\
       b = skipn (K * hop) xs ++ repeat pad n /\
       (length (skipn (K * hop) xs) + n = size)%nat).
Proof.
  intros Hs Hh K.
  pose proof (nblocks_max (length xs) size hop Hs Hh) as Hmax.
  fold K in Hmax.
  rewrite (blocks_spec_unfold size hop pad xs K) by reflexivity.
  repeat split.
  - rewrite app_length, map_length, seq_length. lia.
  - rewrite app_length, map_length, seq_length.
    destruct (_ <? _)%Z; cbn [length]; lia.
  - rewrite nth_error_app1 by (rewrite map_length, seq_length; assumption).
    apply (map_nth_error (block_k size hop xs)).
    rewrite (nth_error_nth' _ 0%nat) by (rewrite seq_length; assumption).
    rewrite seq_nth by assumption. reflexivity.
  - pose proof (nblocks_fit (length xs) size hop k Hh H) as Hfit.
    rewrite firstn_length, skipn_length. lia.
  - apply (nblocks_fit (length xs) size hop k Hh H).
  - exact Hmax.
  - intros b Hb.
    rewrite nth_error_app2 in Hb by (rewrite map_length, seq_length; lia).
    rewrite map_length, seq_length, Nat.sub_diag in Hb.
    destruct (Z.ltb_spec (Z.max (Z.of_nat size - Z.of_nat hop) 0)
                (Z.of_nat (length xs) - Z.of_nat K * Z.of_nat hop)) as [H1|H1].
    + cbn [nth_error] in Hb. injection Hb as Hb. subst b.
      eexists. split; [|split; [reflexivity|]].
      * lia.
      * rewrite skipn_length. lia.
    + cbn [nth_error] in Hb. discriminate Hb.
Qed.

Theorem blocks_all_length_size_sec (size hop : nat) (pad : A) (xs : list A) :
  (1 <= size)%nat -> (1 <= hop)%nat ->
  forall b : list A, In b (blocks_spec size hop pad xs) -> length b = size.
Proof.
  intros Hs Hh b Hb.
  set (K := nblocks (length xs) size hop).
  pose proof (nblocks_max (length xs) size hop Hs Hh) as Hmax.
  fold K in Hmax.
  rewrite (blocks_spec_unfold size hop pad xs K) in Hb by reflexivity.
  apply in_app_or in Hb. destruct Hb as [Hb|Hb].
  - apply in_map_iff in Hb. destruct Hb as [k [Hk Hin]].
    apply in_seq in Hin.
    assert (HkK : (k < K)%nat) by lia.
    pose proof (nblocks_fit (length xs) size hop k Hh HkK) as Hfit.
    subst b. unfold block_k. rewrite firstn_length, skipn_length. lia.
  - destruct (Z.ltb_spec (Z.max (Z.of_nat size - Z.of_nat hop) 0)
                (Z.of_nat (length xs) - Z.of_nat K * Z.of_nat hop)) as [H1|H1].
    + destruct Hb as [Hb|[]]. subst b.
      rewrite app_length, skipn_length, repeat_length. lia.
    + destruct Hb.
Qed.

Theorem blocks_tail_iff_sec (size hop : nat) (pad : A) (xs : list A) :
  let L := length xs in
  let K := nblocks L size hop in
  let r := (Z.of_nat L - Z.of_nat K * Z.of_nat hop)%Z in
  (length (blocks_spec size hop pad xs) = (K + 1)%nat
     <-> (Z.max (Z.of_nat size - Z.of_nat hop) 0 < r)%Z) /\
  (length (blocks_spec size hop pad xs) = K
     <-> (r <= Z.max (Z.of_nat size - Z.of_nat hop) 0)%Z).
Proof.
  intros L K r.
  rewrite (blocks_spec_unfold size hop pad xs K) by reflexivity.
  rewrite app_length, map_length, seq_length.
  fold L. fold r.
  destruct (Z.ltb_spec (Z.max (Z.of_nat size - Z.of_nat hop) 0) r) as [H1|H1];
    cbn [length]; repeat split; intros; lia.
Qed.

End Proofs.

(* ------------------------------------------------------------------ *)
(* Exported statements (A explicit)                                     *)
(* ------------------------------------------------------------------ *)

Theorem blocks_model_eq_spec (A : Type) (size hop : nat) (pad : A) (xs : list A) :
  (1 <= size)%nat -> (1 <= hop)%nat ->
  blocks_model size hop pad xs = blocks_spec size hop pad xs.
Proof. exact (blocks_model_eq_spec_sec A size hop pad xs). Qed.

Theorem blocks_complete_count (A : Type) (size hop : nat) (pad : A) (xs : list A) :
  (1 <= size)%nat -> (1 <= hop)%nat ->
  let K := nblocks (length xs) size hop in
  (K <= length (blocks_spec size hop pad xs) <= K + 1)%nat /\
  (forall k : nat, (k < K)%nat ->
     nth_error (blocks_spec size hop pad xs) k
       = Some (firstn size (skipn (k * hop) xs)) /\
     length (firstn size (skipn (k * hop) xs)) = size /\
     (k * hop + size <= length xs)%nat) /\
  (length xs < K * hop + size)%nat /\
  (forall b : list A,
     nth_error (blocks_spec size hop pad xs) K = Some b ->
     exists n : nat,
       (1 <= n)%nat /\
       b = skipn (K * hop) xs ++ repeat pad n /\
       (length (skipn (K * hop) xs) + n = size)%nat).
Proof. exact (blocks_complete_count_sec A size hop pad xs). Qed.

Theorem blocks_all_length_size (A : Type) (size hop : nat) (pad : A) (xs : list A) :
  (1 <= size)%nat -> (1 <= hop)%nat ->
  forall b : list A, In b (blocks_spec size hop pad xs) -> length b = size.
Proof. exact (blocks_all_length_size_sec A size hop pad xs). Qed.

Theorem blocks_tail_iff (A : Type) (size hop : nat) (pad : A) (xs : list A) :
  let L := length xs in
  let K := nblocks L size hop in
  let r := (Z.of_nat L - Z.of_nat K * Z.of_nat hop)%Z in
  (length (blocks_spec size hop pad xs) = (K + 1)%nat
     <-> (Z.max (Z.of_nat size - Z.of_nat hop) 0 < r)%Z) /\
  (length (blocks_spec size hop pad xs) = K
     <-> (r <= Z.max (Z.of_nat size - Z.of_nat hop) 0)%Z).
Proof. exact (blocks_tail_iff_sec A size hop pad xs). Qed.

Theorem zero_pad_model_eq_spec (A : Type) (left right : nat) (zero : A) (xs : list A) :
  zero_pad_model left right zero xs = zero_pad_spec left right zero xs.
Proof. reflexivity. Qed.
