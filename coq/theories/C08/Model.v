(* C08 - model of audiolazy.lazy_misc.blocks / zero_pad (and Stream.blocks, which
   delegates).  The model follows the generator statement by statement:
   a bounded deque, the index [idx], the two loops and the padding tail.
   No proofs in this file. *)
From Coq Require Import List Bool Arith ZArith.
Import ListNotations.
Open Scope Z_scope.

Section Blocks.
Context {A : Type}.

(* collections.deque(maxlen=size).append *)
Definition dq_push (size : nat) (d : list A) (x : A) : list A :=
  let d' := d ++ [x] in skipn (length d' - size)%nat d'.

(* One pass of "for el in seq".  [skipmode] = the hop > size loop, the only one
   that tests idx < 0.  Returns the yielded snapshots and the final (res, idx). *)
Fixpoint loop (skipmode : bool) (size : nat) (hop : nat) (res : list A) (idx : Z)
         (xs : list A) : list (list A) * (list A * Z) :=
  match xs with
  | [] => ([], (res, idx))
  | el :: r =>
    if skipmode && (idx <? 0) then loop skipmode size hop res (idx + 1) r
    else
      let res' := dq_push size res el in
      if idx =? Z.of_nat size - 1 then
        let '(ys, st) := loop skipmode size hop res' (Z.of_nat size - Z.of_nat hop) r in
        (res' :: ys, st)
      else loop skipmode size hop res' (idx + 1) r
  end.

Fixpoint push_pads (size : nat) (res : list A) (pad : A) (n : nat) : list A :=
  match n with O => res | S n' => push_pads size (dq_push size res pad) pad n' end.

Definition blocks_model (size hop : nat) (pad : A) (xs : list A) : list (list A) :=
  let skipmode := negb (hop <=? size)%nat in
  let '(ys, (res, idx)) := loop skipmode size hop [] 0 xs in
  if Z.max (Z.of_nat size - Z.of_nat hop) 0 <? idx then
    ys ++ [push_pads size res pad (Z.to_nat (Z.of_nat size - idx))]
  else ys.

Definition zero_pad_model (left right : nat) (zero : A) (xs : list A) : list A :=
  repeat zero left ++ xs ++ repeat zero right.

End Blocks.
