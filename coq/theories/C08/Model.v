(* C08 - model of audiolazy.lazy_misc.blocks / zero_pad (and Stream.blocks, which
   delegates).  The model follows the generator statement by statement:
   a bounded deque, the index [idx], the two loops and the padding tail.
   No proofs in this file. *)
From Coq Require Import List Bool Arith ZArith.
Import ListNotations.
Open Scope Z_scope.

Section Blocks.
Context {A : Type}.

(* collections.deque(maxlen=size).append *)
Definition dq_push (size : nat) (d : list A) (x : A) : list A :=
  let d' := d ++ [x] in skipn (length d' - size)%nat d'.

(* One pass of "for el in seq".  [skipmode] = the hop > size loop, the only one
   that tests idx < 0.  Returns the yielded snapshots and the final (res, idx). *)
Fixpoint loop (skipmode : bool) (size : nat) (hop : nat) (res : list A) (idx : Z)
         (xs : list A) : list (list A) * (list A * Z) :=
  match xs with
  | [] => ([], (res, idx))
  | el :: r =>
    if skipmode && (idx <? 0) then loop skipmode size hop res (idx + 1) r
    else
      let res' := dq_push size res el in
      if idx =? Z.of_nat size - 1 then
        let '(ys, st) := loop skipmode size hop res' (Z.of_nat size - Z.of_nat hop) r in
        (res' :: ys, st)
      else loop skipmode size hop res' (idx + 1) r
  end.

Fixpoint push_pads (size : nat) (res : list A) (pad : A) (n : nat) : list A :=
  match n with O => res | S n' => push_pads size (dq_push size res pad) pad n' end.

Definition blocks_model (size hop : nat) (pad : A) (xs : list A) : list (list A) :=
  let skipmode := negb (hop <=? size)%nat in
  let '(ys, (res, idx)) := loop skipmode size hop [] 0 xs in
  if Z.max (Z.of_nat size - Z.of_nat hop) 0 <? idx then
    ys ++ [push_pads size res pad (Z.to_nat (Z.of_nat size - idx))]
  else ys.

Definition zero_pad_model (left right : nat) (zero : A) (xs : list A) : list A :=
  repeat zero left ++ xs ++ repeat zero right.

End Blocks.

(* ------------------------------------------------------------------ *)
(* The generator as a resumable object over a LIVE list (round 2).
   [blocks(buf)] / [Stream(buf).blocks] / [thub(buf, n).blocks] walk a list iterator:
   position [g_pos] into whatever the list holds when the item is asked for.
   [loop1] = the body of "for el in seq" from the current state up to the next
   yield: (Some block | None at the end of the data, state, items consumed). *)
Section Live.
Context {A : Type}.

Fixpoint loop1 (skipmode : bool) (size hop : nat) (res : list A) (idx : Z) (xs : list A)
  : option (list A) * (list A * Z) * nat :=
  match xs with
  | [] => (None, (res, idx), 0%nat)
  | el :: r =>
    if skipmode && (idx <? 0) then
      let '(o, st, n) := loop1 skipmode size hop res (idx + 1) r in (o, st, S n)
    else
      let res' := dq_push size res el in
      if idx =? Z.of_nat size - 1 then (Some res', (res', Z.of_nat size - Z.of_nat hop), 1%nat)
      else let '(o, st, n) := loop1 skipmode size hop res' (idx + 1) r in (o, st, S n)
  end.

Record gstate := GS { g_res : list A; g_idx : Z; g_pos : nat; g_done : bool }.
Definition g_init : gstate := GS [] 0 0%nat false.

(* one next() on the generator while the list holds [buf] *)
Definition gen_next (size hop : nat) (pad : A) (st : gstate) (buf : list A) : option (list A) * gstate :=
  if g_done st then (None, st) else
  let '(o, (res, idx), n) :=
    loop1 (negb (hop <=? size)%nat) size hop (g_res st) (g_idx st) (skipn (g_pos st) buf) in
  match o with
  | Some b => (Some b, GS res idx (g_pos st + n)%nat false)
  | None =>
    (if Z.max (Z.of_nat size - Z.of_nat hop) 0 <? idx
     then Some (push_pads size res pad (Z.to_nat (Z.of_nat size - idx))) else None,
     GS res idx (g_pos st + n)%nat true)
  end.

(* a history: next() calls interleaved with the owner of the list changing its contents *)
Inductive hop_t := HNext | HBuf (l : list A).

Fixpoint gen_run (size hop : nat) (pad : A) (ops : list hop_t) (buf : list A) (st : gstate)
  : list (option (list A)) :=
  match ops with
  | [] => []
  | HNext :: r => let '(o, st') := gen_next size hop pad st buf in o :: gen_run size hop pad r buf st'
  | HBuf l :: r => gen_run size hop pad r l st
  end.

(* zero_pad as a resumable object over a live list: [z_l] left pads done, [z_pos] list position,
   [z_r] = Some r once the list iterator was found exhausted and r right pads were given *)
Record zstate := ZS { z_l : nat; z_pos : nat; z_r : option nat }.
Definition z_init : zstate := ZS 0 0 None.
Definition zp_right (right : nat) (zero : A) (st : zstate) (r : nat) : option A * zstate :=
  if (r <? right)%nat then (Some zero, ZS (z_l st) (z_pos st) (Some (S r)))
  else (None, ZS (z_l st) (z_pos st) (Some r)).
Definition zp_next (left right : nat) (zero : A) (st : zstate) (buf : list A) : option A * zstate :=
  if (z_l st <? left)%nat then (Some zero, ZS (S (z_l st)) (z_pos st) (z_r st)) else
  match z_r st with
  | Some r => zp_right right zero st r
  | None => match nth_error buf (z_pos st) with
            | Some x => (Some x, ZS (z_l st) (S (z_pos st)) None)
            | None => zp_right right zero st 0%nat
            end
  end.
Fixpoint zp_run (left right : nat) (zero : A) (ops : list hop_t) (buf : list A) (st : zstate)
  : list (option A) :=
  match ops with
  | [] => []
  | HNext :: r => let '(o, st') := zp_next left right zero st buf in o :: zp_run left right zero r buf st'
  | HBuf l :: r => zp_run left right zero r l st
  end.
End Live.
Arguments hop_t : clear implicits.
Arguments gstate : clear implicits.
Arguments zstate : clear implicits.
