From Coq Require Import List Arith ZArith Lia.
From AL Require Import C08.Model C08.Spec C08.Proofs C08.Check C08.Proofs_Hist C08.Proofs_Check.
Import ListNotations.

(* The generator model equals the closed form, for every list, size >= 1, hop >= 1. *)
Theorem C08_blocks_model_eq_spec : forall (A : Type) (size hop : nat) (pad : A) (xs : list A), (1 <= size)%nat -> (1 <= hop)%nat -> blocks_model size hop pad xs = blocks_spec size hop pad xs.
Proof. exact blocks_model_eq_spec. Qed.
Print Assumptions C08_blocks_model_eq_spec.

(* There are exactly K = nblocks (length xs) size hop complete blocks: the result has
   K or K+1 blocks; block k < K is items k*hop .. k*hop+size-1 (length exactly size,
   and it fits in the input); a (K+1)-th complete block does not fit; and the block
   at position K, if any, is the leftover items followed by at least one pad. *)
Theorem C08_blocks_complete_count : forall (A : Type) (size hop : nat) (pad : A) (xs : list A),
  (1 <= size)%nat -> (1 <= hop)%nat ->
  let K := nblocks (length xs) size hop in
  (K <= length (blocks_spec size hop pad xs) <= K + 1)%nat /\
  (forall k : nat, (k < K)%nat ->
     nth_error (blocks_spec size hop pad xs) k
       = Some (firstn size (skipn (k * hop) xs)) /\
     length (firstn size (skipn (k * hop) xs)) = size /\
     (k * hop + size <= length xs)%nat) /\
  (length xs < K * hop + size)%nat /\
  (forall b : list A,
     nth_error (blocks_spec size hop pad xs) K = Some b ->
     exists n : nat,
       (1 <= n)%nat /\
       b = skipn (K * hop) xs ++ repeat pad n /\
       (length (skipn (K * hop) xs) + n = size)%nat).
Proof. exact blocks_complete_count. Qed.
Print Assumptions C08_blocks_complete_count.

(* Every block, padded or not, has length size. *)
Theorem C08_blocks_all_length_size : forall (A : Type) (size hop : nat) (pad : A) (xs : list A),
  (1 <= size)%nat -> (1 <= hop)%nat ->
  forall b : list A, In b (blocks_spec size hop pad xs) -> length b = size.
Proof. exact blocks_all_length_size. Qed.
Print Assumptions C08_blocks_all_length_size.

(* A padded tail block exists iff max(size-hop,0) < L - K*hop; otherwise exactly K blocks. *)
Theorem C08_blocks_tail_iff : forall (A : Type) (size hop : nat) (pad : A) (xs : list A),
  let L := length xs in
  let K := nblocks L size hop in
  let r := (Z.of_nat L - Z.of_nat K * Z.of_nat hop)%Z in
  (length (blocks_spec size hop pad xs) = (K + 1)%nat
     <-> (Z.max (Z.of_nat size - Z.of_nat hop) 0 < r)%Z) /\
  (length (blocks_spec size hop pad xs) = K
     <-> (r <= Z.max (Z.of_nat size - Z.of_nat hop) 0)%Z).
Proof. exact blocks_tail_iff. Qed.
Print Assumptions C08_blocks_tail_iff.

Theorem C08_zero_pad_model_eq_spec : forall (A : Type) (left right : nat) (zero : A) (xs : list A),
  zero_pad_model left right zero xs = zero_pad_spec left right zero xs.
Proof. exact zero_pad_model_eq_spec. Qed.
Print Assumptions C08_zero_pad_model_eq_spec.

(* Non-vacuity: size 3, hop 2 on six items gives three blocks, the last one padded. *)
Example C08_blocks_spec_example :
  blocks_spec 3 2 0%nat [1; 2; 3; 4; 5; 6]%nat = [[1; 2; 3]; [3; 4; 5]; [5; 6; 0]]%nat.
Proof. vm_compute. reflexivity. Qed.
Print Assumptions C08_blocks_spec_example.


(* Round 2.  The generator as a resumable object over a LIVE list (deque, idx, list-iterator position): at every
   next() it gives block k of the closed form for what the list holds at that moment (k = complete blocks so far),
   until the end of the data is reached (padded tail or nothing), then nothing for ever - whatever the owner of the
   list did in between to the items not handed over yet (hist_ok). *)
Theorem C08_blocks_live_history : forall (A : Type) (size hop : nat) (pad : A) (ops : list (hop_t A)) (buf : list A),
  (1 <= size)%nat -> (1 <= hop)%nat ->
  hist_ok size hop pad ops buf 0 false ->
  gen_run size hop pad ops buf g_init = hist_spec size hop pad ops buf 0 false.
Proof. exact blocks_live_history. Qed.
Print Assumptions C08_blocks_live_history.

(* the boolean validity test run on every generated history implies hist_ok *)
Theorem C08_hist_valid_model_eq_spec : forall (size hop : nat) (pad : pyv) (ops : list (hop_t pyv)) (buf : list pyv),
  (1 <= size)%nat -> (1 <= hop)%nat ->
  hist_valid size hop pad ops buf 0 false = true ->
  gen_run size hop pad ops buf g_init = hist_spec size hop pad ops buf 0 false.
Proof. exact hist_valid_model_eq_spec. Qed.
Print Assumptions C08_hist_valid_model_eq_spec.

(* Non-vacuity: size 2, hop 2 on [0;1;2]; one block is taken, the owner appends 3 4 5, the rest is taken:
   [2;3] and [4;5], not a padded [2;pad] (hist_ok holds, and the model gives exactly this). *)
Example C08_live_history_example :
  let ops := [HNext; HBuf [0; 1; 2; 3; 4; 5]; HNext; HNext; HNext; HBuf [0; 1; 2; 3; 4; 5; 6]; HNext]%nat in
  hist_ok 2 2 9%nat ops [0; 1; 2]%nat 0 false /\
  gen_run 2 2 9%nat ops [0; 1; 2]%nat g_init = [Some [0; 1]; Some [2; 3]; Some [4; 5]; None; None]%nat /\
  gen_run 2 2 9%nat [HNext; HNext; HBuf [0; 1; 2; 3]; HNext]%nat [0; 1; 2]%nat g_init
    = [Some [0; 1]; Some [2; 9]; None]%nat.
Proof. vm_compute. repeat split; try (right; split; [reflexivity|lia]). Qed.
Print Assumptions C08_live_history_example.

(* zero_pad over a live list, any change of the list allowed: item j is the left pad, then what the list holds at
   position j-left when it is asked for, then (once the list was found to end) the right pads. *)
Theorem C08_zero_pad_live_history : forall (A : Type) (left right : nat) (zero : A) (ops : list (hop_t A)) (buf : list A),
  zp_run left right zero ops buf z_init = zhist_spec left right zero ops buf 0 None.
Proof. exact zero_pad_live_history. Qed.
Print Assumptions C08_zero_pad_live_history.

Example C08_zero_pad_live_example :
  zhist_spec 1 1 0%nat [HNext; HNext; HBuf [7; 8]; HNext; HNext; HBuf [7; 8; 9]; HNext; HNext]%nat [7]%nat 0 None
  = [Some 0; Some 7; Some 8; Some 0; None; None]%nat.
Proof. vm_compute. reflexivity. Qed.
Print Assumptions C08_zero_pad_live_example.
