From Coq Require Import List Arith ZArith.
From AL Require Import C08.Model C08.Spec C08.Proofs.
Import ListNotations.

(* The generator model equals the closed form, for every list, size >= 1, hop >= 1. *)
Theorem C08_blocks_model_eq_spec : forall (A : Type) (size hop : nat) (pad : A) (xs : list A), (1 <= size)%nat -> (1 <= hop)%nat -> blocks_model size hop pad xs = blocks_spec size hop pad xs.
Proof. exact blocks_model_eq_spec. Qed.
Print Assumptions C08_blocks_model_eq_spec.

(* There are exactly K = nblocks (length xs) size hop complete blocks: the result has
   K or K+1 blocks; block k < K is items k*hop .. k*hop+size-1 (length exactly size,
   and it fits in the input); a (K+1)-th complete block does not fit; and the block
   at position K, if any, is the leftover items followed by at least one pad. *)
Theorem C08_blocks_complete_count : forall (A : Type) (size hop : nat) (pad : A) (xs : list A),
  (1 <= size)%nat -> (1 <= hop)%nat ->
  let K := nblocks (length xs) size hop in
  (K <= length (blocks_spec size hop pad xs) <= K + 1)%nat /\
  (forall k : nat, (k < K)%nat ->
     nth_error (blocks_spec size hop pad xs) k
       = Some (firstn size (skipn (k * hop) xs)) /\
     length (firstn size (skipn (k * hop) xs)) = size /\
     (k * hop + size <= length xs)%nat) /\
  (length xs < K * hop + size)%nat /\
  (forall b : list A,
     nth_error (blocks_spec size hop pad xs) K = Some b ->
     exists n : nat,
       (1 <= n)%nat /\
       b = skipn (K * hop) xs ++ repeat pad n /\
       (length (skipn (K * hop) xs) + n = size)%nat).
Proof. exact blocks_complete_count. Qed.
Print Assumptions C08_blocks_complete_count.

(* Every block, padded or not, has length size. *)
Theorem C08_blocks_all_length_size : forall (A : Type) (size hop : nat) (pad : A) (xs : list A),
  (1 <= size)%nat -> (1 <= hop)%nat ->
  forall b : list A, In b (blocks_spec size hop pad xs) -> length b = size.
Proof. exact blocks_all_length_size. Qed.
Print Assumptions C08_blocks_all_length_size.

(* A padded tail block exists iff max(size-hop,0) < L - K*hop; otherwise exactly K blocks. *)
Theorem C08_blocks_tail_iff : forall (A : Type) (size hop : nat) (pad : A) (xs : list A),
  let L := length xs in
  let K := nblocks L size hop in
  let r := (Z.of_nat L - Z.of_nat K * Z.of_nat hop)%Z in
  (length (blocks_spec size hop pad xs) = (K + 1)%nat
     <-> (Z.max (Z.of_nat size - Z.of_nat hop) 0 < r)%Z) /\
  (length (blocks_spec size hop pad xs) = K
     <-> (r <= Z.max (Z.of_nat size - Z.of_nat hop) 0)%Z).
Proof. exact blocks_tail_iff. Qed.
Print Assumptions C08_blocks_tail_iff.

Theorem C08_zero_pad_model_eq_spec : forall (A : Type) (left right : nat) (zero : A) (xs : list A),
  zero_pad_model left right zero xs = zero_pad_spec left right zero xs.
Proof. exact zero_pad_model_eq_spec. Qed.
Print Assumptions C08_zero_pad_model_eq_spec.

(* Non-vacuity: size 3, hop 2 on six items gives three blocks, the last one padded. *)
Example C08_blocks_spec_example :
  blocks_spec 3 2 0%nat [1; 2; 3; 4; 5; 6]%nat = [[1; 2; 3]; [3; 4; 5]; [5; 6; 0]]%nat.
Proof. vm_compute. reflexivity. Qed.
Print Assumptions C08_blocks_spec_example.
