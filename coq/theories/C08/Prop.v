(* placeholder until the proofs are in *)
From AL Require Import C08.Model C08.Spec.
