(* C08 round 2 - the resumable generator over a live list produces, at every next(), the block the
   closed form gives for what the list holds at that moment. *)
From Coq Require Import List Bool Arith ZArith Lia.
From AL Require Import C08.Model C08.Spec C08.Proofs.
Import ListNotations.

Section HistProofs.
Variable A : Type.
Implicit Types (res xs buf : list A) (pad : A).

Lemma loop_app (sk : bool) (s h : nat) : forall a res (idx : Z) b,
  loop sk s h res idx (a ++ b) =
  let '(ys1, (r1, i1)) := loop sk s h res idx a in
  let '(ys2, st) := loop sk s h r1 i1 b in (ys1 ++ ys2, st).
Proof.
  induction a as [|el a IH]; intros res idx b.
  - cbn [app loop]. destruct (loop sk s h res idx b) as [ys2 st]. reflexivity.
  - cbn [app loop].
    destruct (sk && (idx <? 0)%Z).
    + apply IH.
    + cbv zeta. destruct (idx =? Z.of_nat s - 1)%Z.
      * rewrite IH.
        destruct (loop sk s h (dq_push s res el) (Z.of_nat s - Z.of_nat h) a) as [ys1 [r1 i1]].
        destruct (loop sk s h r1 i1 b) as [ys2 st]. reflexivity.
      * apply IH.
Qed.

Lemma loop_loop1 (sk : bool) (s h : nat) : forall xs res (idx : Z),
  loop sk s h res idx xs =
  match loop1 sk s h res idx xs with
  | (Some b, (r', i'), n) => let '(ys, st) := loop sk s h r' i' (skipn n xs) in (b :: ys, st)
  | (None, st, _) => ([], st)
  end.
Proof.
  induction xs as [|el r IH]; intros res idx.
  - reflexivity.
  - cbn [loop loop1].
    destruct (sk && (idx <? 0)%Z).
    + rewrite IH. destruct (loop1 sk s h res (idx + 1) r) as [[[b|] [r' i']] n]; reflexivity.
    + cbv zeta. destruct (idx =? Z.of_nat s - 1)%Z.
      * reflexivity.
      * rewrite IH.
        destruct (loop1 sk s h (dq_push s res el) (idx + 1) r) as [[[b|] [r' i']] n]; reflexivity.
Qed.

(* a yield happens after exactly size - idx items, and leaves idx = size - hop *)
Lemma loop1_some (sk : bool) (s h : nat) : (1 <= s)%nat -> forall xs res (idx : Z) b r' i' n,
  (idx < Z.of_nat s)%Z ->
  loop1 sk s h res idx xs = (Some b, (r', i'), n) ->
  Z.of_nat n = (Z.of_nat s - idx)%Z /\ (n <= length xs)%nat /\
  i' = (Z.of_nat s - Z.of_nat h)%Z /\ b = r' /\
  loop sk s h res idx (firstn n xs) = ([b], (r', i')).
Proof.
  intros Hs. induction xs as [|el r IH]; intros res idx b r' i' n Hlt H.
  - discriminate.
  - cbn [loop1] in H.
    destruct (sk && (idx <? 0)%Z) eqn:E.
    + pose proof E as E0.
      apply andb_true_iff in E. destruct E as [_ E]. apply Z.ltb_lt in E.
      destruct (loop1 sk s h res (idx + 1) r) as [[o st] m] eqn:E1.
      injection H as -> -> <-.
      apply IH in E1; [|lia]. destruct E1 as (H1 & H2 & H3 & H4 & H5).
      cbn [length firstn loop]. rewrite E0.
      repeat split; try assumption; lia.
    + cbv zeta in H.
      destruct (idx =? Z.of_nat s - 1)%Z eqn:E2.
      * injection H as <- <- <- <-. apply Z.eqb_eq in E2.
        cbn [length firstn loop]. rewrite E. cbv zeta.
        replace (idx =? Z.of_nat s - 1)%Z with true by (symmetry; apply Z.eqb_eq; exact E2).
        repeat split; lia.
      * apply Z.eqb_neq in E2.
        destruct (loop1 sk s h (dq_push s res el) (idx + 1) r) as [[o st] m] eqn:E1.
        injection H as -> -> <-.
        apply IH in E1; [|lia]. destruct E1 as (H1 & H2 & H3 & H4 & H5).
        cbn [length firstn loop]. rewrite E. cbv zeta.
        replace (idx =? Z.of_nat s - 1)%Z with false by (symmetry; apply Z.eqb_neq; exact E2).
        repeat split; try assumption; lia.
Qed.

(* the data ends before the block is complete *)
Lemma loop1_none (sk : bool) (s h : nat) : (1 <= s)%nat -> forall xs res (idx : Z) r' i' n,
  (idx < Z.of_nat s)%Z ->
  loop1 sk s h res idx xs = (None, (r', i'), n) ->
  n = length xs /\ (Z.of_nat (length xs) < Z.of_nat s - idx)%Z.
Proof.
  intros Hs. induction xs as [|el r IH]; intros res idx r' i' n Hlt H.
  - cbn [loop1] in H. injection H as _ _ <-. cbn [length]. lia.
  - cbn [loop1] in H.
    destruct (sk && (idx <? 0)%Z) eqn:E.
    + apply andb_true_iff in E. destruct E as [_ E]. apply Z.ltb_lt in E.
      destruct (loop1 sk s h res (idx + 1) r) as [[o st] m] eqn:E1.
      injection H as -> -> <-.
      apply IH in E1; [|lia]. cbn [length]. lia.
    + cbv zeta in H.
      destruct (idx =? Z.of_nat s - 1)%Z eqn:E2; [discriminate|].
      apply Z.eqb_neq in E2.
      destruct (loop1 sk s h (dq_push s res el) (idx + 1) r) as [[o st] m] eqn:E1.
      injection H as -> -> <-.
      apply IH in E1; [|lia]. cbn [length]. lia.
Qed.

Lemma firstn_plus (p n : nat) : forall l : list A,
  (p <= length l)%nat -> firstn (p + n) l = firstn p l ++ firstn n (skipn p l).
Proof.
  induction p as [|p IH]; intros l H.
  - reflexivity.
  - destruct l as [|x l]; cbn [length] in H; [lia|].
    cbn [Nat.add firstn skipn app]. f_equal. apply IH. lia.
Qed.

(* state of the suspended generator after k complete blocks, the list holding buf *)
Definition ginv (s h : nat) (st : gstate A) (k : nat) buf : Prop :=
  g_done st = false /\ g_pos st = items_read s h k /\ (g_pos st <= length buf)%nat /\
  g_idx st = (Z.of_nat (g_pos st) - Z.of_nat (k * h))%Z /\
  exists ys, length ys = k /\
    loop (negb (h <=? s)%nat) s h [] 0%Z (firstn (g_pos st) buf) = (ys, (g_res st, g_idx st)).

Lemma gen_next_step (s h : nat) pad (st : gstate A) (k : nat) buf :
  (1 <= s)%nat -> (1 <= h)%nat -> ginv s h st k buf ->
  let '(o, st') := gen_next s h pad st buf in
  let '(o2, (k', fin')) := hist_next s h pad k false buf in
  o = o2 /\ (if fin' then g_done st' = true else ginv s h st' k' buf).
Proof.
  intros Hs Hh (Hd & Hp & Hle & Hi & ys & Hys & Hl).
  assert (Hlt : (g_idx st < Z.of_nat s)%Z).
  { rewrite Hi, Hp. destruct k as [|k']; cbn [items_read]; rewrite ?Nat.mul_succ_l; lia. }
  assert (Hbs : blocks_spec s h pad buf =
                finish A s h pad (let '(ys2, st0) := loop (negb (h <=? s)%nat) s h (g_res st) (g_idx st)
                                                         (skipn (g_pos st) buf) in (ys ++ ys2, st0))).
  { rewrite <- (blocks_model_eq_spec A s h pad buf Hs Hh), (blocks_model_finish A).
    rewrite <- (firstn_skipn (g_pos st) buf) at 1. rewrite loop_app, Hl. reflexivity. }
  rewrite loop_loop1 in Hbs.
  unfold gen_next, hist_next. rewrite Hd.
  destruct (loop1 (negb (h <=? s)%nat) s h (g_res st) (g_idx st) (skipn (g_pos st) buf))
    as [[[b|] [r' i']] n] eqn:E1.
  - pose proof (loop1_some _ s h Hs _ _ _ _ _ _ _ Hlt E1) as (H1 & H2 & H3 & H4 & H5).
    rewrite skipn_length in H2.
    destruct (loop (negb (h <=? s)%nat) s h r' i' (skipn n (skipn (g_pos st) buf))) as [ys2 [r2 i2]].
    unfold finish in Hbs.
    assert (Hnth : nth_error (blocks_spec s h pad buf) k = Some b).
    { rewrite Hbs, <- app_assoc. rewrite nth_error_app2 by lia.
      replace (k - length ys)%nat with 0%nat by lia. reflexivity. }
    rewrite Hnth.
    assert (Hfit : (k * h + s <= length buf)%nat) by lia.
    destruct (Nat.leb_spec (k * h + s) (length buf)) as [_|Hbad]; [|lia].
    split; [reflexivity|].
    unfold ginv. cbn [g_done g_pos g_idx g_res].
    split; [reflexivity|]. split; [cbn [items_read]; lia|]. split; [lia|].
    split; [rewrite Nat.mul_succ_l; lia|].
    exists (ys ++ [b]). split; [rewrite app_length; cbn [length]; lia|].
    rewrite firstn_plus by lia. rewrite loop_app, Hl. cbv beta iota. rewrite H5. reflexivity.
  - pose proof (loop1_none _ s h Hs _ _ _ _ _ _ Hlt E1) as (H1 & H2).
    rewrite skipn_length in H2.
    unfold finish, tailblk in Hbs. rewrite app_nil_r in Hbs.
    assert (Hshort : (length buf < k * h + s)%nat) by lia.
    destruct (Z.max (Z.of_nat s - Z.of_nat h) 0 <? i')%Z.
    + assert (Hnth : nth_error (blocks_spec s h pad buf) k =
                     Some (push_pads s r' pad (Z.to_nat (Z.of_nat s - i')))).
      { rewrite Hbs. rewrite nth_error_app2 by lia.
        replace (k - length ys)%nat with 0%nat by lia. reflexivity. }
      rewrite Hnth.
      destruct (Nat.leb_spec (k * h + s) (length buf)) as [Hbad|_]; [lia|].
      split; reflexivity.
    + assert (Hnth : nth_error (blocks_spec s h pad buf) k = None).
      { rewrite Hbs, app_nil_r. apply nth_error_None. lia. }
      rewrite Hnth. split; reflexivity.
Qed.

Theorem gen_run_eq_hist_spec_inv (s h : nat) pad :
  (1 <= s)%nat -> (1 <= h)%nat ->
  forall ops buf (st : gstate A) (k : nat) (fin : bool),
  hist_ok s h pad ops buf k fin ->
  (if fin then g_done st = true else ginv s h st k buf) ->
  gen_run s h pad ops buf st = hist_spec s h pad ops buf k fin.
Proof.
  intros Hs Hh. induction ops as [|[|l] ops IH]; intros buf st k fin Hok Hst.
  - reflexivity.
  - cbn [gen_run hist_spec hist_ok] in *.
    destruct fin.
    + unfold gen_next, hist_next in *. rewrite Hst. cbn [fst snd] in Hok.
      f_equal. apply IH; assumption.
    + pose proof (gen_next_step s h pad st k buf Hs Hh Hst) as Hstep.
      destruct (gen_next s h pad st buf) as [o st'].
      destruct (hist_next s h pad k false buf) as [o2 [k' fin']].
      destruct Hstep as [-> Hinv]. cbn [fst snd] in Hok.
      f_equal. apply IH; assumption.
  - cbn [gen_run hist_spec hist_ok] in *.
    destruct Hok as [Hc Hok]. apply IH; [exact Hok|].
    destruct fin; [exact Hst|].
    destruct Hc as [Hc|[Hf Hlen]]; [discriminate|].
    destruct Hst as (Hd & Hp & Hle & Hi & ys & Hys & Hl).
    rewrite <- Hp in Hf, Hlen.
    unfold ginv. repeat split; try assumption.
    exists ys. split; [assumption|]. rewrite Hf. exact Hl.
Qed.
End HistProofs.

Theorem blocks_live_history (A : Type) (size hop : nat) (pad : A) (ops : list (hop_t A)) (buf : list A) :
  (1 <= size)%nat -> (1 <= hop)%nat ->
  hist_ok size hop pad ops buf 0 false ->
  gen_run size hop pad ops buf g_init = hist_spec size hop pad ops buf 0 false.
Proof.
  intros Hs Hh Hok. apply gen_run_eq_hist_spec_inv; try assumption.
  unfold ginv, g_init. cbn [g_done g_pos g_idx g_res items_read].
  repeat split; try lia. exists []. split; reflexivity.
Qed.

(* ------------------------------------------------------------------ *)
(* zero_pad over a live list: any change of the list is fair *)
Section ZHist.
Variable A : Type.

Definition zinv (left : nat) (st : zstate) (j : nat) (e : option nat) : Prop :=
  ((z_l st < left)%nat /\ j = z_l st /\ z_pos st = 0%nat /\ z_r st = None /\ e = None) \/
  (z_l st = left /\ z_r st = None /\ e = None /\ j = (left + z_pos st)%nat) \/
  (z_l st = left /\ exists rr m, z_r st = Some rr /\ e = Some m /\ j = (left + m + rr)%nat).

Lemma zp_step (left right : nat) (zero : A) (st : zstate) (j : nat) (e : option nat) (buf : list A) :
  zinv left st j e ->
  let '(o, st') := zp_next left right zero st buf in
  let '(o2, (j', e')) := zhist_next left right zero j e buf in
  o = o2 /\ zinv left st' j' e'.
Proof.
  destruct st as [l pos r]. unfold zinv. cbn [z_l z_pos z_r].
  intros [(H1 & H2 & H3 & H4 & H5)|[(H1 & H2 & H3 & H4)|(H1 & rr & m & H2 & H3 & H4)]];
    unfold zp_next, zhist_next, zp_right; cbn [z_l z_pos z_r]; subst.
  - destruct (Nat.ltb_spec l left) as [_|Hbad]; [|lia].
    split; [reflexivity|]. cbn [z_l z_pos z_r].
    destruct (Nat.eq_dec (S l) left) as [Heq|Hne].
    + right. left. repeat split; try assumption; lia.
    + left. repeat split; lia.
  - destruct (Nat.ltb_spec left left) as [Hbad|_]; [lia|].
    destruct (Nat.ltb_spec (left + pos) left) as [Hbad|_]; [lia|].
    replace (left + pos - left)%nat with pos by lia.
    destruct (nth_error buf pos) as [x|].
    + split; [reflexivity|]. right. left. cbn [z_l z_pos z_r]. repeat split; lia.
    + destruct (Nat.ltb_spec 0 right) as [Hr|Hr]; (split; [reflexivity|]); right; right;
        cbn [z_l z_pos z_r]; (split; [reflexivity|]).
      * exists 1%nat, pos. repeat split; lia.
      * exists 0%nat, pos. repeat split; lia.
  - destruct (Nat.ltb_spec left left) as [Hbad|_]; [lia|].
    destruct (Nat.ltb_spec (left + m + rr) left) as [Hbad|_]; [lia|].
    replace (left + m + rr - left - m)%nat with rr by lia.
    destruct (Nat.ltb_spec rr right) as [Hr|Hr]; (split; [reflexivity|]); right; right;
      cbn [z_l z_pos z_r]; (split; [reflexivity|]).
    * exists (S rr), m. repeat split; lia.
    * exists rr, m. repeat split; lia.
Qed.

Theorem zp_run_eq_spec_inv (left right : nat) (zero : A) :
  forall ops buf (st : zstate) (j : nat) (e : option nat),
  zinv left st j e -> zp_run left right zero ops buf st = zhist_spec left right zero ops buf j e.
Proof.
  induction ops as [|[|l] ops IH]; intros buf st j e Hinv.
  - reflexivity.
  - cbn [zp_run zhist_spec].
    pose proof (zp_step left right zero st j e buf Hinv) as Hstep.
    destruct (zp_next left right zero st buf) as [o st'].
    destruct (zhist_next left right zero j e buf) as [o2 [j' e']].
    destruct Hstep as [-> Hinv']. f_equal. apply IH. exact Hinv'.
  - cbn [zp_run zhist_spec]. apply IH. exact Hinv.
Qed.
End ZHist.

Theorem zero_pad_live_history (A : Type) (left right : nat) (zero : A) (ops : list (hop_t A)) (buf : list A) :
  zp_run left right zero ops buf z_init = zhist_spec left right zero ops buf 0 None.
Proof.
  apply zp_run_eq_spec_inv. unfold zinv, z_init. cbn [z_l z_pos z_r].
  destruct left as [|n].
  - right. left. repeat split; lia.
  - left. repeat split; lia.
Qed.
