(* C08 round 2 - the boolean validity test of Check.v implies the hypothesis of the live-history theorem. *)
From Coq Require Import List Bool Arith ZArith String Lia.
From AL Require Import Base.CaseLib C08.Model C08.Spec C08.Check C08.Proofs_Hist.
Import ListNotations.

Lemma pyv_eqb_spec (a b : pyv) : pyv_eqb a b = true <-> a = b.
Proof.
  destruct a as [t x], b as [u y]. cbn [pyv_eqb].
  rewrite andb_true_iff, String.eqb_eq, item_eqb_spec.
  split.
  - intros [-> ->]. reflexivity.
  - intros H. injection H. auto.
Qed.

Lemma hist_valid_ok (s h : nat) (pad : pyv) : forall ops buf k fin,
  hist_valid s h pad ops buf k fin = true -> hist_ok s h pad ops buf k fin.
Proof.
  induction ops as [|[|l] ops IH]; intros buf k fin H.
  - exact I.
  - cbn [hist_valid hist_ok] in *.
    destruct (hist_next s h pad k fin buf) as [o [k' fin']]. cbn [fst snd]. apply IH. exact H.
  - cbn [hist_valid hist_ok] in *.
    apply andb_true_iff in H. destruct H as [H1 H2].
    split; [|apply IH; exact H2].
    destruct fin; [left; reflexivity|right].
    cbn [orb] in H1. apply andb_true_iff in H1. destruct H1 as [H3 H4].
    apply Nat.leb_le in H3. apply (list_eqb_spec pyv_eqb pyv_eqb_spec) in H4.
    split; assumption.
Qed.

Theorem hist_valid_model_eq_spec (size hop : nat) (pad : pyv) (ops : list (hop_t pyv)) (buf : list pyv) :
  (1 <= size)%nat -> (1 <= hop)%nat ->
  hist_valid size hop pad ops buf 0 false = true ->
  gen_run size hop pad ops buf g_init = hist_spec size hop pad ops buf 0 false.
Proof.
  intros Hs Hh H. apply blocks_live_history; try assumption. apply hist_valid_ok. exact H.
Qed.
