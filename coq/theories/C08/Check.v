(* C08 - boolean checkers used by the generated case files.
   A case = (size, hop, pad, input, observed blocks or exception name). *)
From Coq Require Import List Bool Arith ZArith String.
From AL Require Import Base.CaseLib C08.Model C08.Spec.
Import ListNotations.

Inductive obs := OBlocks (b : list (list item)) | ORaise (e : string).
Definition obs_eqb (o : obs) (b : list (list item)) : bool :=
  match o with
  | OBlocks b' => list_eqb (list_eqb item_eqb) b' b
  | ORaise _ => false
  end.

Record bcase := BC { b_size : nat; b_hop : nat; b_pad : item; b_xs : list item; b_obs : obs }.
Definition corr_blocks (c : bcase) : bool :=
  obs_eqb (b_obs c) (blocks_model (b_size c) (b_hop c) (b_pad c) (b_xs c)).
Definition holds_blocks (c : bcase) : bool :=
  obs_eqb (b_obs c) (blocks_spec (b_size c) (b_hop c) (b_pad c) (b_xs c)).

Inductive zobs := OItems (l : list item) | ZRaise (e : string).
Record zcase := ZC { z_left : nat; z_right : nat; z_zero : item; z_xs : list item; z_obs : zobs }.
Definition zobs_eqb (o : zobs) (l : list item) : bool :=
  match o with OItems l' => list_eqb item_eqb l' l | ZRaise _ => false end.
Definition corr_zpad (c : zcase) : bool :=
  zobs_eqb (z_obs c) (zero_pad_model (z_left c) (z_right c) (z_zero c) (z_xs c)).
Definition holds_zpad (c : zcase) : bool :=
  zobs_eqb (z_obs c) (zero_pad_spec (z_left c) (z_right c) (z_zero c) (z_xs c)).
