(* C08 - boolean checkers used by the generated case files.
   A case = (size, hop, pad, input, observed blocks or exception name). *)
From Coq Require Import List Bool Arith ZArith String QArith Qcanon.
From AL Require Import Base.CaseLib C08.Model C08.Spec.
Import ListNotations.

Inductive obs := OBlocks (b : list (list item)) | ORaise (e : string).
Definition obs_eqb (o : obs) (b : list (list item)) : bool :=
  match o with
  | OBlocks b' => list_eqb (list_eqb item_eqb) b' b
  | ORaise _ => false
  end.

Record bcase := BC { b_size : nat; b_hop : nat; b_pad : item; b_xs : list item; b_obs : obs }.
Definition corr_blocks (c : bcase) : bool :=
  obs_eqb (b_obs c) (blocks_model (b_size c) (b_hop c) (b_pad c) (b_xs c)).
Definition holds_blocks (c : bcase) : bool :=
  obs_eqb (b_obs c) (blocks_spec (b_size c) (b_hop c) (b_pad c) (b_xs c)).

Inductive zobs := OItems (l : list item) | ZRaise (e : string).
Record zcase := ZC { z_left : nat; z_right : nat; z_zero : item; z_xs : list item; z_obs : zobs }.
Definition zobs_eqb (o : zobs) (l : list item) : bool :=
  match o with OItems l' => list_eqb item_eqb l' l | ZRaise _ => false end.
Definition corr_zpad (c : zcase) : bool :=
  zobs_eqb (z_obs c) (zero_pad_model (z_left c) (z_right c) (z_zero c) (z_xs c)).
Definition holds_zpad (c : zcase) : bool :=
  zobs_eqb (z_obs c) (zero_pad_spec (z_left c) (z_right c) (z_zero c) (z_xs c)).

(* ------------------------------------------------------------------ *)
(* Round 2.  Python values with their TYPE visible: 0 / 0.0 / -0.0 / False and 1 / 1.0 / True are
   different items ("float-" = negative zero); tuples and other exotic pads travel as their repr. *)
Inductive pyv := PV (ty : string) (v : item).
Definition pyv_eqb (a b : pyv) : bool :=
  match a, b with PV t x, PV u y => String.eqb t u && item_eqb x y end.

(* short constructors: the generated case files are large and their elaboration dominates the run time *)
Definition vi (z : Z) : pyv := PV "int" (IZ z).
Definition vb (z : Z) : pyv := PV "bool" (IZ z).
Definition vf (q : Qc) : pyv := PV "float" (IQ q).
Definition vfn : pyv := PV "float-" (IQ (qc 0 1)).
Definition vs (s : string) : pyv := PV "str" (IS s).
Definition vn : pyv := PV "NoneType" INone.
Definition vt (s : string) : pyv := PV "tuple" (IS s).
Definition vq (q : Qc) : pyv := PV "Fraction" (IQ q).
Arguments vi _%Z. Arguments vb _%Z. Arguments vs _%string. Arguments vt _%string.

Inductive pobs := POB (b : list (list pyv)) | POI (l : list pyv) | POR (e : string).
(* one call of blocks (any entry point / input kind / argument style) or of zero_pad *)
Inductive pcall :=
| PB (size hop : nat) (pad : pyv) (xs : list pyv) (o : pobs)
| PZ (left right : nat) (zero : pyv) (xs : list pyv) (o : pobs).
Definition pobs_blocks (o : pobs) (b : list (list pyv)) : bool :=
  match o with POB b' => list_eqb (list_eqb pyv_eqb) b' b | _ => false end.
Definition pobs_items (o : pobs) (l : list pyv) : bool :=
  match o with POI l' => list_eqb pyv_eqb l' l | _ => false end.
Definition corr_call (c : pcall) : bool :=
  match c with
  | PB s h p xs o => pobs_blocks o (blocks_model s h p xs)
  | PZ l r z xs o => pobs_items o (zero_pad_model l r z xs)
  end.
Definition holds_call (c : pcall) : bool :=
  match c with
  | PB s h p xs o => pobs_blocks o (blocks_spec s h p xs)
  | PZ l r z xs o => pobs_items o (zero_pad_spec l r z xs)
  end.
(* a history of calls in one process: every call equals the per-call model *)
Definition corr_calls (cs : list pcall) : bool := forallb corr_call cs.
Definition holds_calls (cs : list pcall) : bool := forallb holds_call cs.

(* live histories: next() calls interleaved with changes of the underlying list *)
Inductive hobs := HO (l : list (option (list pyv))) | HOR (e : string).
Record hcase := HC { h_size : nat; h_hop : nat; h_pad : pyv; h_buf : list pyv;
                     h_ops : list (hop_t pyv); h_obs : hobs }.
Definition hobs_eqb (o : hobs) (l : list (option (list pyv))) : bool :=
  match o with HO l' => list_eqb (option_eqb (list_eqb pyv_eqb)) l' l | HOR _ => false end.

Fixpoint hist_valid (size hop : nat) (pad : pyv) (ops : list (hop_t pyv)) (buf : list pyv)
         (k : nat) (fin : bool) : bool :=
  match ops with
  | [] => true
  | HNext :: r => let '(_, (k', fin')) := hist_next size hop pad k fin buf in hist_valid size hop pad r buf k' fin'
  | HBuf l :: r =>
    (fin || ((items_read size hop k <=? List.length l)%nat &&
             list_eqb pyv_eqb (firstn (items_read size hop k) l) (firstn (items_read size hop k) buf)))
    && hist_valid size hop pad r l k fin
  end.

Definition corr_hist (c : hcase) : bool :=
  hobs_eqb (h_obs c) (gen_run (h_size c) (h_hop c) (h_pad c) (h_ops c) (h_buf c) g_init).
(* a generated history that touches items already handed over is a harness error: it fails here *)
Definition holds_hist (c : hcase) : bool :=
  hist_valid (h_size c) (h_hop c) (h_pad c) (h_ops c) (h_buf c) 0 false &&
  hobs_eqb (h_obs c) (hist_spec (h_size c) (h_hop c) (h_pad c) (h_ops c) (h_buf c) 0 false).

Inductive zhobs := ZHO (l : list (option pyv)) | ZHOR (e : string).
Record zhcase := ZHC { zh_left : nat; zh_right : nat; zh_zero : pyv; zh_buf : list pyv;
                       zh_ops : list (hop_t pyv); zh_obs : zhobs }.
Definition zhobs_eqb (o : zhobs) (l : list (option pyv)) : bool :=
  match o with ZHO l' => list_eqb (option_eqb pyv_eqb) l' l | ZHOR _ => false end.
Definition corr_zhist (c : zhcase) : bool :=
  zhobs_eqb (zh_obs c) (zp_run (zh_left c) (zh_right c) (zh_zero c) (zh_ops c) (zh_buf c) z_init).
Definition holds_zhist (c : zhcase) : bool :=
  zhobs_eqb (zh_obs c) (zhist_spec (zh_left c) (zh_right c) (zh_zero c) (zh_ops c) (zh_buf c) 0 None).
