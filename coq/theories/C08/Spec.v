(* C08 - the property as a closed form, independent of the generator's state. *)
From Coq Require Import List Bool Arith ZArith.
Import ListNotations.

Section Spec.
Context {A : Type}.

(* number of complete blocks *)
Definition nblocks (L size hop : nat) : nat :=
  if (L <? size)%nat then 0%nat else ((L - size) / hop + 1)%nat.

(* block k = items k*hop .. k*hop+size-1 *)
Definition block_k (size hop : nat) (xs : list A) (k : nat) : list A :=
  firstn size (skipn (k * hop) xs).

Definition blocks_spec (size hop : nat) (pad : A) (xs : list A) : list (list A) :=
  let L := length xs in
  let K := nblocks L size hop in
  let r := (Z.of_nat L - Z.of_nat K * Z.of_nat hop)%Z in   (* real items the final block would hold *)
  map (block_k size hop xs) (seq 0 K) ++
  (if (Z.max (Z.of_nat size - Z.of_nat hop) 0 <? r)%Z
   then [skipn (K * hop) xs ++ repeat pad (Z.to_nat (Z.of_nat size - r))]
   else []).

Definition zero_pad_spec (left right : nat) (zero : A) (xs : list A) : list A :=
  repeat zero left ++ xs ++ repeat zero right.
End Spec.
