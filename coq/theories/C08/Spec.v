(* C08 - the property as a closed form, independent of the generator's state. *)
From Coq Require Import List Bool Arith ZArith.
Import ListNotations.

Section Spec.
Context {A : Type}.

(* number of complete blocks *)
Definition nblocks (L size hop : nat) : nat :=
  if (L <? size)%nat then 0%nat else ((L - size) / hop + 1)%nat.

(* block k = items k*hop .. k*hop+size-1 *)
Definition block_k (size hop : nat) (xs : list A) (k : nat) : list A :=
  firstn size (skipn (k * hop) xs).

Definition blocks_spec (size hop : nat) (pad : A) (xs : list A) : list (list A) :=
  let L := length xs in
  let K := nblocks L size hop in
  let r := (Z.of_nat L - Z.of_nat K * Z.of_nat hop)%Z in   (* real items the final block would hold *)
  map (block_k size hop xs) (seq 0 K) ++
  (if (Z.max (Z.of_nat size - Z.of_nat hop) 0 <? r)%Z
   then [skipn (K * hop) xs ++ repeat pad (Z.to_nat (Z.of_nat size - r))]
   else []).

Definition zero_pad_spec (left right : nat) (zero : A) (xs : list A) : list A :=
  repeat zero left ++ xs ++ repeat zero right.
End Spec.

(* ------------------------------------------------------------------ *)
(* Round 2: the sequence is a LIVE list whose owner may change it between two blocks.
   "Block k is its items k*hop .. k*hop+size-1 at the moment it is produced": the k-th
   request is answered from what the list holds NOW.  [k] = complete blocks produced so
   far; [fin] = the end of the data was reached (padded tail given, or nothing). *)
From AL Require Import C08.Model.
Section LiveSpec.
Context {A : Type}.

Definition hist_next (size hop : nat) (pad : A) (k : nat) (fin : bool) (buf : list A)
  : option (list A) * (nat * bool) :=
  if fin then (None, (k, true)) else
  match nth_error (blocks_spec size hop pad buf) k with
  | Some b => if (k * hop + size <=? length buf)%nat then (Some b, (S k, false)) else (Some b, (k, true))
  | None => (None, (k, true))
  end.

Fixpoint hist_spec (size hop : nat) (pad : A) (ops : list (hop_t A)) (buf : list A) (k : nat) (fin : bool)
  : list (option (list A)) :=
  match ops with
  | [] => []
  | HNext :: r => let '(o, (k', fin')) := hist_next size hop pad k fin buf in o :: hist_spec size hop pad r buf k' fin'
  | HBuf l :: r => hist_spec size hop pad r l k fin
  end.

(* items already handed over when k complete blocks were produced: block k-1 ends at (k-1)*hop+size *)
Definition items_read (size hop k : nat) : nat :=
  match k with O => 0 | S k' => k' * hop + size end.

(* the owner only touches what was not handed over yet (no statement is made otherwise) *)
Fixpoint hist_ok (size hop : nat) (pad : A) (ops : list (hop_t A)) (buf : list A)
         (k : nat) (fin : bool) : Prop :=
  match ops with
  | [] => True
  | HNext :: r => hist_ok size hop pad r buf (fst (snd (hist_next size hop pad k fin buf)))
                          (snd (snd (hist_next size hop pad k fin buf)))
  | HBuf l :: r =>
    (fin = true \/ firstn (items_read size hop k) l = firstn (items_read size hop k) buf /\
                    (items_read size hop k <= length l)%nat)
    /\ hist_ok size hop pad r l k fin
  end.

(* zero_pad on a live list: j = items given so far, e = Some m once the list was found to end after m items *)
Definition zhist_next (left right : nat) (zero : A) (j : nat) (e : option nat) (buf : list A)
  : option A * (nat * option nat) :=
  if (j <? left)%nat then (Some zero, (S j, e)) else
  match e with
  | Some m => if (j - left - m <? right)%nat then (Some zero, (S j, e)) else (None, (j, e))
  | None => match nth_error buf (j - left) with
            | Some x => (Some x, (S j, None))
            | None => if (0 <? right)%nat then (Some zero, (S j, Some (j - left)%nat)) else (None, (j, Some (j - left)%nat))
            end
  end.
Fixpoint zhist_spec (left right : nat) (zero : A) (ops : list (hop_t A)) (buf : list A) (j : nat) (e : option nat)
  : list (option A) :=
  match ops with
  | [] => []
  | HNext :: r => let '(o, (j', e')) := zhist_next left right zero j e buf in o :: zhist_spec left right zero r buf j' e'
  | HBuf l :: r => zhist_spec left right zero r l j e
  end.
End LiveSpec.
