# -*- coding: utf-8 -*-
"""C13 - designed filters (comb, resonator, lowpass, highpass, gammatone) against Model_C13.

Ordinary families (exact rational arithmetic, evaluated in Coq by vm_compute):
  comb      comb.fb / comb.ff / comb.tau run on exact inputs: coefficients and outputs = model, recurrence holds
  contract  every strategy on a parameter grid: structure = model's shape; the documented contracts evaluated on
            the implementation (abs(freq_response) at DC / Nyquist / cut-off / resonance, 64-point grid, poles inside)
  poles     resonator denominators: conjugate pole pair (both poles of modulus sqrt(den[2]))
  stream    Stream-valued parameters: coefficient streams bit-equal to the constant designs, sample by sample
  erb       erb.gm90 / erb.mg83 in exact arithmetic
Enclosure goals (extra): model real expression vs the library's float, `Rabs (e - v) <= tol` closed by `interval`,
generated into build/C13/encl_*.v and compiled in parallel.
"""
import os, re, math, subprocess, time, json
from fractions import Fraction
from vlib.framework import Family, COQ, BUILD, NPROC
from vlib import coqlit as L
from vlib.exactq import ExactQ, to_frac
from C13_kinds import KINDS, expected_ok, run_kind, call_strategy, OTHER_MEMBER, ALIASES

PID = "C13"
PROP_FILES = ["Prop", "Prop2", "PropC04"]
EXTRA_COQ_DIRS = ["C04"]   # read-only: C04.Model.run_filter / C04.ProofsCtor.lists_diffeq for the model-to-model tie
ALLOWED_AXIOMS = [r"ClassicalDedekindReals\.sig_not_dec$", r"ClassicalDedekindReals\.sig_forall_dec$",
                  r"FunctionalExtensionality\.functional_extensionality_dep$", r"Classical_Prop\.classic$",
                  # primitive 63-bit integers / floats used by the `interval` tactic's reflexive evaluator
                  r"Uint63\.[A-Za-z0-9_]+$", r"PrimInt63\.[A-Za-z0-9_]+$"]
RULE = ("parameters on the rational grid k/1000: cut-off / centre frequency in [1e-3, pi-1e-3] (k = 1..3140), bandwidth "
        "in [1e-3, 1] (k = 1..1000), passed to the library as the nearest double and to Coq as that double's exact "
        "value; fixed corner/edge points (both ends, pi/2 neighbourhood, pi/6, 5pi/6) + seeded random points; every "
        "strategy of lowpass/highpass/resonator/gammatone at every chosen point; comb: delay 0..12 x exact rational "
        "alpha (incl. 0, 1, negative, > 1) x exact inputs, comb.tau with float tau incl. inf; stream parameters: "
        "3..6 samples per design; non-trivial = parameter strictly inside the band (contract), delay >= 1 and input "
        "longer than the delay with alpha != 0 (comb), >= 3 distinct parameter samples (stream)")
EXHAUSTIVE = {"quick": False, "thorough": False}
TOL = Fraction(1, 10 ** 9)
TOL_SAMPLED = Fraction(1, 10 ** 7)
trusted_base = [
  "TOLERANCE POLICY (assumed rounding bound): a double computed by the library is accepted as equal to the model's "
  "real expression when |model - double| <= 1e-9 * max(1, |double|) (measured worst case on the grid: 4e-11); "
  "contracts evaluated on the implementation (abs(freq_response)) are accepted within 1e-9 absolute; only the first "
  "section of gammatone.sampled (a degree 2*eta-1 numerator whose evaluation cancels near DC / Nyquist) gets 1e-7 "
  "(contract and coefficients) and is exercised only on the REGION freq in [0.05, pi-0.05] x bandwidth in [0.02, 1] for "
  "eta = 1..6 (measured worst deviation there: 1e-9 at eta = 6) and freq in [0.01, pi-0.01] x bandwidth in [0.01, 1] for "
  "the default eta = 4 (measured 1.5e-9). Outside (both freq-or-pi-freq and bandwidth below ~1e-2) the unchanged "
  "library loses unit gain by roundoff: 7e-6 at eta = 4, 3e-3 at eta = 5, 0.8 at eta = 6 in the corner (1e-3, 1e-3); "
  "that corner is not checked for gammatone.sampled. A design error smaller than these bounds is not detected.",
  "enclosure goals are decided by the `interval` tactic (CoqInterval, 100-bit interval arithmetic, primitive "
  "63-bit integers) inside Coq and closed with Qed; the float is passed as its exact rational value "
  "(float.as_integer_ratio). The generated lemmas (build/C13/encl_*.v) depend on the four stdlib real-number axioms "
  "plus the 51 Uint63.* / PrimInt63.* primitive-integer axioms of Coq's standard library; the theorems of Prop.v / "
  "Prop2.v depend only on the four real-number axioms (no numerical tactic in their proofs)",
  "gammatone.sampled first section: the iterated derivative of the model is replaced by closed forms for eta = 2..6 "
  "(Sampled.v, proved by ring, each from the previous one by one step) before the enclosure; eta = 1 needs none",
  "design parameters are the doubles nearest to k/1000; the model is evaluated at the exact value of that double",
  "math.cos/sin/exp/sqrt of the platform libm are what the library calls; their error is inside the tolerance",
  "resonant frequency of resonator.freq_poles_exp / freq_z_exp is computed by the harness as math.acos(...) "
  "(the response is flat at the peak: a 1e-8 error in the frequency changes the gain by < 1e-10)",
  "erb: the float literals 24.7, 4.37e-3, 6.23e-6, 93.39e-3, 28.52 are parsed by the harness with the same "
  "Python float() as the library's source",
]
ASSUMPTIONS = ["IEEE-754 binary64 arithmetic with a libm whose cos/sin/exp/sqrt are accurate to a few ulp",
               "Poly drops zero coefficients: coefficient lists are compared up to trailing zeros"]

IMPORTS = "From Coq Require Import Uint63.\nFrom AL Require Import C13.Model C13.Spec C13.Check."


# ---------------------------------------------------------------------------- helpers
def fr(x):
  f = to_frac(x)
  return [f.numerator, f.denominator]


def q(frl):
  return "(qc (%d) %d)" % (frl[0], frl[1])


def hx(x):
  """float / int observation -> JSON-able exact representation"""
  if isinstance(x, float):
    return x.hex()
  return fr(x)


def unhx(h):
  if isinstance(h, str):
    return Fraction(float.fromhex(h))
  return Fraction(h[0], h[1])


def dense(f, which):
  lst = f.numlist if which == "n" else f.denlist
  return [hx(v) for v in lst]


def grid_param(k):
  """k/1000 as the nearest double"""
  return float(Fraction(k, 1000))


# ---------------------------------------------------------------------------- comb family
def gen_comb(tier, rng):
  alphas = [Fraction(1, 2), Fraction(-2, 3), Fraction(1), Fraction(0), Fraction(5, 4), Fraction(-1), Fraction(9, 10)]
  # exhaustive small core
  for kind in ("fb", "ff"):
    for delay in range(0, 6):
      for a in alphas:
        if kind == "fb" and delay == 0 and a == 1:
          continue  # 1/(1-1): not a filter
        n = delay * 3 + 4
        xs = [Fraction((i * 7 + delay) % 11 - 5, (i % 3) + 1) for i in range(n)]
        yield {"kind": kind, "delay": delay, "alpha": fr(a), "xs": [fr(x) for x in xs],
               "tags": ["core", kind, "delay=%d" % min(delay, 3)]}
  # impulse responses
  for kind in ("fb", "ff"):
    for delay in (1, 2, 5, 12):
      for a in (Fraction(1, 2), Fraction(-3, 4)):
        xs = [Fraction(1)] + [Fraction(0)] * (4 * delay + 2)
        yield {"kind": kind, "delay": delay, "alpha": fr(a), "xs": [fr(x) for x in xs],
               "tags": ["impulse", kind]}
  for c in gen_comb_regions(tier, rng):
    yield c
  n = 100 if tier == "quick" else 2500
  for _ in range(n):
    kind = rng.choice(["fb", "ff", "tau"])
    delay = rng.randrange(1, 13) if rng.random() < 0.95 else 0
    ln = rng.randrange(0, 3 * delay + 8)
    xs = [Fraction(rng.randrange(-9, 10), rng.choice([1, 2, 3, 5])) for _ in range(ln)]
    c = {"kind": kind, "delay": delay, "xs": [fr(x) for x in xs], "tags": ["random", kind]}
    if kind == "tau":
      c["tau"] = rng.choice(["inf", "default"]) if rng.random() < 0.15 else float(Fraction(rng.randrange(1, 40000), 1000)).hex()
      if delay == 0:
        c["delay"] = delay = 1
    else:
      a = Fraction(rng.randrange(-12, 13), rng.choice([1, 2, 3, 4, 7, 10]))
      if kind == "fb" and delay == 0 and a == 1:
        a = Fraction(1, 3)
      c["alpha"] = fr(a)
      if rng.random() < 0.1:
        c["default_alpha"] = True
        c["alpha"] = fr(Fraction(1))
        if kind == "fb" and delay == 0:
          c["delay"] = 1
    yield c


TAU_REGIONS = [  # (tag, value) - negative (alpha > 1), tiny (alpha underflows to 0), huge, infinities, number kinds
  ("negative", -6.0), ("negative", -2.5), ("negative", -100.0), ("negative-small", -0.05), ("tiny", 1e-3),
  ("tiny", 0.004), ("huge", 1e300), ("huge-negative", -1e300), ("inf", float("inf")), ("-inf", float("-inf")),
  ("int", 5), ("int-negative", -7), ("Fraction", Fraction(7, 2)), ("Fraction-negative", Fraction(-9, 4)), ("bool", True)]


def _num(kind, v):
  """a parameter value of the requested number kind ("q" = ExactQ)"""
  f = Fraction(v)
  if kind == "q": return ExactQ(f)
  if kind == "int": return int(f)
  if kind == "float": return float(f)
  if kind == "frac": return f
  if kind == "bool": return bool(f)
  raise ValueError(kind)


def gen_comb_regions(tier, rng):
  """(f) parameter regions and number kinds; (i) changed default strategy, aliases, re-assigned alias.
  Fraction alphas are dyadic: the filter code generator prints a Fraction coefficient as `n/d`, i.e. executes it as
  the nearest double (C04's ground, known there); a non-dyadic Fraction alpha therefore runs with float(alpha)."""
  reps = 1 if tier == "quick" else 5
  for rep in range(reps):
    for tag, tau in TAU_REGIONS:
      delay = rng.randrange(1, 7)
      if isinstance(tau, float) and tau < 0 and delay / -tau > 600:
        delay = 1   # e ** (+x) overflows beyond x ~ 709: not a filter, not generated
      xs = [Fraction(rng.randrange(-9, 10), rng.choice([1, 2, 3])) for _ in range(2 * delay + 3)]
      tj = tau.hex() if isinstance(tau, float) else ("True" if tau is True else [tau.numerator, tau.denominator])
      yield {"kind": "tau", "delay": delay, "tauv": tj, "xs": [fr(x) for x in xs],
             "dkind": rng.choice(["int", "int", "float", "bool"] if delay == 1 else ["int", "int", "float"]),
             "tags": ["region", "tau", "tau:" + tag]}
    for kind in ("fb", "ff"):
      for akind, a in (("int", Fraction(2)), ("int", Fraction(-1)), ("float", Fraction(-3, 4)), ("float", Fraction(5, 2)),
                       ("frac", Fraction(-5, 8)), ("bool", Fraction(1)), ("q", Fraction(-7, 5)), ("float", Fraction(1, 2 ** 40))):
        delay = rng.randrange(1, 14)
        xs = [Fraction(rng.randrange(-9, 10), rng.choice([1, 2, 3])) for _ in range(2 * delay + 3)]
        yield {"kind": kind, "delay": delay, "alpha": fr(a), "akind": akind, "xs": [fr(x) for x in xs],
               "dkind": rng.choice(["int", "float"]), "tags": ["region", kind, "alpha:" + akind]}
    # StrategyDict state: every member by name / alias / sd[...] / sd(...) under a changed default or alias
    for kind in ("fb", "ff", "tau"):
      variants = [{"setdef": OTHER_MEMBER["comb"][kind]}, {"via": "call"}, {"realias": ["alpha", "ff" if kind != "ff" else "tau"]},
                  {"setdef": OTHER_MEMBER["comb"][kind], "via": "item"}]
      variants += [{"alias": al, "setdef": OTHER_MEMBER["comb"][kind]} for al in ALIASES["comb"][kind]]
      for v in variants:
        if v.get("realias") and kind == "fb" and False:
          continue
        delay = rng.randrange(1, 7)
        xs = [Fraction(rng.randrange(-9, 10), rng.choice([1, 2, 3])) for _ in range(2 * delay + 3)]
        c = {"kind": kind, "delay": delay, "xs": [fr(x) for x in xs], "sd": v,
             "tags": ["strategydict", kind] + sorted(v.keys())}
        if kind == "tau":
          c["tauv"] = float(Fraction(rng.choice([-1, 1]) * rng.randrange(500, 20000), 1000)).hex()
        else:
          c["alpha"] = fr(Fraction(rng.randrange(-12, 13) or 5, rng.choice([2, 3, 7])))
        yield c


def _comb_call(c):
  """the library call of a comb case, with its number kinds and StrategyDict state"""
  delay = _num(c.get("dkind", "int"), c["delay"])
  sdv = c.get("sd", {})
  member = sdv.get("alias", c["kind"])
  if c["kind"] == "tau":
    if "tauv" in c:
      t = c["tauv"]
      tau = float.fromhex(t) if isinstance(t, str) and t != "True" else (True if t == "True" else Fraction(t[0], t[1]))
      if isinstance(tau, Fraction) and tau.denominator == 1:
        tau = int(tau)
      args = (delay, tau)
    elif c["tau"] == "default":
      args = (delay,)
    else:
      args = (delay, float("inf") if c["tau"] == "inf" else float.fromhex(c["tau"]))
  elif c.get("default_alpha"):
    args = (delay,)
  else:
    args = (delay, _num(c.get("akind", "q"), Fraction(*c["alpha"])))
  return call_strategy("comb", member, args, None, sdv.get("setdef"), sdv.get("realias"), sdv.get("via", "name"))


def run_comb(c):
  import audiolazy
  try:
    f = _comb_call(c)
    num, den = [fr(v) for v in f.numlist], [fr(v) for v in f.denlist]
    ys = [fr(v) for v in f([ExactQ(Fraction(a, b)) for a, b in c["xs"]])]
    o = {"kind": type(f).__name__, "num": num, "den": den, "ys": ys}
    if c["kind"] == "tau" and "tauv" in c:
      TAU_CACHE.append((c, o))     # alpha is tied to exp(-delay / tau) by an enclosure goal
    return o
  except Exception as e:
    return {"raise": type(e).__name__, "msg": str(e)[:100]}


def comb_alpha(c, o):
  """alpha of the case; for comb.tau the observed feedback coefficient (tied to exp(-delay/tau) by an enclosure goal)"""
  if c["kind"] != "tau":
    return Fraction(*c["alpha"])
  den = o.get("den", [])
  d = c["delay"]
  return -Fraction(*den[d]) if len(den) > d else Fraction(0)


def lit_comb(c, o):
  if "raise" in o:
    return "(CB false 0%%nat (qc 0 1) [] [] [] [qc 987654321 1])"
  a = comb_alpha(c, o)
  return "(CB %s %s %s %s %s %s %s)" % (
    L.boolean(c["kind"] == "ff"), L.nat(c["delay"]), q([a.numerator, a.denominator]),
    L.lst([q(x) for x in c["xs"]]), L.lst([q(x) for x in o["num"]]), L.lst([q(x) for x in o["den"]]),
    L.lst([q(x) for x in o["ys"]]))


def nontrivial_comb(c, o):
  if "raise" in o:
    return False
  return c["delay"] >= 1 and len(c["xs"]) > c["delay"] and comb_alpha(c, o) != 0 and any(x[0] for x in c["xs"])


# ---------------------------------------------------------------------------- contract family
# name -> (Coq strat constructor, Coq design term builder, number of parameters)
LPHP = {
  "lowpass.pole": "LPpole", "highpass.pole": "HPpole", "lowpass.z": "LPz", "highpass.z": "HPz",
  "lowpass.pole_exp": "LPpole_exp", "highpass.pole_exp": "HPpole_exp",
  "lowpass.z_exp": "LPz_exp", "highpass.z_exp": "HPz_exp",
}
MONOTONE = ("lowpass.pole", "highpass.pole", "lowpass.z", "highpass.z")
RESON = {
  "resonator.poles_exp": "RSpoles_exp", "resonator.freq_poles_exp": "RSfreq_poles_exp",
  "resonator.z_exp": "RSz_exp", "resonator.freq_z_exp": "RSfreq_z_exp",
}
SHAPE = {"LPpole": (1, 2), "HPpole": (1, 2), "LPpole_exp": (1, 2), "HPpole_exp": (1, 2),
         "LPz": (2, 2), "HPz": (2, 2), "LPz_exp": (2, 2), "HPz_exp": (2, 2),
         "RSpoles_exp": (1, 3), "RSfreq_poles_exp": (1, 3), "RSz_exp": (3, 3), "RSfreq_z_exp": (3, 3),
         "GTsampledN": (1, 3), "GTslaney": (2, 3)}
# gammatone.sampled is exercised for freq in [0.05, pi - 0.05], bandwidth in [0.02, 1] (all eta 1..6) and, for the
# default eta = 4, freq in [0.01, pi - 0.01], bandwidth in [0.01, 1]
SAMPLED_REGION = (50, 3090, 20)
SAMPLED_PHASES = [0, 1047, -785, 1571, 3000, -2500]
EDGE_W = [1, 2, 5, 10, 100, 524, 785, 1000, 1570, 1571, 2000, 2356, 2618, 3000, 3100, 3130, 3139, 3140]
EDGE_BW = [1, 2, 10, 50, 100, 300, 500, 700, 999, 1000]


def points(tier, rng, nrand, two):
  ws = list(EDGE_W)
  if not two:
    return [(k, 0) for k in ws] + [(rng.randrange(1, 3141), 0) for _ in range(nrand)]
  pts = []
  for i, k in enumerate(ws):
    pts.append((k, EDGE_BW[i % len(EDGE_BW)]))
  pts += [(1, 1), (1, 1000), (3140, 1), (3140, 1000)]
  pts += [(rng.randrange(1, 3141), rng.randrange(1, 1001)) for _ in range(nrand)]
  return pts


def zexp_real_poles(kw, kbw2):
  """resonator.z_exp(freq, bw): |cost| > 1 (with a margin: the boundary itself is not generated)"""
  w, bw = grid_param(kw), grid_param(kbw2)
  R = math.exp(-bw / 2)
  return abs(math.cos(w)) * (1 + R * R) / (2 * R) > 1 + 1e-6


def near_zexp_boundary(kw, kbw):
  w, bw = grid_param(kw), grid_param(kbw)
  R = math.exp(-bw / 2)
  return abs(abs(math.cos(w)) * (1 + R * R) / (2 * R) - 1) <= 1e-6


def gen_contract(tier, rng):
  nr = 14 if tier == "quick" else 300
  for kw, _ in points(tier, rng, nr, False):
    for name in sorted(LPHP):
      yield {"design": name, "kw": kw, "kbw": 0, "tags": [name, "edge" if kw in EDGE_W else "random"]}
  nr = 16 if tier == "quick" else 320
  for kw, kbw in points(tier, rng, nr, True):
    if near_zexp_boundary(kw, kbw) or near_zexp_boundary(kw, 2 * kbw):
      continue
    for name in sorted(RESON):
      yield {"design": name, "kw": kw, "kbw": kbw, "tags": [name, "edge" if kw in EDGE_W else "random"]}
  nr = 4 if tier == "quick" else 60
  gpts = [(785, 100), (100, 50), (2356, 300), (1571, 1000), (10, 10), (3130, 500)] + \
         [(rng.randrange(5, 3137), rng.randrange(5, 1001)) for _ in range(nr)]
  for kw, kbw in gpts:   # slaney / klapuri take no order parameter
    if near_zexp_boundary(kw, 2 * kbw):
      continue
    for name, nsec in (("gammatone.slaney", 4), ("gammatone.klapuri", 4)):
      for sec in range(nsec):
        yield {"design": name, "kw": kw, "kbw": kbw, "sec": sec, "tags": [name]}
  # gammatone.sampled: every order eta = 1..6 (1 is the boundary: no derivative), phases of both signs
  # and beyond pi/2, inside SAMPLED_REGION (see trusted_base); the default call (no phase / eta keyword) too
  nr = 2 if tier == "quick" else 40
  spts = [(785, 100), (50, 20), (3090, 20), (1571, 1000)] + \
         [(rng.randrange(SAMPLED_REGION[0], SAMPLED_REGION[1] + 1), rng.randrange(SAMPLED_REGION[2], 1001)) for _ in range(nr)]
  for i, (kw, kbw) in enumerate(spts):
    for eta in range(1, 7):
      kph = SAMPLED_PHASES[(i + eta) % len(SAMPLED_PHASES)]
      if tier != "quick":
        kph = rng.choice(SAMPLED_PHASES + [rng.randrange(-3141, 3142)])
      for sec in sorted(set([0, 1, eta - 1]) & set(range(eta))):
        yield {"design": "gammatone.sampled", "kw": kw, "kbw": kbw, "sec": sec, "eta": eta, "kph": kph,
               "tags": ["gammatone.sampled", "eta=%d" % eta, "phase" + ("=0" if kph == 0 else "<0" if kph < 0 else ">0")]}
  # default order (eta = 4) on the wider region [0.01, pi - 0.01] x [0.01, 1]
  for kw, kbw in [(10, 10), (3130, 10), (10, 1000)] + [(rng.randrange(10, 3131), rng.randrange(10, 1001)) for _ in range(nr)]:
    for sec in (0, 3):
      yield {"design": "gammatone.sampled", "kw": kw, "kbw": kbw, "sec": sec, "eta": 4, "kph": 0, "default": True,
             "tags": ["gammatone.sampled", "eta=default"]}
  for c in gen_hist(tier, rng):
    yield c
  for c in gen_strategydict(tier, rng):
    yield c


def _call_design(c):
  """one call of the library with the parameters of the case; returns the whole result.
  c["sd"] = {"setdef": member, "via": "name" | "item" | "call"}: the call is made while another member is the
  default strategy of the StrategyDict, through sd[name], or through sd(...) with the member itself as default."""
  name = c["design"]
  w = grid_param(c["kw"])
  bw = grid_param(c["kbw"]) if c["kbw"] else None
  fam, strat = name.split(".")
  sdv = c.get("sd", {})
  kwargs = None
  if fam in ("lowpass", "highpass"):
    args = (w,)
  elif strat == "sampled" and not c.get("default"):
    args = (w, bw)
    kwargs = {"phase": grid_param(c["kph"]) if c["kph"] else (0.0 if c.get("phase_float") else 0), "eta": c["eta"]}
  else:
    args = (w, bw)
  return call_strategy(fam, strat, args, kwargs, sdv.get("setdef"), sdv.get("realias"), sdv.get("via", "name"))


def gen_strategydict(tier, rng):
  """(i) every strategy of lowpass / highpass / resonator / gammatone under a changed default strategy"""
  reps = 1 if tier == "quick" else 5
  for rep in range(reps):
    for name in sorted(LPHP) + sorted(RESON) + ["gammatone.sampled", "gammatone.slaney", "gammatone.klapuri"]:
      fam, strat = name.split(".")
      for v in ({"setdef": OTHER_MEMBER[fam][strat]}, {"via": "call"}, {"setdef": OTHER_MEMBER[fam][strat], "via": "item"}):
        kw = rng.randrange(50, 3091)
        kbw = 0 if name in LPHP else rng.randrange(20, 500)
        if name not in LPHP and (near_zexp_boundary(kw, kbw) or near_zexp_boundary(kw, 2 * kbw)):
          continue
        c = {"design": name, "kw": kw, "kbw": kbw, "sd": v, "tags": ["strategydict", name] + sorted(v.keys())}
        if fam == "gammatone":
          c["sec"] = rng.randrange(0, 4)
          if strat == "sampled":
            c.update({"eta": 4, "kph": rng.choice(SAMPLED_PHASES)})
        yield c


JUNK_GAIN = 3   # the foreign section used by the in-place mutations has gain 3 at every frequency


def _mutate(g, how):
  """edits a returned design in place, as a caller may (the next design must not be affected)"""
  import audiolazy
  junk = JUNK_GAIN * audiolazy.z ** -1
  if isinstance(g, list):            # CascadeFilter
    if how == "append":
      g.append(junk)
    elif how == "setitem":
      g[0] = junk
    elif how == "pop":
      g.pop()
    else:                            # "poly": coefficient containers of the sections
      for f in g:
        f.numpoly._data[0] = 99.0
        f.denpoly._data[1] = 5.0
  else:                              # ZFilter
    g.numpoly._data[0] = 99.0
    g.denpoly._data[1] = 5.0


def build_design(c):
  """Calls the library; returns (filter object or section, container type name of the whole result).
  With c["hist"] = {"mut": m, "vary": v}: a first call (the same parameters, or exactly one of them varied)
  whose result is mutated in place precedes the observed call: every call must equal the per-call model."""
  h = c.get("hist")
  if h:
    c1 = dict(c)
    if h["vary"] == "w": c1["kw"] = c["kw"] + 13 if c["kw"] < 3000 else c["kw"] - 13
    elif h["vary"] == "bw": c1["kbw"] = c["kbw"] + 7 if c["kbw"] < 990 else c["kbw"] - 7
    elif h["vary"] == "phase": c1["kph"] = c["kph"] + 500
    elif h["vary"] == "eta": c1["eta"] = c["eta"] + 1
    elif h["vary"] == "type": c1["phase_float"] = True       # phase 0.0 first, then 0 (== and same hash)
    g1 = _call_design(c1)
    _mutate(g1, h["mut"])
  g = _call_design(c)
  fam, strat = c["design"].split(".")
  if fam != "gammatone":
    return g, type(g).__name__
  nsec = c["eta"] if strat == "sampled" else 4
  if type(g).__name__ != "CascadeFilter":
    return g[c["sec"]], "not-a-CascadeFilter:" + type(g).__name__
  if len(g) != nsec:                 # wrong number of sections: the last one is observed
    return g[-1], "cascade-of-%d-sections-instead-of-%d" % (len(g), nsec)
  sec = g[c["sec"]]
  return sec, type(sec).__name__


def gen_hist(tier, rng):
  """two-call histories in one process (classes a / b of the strengthening round)"""
  reps = 1 if tier == "quick" else 6
  for rep in range(reps):
    for eta in (1, 2, 3, 4):
      for mut in ("append", "setitem", "poly", "pop"):
        if mut == "pop" and eta == 1:
          continue
        kw, kbw = rng.randrange(50, 3091), rng.randrange(20, 1001)
        kph = rng.choice(SAMPLED_PHASES)
        vary = rng.choice([None, None, "phase", "eta", "bw", "w"] + (["type"] if kph == 0 else []))
        sec = 0 if mut != "pop" else eta - 1
        yield {"design": "gammatone.sampled", "kw": kw, "kbw": kbw, "sec": sec, "eta": eta, "kph": kph,
               "hist": {"mut": mut, "vary": vary}, "tags": ["history", "gammatone.sampled", "mut=" + mut, "vary=%s" % vary]}
    for name in ("gammatone.slaney", "gammatone.klapuri"):
      for mut in ("append", "setitem", "poly"):
        kw, kbw = rng.randrange(50, 3091), rng.randrange(20, 500)
        if near_zexp_boundary(kw, 2 * kbw):
          continue
        yield {"design": name, "kw": kw, "kbw": kbw, "sec": 0, "hist": {"mut": mut, "vary": rng.choice([None, "bw", "w"])},
               "tags": ["history", name, "mut=" + mut]}
    for name in sorted(LPHP) + sorted(RESON):
      kw, kbw = rng.randrange(5, 3137), (rng.randrange(5, 1001) if name in RESON else 0)
      if name in RESON and near_zexp_boundary(kw, kbw):
        continue
      yield {"design": name, "kw": kw, "kbw": kbw, "hist": {"mut": "poly", "vary": rng.choice([None, "w"])},
             "tags": ["history", name, "mut=poly"]}


def run_contract(c):
  try:
    f, kind = build_design(c)
    w = grid_param(c["kw"])
    o = {"kind": kind, "num": dense(f, "n"), "den": dense(f, "d")}
    o["gdc"] = abs(f.freq_response(0)).hex()
    o["gny"] = abs(f.freq_response(math.pi)).hex()
    o["gat"] = abs(f.freq_response(w)).hex()
    o["grid"] = []
    if c["design"] in MONOTONE:
      ws = [math.pi * k / 63 for k in range(64)]
      o["grid"] = [abs(v).hex() for v in f.freq_response(ws)]
    o["gres"] = None
    if c["design"] in ("resonator.freq_poles_exp", "resonator.freq_z_exp"):
      bw = grid_param(c["kbw"])
      R = math.exp(-bw / 2)
      cw = math.cos(w) * ((1 + R * R) / (2 * R) if c["design"].endswith("freq_poles_exp") else (2 * R) / (1 + R * R))
      if abs(cw) <= 1 - 1e-9:
        o["gres"] = abs(f.freq_response(math.acos(cw))).hex()
    ENCL_CACHE.append((c, o))
    return o
  except Exception as e:
    return {"raise": type(e).__name__, "msg": str(e)[:100]}


def strat_of(c):
  name = c["design"]
  if name in LPHP:
    return LPHP[name]
  if name in RESON:
    return RESON[name]
  if name == "gammatone.slaney":
    return "GTslaney"
  if name == "gammatone.klapuri":
    return "RSz_exp" if c["sec"] % 2 == 0 else "RSpoles_exp"
  if name == "gammatone.sampled":
    return "(GTsampled0 %d)" % c["eta"] if c["sec"] == 0 else "GTsampledN"
  raise ValueError(name)


def qh(h):
  """exact value of an observed number as a Qc term; doubles go through a primitive-int mantissa (fq):
  a 53-bit Z literal costs ~1.5 ms of elaboration, a uint63 literal nothing"""
  f = unhx(h)
  n, d = f.numerator, f.denominator
  if abs(n) < 2 ** 62 and d & (d - 1) == 0:
    return "(fq %s %d%%uint63 (%d))" % ("true" if n < 0 else "false", abs(n), -(d.bit_length() - 1))
  return "(qc (%d) %d)" % (n, d)


def lit_contract(c, o):
  s = strat_of(c)
  if "raise" in o:
    return '(CC %s (qc 0 1) (qc 0 1) "raise" [] [] (qc 0 1) (qc 0 1) (qc 0 1) [] None)' % s
  p1 = Fraction(grid_param(c["kw"]))
  p2 = Fraction(grid_param(c["kbw"])) if c["kbw"] else Fraction(0)
  return "(CC %s %s %s %s %s %s %s %s %s %s %s)" % (
    s, qh([p1.numerator, p1.denominator]), qh([p2.numerator, p2.denominator]), L.string(o["kind"]), L.lst([qh(x) for x in o["num"]]), L.lst([qh(x) for x in o["den"]]),
    qh(o["gdc"]), qh(o["gny"]), qh(o["gat"]), L.lst([qh(x) for x in o["grid"]]),
    "None" if o["gres"] is None else "(Some %s)" % qh(o["gres"]))


def nontrivial_contract(c, o):
  return "raise" not in o and 1 < c["kw"] < 3140


# ---------------------------------------------------------------------------- poles family
def gen_poles(tier, rng):
  nr = 20 if tier == "quick" else 400
  for kw, kbw in points(tier, rng, nr, True):
    for name in sorted(RESON):
      if near_zexp_boundary(kw, kbw):
        continue
      real = name == "resonator.z_exp" and zexp_real_poles(kw, kbw)
      yield {"design": name, "kw": kw, "kbw": kbw, "tags": [name, "real-poles" if real else "conjugate"]}
  # the registered witnesses of C13-zexp-real-poles and the klapuri sections built from z_exp
  for kw, kbw in ((100, 1000), (3140, 1000), (1, 10)):
    yield {"design": "resonator.z_exp", "kw": kw, "kbw": kbw, "tags": ["resonator.z_exp", "real-poles", "witness"]}
  for kw, kbw in ((100, 500), (785, 100), (3000, 300)):
    for sec in range(4):
      real = sec % 2 == 0 and zexp_real_poles(kw, 2 * kbw)
      yield {"design": "gammatone.klapuri", "kw": kw, "kbw": kbw, "sec": sec,
             "tags": ["gammatone.klapuri", "real-poles" if real else "conjugate"]}


def run_poles(c):
  try:
    f, kind = build_design(c)
    o = {"kind": kind, "den": dense(f, "d")}
    POLE_CACHE.append((c, o))
    return o
  except Exception as e:
    return {"raise": type(e).__name__, "msg": str(e)[:100]}


def lit_poles(c, o):
  if "raise" in o:
    return "(PC %s [])" % strat_of(c)
  return "(PC %s %s)" % (strat_of(c), L.lst([qh(x) for x in o["den"]]))


def known_poles(c, o):
  """C13-zexp-real-poles: ONLY resonator.z_exp (and klapuri's z_exp sections) in the region |cost| > 1,
  and only when the observation shows exactly that signature (two real poles, product = den[2] > 0)."""
  if "raise" in o or len(o["den"]) != 3:
    return None
  kbw = c["kbw"]
  if c["design"] == "gammatone.klapuri":
    if c["sec"] % 2 != 0:
      return None
    kbw = 2 * kbw
  elif c["design"] != "resonator.z_exp":
    return None
  a, b = unhx(o["den"][1]), unhx(o["den"][2])
  if zexp_real_poles(c["kw"], kbw) and b > 0 and a * a > 4 * b:
    return "C13-zexp-real-poles"
  return None


# ---------------------------------------------------------------------------- stream family
STREAM_DESIGNS = [(d, [0]) for d in sorted(LPHP)] + \
                 [(d, w) for d in sorted(RESON) + ["gammatone.klapuri"] for w in ([0], [1], [0, 1])] + \
                 [("comb.fb", [0]), ("comb.ff", [0]), ("comb.tau", [0])]


def _stream_params(design, rng, ln):
  if design.startswith("comb."):
    if design == "comb.tau":
      return [[float(Fraction(rng.randrange(500, 40000), 1000)) for _ in range(ln)]]
    return [[float(Fraction(rng.choice([-1, 1]) * rng.randrange(1, 1500), 1000)) for _ in range(ln)]]   # never 0: a zero term is dropped
  ps = [[grid_param(rng.randrange(1, 3141)) for _ in range(ln)]]
  if not design.startswith(("lowpass", "highpass")):
    ps.append([grid_param(rng.randrange(1, 1001)) for _ in range(ln)])
    if design == "gammatone.klapuri" or design.endswith(".z_exp"):
      # keep clear of the z_exp boundary |cost| = 1 only matters for pole checks, not here
      pass
  return ps


def gen_stream(tier, rng):
  reps = 1 if tier == "quick" else 6
  for rep in range(reps):
    for design, which in STREAM_DESIGNS:
      for kind in KINDS:
        if tier == "quick" and kind not in ("Stream", "thub", "list", "gen") and \
           not expected_ok(design, which, "list"):
          continue   # kinds the library refuses there anyway: quick keeps four of them
        ln = rng.randrange(3, 6)
        c = {"design": design, "which": which, "kind": kind, "mode": "single", "p": _stream_params(design, rng, ln),
             "tags": [design, "kind=" + kind, "mode=single"]}
        if design.startswith("comb."):
          c["delay"] = rng.randrange(1, 6)
        yield c
      # two live results consumed alternately; one argument object given to two calls
      for kind, mode in (("Stream", "interleave"), ("gen", "interleave"), ("list", "interleave"),
                         ("list", "samearg"), ("tuple", "samearg"), ("deque", "samearg"), ("onlyiter", "samearg")):
        if tier == "quick" and (len(design) + len(kind) + len(mode) + which[0]) % 2:
          continue
        ln = rng.randrange(3, 6)
        c = {"design": design, "which": which, "kind": kind, "mode": mode, "p": _stream_params(design, rng, ln),
             "tags": [design, "kind=" + kind, "mode=" + mode]}
        if design.startswith("comb."):
          c["delay"] = rng.randrange(1, 6)
        yield c


def run_stream(c):
  return run_kind(c)


def _fl(h):
  if isinstance(h, str):
    v = float.fromhex(h)
    sign = math.copysign(1.0, v) < 0
    f = Fraction(v)
  else:
    f = Fraction(h[0], h[1]); sign = f < 0
  return "(%s, %s)" % (L.boolean(sign), qh([f.numerator, f.denominator]))


def stream_unsupported(c, o):
  """a raw container kind on which the unchanged library raises TypeError (`-x`, `x - pi` on a list ...)"""
  return o.get("raise") == "TypeError" and not expected_ok(c["design"], c["which"], c["kind"])


def lit_stream(c, o):
  n = len(c["p"][c["which"][0]])
  if stream_unsupported(c, o):
    return "(SC 0%nat [] [])"                      # outside the property text: nothing demanded
  if "raise" in o:
    return "(SC %s [[]] [])" % L.nat(n)            # a supported kind raised: both checkers fail
  def row(r):
    return L.lst([_fl(v) for v in r[1]])
  if [tuple(r[0]) for r in o["stream"]] != [tuple(r[0]) for r in o["const"]]:
    return "(SC %s [[]] [])" % L.nat(n)            # different coefficient positions
  return "(SC %s %s %s)" % (L.nat(n), L.lst([row(r) for r in o["stream"]]), L.lst([row(r) for r in o["const"]]))


def nontrivial_stream(c, o):
  return "raise" not in o and len(set(c["p"][c["which"][0]])) >= 3


# ---------------------------------------------------------------------------- erb family
ERB_K = {"gm90": [24.7, 4.37e-3, 0.0], "mg83": [6.23e-6, 93.39e-3, 28.52]}


def gen_erb(tier, rng):
  n = 30 if tier == "quick" else 300
  for which in ("gm90", "mg83"):   # edges: smallest / largest frequencies, both unit conventions
    for f in (Fraction(7), Fraction(15, 2), Fraction(20000)):
      yield {"which": which, "freq": fr(f), "hz": None, "tags": [which, "Hz", "edge"]}
    for rate in (8000, 44100):
      for k in (1, 2, 3140):
        yield {"which": which, "freq": fr(Fraction(grid_param(k))), "hz": fr(Fraction(2 * math.pi / rate)),
               "tags": [which, "rad/sample", "edge"]}
  for which in ("gm90", "mg83"):   # StrategyDict state: changed default, aliases, sd(...)
    for v in [{"setdef": OTHER_MEMBER["erb"][which]}, {"via": "call"}] + \
             [{"alias": al, "setdef": OTHER_MEMBER["erb"][which]} for al in ALIASES["erb"][which]]:
      yield {"which": which, "freq": fr(Fraction(rng.randrange(7, 20000))), "hz": None, "sd": v,
             "tags": [which, "strategydict"] + sorted(v.keys())}
  for i in range(n):
    which = "gm90" if i % 2 == 0 else "mg83"
    if rng.random() < 0.3:
      yield {"which": which, "freq": fr(Fraction(rng.randrange(7, 20000), rng.choice([1, 2, 3]))), "hz": None,
             "tags": [which, "Hz"]}
    else:
      rate = rng.choice([8000, 22050, 44100, 48000])
      hz = Fraction(2 * math.pi / rate)      # sHz(rate)[1] as an exact double
      yield {"which": which, "freq": fr(Fraction(grid_param(rng.randrange(1, 3141)))), "hz": fr(hz),
             "tags": [which, "rad/sample"]}


def run_erb(c):
  try:
    f = ExactQ(Fraction(*c["freq"]))
    sdv = c.get("sd", {})
    args = (f,) if c["hz"] is None else (f, ExactQ(Fraction(*c["hz"])))
    r = call_strategy("erb", sdv.get("alias", c["which"]), args, None, sdv.get("setdef"), None, sdv.get("via", "name"))
    return {"val": fr(r)}
  except Exception as e:
    return {"raise": type(e).__name__, "msg": str(e)[:100]}


def lit_erb(c, o):
  ks = [Fraction(k) for k in ERB_K[c["which"]]]
  hz = c["hz"] or [1, 1]
  val = o["val"] if "val" in o else [987654321, 1]
  return "(EC %s %s %s %s %s %s %s)" % (L.boolean(c["which"] == "mg83"), L.qc(ks[0]), L.qc(ks[1]), L.qc(ks[2]),
                                        q(c["freq"]), q(hz), q(val))


FAMILIES = {
  "comb": Family("comb", IMPORTS, "comb_case", "corr_comb", "holds_comb", gen_comb, run_comb, lit_comb, nontrivial_comb),
  "contract": Family("contract", IMPORTS, "ccase", "corr_contract", "holds_contract", gen_contract, run_contract,
                     lit_contract, nontrivial_contract, timeout=30),
  "poles": Family("poles", IMPORTS, "pcase", "corr_poles", "holds_poles", gen_poles, run_poles, lit_poles,
                  None, known_poles),
  "stream": Family("stream", IMPORTS, "scase", "corr_stream", "holds_stream", gen_stream, run_stream, lit_stream,
                   nontrivial_stream),
  "erb": Family("erb", IMPORTS, "ecase", "corr_erb", "holds_erb", gen_erb, run_erb, lit_erb),
}

# ---------------------------------------------------------------------------- enclosure goals
ENCL_CACHE = []   # (case, obs) of the contract family, filled by run_contract
TAU_CACHE = []    # (case, obs) of the comb.tau cases with an explicit tau
POLE_CACHE = []   # (case, obs) of the poles family
GOALS_PER_FILE = 30


def rlit(f):
  """exact rational as a Coq real literal"""
  f = Fraction(f)
  if f.denominator == 1:
    return "(%d)" % f.numerator
  return "(%d / %d)" % (f.numerator, f.denominator)


def design_term(c):
  """Coq term of the modelled filter (type filt) for a contract / poles case"""
  name = c["design"]
  w = rlit(Fraction(grid_param(c["kw"])))
  bw = rlit(Fraction(grid_param(c["kbw"]))) if c["kbw"] else None
  fam, strat = name.split(".")
  if fam in ("lowpass", "highpass"):
    return "(%s_%s %s)" % (fam, strat, w)
  if fam == "resonator":
    return "(resonator_%s %s %s)" % (strat, w, bw)
  if strat == "sampled":
    ph = rlit(Fraction(grid_param(c["kph"]))) if c["kph"] else "0"   # negative phases: (-n / d)
    return "(nth %d (gammatone_sampled %s %s %s %d) nofilt)" % (c["sec"], w, bw, ph, c["eta"])
  return "(nth %d (gammatone_%s %s %s) nofilt)" % (c["sec"], strat, w, bw)


def tol_for(v, sampled0=False):
  t = TOL_SAMPLED if sampled0 else TOL
  return t * max(Fraction(1), abs(v))


def make_goals(tier, rng):
  """[(kind, description dict, coq statement)]; kind 'corr' = coefficient of the model vs library,
  'holds' = a contract with a transcendental right-hand side evaluated on the implementation"""
  goals = []
  seen = set()
  n_sampled0 = 0
  for c, o in ENCL_CACHE:
    key = json.dumps({k: v for k, v in c.items() if k != "tags"}, sort_keys=True)
    if key in seen or "raise" in o:
      continue
    seen.add(key)
    s = strat_of(c)
    sampled0 = s.startswith("(GTsampled0")
    nn, nd = (2 * c["eta"], 3) if sampled0 else SHAPE[s]
    term = design_term(c)
    for which, lst, ln in (("fnum", o["num"], nn), ("fden", o["den"], nd)):
      vals = [unhx(h) for h in lst] + [Fraction(0)] * ln
      for k in range(ln):
        if which == "fden" and k == 0:
          continue   # exactly 1: checked by corr_contract
        if sampled0 and which == "fnum" and tier == "quick" and not (c["eta"] <= 3 and c["kw"] == 785) and k not in (1, ln - 1):
          continue   # seconds per goal: quick keeps all coefficients for eta <= 3 at one point, else two per case
        if sampled0 and which == "fnum" and tier == "quick" and c.get("hist") and k != ln - 1:
          continue   # history cases: one numerator coefficient in quick
        if sampled0 and which == "fnum" and tier == "quick" and c["eta"] >= 5 and c["kw"] != 785:
          continue   # eta = 5, 6 (about 10 s per goal): two points in quick
        if sampled0 and which == "fnum" and tier != "quick" and c["eta"] >= 4 and c["kw"] != 785 \
           and k not in (1, ln // 2, ln - 1):
          continue   # thorough: all coefficients at the fixed point (785, 100), three per case elsewhere for eta >= 4
        v = vals[k]
        stmt = "verdict (nth %d (%s %s) 0) %s %s" % (k, which, term, rlit(v), rlit(tol_for(v, sampled0 and which == "fnum")))
        # the first section of gammatone.sampled goes through the closed form of the iterated derivative
        tac = "c13_decide_sampled" if sampled0 and which == "fnum" else "c13_decide"
        goals.append(("corr", {"case": c, "coefficient": "%s[%d]" % (which, k), "library_value": float(v)}, stmt, tac))
        n_sampled0 += 1 if tac == "c13_decide_sampled" else 0
  seen = set()
  for c, o in POLE_CACHE:
    key = json.dumps({k: v for k, v in c.items() if k != "tags"}, sort_keys=True)
    if key in seen or "raise" in o or len(o["den"]) != 3:
      continue
    seen.add(key)
    bw = Fraction(grid_param(c["kbw"]))
    if c["design"] == "gammatone.klapuri":
      bw = 2 * bw
    b = unhx(o["den"][2])
    # pole radius: both poles have modulus sqrt(den[2]) (poles family) and that is exp(-bandwidth/2)
    goals.append(("holds", {"case": c, "contract": "pole radius sqrt(den[2]) = exp(-bandwidth/2)",
                            "den2": float(b), "expected_radius": math.exp(-float(bw) / 2)},
                  "verdict (resonator_R %s) (sqrt %s) %s" % (rlit(bw), rlit(b), rlit(TOL)), "c13_decide"))
  return goals


def make_misc_goals(tier, rng):
  """comb.tau decay gain (every region / number kind / StrategyDict state of the comb family, plus seeded random
  taus of both signs) and gammatone_erb_constants"""
  import audiolazy
  goals = []
  def tau_goal(delay, tau, den, what):
    alpha = -Fraction(*den[delay]) if len(den) > delay else Fraction(0)
    tf = Fraction(int(tau)) if isinstance(tau, bool) else (None if isinstance(tau, float) and math.isinf(tau) else Fraction(tau))
    model = "None" if tf is None else "(Some %s)" % rlit(tf)
    expected = 1.0 if tf is None else math.exp(-delay / float(tf)) if abs(delay / float(tf)) < 700 else 0.0
    goals.append(("holds", {"case": dict(what, design="comb.tau", delay=delay, tau=repr(tau)), "contract": "alpha = e ** (-delay / tau)",
                            "library_alpha": float(alpha), "expected": expected},
                  "verdict (comb_tau_alpha %d %s) %s %s" % (delay, model, rlit(alpha), rlit(tol_for(alpha))), "c13_decide"))
  seen = set()
  for c, o in TAU_CACHE:
    key = json.dumps({k: v for k, v in c.items() if k not in ("tags", "xs")}, sort_keys=True)
    if key in seen or "raise" in o:
      continue
    seen.add(key)
    t = c["tauv"]
    tau = float.fromhex(t) if isinstance(t, str) and t != "True" else (True if t == "True" else Fraction(t[0], t[1]))
    tau_goal(c["delay"], tau, o["den"], {"sd": c.get("sd"), "tags": c["tags"]})
  n = 12 if tier == "quick" else 120
  for i in range(n):
    delay = rng.randrange(1, 13)
    tau = float(Fraction(rng.choice([1, 1, -1]) * rng.randrange(100, 40000), 1000))
    f = audiolazy.comb.tau(delay, tau)
    tau_goal(delay, tau, [fr(v) for v in f.denlist], {})
  for delay in (1, 7):
    f = audiolazy.comb.tau(delay)
    tau_goal(delay, float("inf"), [fr(v) for v in f.denlist], {"default_tau": True})
  for n_ in range(1, 7 if tier == "quick" else 11):
    x, y = audiolazy.gammatone_erb_constants(n_)
    goals.append(("corr", {"case": {"design": "gammatone_erb_constants", "n": n_}, "coefficient": "x", "library_value": x},
                  "verdict (erb_constant_x %d) %s %s" % (n_, rlit(Fraction(x)), rlit(tol_for(Fraction(x)))), "c13_decide"))
    goals.append(("corr", {"case": {"design": "gammatone_erb_constants", "n": n_}, "coefficient": "y", "library_value": y},
                  "verdict (erb_constant_y %d) %s %s" % (n_, rlit(Fraction(y)), rlit(tol_for(Fraction(y)))), "c13_decide"))
  return goals


def run_goal_files(chk, goals):
  """Writes build/C13/encl_k.v (GOALS_PER_FILE goals each), compiles them in parallel, returns
  {goal index: 'refuted' | 'undecided' | 'file-failed'} for the goals that are not enclosed."""
  bdir = os.path.join(BUILD, PID)
  os.makedirs(bdir, exist_ok=True)
  for old in os.listdir(bdir):
    if old.startswith("encl_"):
      os.remove(os.path.join(bdir, old))
  files = []
  nfiles = max(1, -(-len(goals) // GOALS_PER_FILE))
  for j in range(nfiles):
    path = os.path.join(bdir, "encl_%d.v" % j)
    with open(path, "w") as f:
      f.write("From Coq Require Import Reals List.\nFrom Interval Require Import Tactic.\n"
              "From AL Require Import C13.Model C13.Encl.\nImport ListNotations.\nOpen Scope R_scope.\n")
      for i in range(j, len(goals), nfiles):   # round robin: the slow goals are spread over the files
        f.write("Lemma g%d : %s.\nProof. %s %d%%nat. Qed.\n" % (i, goals[i][2], goals[i][3], i))
    files.append((j, path))
  running, pending, results = [], list(files), {}
  while pending or running:
    while pending and len(running) < NPROC:
      k, p = pending.pop(0)
      pr = subprocess.Popen(["timeout", "900", "coqc", "-Q", os.path.join(COQ, "theories"), "AL", p],
                            stdout=subprocess.PIPE, stderr=subprocess.STDOUT, cwd=bdir)
      running.append((k, p, pr))
    k, p, pr = running.pop(0)
    out = pr.communicate()[0].decode("utf-8", "replace")
    results[k] = (pr.returncode, out)
  chk.cmds.append("coqc -Q coq/theories AL build/%s/encl_*.v   (%d files, %d interval goals)" % (PID, len(files), len(goals)))
  bad = {}
  for k, p in files:
    rc, out = results[k]
    if rc != 0:
      for i in range(k, len(goals), nfiles):
        bad[i] = "file-failed: " + out[-300:]
      continue
    ref = set(int(m) for m in re.findall(r"C13REFUTED\s+(\d+)", out))
    und = set(int(m) for m in re.findall(r"C13UNDECIDED\s+(\d+)", out))
    for i in ref | und:
      bad[i] = "undecided" if i in und else "refuted"
  return bad


def extra(chk, tier, rng):
  goals = make_goals(tier, rng) + make_misc_goals(tier, rng)
  limit = 380 if tier == "quick" else 3600
  if len(goals) > limit:
    # keep every comb.tau goal, thin out the pole-radius goals (quick: 80) and the coefficient goals deterministically
    def thin(lst, k):
      if len(lst) <= k:
        return lst
      step = len(lst) / float(max(1, k))
      return [lst[int(i * step)] for i in range(k)]
    taus = [g for g in goals if g[0] == "holds" and "comb_tau_alpha" in g[2]]
    radius = [g for g in goals if g[0] == "holds" and "comb_tau_alpha" not in g[2]]
    corr = [g for g in goals if g[0] != "holds"]
    radius = thin(radius, 80 if tier == "quick" else 1200)
    corr = thin(corr, max(0, limit - len(taus) - len(radius)))
    goals = corr + radius + taus
  t0 = time.time()
  bad = run_goal_files(chk, goals)
  fs = chk.stats["families"].setdefault("enclosure", {"cases": 0, "corr_bad": 0, "holds_bad": 0})
  fs["cases"] += len(goals)
  fs["wall_s"] = round(time.time() - t0, 1)
  chk.stats["evaluations"] += len(goals)
  for kind, desc, stmt, tac in goals:
    chk.stats["tags"]["enclosure:" + kind] += 1
  for d in goals[:: max(1, len(goals) // 2)][:2]:
    chk.stats["samples"].append({"family": "enclosure", "case": d[1], "observed": d[2]})
  for i in sorted(bad):
    kind, desc, stmt, tac = goals[i]
    how = bad[i]
    if kind == "holds" and how == "refuted":
      chk.violations.append({"family": "enclosure", "case": desc["case"], "observed": desc, "model_agrees": True})
      fs["holds_bad"] += 1
    else:
      fs["corr_bad"] += 1
      if fs["corr_bad"] <= 3:
        chk.broken.append(("tie", "enclosure %s (%s)" % (kind, how), {"goal": stmt, "what": desc}))


