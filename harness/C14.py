# -*- coding: utf-8 -*-
"""C14 - window / wsymm strategies: translated table (Gen_Windows.v), exact float correspondence modulo libm,
dictionary cross references, and interval enclosures of every sample / symmetry / overlap-add sum."""
import os, sys, math, json, time, subprocess, hashlib
from fractions import Fraction
from vlib.framework import Family, ROOT, COQ
from vlib import coqlit as L
import C14_translate as T

PID = "C14"
PROP_FILES = ["Prop"]
EXTRA_COQ_DIRS = []
# Reals (Coquelicot / Interval) bring the four classical-reals axioms; the `interval` tactic computes with
# primitive integers and floats, whose specification axioms live in Uint63Axioms / PrimInt63 / FloatAxioms.
ALLOWED_AXIOMS = [r"ClassicalDedekindReals\.sig_not_dec$", r"ClassicalDedekindReals\.sig_forall_dec$",
                  r"FunctionalExtensionality\.functional_extensionality_dep$", r"Classical_Prop\.classic$",
                  r"(Coq\.)?(Numbers\.Cyclic\.Int63\.)?(Uint63|PrimInt63|Sint63|Uint63Axioms)\.[A-Za-z0-9_']+$",
                  r"(Coq\.)?(Floats\.)?(PrimFloat|FloatAxioms|FloatOps|FloatLemmas)\.[A-Za-z0-9_']+$"]
RULE = ("win: every strategy name (aliases included) x size (all of 0..24 quick / 0..64 thorough, then seeded sizes "
        "up to 256, plus every size 1..256 on which a Python pre-screen sees anything odd) x alpha (default, and a fixed "
        "pool inside and outside the documented domain); the observation is window[name](size), wsymm[name](size+1), "
        "wsymm[name](1) as exact binary64 values together with the math.cos/math.sin calls the implementation made; "
        "non-trivial = a known name, size >= 3, no exception; dict: every name of either dictionary and some absent "
        "names, observation = both dictionaries as name -> object identity plus .periodic/.symm of every object; "
        "non-trivial = an alias or a non-distinct strategy; hist: histories inside one process (call twice, mutate a "
        "returned list in place and call again, run overlap_add.list(..., wnd=sd[name], normalize=True) with hop "
        "size/4 or size/2 before or between calls; 2-7 consecutive calls of one strategy with one size that differ only in "
        "alpha and in how it is passed: default / positional / keyword / explicit value equal to the default / int, "
        "float, bool and dyadic Fraction values that compare equal; alias and size interleavings), every call result observed at once together with object identity; "
        "non-trivial = contains a mutation or an overlap-add and every call returned a list; encl (extra): samples, symmetry and overlap-add sums "
        "enclosed against the real closed forms by the interval tactic")
EXHAUSTIVE = {"quick": False, "thorough": False}
trusted_base = [
  "harness/C14_translate.py (Python ast -> Gen_Windows.v): formula strings, names, distinct, params_def and both code "
  "templates are re-translated from the current source on every run; unknown syntax aborts",
  "math.cos / math.sin / math.pow are uninterpreted in the exact float correspondence (their observed values are "
  "replayed); they are tied to the real functions only through the interval enclosures with tolerance 2^-45 per sample "
  "(cos window with 0 < alpha < 1: 2^-20, because x**alpha amplifies the rounding of sin(pi) next to 0)",
  "float symmetry and overlap-add sums are checked up to size*2^-45 (never bitwise)",
  "int -> float conversion and int/int true division are modelled by binary64 operations (exact below 2^53)",
  "the interval tactic (coq-interval) and the Coq parser of hexadecimal float / rational literals"]
ASSUMPTIONS = ["sizes are Python ints below 2^53; alpha is an int or a float",
               "range and symmetry are promised for blackman only for -1/4 <= alpha <= 1/4 and for cos only for alpha >= 0"]

TABLE = {"data": None}


def pregen(chk):
  d, errs = T.translate(write=True)
  TABLE["data"] = d
  return errs


# ------------------------------------------------------------------------------------------------ helpers
ALPHA_POOL = {
  # inside the documented domain first, then outside (the property is silent there; model and code must agree)
  "blackman": [["float", (0.16).hex()], ["float", (2.0 * 1430 / 18608).hex()], ["int", 0], ["float", (0.25).hex()],
               ["float", (-0.25).hex()], ["float", (0.1).hex()], ["float", (0.3).hex()], ["float", (-0.5).hex()],
               ["int", 1]],
  "cos": [["int", 1], ["int", 0], ["int", 2], ["int", 3], ["float", (0.5).hex()], ["float", (1.5).hex()],
          ["float", (2.5).hex()], ["int", -1], ["float", (-0.5).hex()]],
}


def rows():
  d = TABLE["data"]
  if d is None:
    d, _ = T.translate(write=False)
    TABLE["data"] = d
  if d is not None:
    return [(r["names"], r["default"] is not None) for r in d["rows"]]
  # translator broken: fall back to what the implementation exposes
  import audiolazy
  res = []
  for keys in audiolazy.window.keys():
    fn = audiolazy.window[keys[0]]
    res.append((list(keys), bool(getattr(fn, "__defaults__", None))))
  return sorted(res)


def alpha_value(a):
  """["int", k] | ["float", hex] | ["frac", num, den] (dyadic only: then Fraction and float arithmetic agree) | ["bool", b]"""
  if a is None:
    return None
  if a[0] == "int":
    return int(a[1])
  if a[0] == "frac":
    return Fraction(a[1], a[2])
  if a[0] == "bool":
    return bool(a[1])
  return float.fromhex(a[1])


def enc_sample(v):
  if isinstance(v, bool):
    return ["o"]
  if isinstance(v, float):
    return ["f", v.hex()]
  if isinstance(v, int):
    return ["i", v]
  if isinstance(v, complex):
    return ["c"]
  return ["o"]


class Recorder(object):
  def __init__(self, fn, log):
    self.fn, self.log = fn, log

  def __call__(self, x):
    r = self.fn(x)
    if isinstance(r, float):
      try:
        self.log.append((float(x).hex(), r.hex()))
      except Exception:
        pass
    return r


class recording(object):
  """Context manager: while active, the cos / sin names seen by the generated function `fn` (and by every
  function it wraps, following __wrapped__) are replaced by recorders."""
  def __init__(self, fn, coslog, sinlog):
    self.fn, self.logs, self.saved = fn, (("cos", coslog), ("sin", sinlog)), []

  def __enter__(self):
    f, seen = self.fn, set()
    while f is not None and id(f) not in seen and len(seen) < 10:
      seen.add(id(f))
      g = getattr(f, "__globals__", None)
      if isinstance(g, dict) and not any(g is sg for sg, _, _ in self.saved):
        for k, log in self.logs:
          if k in g and callable(g[k]) and not isinstance(g[k], Recorder):
            self.saved.append((g, k, g[k]))
            g[k] = Recorder(g[k], log)
      f = getattr(f, "__wrapped__", None)
    return self

  def __exit__(self, *exc):
    for g, k, v in self.saved:
      g[k] = v
    return False


def call_recorded(sd, name, size, alpha, coslog, sinlog, raw=None, kw=False):
  try:
    fn = sd[name]
  except Exception as e:
    return {"raise": type(e).__name__}
  try:
    with recording(fn, coslog, sinlog):
      out = fn(size) if alpha is None else (fn(size, alpha=alpha) if kw else fn(size, alpha))
    if raw is not None:
      raw.append(out)
    if not isinstance(out, list):
      return {"raise": "NotAList:" + type(out).__name__}
    return {"list": [enc_sample(v) for v in out]}
  except Exception as e:
    return {"raise": type(e).__name__}


def pow_table(name, alpha, coslog, sinlog):
  """math.pow on everything a ** could have been applied to (independent of the outputs)"""
  import audiolazy
  a = alpha
  if a is None:
    try:
      f = audiolazy.window[name]
      while getattr(f, "__defaults__", None) is None and hasattr(f, "__wrapped__"):
        f = f.__wrapped__
      dfl = f.__defaults__
      a = dfl[0] if dfl else None
    except Exception:
      a = None
  powlog = []
  if a is not None:
    seen = set()
    for _, r in sinlog + coslog:
      for b in (float.fromhex(r), abs(float.fromhex(r))):
        if b.hex() in seen:
          continue
        seen.add(b.hex())
        try:
          powlog.append([b.hex(), float(a).hex(), math.pow(b, float(a)).hex()])
        except Exception:
          pass
  return powlog


def dedup(log):
  res, seen = [], set()
  for kv in log:
    if kv[0] not in seen:
      seen.add(kv[0]); res.append(list(kv))
  return res


def run_win(c):
  import audiolazy
  name, size, alpha = c["name"], c["size"], alpha_value(c["alpha"])
  if c.get("size_bool"):
    size = bool(size)        # True == 1: xrange(True), True == 1 in the special case, True + 1 == 2
  coslog, sinlog = [], []
  w = call_recorded(audiolazy.window, name, size, alpha, coslog, sinlog)
  s = call_recorded(audiolazy.wsymm, name, size + 1, alpha, coslog, sinlog)
  o = call_recorded(audiolazy.wsymm, name, 1, alpha, coslog, sinlog)
  return {"win": w, "sym": s, "one": o, "cos": dedup(coslog), "sin": dedup(sinlog),
          "pow": pow_table(name, alpha, coslog, sinlog)}


def flit(h):
  x = float.fromhex(h)
  if x != x:
    return "nan"
  if x in (float("inf"), float("-inf")):
    return "infinity" if x > 0 else "neg_infinity"
  return "(%s)%%float" % h


def pyval_lit(s):
  if s[0] == "f":
    return "PFlt %s" % flit(s[1])
  if s[0] == "i":
    return "PInt %s" % L.z(s[1])
  return "PCplx"


def res_lit(r):
  if "list" not in r:
    return "None"
  return "(Some %s)" % L.lst([pyval_lit(s) for s in r["list"]])


def alpha_lit(a):
  if a is None:
    return "None"
  if a[0] in ("int", "bool"):
    return "(Some (PInt %s))" % L.z(int(a[1]))
  if a[0] == "frac":     # dyadic: the model computes with the equal float
    return "(Some (PFlt %s))" % flit(float(Fraction(a[1], a[2])).hex())
  return "(Some (PFlt %s))" % flit(a[1])


def lit_win(c, o):
  if "win" not in o:      # the harness itself failed / timed out
    o = {"win": {"raise": "?"}, "sym": {"raise": "?"}, "one": {"raise": "?"}, "cos": [], "sin": [], "pow": []}
  t1 = lambda tab: L.lst(["(%s, %s)" % (flit(k), flit(v)) for k, v in tab])
  t2 = L.lst(["(%s, %s, %s)" % (flit(a), flit(b), flit(v)) for a, b, v in o["pow"]])
  return "(WC %s %s %s %s %s %s %s %s %s)" % (
    L.string(c["name"]), L.z(c["size"]), alpha_lit(c["alpha"]), t1(o["cos"]), t1(o["sin"]), t2,
    res_lit(o["win"]), res_lit(o["sym"]), res_lit(o["one"]))


def prescreen():
  """Cheap sweep in Python over every name and size 1..256 (default alpha): returns the (name, size) pairs on
  which anything the property states looks wrong, so that they are put in front of Coq."""
  import audiolazy
  sus = []
  for names, _ in rows():
    for name in names:
      for size in range(1, 257):
        try:
          w = audiolazy.window[name](size)
          s = audiolazy.wsymm[name](size + 1)
          ok = (len(w) == size and len(s) == size + 1 and all(type(x) is float for x in w + s)
                and [x.hex() for x in w] == [x.hex() for x in s[:size]]
                and all(0.0 <= x <= 1.0 for x in w)
                and all(abs(Fraction(x) - Fraction(y)) <= Fraction(size + 1, 2 ** 45) for x, y in zip(s, s[::-1])))
        except Exception:
          ok = False
        if not ok:
          sus.append((name, size))
          break      # one size per name is enough
  return sus


def gen_win(tier, rng):
  rs = rows()
  for name, size in prescreen():
    yield {"name": name, "size": size, "alpha": None, "tags": ["prescreen"]}
  small = 24 if tier == "quick" else 64
  for names, has_alpha in rs:
    p = names[0]
    alphas = [None] + (ALPHA_POOL.get(p, [["int", 1], ["float", (0.5).hex()]]) if has_alpha else [])
    for size in range(0, small + 1):
      for a in alphas:
        if tier == "quick" and a is not None and size > 12 and (size + len(a[1] if a[0] == "float" else "x")) % 3:
          continue
        yield {"name": p, "size": size, "alpha": a, "tags": ["small", "name=" + p, "alpha" if a else "default"]}
    for al in names[1:]:
      for size in (1, 2, 5, 8):
        yield {"name": al, "size": size, "alpha": None, "tags": ["alias", "name=" + p]}
    yield {"name": p, "size": -1, "alpha": None, "tags": ["negative-size"]}
    yield {"name": p, "size": 1, "size_bool": True, "alpha": None, "tags": ["bool-size"]}
    if not has_alpha:
      yield {"name": p, "size": 4, "alpha": ["int", 1], "tags": ["unexpected-alpha"]}
  for bogus in ("hamm", "symm", "periodic"):
    yield {"name": bogus, "size": 3, "alpha": None, "tags": ["absent-name"]}
  if tier == "quick":
    for _ in range(60):
      names, has_alpha = rng.choice(rs)
      a = rng.choice([None] + ALPHA_POOL.get(names[0], [])) if has_alpha else None
      yield {"name": rng.choice(names), "size": rng.randrange(small + 1, 257), "alpha": a,
             "tags": ["large", "name=" + names[0]]}
  else:
    for names, has_alpha in rs:
      for size in range(small + 1, 257):
        yield {"name": names[0], "size": size, "alpha": None, "tags": ["large", "name=" + names[0]]}
        if has_alpha and size % 4 == 0:
          yield {"name": names[0], "size": size, "alpha": rng.choice(ALPHA_POOL.get(names[0], [["int", 1]])),
                 "tags": ["large", "alpha", "name=" + names[0]]}


def nontrivial_win(c, o):
  return c["size"] >= 3 and "list" in o.get("win", {}) and "list" in o.get("sym", {}) and c["name"] not in ("hamm", "symm", "periodic")


# ------------------------------------------------------------------------------------------------ dict family
def observe_dicts():
  import audiolazy
  w, s = audiolazy.window, audiolazy.wsymm
  objs = []

  def oid(x):
    for i, y in enumerate(objs):
      if y is x:
        return i
    objs.append(x)
    return len(objs) - 1
  wd, sd = [], []
  for keys in w.keys():
    for k in keys:
      wd.append([k, oid(w[k])])
  for keys in s.keys():
    for k in keys:
      sd.append([k, oid(s[k])])
  attrs = []
  i = 0
  while i < len(objs) and i < 200:
    x = objs[i]
    p = getattr(x, "periodic", None); q = getattr(x, "symm", None)
    attrs.append([i, None if p is None else oid(p), None if q is None else oid(q)])
    i += 1
  top = [getattr(w, "symm", None) is s, getattr(s, "symm", None) is s,
         getattr(w, "periodic", None) is w, getattr(s, "periodic", None) is w]
  return {"window": sorted(wd), "wsymm": sorted(sd), "attrs": attrs, "top": top}


def gen_dict(tier, rng):
  import audiolazy
  names = []
  for ns, _ in rows():
    names += ns
  for sd in (audiolazy.window, audiolazy.wsymm):
    for keys in sd.keys():
      names += [k for k in keys if isinstance(k, str)]
  seen = []
  for n in names + ["hamm", "symm", "periodic", "default", "window"]:
    if n not in seen:
      seen.append(n)
      yield {"name": n, "tags": ["name"]}


def run_dict(c):
  return observe_dicts()


def lit_dict(c, o):
  if "window" not in o:
    o = {"window": [], "wsymm": [], "attrs": [], "top": []}
  ok = lambda k: isinstance(k, str) and all(32 <= ord(ch) < 127 and ch not in '"\\' for ch in k)
  d = lambda tab: L.lst(["(%s, %s)" % (L.string(k if ok(k) else "?"), L.nat(v)) for k, v in tab])
  on = lambda x: L.option(x, L.nat)
  attrs = L.lst(["(%s, (%s, %s))" % (L.nat(i), on(p), on(q)) for i, p, q in o["attrs"]])
  return "(DC %s %s %s %s %s)" % (L.string(c["name"]), d(o["window"]), d(o["wsymm"]), attrs,
                                  L.lst([L.boolean(b) for b in o["top"]]))


def nontrivial_dict(c, o):
  for ns, _ in rows():
    if c["name"] in ns:
      return len(ns) > 1
  return False


# ------------------------------------------------------------------------------------------------ hist family
# A history of uses inside one process.  Steps:
#   ["call", "window"|"wsymm", name, size, alpha]    call the strategy, keep (a copy of) what it returned
#   ["mutate", k]                                    overwrite in place the list returned by the k-th call
#   ["ola", "window"|"wsymm", name, size, div]       overlap_add.list(blocks, hop=size//div, wnd=sd[name], normalize=True)
def gen_hist(tier, rng):
  for c in gen_hist_params(tier, rng):
    yield c
  rs = rows()
  sizes = (8, 12) if tier == "quick" else (4, 8, 12, 16, 20, 32)
  for names, has_alpha in rs:
    p = names[0]
    variants = [(p, None)]
    if len(names) > 1:
      variants.append((names[-1], None))
    if has_alpha:
      variants.append((p, ALPHA_POOL.get(p, [["int", 1]])[1]))
    for size in sizes:
      for nm, a in variants:
        yield {"steps": [["call", "window", nm, size, a], ["call", "window", nm, size, a],
                         ["call", "wsymm", nm, size + 1, a], ["call", "wsymm", nm, size + 1, a]],
               "tags": ["twice", "name=" + p]}
        yield {"steps": [["call", "window", nm, size, a], ["mutate", 0], ["call", "window", nm, size, a],
                         ["call", "wsymm", nm, size + 1, a], ["mutate", 2], ["call", "wsymm", nm, size + 1, a],
                         ["call", "window", nm, size, a]],
               "tags": ["mutate-result", "name=" + p]}
      for div in (4, 2):
        yield {"steps": [["call", "window", p, size, None], ["ola", "window", p, size, div],
                         ["call", "window", p, size, None], ["call", "wsymm", p, size + 1, None]],
               "tags": ["ola-between", "name=" + p, "div=%d" % div]}
        yield {"steps": [["ola", "window", p, size, div], ["call", "window", p, size, None],
                         ["call", "wsymm", p, size + 1, None]],
               "tags": ["ola-first", "name=" + p, "div=%d" % div]}
        yield {"steps": [["call", "wsymm", p, size + 1, None], ["ola", "wsymm", p, size + 1, div],
                         ["call", "wsymm", p, size + 1, None], ["call", "window", p, size, None]],
               "tags": ["ola-wsymm", "name=" + p, "div=%d" % div]}


# alpha values for the parameter histories: per alpha strategy, [default-equal, others...]; dyadic Fractions / bools
# only where Fraction or bool arithmetic gives the same binary64 as the float model
HIST_ALPHAS = {
  "blackman": {"default": ["float", (0.16).hex()],
               "other": [["float", (0.3).hex()], ["float", (0.05).hex()], ["int", 0], ["float", (0.25).hex()]],
               "equal": [["float", (0.25).hex()], ["frac", 1, 4]],
               "equal2": [["int", 0], ["bool", 0], ["float", (0.0).hex()], ["float", (-0.0).hex()], ["frac", 0, 1]]},
  "cos": {"default": ["int", 1],
          "other": [["int", 2], ["float", (0.5).hex()], ["int", 3], ["float", (1.5).hex()]],
          "equal": [["int", 1], ["float", (1.0).hex()], ["bool", 1], ["frac", 1, 1]],
          "equal2": [["int", 2], ["float", (2.0).hex()], ["frac", 2, 1]]},
}


def gen_hist_params(tier, rng):
  """Histories of 2-5 calls of ONE strategy with ONE size that differ only in alpha and in how it is passed
  (positional / keyword / default / explicit value equal to the default / int, float, bool, Fraction that compare
  equal), in both dictionaries; and primary / alias interleavings."""
  rs = rows()
  sizes = (3, 16) if tier == "quick" else (1, 2, 3, 8, 16, 33)
  for names, has_alpha in rs:
    p = names[0]
    if has_alpha:
      h = HIST_ALPHAS.get(p)
      if h is None:
        h = {"default": None, "other": [["int", 1], ["int", 2], ["float", (0.5).hex()]], "equal": [["int", 1], ["float", (1.0).hex()]],
             "equal2": [["int", 2], ["float", (2.0).hex()]]}
      d, o = h["default"], h["other"]
      for size in sizes:
        for sd, sz in (("window", size), ("wsymm", size + 1)):
          c = lambda a, mode="pos": ["call", sd, p, sz, a, mode]
          hs = [
            ("default-then-kw", [c(None), c(o[0], "kw"), c(o[1], "kw"), c(None)]),
            ("kw-kw-kw", [c(o[0], "kw"), c(o[1], "kw"), c(o[0], "kw"), c(o[2], "kw")]),
            ("pos-then-kw", [c(o[0]), c(o[1], "kw"), c(o[0], "kw"), c(o[1])]),
            ("kw-then-pos", [c(o[1], "kw"), c(o[0]), c(None), c(o[2])]),
            ("equal-types", [c(a, m) for a in h["equal"] for m in ("pos", "kw")][:6] + [c(o[3], "kw")]),
            ("equal-types2", [c(a, "kw") for a in h["equal2"]] + [c(o[0], "kw")] + [c(a) for a in h["equal2"][:2]]),
          ]
          if d is not None:
            hs.append(("explicit-default", [c(o[0], "kw"), c(d, "kw"), c(None), c(d), c(o[0])]))
          for tag, steps in hs:
            yield {"steps": steps, "tags": ["params", tag, "name=" + p, sd]}
        # both dictionaries in one history: the prefix relation with alpha given by keyword after other alphas
        yield {"steps": [["call", "window", p, size, None, "pos"], ["call", "wsymm", p, size + 1, None, "pos"],
                         ["call", "window", p, size, o[0], "kw"], ["call", "wsymm", p, size + 1, o[0], "kw"],
                         ["call", "wsymm", p, size + 1, o[1], "kw"], ["call", "window", p, size, o[1], "kw"]],
               "tags": ["params", "prefix-kw", "name=" + p]}
        yield {"steps": [["call", "window", p, size, None, "pos"], ["call", "window", p, size, o[0], "kw"],
                         ["call", "wsymm", p, size + 1, o[0], "kw"]], "tags": ["params", "prefix-kw-one-side", "name=" + p]}
        yield {"steps": [["call", "wsymm", p, size + 1, o[1], "kw"], ["call", "wsymm", p, size + 1, o[0], "kw"],
                         ["call", "window", p, size, o[0], "kw"]], "tags": ["params", "prefix-kw-one-side", "name=" + p]}
    if len(names) > 1:
      for size in sizes:
        steps = []
        for nm in names + names[::-1]:
          steps.append(["call", "window", nm, size, None, "pos"])
          steps.append(["call", "wsymm", nm, size + 1, None, "pos"])
        yield {"steps": steps[:8], "tags": ["aliases-interleaved", "name=" + p]}
    # a refused call (ZeroDivisionError for a negative power of 0, TypeError for an unexpected / unusable argument)
    # must leave the strategy as it was: keep using it afterwards
    if has_alpha:
      bad = ["int", -1]
      yield {"steps": [["call", "window", p, 6, bad, "pos"], ["call", "window", p, 6, None, "pos"],
                       ["call", "window", p, 6, bad, "kw"], ["call", "window", p, 6, ["int", 2], "kw"],
                       ["call", "wsymm", p, 7, bad, "kw"], ["call", "wsymm", p, 7, ["int", 2], "pos"],
                       ["call", "wsymm", p, 7, None, "pos"]],
             "tags": ["error-then-use", "name=" + p]}
    else:
      yield {"steps": [["call", "window", p, 6, None, "pos"], ["call", "window", p, 6, ["int", 1], "pos"],
                       ["call", "window", p, 6, None, "pos"], ["call", "wsymm", p, 7, ["int", 1], "kw"],
                       ["call", "wsymm", p, 7, None, "pos"]],
             "tags": ["error-then-use", "name=" + p]}
    # same strategy, shorter then longer then shorter again
    yield {"steps": [["call", "window", p, 4, None, "pos"], ["call", "window", p, 9, None, "pos"],
                     ["call", "window", p, 4, None, "pos"], ["call", "wsymm", p, 5, None, "pos"],
                     ["call", "wsymm", p, 10, None, "pos"], ["call", "wsymm", p, 4, None, "pos"]],
           "tags": ["sizes-interleaved", "name=" + p]}


def run_hist(c):
  import audiolazy
  from audiolazy import Stream, overlap_add, inf
  dicts = {"window": audiolazy.window, "wsymm": audiolazy.wsymm}
  coslog, sinlog = [], []
  raws, outs = [], []       # raws keeps every returned object alive, so that `is` means something
  powlog = []
  for st in c["steps"]:
    if st[0] == "call":
      sd, name, size, a = st[1:5]
      raw = []
      r = call_recorded(dicts[sd], name, size, alpha_value(a), coslog, sinlog, raw, kw=(len(st) > 5 and st[5] == "kw"))
      obj = raw[0] if raw else None
      r["aliased"] = obj is not None and any(obj is x for x in raws)
      raws.append(obj)
      outs.append(r)
      av = alpha_value(a)
      powlog += pow_table(name, None if av is None else (float(av) if not isinstance(av, bool) else int(av)), coslog, sinlog)
    elif st[0] == "mutate":
      obj = raws[st[1]] if st[1] < len(raws) else None
      try:
        if isinstance(obj, list):
          obj[:] = [3.25 + k for k in range(len(obj))]
        outs.append({"other": "mutated"})
      except Exception as e:
        outs.append({"other": "raise " + type(e).__name__})
    else:
      _, sd, name, size, div = st
      hop = max(1, size // div)
      try:
        fn = dicts[sd][name]
        sig = [((7 * k) % 11 - 5) / 8.0 for k in range(6 * size)]
        with recording(fn, coslog, sinlog):
          blks = Stream(sig).blocks(size=size, hop=hop)
          res = overlap_add.list(blks, hop=hop, wnd=fn, normalize=True).take(inf)
        outs.append({"other": "ola %d" % len(res)})
      except Exception as e:
        outs.append({"other": "raise " + type(e).__name__})
  seen, pw = set(), []
  for t in powlog:
    if (t[0], t[1]) not in seen:
      seen.add((t[0], t[1])); pw.append(t)
  return {"outs": outs, "cos": dedup(coslog), "sin": dedup(sinlog), "pow": pw}


def lit_hist(c, o):
  if "outs" not in o:
    o = {"outs": [{"raise": "?"} if st[0] == "call" else {"other": "?"} for st in c["steps"]], "cos": [], "sin": [], "pow": []}
  steps = []
  for st, r in zip(c["steps"], o["outs"]):
    if st[0] == "call":
      steps.append("HCall %s %s %s %s %s %s" % ("Window" if st[1] == "window" else "Wsymm", L.string(st[2]), L.z(st[3]),
                                                alpha_lit(st[4]), res_lit(r), L.boolean(r.get("aliased", False))))
    else:
      steps.append("HOther")
  t1 = lambda tab: L.lst(["(%s, %s)" % (flit(k), flit(v)) for k, v in tab])
  t2 = L.lst(["(%s, %s, %s)" % (flit(a), flit(b), flit(v)) for a, b, v in o["pow"]])
  return "(HC %s %s %s %s)" % (t1(o["cos"]), t1(o["sin"]), t2, L.lst(steps))


def nontrivial_hist(c, o):
  varied = any(st[0] != "call" for st in c["steps"]) or len(set(json.dumps(st[4:]) for st in c["steps"])) > 1
  return varied and all("list" in r for r in o.get("outs", []) if "other" not in r)


IMPORTS = ("From Coq Require Import Floats.PrimFloat.\n"
           "From AL Require Import C14.Model C14.Gen_Windows C14.Spec C14.Check.")
FAMILIES = {
  "win": Family("win", IMPORTS, "wcase", "corr_win", "holds_win", gen_win, run_win, lit_win, nontrivial_win),
  "dict": Family("dict", IMPORTS, "dcase", "corr_dict", "holds_dict", gen_dict, run_dict, lit_dict, nontrivial_dict),
  "hist": Family("hist", IMPORTS, "hcase", "corr_hist", "holds_hist", gen_hist, run_hist, lit_hist, nontrivial_hist),
}


# ------------------------------------------------------------------------------------------------ enclosures
ENCL_ALPHAS = {   # inside the documented domains only
  "blackman": [None, ["float", (0.16).hex()], ["float", (2.0 * 1430 / 18608).hex()], ["int", 0],
               ["float", (0.25).hex()], ["float", (-0.25).hex()], ["float", (0.1).hex()]],
  "cos": [None, ["int", 1], ["int", 0], ["int", 2], ["int", 3], ["float", (1.5).hex()], ["float", (2.5).hex()],
          ["float", (0.5).hex()]],
}
ENCL_PER_FILE = 120
# documented closed forms (C14/Spec.v); blackman and cos take alpha first
DOC = {"hann": "doc_hann", "hamming": "doc_hamming", "rect": "doc_rect", "bartlett": "doc_bartlett",
       "triangular": "doc_triangular", "blackman": "doc_blackman", "cos": "doc_cos"}


def has_pow(t):
  if t[0] == "bin" and t[1] == "Bpow":
    return True
  return any(has_pow(x) for x in t[1:] if isinstance(x, (tuple, list)))


BIG_SIZES = [96, 97, 128, 129, 200, 201, 255, 256]


def pick_ns(size):
  return sorted(set(n for n in (0, 1, size // 3, size // 2, size - 1) if 0 <= n < size))


def encl_cases(tier, rng):
  """(name, symm, size, alpha, n): sample n of window[name](size) or wsymm[name](size).
  quick: per strategy and dictionary sizes 1, 2, two odd and two even sizes <= 64, one odd and one even size up to
  256 (seeded), a few n each; widened (quick, but something no longer checks): every size 1..64 and BIG_SIZES, default
  alpha, 5 positions each; thorough: every n of every size <= 32, 5 positions of every size 33..64 and of BIG_SIZES,
  the other alphas on a third of the sizes <= 32."""
  d = TABLE["data"]
  if d is None:
    return []
  combos = []
  for r in d["rows"]:
    p = r["names"][0]
    alphas = ENCL_ALPHAS.get(p, [None, ["int", 1]]) if r["default"] is not None else [None]
    for symm in (False, True):
      if symm and not r["distinct"]:
        continue
      if tier == "quick":
        sizes = [1, 2] + rng.sample(range(3, 65, 2), 2) + rng.sample(range(4, 65, 2), 2) + \
                [rng.randrange(65, 256, 2), rng.randrange(66, 257, 2)]
        for size in sizes:
          a = rng.choice(alphas)
          ns = pick_ns(size)
          ns = set(rng.sample(ns, min(2, len(ns))) + [rng.randrange(size)])
          combos += [(p, symm, size, a, n) for n in sorted(ns)]
      elif tier == "widened":
        for size in list(range(1, 65)) + BIG_SIZES:
          combos += [(p, symm, size, None, n) for n in pick_ns(size)]
      else:
        for size in list(range(1, 65)) + BIG_SIZES:
          for ai, a in enumerate(alphas):
            if ai > 0 and (size % 3 != ai % 3 or size > 32):
              continue
            ns = range(size) if size <= 32 else pick_ns(size)
            combos += [(p, symm, size, a, n) for n in ns]
  return combos


def extra(chk, tier, rng):
  """Interval enclosures: every selected observed sample against the REAL value of the documented closed form
  (Coq goal `encl doc_X n size v tol`, closed by the interval tactic).  A goal that does not check is a
  concrete failing sample."""
  import audiolazy
  d = TABLE["data"]
  if d is None:
    return
  rows_by = dict((r["names"][0], r) for r in d["rows"])
  tmpl = {False: d["tmpl_window"], True: d["tmpl_wsymm"]}
  cache = {}
  goals = []      # (case dict, coq text)
  t0 = time.time()
  skipped = 0
  def fresh_samples():
    # when something no longer checks (broken proof / tie / translator), look for a concrete sample everywhere
    mode = "widened" if (tier == "quick" and (chk.broken or chk.violations)) else tier
    for p, symm, size, a, n in encl_cases(mode, rng):
      sd = audiolazy.wsymm if symm else audiolazy.window
      key = (p, symm, size, json.dumps(a))
      if key not in cache:
        try:
          cache[key] = sd[p](size) if a is None else sd[p](size, alpha_value(a))
        except Exception as e:
          cache[key] = e
      yield ({"name": p, "dict": "wsymm" if symm else "window", "size": size, "alpha": a, "n": n},
             p, symm, size, a, n, cache[key])

  for case, p, symm, size, a, n, out in list(fresh_samples()) + list(history_samples(tier, rng, d)):
    r = rows_by[p]
    if isinstance(out, Exception) or not isinstance(out, list) or len(out) != size or type(out[n]) is not float \
       or out[n] != out[n] or out[n] in (float("inf"), float("-inf")):
      chk.violations.append({"family": "encl", "case": case, "model_agrees": False,
                             "observed": {"not a finite float sample": repr(out if isinstance(out, Exception) else out[n:n + 1])}})
      continue
    special, tsize, tcount = tmpl[symm]
    if special is not None and size == special[0]:
      skipped += 1      # the constant special case: decided exactly by the correspondence family
      continue
    esize = eval_sexpr(tsize, size)
    if has_pow(r["formula"]) and (n == 0 or n == esize):
      skipped += 1      # base of the power exactly 0 over R: decided by the exact correspondence only
      continue
    if a is None and r["default"] is not None:
      av = Fraction(r["default"][1], r["default"][2]) if r["default"][0] == "dec" else Fraction(r["default"][1])
      if r["default"][0] == "dec":
        av = Fraction(r["default"][3])       # the float the code really uses
    elif a is None:
      av = Fraction(0)
    else:
      av = Fraction(alpha_value(a))
    tol = Fraction(1, 2 ** 45)
    if p == "cos" and 0 < av < 1:
      tol = Fraction(1, 2 ** 20)
    v = Fraction(out[n])
    case["value"] = out[n].hex()
    if p not in DOC:
      chk.broken.append(("tie", "enclosure", "no documented closed form for strategy %r in C14/Spec.v" % p))
      continue
    w = DOC[p] if r["default"] is None else "(%s (%d / %d))" % (DOC[p], av.numerator, av.denominator)
    goals.append((case, "Goal encl %s (%d) (%d) (%d / %d) (%d / %d). Proof. encl_tac. Qed."
                  % (w, n, esize, v.numerator, v.denominator, tol.numerator, tol.denominator)))
  os.makedirs(chk.bdir, exist_ok=True)
  for old in os.listdir(chk.bdir):
    if old.startswith("encl_"):
      os.remove(os.path.join(chk.bdir, old))
  files = []
  header = ["From Coq Require Import Reals ZArith.", "From AL Require Import C14.Model C14.Spec C14.Encl.",
            "Open Scope R_scope."]
  for k in range(0, len(goals), ENCL_PER_FILE):
    path = os.path.join(chk.bdir, "encl_%d.v" % (k // ENCL_PER_FILE))
    with open(path, "w") as f:
      f.write("\n".join(header + [g for _, g in goals[k:k + ENCL_PER_FILE]]) + "\n")
    files.append((k, path))
  results = chk._coqc_many([p for _, p in files])
  bad = 0
  for (k, path), (rc, out) in zip(files, results):
    if rc == 0:
      continue
    import re
    m = re.search(r'line (\d+), characters', out)
    idx = int(m.group(1)) - len(header) - 1 if m else -1
    if m and 0 <= idx < ENCL_PER_FILE and k + idx < len(goals) and \
       ("Numerical evaluation failed" in out or "Tactic failure" in out):
      bad += 1
      chk.violations.append({"family": "encl", "case": goals[k + idx][0], "model_agrees": False,
                             "observed": {"sample": goals[k + idx][0].get("value"),
                                          "goal": goals[k + idx][1][:400], "coq": out[-300:]}})
    else:
      chk.broken.append(("tie", "enclosure", "file %s did not compile: %s" % (os.path.basename(path), out[-600:])))
  fs = chk.stats["families"].setdefault("encl", {"cases": 0, "corr_bad": 0, "holds_bad": 0})
  fs["cases"] += len(goals); fs["holds_bad"] += bad; fs["skipped_exact_only"] = skipped
  fs["wall_s"] = round(time.time() - t0, 1)
  chk.stats["evaluations"] += len(goals)
  for case, _ in goals:
    chk.stats["tags"]["encl:name=" + case["name"]] += 1
    if case["n"] not in (0, case["size"] - 1):
      chk.stats["nontrivial_hashes"].add(hashlib.sha1(("encl" + json.dumps(case, sort_keys=True)).encode()).hexdigest())
  if goals:
    chk.stats["samples"].append({"family": "encl", "case": goals[len(goals) // 2][0], "observed": goals[len(goals) // 2][1][:300]})


def history_samples(tier, rng, d):
  """The parameter histories of the hist family, run again: one sample of EVERY call of the history against the
  documented closed form for the alpha that call asked for (the failing input is the whole history)."""
  import audiolazy
  dicts = {"window": audiolazy.window, "wsymm": audiolazy.wsymm}
  prim = {}
  for r in d["rows"]:
    for nm in r["names"]:
      prim[nm] = r["names"][0]
  for c in gen_hist_params(tier, rng):
    if "params" not in c["tags"]:
      continue
    for k, st in enumerate(c["steps"]):
      sd, name, size, a = st[1:5]
      try:
        fn = dicts[sd][name]
        av = alpha_value(a)
        out = fn(size) if a is None else (fn(size, alpha=av) if st[5] == "kw" else fn(size, av))
      except Exception as e:
        out = e
      if name not in prim or size < 3:
        continue
      n = max(1, size // 3)
      yield ({"history": c["steps"], "call": k, "name": prim[name], "dict": sd, "size": size, "alpha": a, "n": n},
             prim[name], sd == "wsymm", size, a, n, out)


def eval_sexpr(s, size):
  if s[0] == "SSize":
    return size
  if s[0] == "SInt":
    return s[1]
  a, b = eval_sexpr(s[1], size), eval_sexpr(s[2], size)
  return a + b if s[0] == "SAdd" else a - b
