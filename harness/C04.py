# -*- coding: utf-8 -*-
"""C04 - LinearFilter.__init__ / __call__ (code generator + generated generator function)
against C04.Model (codegen / run_gen) and the difference-equation spec.

Tie (a): audiolazy.lazy_filters._exec_eval is replaced (module attribute, in this process only)
by a recorder; the generated source text of every call is parsed by the fail-closed parser of
harness/C04_parse.py into the AST type of C04.Model and Coq checks codegen = captured.
Tie (b): the outputs, on ExactQ values and on LinForm symbolic samples (evaluated at the origin
and at every basis point, which determines the affine map), with list / generator / callable /
None memories."""
import itertools
from fractions import Fraction
from vlib.framework import Family
from vlib import coqlit as L
from vlib.exactq import ExactQ, LinForm, to_frac
from C04_parse import parse_program

PID = "C04"
PROP_FILES = ["Prop"]
ALLOWED_AXIOMS = []
EXTRA_COQ_DIRS = []
RULE = ("filters built by ZFilter / LinearFilter from coefficient lists, dicts (sparse delays up to 12, negative and "
        "shifted powers, explicit zeros, empty denominators), z-expressions, followed by item assignments on "
        "numpoly / denpoly; coefficients as ExactQ, int, float and fractions.Fraction; exhaustive small universe "
        "{0,1,-1,2,-1/2}^(<=3) x a0 in {1,-1,2,-1/3} (thorough: all 19220 filters; quick: a seeded sample) + seeded "
        "random; every filter is called with memory None / list / generator / callable (exact, longer, shorter), "
        "zero in {0, 0.0, 5/3}, input length 0..8 (list or generator), numeric ExactQ samples or LinForm symbolic "
        "samples. Every call contributes the captured program text (program equality) and the outputs. "
        "Non-trivial = a call that produced >= 3 outputs from a filter with feedback or >= 2 numerator terms.")
EXHAUSTIVE = {"quick": False, "thorough": True}
trusted_base = [
  "the generated program text is parsed by harness/C04_parse.py (regular grammar, fail-closed: any unexpected line, "
  "token or argument list is reported as a broken tie); Python's precedence of unary minus over '*' and the left "
  "associativity of '+' are built into C04.Model.eval_term / eval_sum",
  "sample values are exact rationals (ExactQ absorbs int / float operands exactly); symbolic samples are affine forms "
  "(LinForm raises on a product of two forms), compared at the origin and at every basis point",
  "constant coefficients only (a Stream coefficient is property C06); integer powers only",
]
ASSUMPTIONS = ["CPython semantics of exec / generators / tuple unpacking / chained assignment as documented",
               "str.format of int, float (repr round-trips) and ExactQ ('_Q(n,d)', injected in builtins by vlib.exactq)"]


def fr(x):
  x = Fraction(x)
  return [x.numerator, x.denominator]


def unfr(p):
  return Fraction(p[0], p[1])


# ----------------------------------------------------------------------------- coefficient objects
# a coefficient is [kind, n, d]: "q" ExactQ, "i" int (d == 1), "f" float (n/d exactly representable), "F" Fraction
def coef_obj(c):
  kind, n, d = c
  v = Fraction(n, d)
  if kind == "q":
    return ExactQ(v)
  if kind == "i":
    assert d == 1
    return int(n)
  if kind == "f":
    f = float(v)
    assert Fraction(f) == v
    return f
  if kind == "F":
    return v
  raise ValueError(kind)


def coef_val(c):
  return Fraction(c[1], c[2])


def mk_coef(kind, v):
  v = Fraction(v)
  if kind == "i" and v.denominator != 1:
    kind = "q"
  if kind == "f":
    try:
      ok = Fraction(float(v)) == v
    except OverflowError:
      ok = False
    if not ok:
      kind = "q"
  return [kind, v.numerator, v.denominator]


def arg_obj(a):
  """constructor argument: None | ["list", [coef...]] | ["dict", [[key, coef]...]]"""
  if a is None:
    return None
  if a[0] == "list":
    return [coef_obj(c) for c in a[1]]
  if a[0] == "dict":
    from collections import OrderedDict
    return OrderedDict((int(k), coef_obj(c)) for k, c in a[1])
  raise ValueError(a[0])


def arg_lit(a):
  if a is None:
    return "ANone"
  if a[0] == "list":
    return "(AList %s)" % L.lst([L.qc(coef_val(c)) for c in a[1]])
  return "(ADict %s)" % L.lst(["(%s, %s)" % (L.z(k), L.qc(coef_val(c))) for k, c in a[1]])


# ----------------------------------------------------------------------------- z-expressions
ZEXPRS = [
  "1 + z**-1",
  "(1 + z**-1) / (1 - z**-1)",
  "1 / (1 - Q(1,2) * z**-1)",
  "z**-2 * (1 - z**-1)",
  "z",
  "z**-1",
  "(z**-1 + z**-3) / (2 - z**-2)",
  "0 * z**-1",
  "z**-1 / (z**-1 + z**-2)",
  "(1 - z**-1)**2",
  "1 / (1 - z**-1)**2",
  "-z**-1 / (-1 + Q(1,3) * z**-2)",
  "(Q(2,3) - z**-1 + 3 * z**-4) / (Q(-1,3) + z**-1 - Q(1,2) * z**-3)",
  "1 - (1 + z**-1)",
  "(1 + z**-1) - 1",
  "z**-1 * z",
  "z**2 * z**-3 / (1 + .5 * z**-1)",
  "(2 + z**-1) / -1",
  "(z**-1) / (-1 - z**-1)",
  "z**-12 - z**-5",
  "1 / (z**-12 - 2)",
  "(1 + z**-1) / (z - 1)",
]


def zexpr_filter(text):
  import audiolazy
  return eval(text, {"z": audiolazy.z, "Q": ExactQ, "__builtins__": {}})


def data_items(poly):
  return [[int(k), fr(to_frac(v))] for k, v in poly._data.items()]


# ----------------------------------------------------------------------------- running one case
class _Obs(object):
  pass


def _sample(v, sym):
  """v = [n, d] numeric, or a variable name when sym"""
  if isinstance(v, str):
    return LinForm.var(v)
  return ExactQ(unfr(v))


def _zero_obj(zr):
  kind = zr[0]
  if kind == "sym":
    return LinForm.var("z")
  v = unfr(zr[1])
  if kind == "int":
    return int(v)
  if kind == "float":
    return float(v)
  if kind == "frac":
    return v
  return ExactQ(v)


def _ramp(base, more, less):
  def f(n):
    return [base + 10 * n + i for i in range(max(0, n + more - less))]
  return f


def _mem_obj(m):
  kind = m[0]
  if kind == "none":
    return None
  if kind == "list":
    return [_sample(v, True) for v in m[1]]
  if kind == "tuple":
    return tuple(_sample(v, True) for v in m[1])
  if kind == "gen":
    return (x for x in [_sample(v, True) for v in m[1]])
  if kind == "call":
    return _ramp(_sample(m[1], True), m[2], m[3])
  raise ValueError(kind)


def out_json(v):
  if isinstance(v, LinForm):
    return {"lin": {k: fr(c) for k, c in sorted(v.co.items())}}
  return fr(to_frac(v))


def run_call(c):
  import audiolazy
  import audiolazy.lazy_filters as lf
  b = c["build"]
  res = {"init": None, "runs": []}
  try:
    if b["kind"] == "zexpr":
      flt = zexpr_filter(b["text"])
      if not isinstance(flt, lf.LinearFilter):
        flt = lf.ZFilter(flt)
      res["num_data"] = data_items(flt.numpoly)
      res["den_data"] = data_items(flt.denpoly)
    else:
      cls = getattr(audiolazy, b.get("cls", "ZFilter"))
      num, den = arg_obj(b["num"]), arg_obj(b["den"])
      flt = cls(num) if (den is None and b.get("one_arg")) else cls(num, den)
    for which, k, cf in c.get("tamper", []):
      (flt.numpoly if which == "num" else flt.denpoly)[int(k)] = coef_obj(cf)
  except Exception as e:
    res["init"] = type(e).__name__
    return res
  captured = []
  orig = lf._exec_eval

  def recorder(data, expr):
    captured.append([data, expr])
    return orig(data, expr)

  lf._exec_eval = recorder
  try:
    for r in c["runs"]:
      del captured[:]
      xs = [_sample(v, True) for v in r["xs"]]
      seq = (x for x in xs) if r.get("xs_gen") else xs
      o = {}
      out = []
      try:
        stream = flt(seq, memory=_mem_obj(r["mem"]), zero=_zero_obj(r["zero"]))
      except Exception as e:
        o["raise"] = [1, type(e).__name__]
        stream = None
      if stream is not None:
        try:
          for v in stream:
            out.append(out_json(v))
            if len(out) > len(xs) + 3:
              break
          o["out"] = out
        except Exception as e:
          o["raise"] = [2 if not out else 3, type(e).__name__]
          o["partial"] = out
      if len(captured) == 0:
        o["prog"] = None
      elif len(captured) == 1 and captured[0][1] == "gen":
        o["text"] = captured[0][0]
        o["prog"] = parse_program(captured[0][0])
      else:
        o["prog"] = {"error": "%d programs / expr %r" % (len(captured), captured[0][1])}
      res["runs"].append(o)
  finally:
    lf._exec_eval = orig
  return res


# ----------------------------------------------------------------------------- Coq literals
def q(p):
  return "(qc (%d) %d)" % (p[0], p[1])


def prog_lit(p):
  if p is None:
    return "NoProg"
  if "error" in p:
    return "Unparsed"
  if "zero" in p:
    return "(Captured (PZero %s))" % q(p["zero"])
  terms = []
  for t in p["terms"]:
    if t[0] in ("D", "NegD", "M", "NegM"):
      terms.append("%s %s" % (t[0], L.nat(t[1])))
    else:
      terms.append("%s %s %s" % (t[0], q(t[2]), L.nat(t[1])))
  g = p["gain"]
  gain = {"one": "GOne", "neg": "GNeg"}.get(g[0]) or "(GDiv %s)" % q(g[1])
  pairs = lambda l: L.lst(["(%s, %s)" % (L.nat(i), L.nat(j)) for i, j in l])
  return "(Captured (PGen (Prog %s %s %s %s %s %s)))" % (
    L.lst([L.nat(i) for i in p["mvars"]]), L.lst([L.nat(i) for i in p["dvars"]]),
    L.lst(terms), gain, pairs(p["mshift"]), pairs(p["dshift"]))


def _points(c):
  """assignments of the symbolic variables at which a symbolic case is compared"""
  if not c.get("sym"):
    return [None]
  names = set()
  for r in c["runs"]:
    for v in r["xs"]:
      if isinstance(v, str): names.add(v)
    m = r["mem"]
    if m[0] in ("list", "tuple", "gen"):
      for v in m[1]:
        if isinstance(v, str): names.add(v)
    elif m[0] == "call" and isinstance(m[1], str):
      names.add(m[1])
    if r["zero"][0] == "sym":
      names.add("z")
  names = sorted(names)
  return [{}] + [{n: Fraction(1)} for n in names]


def _ev(v, pt):
  """value of a case sample (numeric pair or variable name) at the point pt"""
  if isinstance(v, str):
    return pt.get(v, Fraction(0))
  return unfr(v)


def _ev_out(v, pt):
  if isinstance(v, dict):
    tot = Fraction(0)
    for k, cf in v["lin"].items():
      tot += unfr(cf) * (Fraction(1) if k == "" else pt.get(k, Fraction(0)))
    return tot
  return unfr(v)


def lit_call(c, o):
  b = c["build"]
  if b["kind"] == "zexpr":
    if o.get("init") is None:
      num = "(ADict %s)" % L.lst(["(%s, %s)" % (L.z(k), q(v)) for k, v in o["num_data"]])
      den = "(ADict %s)" % L.lst(["(%s, %s)" % (L.z(k), q(v)) for k, v in o["den_data"]])
    else:   # a z-expression is expected to build: an exception can never agree with this literal
      num, den = "(AList [qc 1 1])", "(AList [qc 1 1])"
  else:
    num, den = arg_lit(b["num"]), arg_lit(b["den"])
  tam = L.lst(["(%s %s %s)" % ("SetNum" if w == "num" else "SetDen", L.z(k), L.qc(coef_val(cf)))
               for w, k, cf in c.get("tamper", [])])
  init = L.option(o.get("init"), L.string)
  runs = []
  for r, ro in zip(c["runs"], o.get("runs", [])):
    for pt in _points(c):
      pt = pt or {}
      m = r["mem"]
      if m[0] == "none":
        mem = "MNone"
      elif m[0] == "call":
        mem = "(MCall (ramp %s %s %s))" % (L.qc(_ev(m[1], pt)), L.nat(m[2]), L.nat(m[3]))
      else:
        mem = "(MIter %s)" % L.lst([L.qc(_ev(v, pt)) for v in m[1]])
      zr = r["zero"]
      zero = L.qc(pt.get("z", Fraction(0)) if zr[0] == "sym" else unfr(zr[1]))
      xs = L.lst([L.qc(_ev(v, pt)) for v in r["xs"]])
      if "out" in ro:
        ob = "(OOut %s)" % L.lst([L.qc(_ev_out(v, pt)) for v in ro["out"]])
      else:
        ob = "(ORaise %s %s)" % (L.nat(ro["raise"][0]), L.string(ro["raise"][1]))
      runs.append("(Run %s %s %s %s %s)" % (mem, zero, xs, prog_lit(ro.get("prog")), ob))
  return "(CC %s %s %s %s %s)" % (num, den, tam, init, L.lst(runs))


# ----------------------------------------------------------------------------- generators
SMALL = [Fraction(0), Fraction(1), Fraction(-1), Fraction(2), Fraction(-1, 2)]
A0S = [Fraction(1), Fraction(-1), Fraction(2), Fraction(-1, 3)]
ZEROS = [["int", fr(0)], ["float", fr(0)], ["q", fr(Fraction(5, 3))]]
XVALS = [Fraction(1), Fraction(-2), Fraction(3, 2), Fraction(5), Fraction(-7, 3), Fraction(4), Fraction(1, 5),
         Fraction(-6), Fraction(9, 4)]


def lm_guess(num, den):
  """memory size the filter will need (used only to choose memory lengths around it)"""
  def items(a, default):
    if a is None: return default
    if a[0] == "list": return [(i, coef_val(c)) for i, c in enumerate(a[1])]
    return [(k, coef_val(c)) for k, c in a[1]]
  d = [(k, v) for k, v in items(den, [(0, Fraction(1))]) if v != 0]
  if not d:
    return 0
  ks = [k for k, v in d]
  return max(ks) - min(ks)


def mk_run(rng, lm, sym=False, allzero=False, nmax=8, idx=0):
  n = rng.choice([0, 1, 2, 3, 4, 5, 6, nmax]) if rng.random() < 0.85 else rng.randrange(0, nmax + 1)
  if sym:
    xs = ["x%d" % i for i in range(n)]
  else:
    off = rng.randrange(len(XVALS))
    xs = [fr(XVALS[(off + i) % len(XVALS)] + (i // len(XVALS))) for i in range(n)]
  mk = rng.choice(["none", "list", "list", "gen", "call", "tuple"])
  ln = rng.choice([lm, lm, lm, lm + 2, max(0, lm - 1), 0, lm + 1])
  if mk in ("list", "gen", "tuple"):
    if sym:
      mem = [mk, ["m%d" % (i + 1) for i in range(ln)]]
    else:
      mem = [mk, [fr(Fraction(10 * (i + 1) + 1, (i % 3) + 1)) for i in range(ln)]]
  elif mk == "call":
    more, less = rng.choice([(0, 0), (0, 0), (2, 0), (0, 1), (1, 0), (0, 3)])
    mem = ["call", "c" if sym else fr(Fraction(rng.randrange(-5, 6), rng.choice([1, 2, 3]))), more, less]
  else:
    mem = ["none"]
  if sym and not allzero and rng.random() < 0.7:
    zero = ["sym", None]
  else:
    zero = rng.choice(ZEROS)
  return {"mem": mem, "zero": zero, "xs": xs, "xs_gen": rng.random() < 0.4}


def is_allzero(num, den):
  def vals(a):
    if a is None: return []
    if a[0] == "list": return [(i, coef_val(c)) for i, c in enumerate(a[1])]
    return [(k, coef_val(c)) for k, c in a[1]]
  nz = [v for k, v in vals(num) if v != 0]
  dz = [(k, v) for k, v in (vals(den) if den is not None else [(0, Fraction(1))]) if v != 0]
  return (not nz) and len(dz) <= 1


def kinds_for(rng):
  return rng.choice(["q", "q", "q", "i", "f", "mix"])


def conv(kind, v, rng):
  if kind == "mix":
    kind = rng.choice(["q", "i", "f"])
  return mk_coef(kind, v)


def gen_call(tier, rng):
  quick = tier == "quick"
  # ---- (1) exhaustive small universe
  bs = [list(t) for n in (1, 2, 3) for t in itertools.product(SMALL, repeat=n)]
  as_ = [[a0] + list(t) for a0 in A0S for n in (0, 1, 2) for t in itertools.product(SMALL, repeat=n)]
  keep = 1000.0 / (len(bs) * len(as_)) if quick else 1.0
  for b in bs:
    for a in as_:
      if keep < 1.0 and rng.random() > keep:
        continue
      kind = kinds_for(rng)
      num = ["list", [conv(kind, v, rng) for v in b]]
      den = ["list", [conv(kind, v, rng) for v in a]]
      sym = rng.random() < 0.25
      az = is_allzero(num, den)
      yield {"build": {"kind": "list", "num": num, "den": den, "cls": rng.choice(["ZFilter", "ZFilter", "LinearFilter"])},
             "tamper": [], "sym": sym, "runs": [mk_run(rng, lm_guess(num, den), sym, az)],
             "tags": ["exh", "sym" if sym else "num", "allzero" if az else "lb=%d,la=%d" % (len(b), len(a))]}
  # ---- (2) random sparse dicts, negative / shifted powers, explicit zeros, empty denominators
  n2 = 500 if quick else 7000
  pool = [Fraction(1), Fraction(-1), Fraction(0), Fraction(2), Fraction(-1, 2), Fraction(1, 3), Fraction(-5, 4),
          Fraction(3), Fraction(1, 10), Fraction(-7)]
  for i in range(n2):
    kind = kinds_for(rng)
    def rdict(maxterms, lo, hi, force0=False):
      nt = rng.randrange(0, maxterms + 1)
      keys = rng.sample(range(lo, hi + 1), min(nt, hi - lo + 1))
      if force0 and 0 not in keys:
        keys.append(0)
      if rng.random() < 0.5:
        keys.sort()
      return [[k, conv(kind, rng.choice(pool), rng)] for k in keys]
    shape = rng.random()
    if shape < 0.70:     # causal, a0 present
      num = ["dict", rdict(4, 0, 12)]
      den = ["dict", rdict(4, 0, 12, force0=True)]
      tag = "sparse"
    elif shape < 0.85:   # anything, including negative powers and denominators starting late
      num = ["dict", rdict(4, -3, 8)]
      den = ["dict", rdict(3, -2, 6)]
      tag = "wild"
    elif shape < 0.93:   # lists with leading zeros in the denominator, None arguments
      num = rng.choice([None, ["list", [conv(kind, rng.choice(pool), rng) for _ in range(rng.randrange(0, 5))]]])
      den = rng.choice([None, ["list", [conv(kind, 0, rng)] * rng.randrange(0, 3) +
                               [conv(kind, rng.choice(pool), rng) for _ in range(rng.randrange(0, 4))]]])
      tag = "lists0"
    else:                # dense higher order lists
      num = ["list", [conv(kind, rng.choice(pool), rng) for _ in range(rng.randrange(1, 8))]]
      den = ["list", [conv(kind, rng.choice(pool[:2] + pool[3:]), rng)] +
                     [conv(kind, rng.choice(pool), rng) for _ in range(rng.randrange(0, 7))]]
      tag = "dense"
    tam = []
    if rng.random() < 0.15:
      for _ in range(rng.randrange(1, 3)):
        tam.append([rng.choice(["num", "den"]), rng.choice([0, 0, 1, 2, -1, 5]), conv(kind, rng.choice(pool), rng)])
      tag += "+set"
    sym = rng.random() < 0.3 and not tam
    az = is_allzero(num, den) or bool(tam)
    lm = lm_guess(num, den)
    yield {"build": {"kind": "args", "num": num, "den": den, "cls": rng.choice(["ZFilter", "LinearFilter"]),
                     "one_arg": rng.random() < 0.5},
           "tamper": tam, "sym": sym,
           "runs": [mk_run(rng, lm, sym, az, nmax=8 if lm < 6 else 16) for _ in range(rng.choice([1, 1, 2]))],
           "tags": [tag, "sym" if sym else "num"]}
  # ---- (3) the refusals, systematically: assignments that zero a0 / add a negative power
  for num, den, tam in [
      ([1, 1], [1, -1], [["den", 0, 0]]), ([1], [2], [["den", 0, 0]]), ([1, 2], [1, 1, 1], [["den", 0, 0], ["num", -1, 1]]),
      ([1], [1], [["num", -1, 1]]), ([1], [1], [["den", -1, 1]]), ([1], [1, 1], [["num", -2, 3], ["num", -2, 0]]),
      ([0, 1], [1], [["num", 1, 0]]), ([1], [1, 2], [["den", 1, 0]]), ([1], [3], [["den", 0, 1]]),
      ([1, 1], [1, 1], [["den", 0, -1]]), ([2], [1, 0, 1], [["den", 2, -1], ["num", 3, -1]]), ([], [1], [["num", 2, 1]]),
      ([1], [0, 0, 1], []), ([0, 1], [0, 2], []), ([0, 0, 1], [0, 1, 1], []), ([1], [], []), ([1], [0, 0], []),
      ([], [], []), ([0], [1], []), ([0, 0], [5], []), ([], [1, 1], []), ([0], [1, 0], [])]:
    for rep in range(2):
      a = ["list", [mk_coef("q" if rep else "i", v) for v in num]]
      d = ["list", [mk_coef("q" if rep else "i", v) for v in den]]
      t = [[w, k, mk_coef("q" if rep else "i", v)] for w, k, v in tam]
      yield {"build": {"kind": "list", "num": a, "den": d, "cls": "ZFilter"}, "tamper": t, "sym": False,
             "runs": [mk_run(rng, 2, False, True) for _ in range(3)], "tags": ["refusals", "num"]}
  # ---- (4) z-expressions
  for text in ZEXPRS:
    for rep in range(2):
      sym = rep == 1
      yield {"build": {"kind": "zexpr", "text": text}, "tamper": [], "sym": sym,
             "runs": [mk_run(rng, rng.choice([0, 1, 2, 3, 12]), sym, True) for _ in range(2)],
             "tags": ["zexpr", "sym" if sym else "num"]}


def nontrivial_call(c, o):
  if o.get("init") is not None:
    return False
  for r, ro in zip(c["runs"], o.get("runs", [])):
    p = ro.get("prog")
    if "out" in ro and len(ro["out"]) >= 3 and p and "terms" in p:
      fb = any(t[0] in ("M", "NegM", "NegCoefM") for t in p["terms"])
      if fb or len(p["terms"]) >= 2:
        return True
  return False


# ----------------------------------------------------------------------------- fractions.Fraction coefficients
def gen_frac(tier, rng):
  F = lambda n, d=1: mk_coef("F", Fraction(n, d))
  I = lambda n: mk_coef("i", n)
  fixed = [
    ([I(1), F(1, 3)], None, [["int", fr(0)]]),                     # the recorded witness
    ([F(1, 2), F(-3, 4)], [F(1), F(1, 2)], [["int", fr(0)]]),      # dyadic: exact
    ([F(1)], [F(1, 3)], [["int", fr(0)]]),                         # gain 1/3 (fixed by 08abd6b: divided once)
    ([F(2, 3), F(1), F(-1)], [F(-1), F(1, 7)], [["float", fr(0)]]),
    ([F(1, 3)], [F(2), F(-1, 3), F(1, 5)], [["q", fr(Fraction(5, 3))]]),
    ([F(0)], None, [["frac", fr(Fraction(5, 3))]]),                # all-zero filter, Fraction zero: the second witness
    ([F(0)], None, [["frac", fr(Fraction(3, 4))]]),                # dyadic zero: exact
    ([], [F(1, 3)], [["frac", fr(Fraction(-2, 7))]]),
    ([I(1), I(2)], [I(1), I(-1)], [["frac", fr(Fraction(5, 3))]]), # Fraction zero in a normal filter: exact
    ([I(1), I(-1)], [I(-1), I(1)], [["frac", fr(Fraction(1, 3))]]),
  ]
  n = 60 if tier == "quick" else 600
  pool = [Fraction(1, 3), Fraction(-2, 3), Fraction(1, 2), Fraction(1), Fraction(-1), Fraction(5, 7), Fraction(0),
          Fraction(-3, 4), Fraction(1, 10), Fraction(7, 5)]
  cases = [(b, a, z, "fixed") for b, a, z in fixed]
  for _ in range(n):
    b = [F(*fr(rng.choice(pool))) for _ in range(rng.randrange(0, 4))]
    a = [F(*fr(rng.choice([p for p in pool if p != 0])))] + [F(*fr(rng.choice(pool))) for _ in range(rng.randrange(0, 3))]
    # a Fraction zero next to Fraction coefficients would make CPython multiply float by Fraction (float arithmetic on the
    # samples themselves): outside the two recorded signatures, so Fraction zeros go with the all-zero filter only
    z = [rng.choice(ZEROS)]
    cases.append((b, a, z, "random"))
  for _ in range(n // 6):
    b = [F(0)] * rng.randrange(0, 3)
    a = [F(*fr(rng.choice([p for p in pool if p != 0])))]
    z = [["frac", fr(rng.choice([Fraction(5, 3), Fraction(1, 4), Fraction(-2, 7), Fraction(3), Fraction(1, 10)]))]]
    cases.append((b, a, z, "random-allzero"))
  for b, a, zs, tag in cases:
    num = ["list", b]
    den = None if a is None else ["list", a]
    runs = []
    for z in zs:
      r = mk_run(rng, lm_guess(num, den), False, False)
      r["zero"] = z
      if len(r["xs"]) < 2:
        r["xs"] = [fr(x) for x in XVALS[:4]]
      runs.append(r)
    yield {"build": {"kind": "list", "num": num, "den": den, "cls": "ZFilter"}, "tamper": [], "sym": False,
           "runs": runs, "tags": ["fraction", tag]}


def _ref_filter(num, den, mem, zero, xs):
  """difference equation in exact arithmetic with the given coefficient tables (independent of Coq and of /repo)"""
  a0 = den.get(0, Fraction(0))
  lm = max(den) if den else 0
  ys = []
  X = lambda i: xs[i] if i >= 0 else zero
  Y = lambda i: ys[i] if i >= 0 else mem[-i - 1]
  for n in range(len(xs)):
    acc = sum(c * X(n - k) for k, c in num.items()) - sum(c * Y(n - k) for k, c in den.items() if k != 0)
    ys.append(acc / a0)
  return ys


def known_frac(c, o):
  """The two recorded findings, matched by signature: the observed outputs are the difference equation with every
  fractions.Fraction coefficient rounded to float (C04-fraction-coeff-float), resp. the all-zero filter yields
  float(zero) for a Fraction zero (C04-fraction-zero-float). Anything else is not known."""
  b = c["build"]
  if o.get("init") is not None or c.get("tamper") or b["kind"] != "list":
    return None
  num_c = b["num"][1]
  den_c = b["den"][1] if b["den"] is not None else [mk_coef("i", 1)]
  rnd = lambda cf: Fraction(float(coef_val(cf))) if cf[0] == "F" else coef_val(cf)
  if den_c and coef_val(den_c[0]) == 0:
    return None
  num = {k: rnd(cf) for k, cf in enumerate(num_c) if coef_val(cf) != 0}
  den = {k: rnd(cf) for k, cf in enumerate(den_c) if coef_val(cf) != 0}
  inexact_coef = any(cf[0] == "F" and rnd(cf) != coef_val(cf) for cf in num_c + den_c)
  allzero = not num and set(den) <= {0}
  ids = set()
  for r, ro in zip(c["runs"], o.get("runs", [])):
    if "out" not in ro:
      return None
    got = [unfr(v) for v in ro["out"]]
    zero = unfr(r["zero"][1])
    xs = [unfr(v) for v in r["xs"]]
    if allzero:
      zr = Fraction(float(zero)) if r["zero"][0] == "frac" else zero
      if got != [zr] * len(xs):
        return None
      if zr != zero:
        ids.add("C04-fraction-zero-float")
      continue
    lm = max(den)
    m = r["mem"]
    if m[0] == "none":
      mem = [zero] * lm
    elif m[0] == "call":
      mem = _ramp(unfr(m[1]), m[2], m[3])(lm)[:lm]
    else:
      mem = [unfr(v) for v in m[1]][:lm]
    mem = [zero] * (lm - len(mem)) + mem
    if got != _ref_filter(num, den, mem, zero, xs):
      return None
    if inexact_coef:
      ids.add("C04-fraction-coeff-float")
  if len(ids) == 1:
    return ids.pop()
  if len(ids) == 2:
    return "C04-fraction-coeff-float"
  return None


IMPORTS = "From AL Require Import C04.Model C04.Spec C04.Check."
FAMILIES = {
  "call": Family("call", IMPORTS, "ccase", "corr_call", "holds_call", gen_call, run_call, lit_call, nontrivial_call),
  "frac": Family("frac", IMPORTS, "ccase", "corr_call", "holds_call", gen_frac, run_call, lit_call, nontrivial_call,
                 known_frac),
}
