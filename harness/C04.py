# -*- coding: utf-8 -*-
"""C04 - LinearFilter.__init__ / __call__ (code generator + generated generator function)
against C04.Model (codegen / run_gen) and the difference-equation spec.

Tie (a): audiolazy.lazy_filters._exec_eval is replaced (module attribute, in this process only)
by a recorder; the generated source text of every call is parsed by the fail-closed parser of
harness/C04_parse.py into the AST type of C04.Model and Coq checks codegen = captured.
Tie (b): the outputs, on ExactQ values and on LinForm symbolic samples (evaluated at the origin
and at every basis point, which determines the affine map), with list / generator / callable /
None memories."""
import itertools, random
from fractions import Fraction
from vlib.framework import Family
from vlib import coqlit as L
from vlib.exactq import ExactQ, LinForm, to_frac
from C04_parse import parse_program

PID = "C04"
PROP_FILES = ["Prop"]
ALLOWED_AXIOMS = []
EXTRA_COQ_DIRS = []
RULE = ("filters built by ZFilter / LinearFilter from coefficient lists, dicts (sparse delays up to 12, negative and "
        "shifted powers, explicit zeros, empty denominators), z-expressions, followed by item assignments on "
        "numpoly / denpoly; coefficients as ExactQ, int, float and fractions.Fraction; exhaustive small universe "
        "{0,1,-1,2,-1/2}^(<=3) x a0 in {1,-1,2,-1/3} (thorough: all 19220 filters; quick: a seeded sample) + seeded "
        "random; every filter is called with memory None / list / generator / callable (exact, longer, shorter), "
        "zero in {0, 0.0, 5/3}, input length 0..8 (list or generator), numeric ExactQ samples or LinForm symbolic "
        "samples. Every call contributes the captured program text (program equality) and the outputs. "
        "Non-trivial = a call that produced >= 3 outputs from a filter with feedback or >= 2 numerator terms. "
        "Memory KINDS: None, list (exact / longer / shorter), tuple, deque (bounded and not), generator, iterator, "
        "Stream, thub, endless Stream, itertools.repeat, range, __iter__-only object, function, functools.partial, "
        "__call__-only object; positional / keyword / defaulted zero; int / bool / float input samples. Sparse "
        "filters of order 40..64 (program capture). Family hist: HISTORIES in one process - two calls given the same "
        "memory object (list of exactly the needed size, longer list, deque, tuple, shared iterator), two filters "
        "alive at once, results consumed alternately, the caller's list changed between the call and the reading, "
        "equal coefficients of different types (int / float / ExactQ), short then long inputs; every call must equal "
        "the per-call model on the contents its memory had when the call was made, and the argument objects are "
        "compared with what the caller put in them after everything was read; a refused call (noncausal / zero "
        "gain after an item assignment on the live filter) followed by the repaired filter and the same memory "
        "object; coefficients assigned between a call and the reading of its result (each call is judged on the "
        "tables the filter had when it was made); the same filter through ZFilter(filt) / LinearFilter(filt) / "
        "copy(). Number KINDS in the capture family: bool, -0.0, 1e40 / 1e-40 / -1e16 floats (exponent repr), "
        "10**30 / 2**63 ints as coefficients; False / -0.0 / Fraction(0) zero values. Family cplx: complex "
        "coefficients (exact Gaussian rationals and native complex: unit modulus 1j, -1j, 0.6+0.8j, 3/5+4/5j, "
        "real-valued complex 1+0j / -1+0j, zero 0j, general), complex a0, complex samples / memories / zero; holds "
        "= the difference equation in exact complex arithmetic on the implementation's outputs (CheckC.csat_b), "
        "corr = ModelC (same generator over Gaussian rationals) incl. the captured text with complex literals.")
EXHAUSTIVE = {"quick": False, "thorough": True}
trusted_base = [
  "the generated program text is parsed by harness/C04_parse.py (regular grammar, fail-closed: any unexpected line, "
  "token or argument list is reported as a broken tie); Python's precedence of unary minus over '*' and the left "
  "associativity of '+' are built into C04.Model.eval_term / eval_sum",
  "sample values are exact rationals (ExactQ absorbs int / float operands exactly); symbolic samples are affine forms "
  "(LinForm raises on a product of two forms), compared at the origin and at every basis point",
  "constant coefficients only (a Stream coefficient is property C06); integer powers only",
  "complex cases: C04.ModelC is a transcription of Model.codegen / run_gen over pairs of rationals WITHOUT its own "
  "theorems; the property is decided on them directly by CheckC.csat_b (the difference equation evaluated on the "
  "observed outputs), harness/C04_cq.CQ is the exact complex number fed to the library",
]
ASSUMPTIONS = ["CPython semantics of exec / generators / tuple unpacking / chained assignment as documented",
               "str.format of int, float (repr round-trips) and ExactQ ('_Q(n,d)', injected in builtins by vlib.exactq)"]


def fr(x):
  x = Fraction(x)
  return [x.numerator, x.denominator]


def unfr(p):
  return Fraction(p[0], p[1])


# ----------------------------------------------------------------------------- coefficient objects
# a coefficient is [kind, n, d]: "q" ExactQ, "i" int (d == 1), "f" float (n/d exactly representable), "F" Fraction
def coef_obj(c):
  kind, n, d = c
  v = Fraction(n, d)
  if kind == "q":
    return ExactQ(v)
  if kind == "i":
    assert d == 1
    return int(n)
  if kind == "f":
    f = float(v)
    assert Fraction(f) == v
    return f
  if kind == "F":
    return v
  if kind == "b":           # bool coefficient: True == 1, False == 0
    assert v in (0, 1)
    return bool(v)
  if kind == "z":           # negative zero
    assert v == 0
    return -0.0
  raise ValueError(kind)


def coef_val(c):
  return Fraction(c[1], c[2])


def mk_coef(kind, v):
  v = Fraction(v)
  if kind == "i" and v.denominator != 1:
    kind = "q"
  if kind == "f":
    try:
      ok = Fraction(float(v)) == v
    except OverflowError:
      ok = False
    if not ok:
      kind = "q"
  return [kind, v.numerator, v.denominator]


def arg_obj(a):
  """constructor argument: None | ["list", [coef...]] | ["dict", [[key, coef]...]]"""
  if a is None:
    return None
  if a[0] == "list":
    return [coef_obj(c) for c in a[1]]
  if a[0] == "dict":
    from collections import OrderedDict
    return OrderedDict((int(k), coef_obj(c)) for k, c in a[1])
  raise ValueError(a[0])


def arg_lit(a):
  if a is None:
    return "ANone"
  if a[0] == "list":
    return "(AList %s)" % L.lst([L.qc(coef_val(c)) for c in a[1]])
  return "(ADict %s)" % L.lst(["(%s, %s)" % (L.z(k), L.qc(coef_val(c))) for k, c in a[1]])


# ----------------------------------------------------------------------------- z-expressions
ZEXPRS = [
  "1 + z**-1",
  "(1 + z**-1) / (1 - z**-1)",
  "1 / (1 - Q(1,2) * z**-1)",
  "z**-2 * (1 - z**-1)",
  "z",
  "z**-1",
  "(z**-1 + z**-3) / (2 - z**-2)",
  "0 * z**-1",
  "z**-1 / (z**-1 + z**-2)",
  "(1 - z**-1)**2",
  "1 / (1 - z**-1)**2",
  "-z**-1 / (-1 + Q(1,3) * z**-2)",
  "(Q(2,3) - z**-1 + 3 * z**-4) / (Q(-1,3) + z**-1 - Q(1,2) * z**-3)",
  "1 - (1 + z**-1)",
  "(1 + z**-1) - 1",
  "z**-1 * z",
  "z**2 * z**-3 / (1 + .5 * z**-1)",
  "(2 + z**-1) / -1",
  "(z**-1) / (-1 - z**-1)",
  "z**-12 - z**-5",
  "1 / (z**-12 - 2)",
  "(1 + z**-1) / (z - 1)",
]


def zexpr_filter(text):
  import audiolazy
  return eval(text, {"z": audiolazy.z, "Q": ExactQ, "__builtins__": {}})


def data_items(poly):
  return [[int(k), fr(to_frac(v))] for k, v in poly._data.items()]


# ----------------------------------------------------------------------------- running one case
class _Obs(object):
  pass


def _sample(v, sym):
  """v = [n, d] numeric, or a variable name when sym"""
  if isinstance(v, str):
    return LinForm.var(v)
  return ExactQ(unfr(v))


def _zero_obj(zr):
  kind = zr[0]
  if kind == "sym":
    return LinForm.var("z")
  v = unfr(zr[1])
  if kind == "int":
    return int(v)
  if kind == "float":
    return float(v)
  if kind == "frac":
    return v
  if kind == "bool":
    return bool(v)
  if kind == "negzero":
    return -0.0
  return ExactQ(v)


def _ramp(base, more, less):
  def f(n):
    return [base + 10 * n + i for i in range(max(0, n + more - less))]
  return f


ITER_KINDS = ("list", "tuple", "gen", "deque", "dequemax", "iter", "track", "stream", "thub", "cycle", "iteronly")
CALL_KINDS = ("call", "call_partial", "call_obj")


class TrackIter(object):
  """plain iterator over a list whose position can be inspected (a memory / input shared by two calls)"""
  def __init__(self, vals):
    self.vals, self.pos = list(vals), 0
  def __iter__(self):
    return self
  def __next__(self):
    if self.pos >= len(self.vals):
      raise StopIteration
    self.pos += 1
    return self.vals[self.pos - 1]


class IterOnly(object):
  def __init__(self, vals): self.vals = vals
  def __iter__(self): return iter(self.vals)


class CallOnly(object):
  def __init__(self, f): self.f = f
  def __call__(self, n): return self.f(n)


def mem_contents(m):
  """the items an iterable memory argument will deliver, as case values (static description)"""
  kind = m[0]
  if kind in ITER_KINDS:
    if kind == "cycle":
      return [m[1][i % len(m[1])] for i in range(80)] if m[1] else []
    return list(m[1])
  if kind == "repeat":
    return [m[1]] * m[2]
  if kind == "range":
    return [fr(v) for v in range(m[1], m[2])]
  raise ValueError(kind)


class MemBox(object):
  """one memory argument object; current() = its present contents when they can be inspected"""
  def __init__(self, m):
    import collections, functools, itertools
    import audiolazy
    self.kind = kind = m[0]
    self.expected = None
    if kind == "none":
      self.obj = None
    elif kind in ITER_KINDS:
      vals = [_sample(v, True) for v in m[1]]
      if kind == "list": self.obj = list(vals)
      elif kind == "tuple": self.obj = tuple(vals)
      elif kind == "gen": self.obj = (x for x in vals)
      elif kind == "deque": self.obj = collections.deque(vals)
      elif kind == "dequemax": self.obj = collections.deque(vals, maxlen=max(1, len(vals)))
      elif kind == "iter": self.obj = iter(vals)
      elif kind == "track": self.obj = TrackIter(vals)
      elif kind == "stream": self.obj = audiolazy.Stream(vals)
      elif kind == "thub": self.obj = audiolazy.thub(audiolazy.Stream(vals), 1)
      elif kind == "cycle": self.obj = audiolazy.Stream(itertools.cycle(vals)) if vals else audiolazy.Stream([])
      elif kind == "iteronly": self.obj = IterOnly(vals)
      if kind in ("list", "deque", "dequemax", "tuple"):
        self.expected = list(vals)
    elif kind == "repeat":
      self.obj = itertools.repeat(_sample(m[1], True), m[2])
    elif kind == "range":
      self.obj = range(m[1], m[2])
    elif kind in CALL_KINDS:
      f = _ramp(_sample(m[1], True), m[2], m[3])
      self.obj = {"call": f, "call_partial": functools.partial(lambda unused, n: f(n), 0),
                  "call_obj": CallOnly(f)}[kind]
    else:
      raise ValueError(kind)

  def current(self):
    if self.kind in ("list", "deque", "dequemax", "tuple"):
      return list(self.obj)
    if self.kind == "track":
      return self.obj.vals[self.obj.pos:]
    return None

  def intact(self):
    return self.expected is None or list(self.obj) == self.expected


def native(v):
  """the same number as int / bool / float when that is exact (element kinds), else ExactQ"""
  f = to_frac(v)
  if f.denominator == 1:
    return bool(f) if f in (0, 1) else int(f)
  if f.denominator in (2, 4, 8):
    return float(f)
  return v


def out_json(v):
  if isinstance(v, LinForm):
    return {"lin": {k: fr(c) for k, c in sorted(v.co.items())}}
  return fr(to_frac(v))


def build_filter(c, res):
  import audiolazy
  import audiolazy.lazy_filters as lf
  b = c["build"]
  if b["kind"] == "zexpr":
    flt = zexpr_filter(b["text"])
    if not isinstance(flt, lf.LinearFilter):
      flt = lf.ZFilter(flt)
    res["num_data"] = data_items(flt.numpoly)
    res["den_data"] = data_items(flt.denpoly)
  else:
    cls = getattr(audiolazy, b.get("cls", "ZFilter"))
    num, den = arg_obj(b["num"]), arg_obj(b["den"])
    flt = cls(num) if (den is None and b.get("one_arg")) else cls(num, den)
    via = b.get("via")
    if via == "cast":            # LinearFilter(filt) / ZFilter(filt): "filter type cast"
      flt = getattr(audiolazy, b.get("cast_cls", "ZFilter"))(flt)
    elif via == "copy":
      flt = flt.copy()
  for which, k, cf in c.get("tamper", []):
    (flt.numpoly if which == "num" else flt.denpoly)[int(k)] = coef_obj(cf)
  return flt


def default_sched(subs):
  return [[op, s, r] for s, c in enumerate(subs) for r in range(len(c["runs"])) for op in ("call", "read")]


def execute(subs, sched=None):
  """Runs a history over several filters: ["call", s, r] / ["pull", s, r, k] / ["read", s, r] /
  ["mutate", s, r, pos, value] (in-place change of the list / deque given as memory to run (s, r)).
  Returns one observation per sub-case and whether every argument object kept the contents the caller gave it."""
  import audiolazy.lazy_filters as lf
  sched = sched or default_sched(subs)
  results, filters = [], []
  for c in subs:
    res = {"init": None, "runs": [{} for _ in c["runs"]]}
    try:
      filters.append(build_filter(c, res))
    except Exception as e:
      res["init"] = type(e).__name__
      res["runs"] = []
      filters.append(None)
    results.append(res)
  captured = []
  orig = lf._exec_eval

  def recorder(data, expr, *args, **kwargs):     # transparent for any further arguments
    captured.append([data, expr])
    return orig(data, expr, *args, **kwargs)

  boxes, streams, xlists, iters = {}, {}, {}, {}
  live_tampers = [list(c.get("tamper", [])) for c in subs]
  refused_clean = [True]
  lf._exec_eval = recorder
  try:
    for op in sched:
      kind, s, r = op[0], op[1], op[2]
      flt, c = filters[s], subs[s]
      if flt is None:
        continue
      run, o = (c["runs"][r], results[s]["runs"][r]) if r is not None else (None, None)
      if kind == "setitem":       # ["setitem", s, None, which, k, coef]: numpoly[k] = v / denpoly[k] = v on the live filter
        (flt.numpoly if op[3] == "num" else flt.denpoly)[int(op[4])] = coef_obj(op[5])
        live_tampers[s].append([op[3], op[4], op[5]])
        continue
      if kind == "call":
        del captured[:]
        o["tampers_before"] = list(live_tampers[s])
        conv = native if run.get("xkind") == "native" else (lambda v: v)
        xs = [conv(_sample(v, True)) for v in run["xs"]]
        xlists[(s, r)] = (xs, list(xs))
        seq = (x for x in xs) if run.get("xs_gen") else xs
        share = run.get("mem_share")
        box = boxes[tuple(share)] if share else MemBox(run["mem"])
        boxes[(s, r)] = box
        seen = box.current()
        if seen is not None and not c.get("sym"):
          o["mem_seen"] = [fr(to_frac(v)) for v in seen]
        zero = _zero_obj(run["zero"])
        o["out"] = []
        try:
          style = run.get("argstyle", "kw")
          if style == "pos":
            streams[(s, r)] = flt(seq, box.obj, zero)
          elif style == "default_zero":
            streams[(s, r)] = flt(seq, memory=box.obj)
          else:
            streams[(s, r)] = flt(seq, memory=box.obj, zero=zero)
        except Exception as e:
          o["raise"] = [1, type(e).__name__]
          del o["out"]
          if box.current() != seen:        # a refused call must not have consumed / changed its memory argument
            refused_clean[0] = False
        if len(captured) == 0:
          o["prog"] = None
        elif len(captured) == 1 and captured[0][1] == "gen":
          o["text"] = captured[0][0]
          o["prog"] = parse_program(captured[0][0])
        else:
          o["prog"] = {"error": "%d programs / expr %r" % (len(captured), captured[0][1])}
      elif kind in ("pull", "read"):
        if (s, r) not in streams or "raise" in o or o.get("done"):
          continue
        limit = op[3] if kind == "pull" else len(run["xs"]) + 3 - len(o["out"])
        it_ = iters.setdefault((s, r), None) or iters.__setitem__((s, r), iter(streams[(s, r)])) or iters[(s, r)]
        try:
          for _ in range(limit):
            try:
              v = next(it_)
            except StopIteration:
              o["done"] = True
              break
            o["out"].append(out_json(v))
        except Exception as e:
          o["raise"] = [2 if not o["out"] else 3, type(e).__name__]
          o["partial"] = o.pop("out")
      elif kind == "mutate":
        box = boxes.get((s, r))
        if box is not None and box.kind in ("list", "deque", "dequemax") and op[3] < len(box.obj):
          box.obj[op[3]] = _sample(op[4], True)
          box.expected[op[3]] = _sample(op[4], True)
  finally:
    lf._exec_eval = orig
  intact = all(b.intact() for b in boxes.values()) and all(xs == keep for xs, keep in xlists.values()) \
           and refused_clean[0]
  for res in results:
    for o in res["runs"]:
      o.pop("done", None)
  return results, intact


def run_call(c):
  results, intact = execute([c])
  return results[0]


# ----------------------------------------------------------------------------- Coq literals
def q(p):
  return "(qc (%d) %d)" % (p[0], p[1])


def prog_lit(p):
  if p is None:
    return "NoProg"
  if "error" in p:
    return "Unparsed"
  if "zero" in p:
    return "(Captured (PZero %s))" % q(p["zero"])
  terms = []
  for t in p["terms"]:
    if t[0] in ("D", "NegD", "M", "NegM"):
      terms.append("%s %s" % (t[0], L.nat(t[1])))
    else:
      terms.append("%s %s %s" % (t[0], q(t[2]), L.nat(t[1])))
  g = p["gain"]
  gain = {"one": "GOne", "neg": "GNeg"}.get(g[0]) or "(GDiv %s)" % q(g[1])
  pairs = lambda l: L.lst(["(%s, %s)" % (L.nat(i), L.nat(j)) for i, j in l])
  return "(Captured (PGen (Prog %s %s %s %s %s %s)))" % (
    L.lst([L.nat(i) for i in p["mvars"]]), L.lst([L.nat(i) for i in p["dvars"]]),
    L.lst(terms), gain, pairs(p["mshift"]), pairs(p["dshift"]))


def _points(c):
  """assignments of the symbolic variables at which a symbolic case is compared"""
  if not c.get("sym"):
    return [None]
  names = set()
  for r in c["runs"]:
    for v in r["xs"]:
      if isinstance(v, str): names.add(v)
    m = r["mem"]
    if m[0] in ITER_KINDS:
      for v in m[1]:
        if isinstance(v, str): names.add(v)
    elif m[0] in CALL_KINDS + ("repeat",) and isinstance(m[1], str):
      names.add(m[1])
    if r["zero"][0] == "sym":
      names.add("z")
  names = sorted(names)
  return [{}] + [{n: Fraction(1)} for n in names]


def _ev(v, pt):
  """value of a case sample (numeric pair or variable name) at the point pt"""
  if isinstance(v, str):
    return pt.get(v, Fraction(0))
  return unfr(v)


def _ev_out(v, pt):
  if isinstance(v, dict):
    tot = Fraction(0)
    for k, cf in v["lin"].items():
      tot += unfr(cf) * (Fraction(1) if k == "" else pt.get(k, Fraction(0)))
    return tot
  return unfr(v)


def lit_call(c, o):
  b = c["build"]
  if b["kind"] == "zexpr":
    if o.get("init") is None:
      num = "(ADict %s)" % L.lst(["(%s, %s)" % (L.z(k), q(v)) for k, v in o["num_data"]])
      den = "(ADict %s)" % L.lst(["(%s, %s)" % (L.z(k), q(v)) for k, v in o["den_data"]])
    else:   # a z-expression is expected to build: an exception can never agree with this literal
      num, den = "(AList [qc 1 1])", "(AList [qc 1 1])"
  else:
    num, den = arg_lit(b["num"]), arg_lit(b["den"])
  tam = L.lst(["(%s %s %s)" % ("SetNum" if w == "num" else "SetDen", L.z(k), L.qc(coef_val(cf)))
               for w, k, cf in c.get("tamper", [])])
  init = L.option(o.get("init"), L.string)
  runs = []
  for r, ro in zip(c["runs"], o.get("runs", [])):
    for pt in _points(c):
      pt = pt or {}
      m = r["mem"]
      if m[0] == "none":
        mem = "MNone"
      elif m[0] in CALL_KINDS:
        mem = "(MCall (ramp %s %s %s))" % (L.qc(_ev(m[1], pt)), L.nat(m[2]), L.nat(m[3]))
      elif "mem_seen" in ro:      # contents of a (possibly shared / mutated) argument object when the call was made
        mem = "(MIter %s)" % L.lst([q(v) for v in ro["mem_seen"]])
      else:
        mem = "(MIter %s)" % L.lst([L.qc(_ev(v, pt)) for v in mem_contents(m)])
      zr = r["zero"]
      zero = L.qc(pt.get("z", Fraction(0)) if zr[0] == "sym" else unfr(zr[1]))
      xs = L.lst([L.qc(_ev(v, pt)) for v in r["xs"]])
      if "out" in ro:
        ob = "(OOut %s)" % L.lst([L.qc(_ev_out(v, pt)) for v in ro["out"]])
      else:
        ob = "(ORaise %s %s)" % (L.nat(ro["raise"][0]), L.string(ro["raise"][1]))
      runs.append("(Run %s %s %s %s %s)" % (mem, zero, xs, prog_lit(ro.get("prog")), ob))
  return "(CC %s %s %s %s %s)" % (num, den, tam, init, L.lst(runs))


# ----------------------------------------------------------------------------- generators
SMALL = [Fraction(0), Fraction(1), Fraction(-1), Fraction(2), Fraction(-1, 2)]
A0S = [Fraction(1), Fraction(-1), Fraction(2), Fraction(-1, 3)]
ZEROS = [["int", fr(0)], ["float", fr(0)], ["q", fr(Fraction(5, 3))]]
XVALS = [Fraction(1), Fraction(-2), Fraction(3, 2), Fraction(5), Fraction(-7, 3), Fraction(4), Fraction(1, 5),
         Fraction(-6), Fraction(9, 4)]


def lm_guess(num, den):
  """memory size the filter will need (used only to choose memory lengths around it)"""
  def items(a, default):
    if a is None: return default
    if a[0] == "list": return [(i, coef_val(c)) for i, c in enumerate(a[1])]
    return [(k, coef_val(c)) for k, c in a[1]]
  d = [(k, v) for k, v in items(den, [(0, Fraction(1))]) if v != 0]
  if not d:
    return 0
  ks = [k for k, v in d]
  return max(ks) - min(ks)


MEM_KINDS = ["none", "list", "list", "gen", "call", "tuple", "deque", "dequemax", "iter", "track", "stream", "thub",
             "cycle", "iteronly", "call_partial", "call_obj", "repeat", "range"]


def mk_mem(rng, lm, sym=False, kind=None, ln=None):
  mk = kind or rng.choice(MEM_KINDS)
  if ln is None:
    ln = rng.choice([lm, lm, lm, lm + 2, max(0, lm - 1), 0, lm + 1])
  if sym and mk == "range":
    mk = "list"
  if mk in ITER_KINDS:
    if mk == "cycle" and ln == 0:
      ln = 1
    if sym:
      return [mk, ["m%d" % (i + 1) for i in range(ln)]]
    return [mk, [fr(Fraction(10 * (i + 1) + 1, (i % 3) + 1)) for i in range(ln)]]
  if mk in CALL_KINDS:
    more, less = rng.choice([(0, 0), (0, 0), (2, 0), (0, 1), (1, 0), (0, 3)])
    return [mk, "c" if sym else fr(Fraction(rng.randrange(-5, 6), rng.choice([1, 2, 3]))), more, less]
  if mk == "repeat":
    return ["repeat", "m1" if sym else fr(Fraction(rng.randrange(-9, 10), rng.choice([1, 2]))), ln]
  if mk == "range":
    a = rng.randrange(-3, 4)
    return ["range", a, a + ln]
  return ["none"]


def mk_run(rng, lm, sym=False, allzero=False, nmax=8, idx=0, coefq=False):
  n = rng.choice([0, 1, 2, 3, 4, 5, 6, nmax]) if rng.random() < 0.85 else rng.randrange(0, nmax + 1)
  if sym:
    xs = ["x%d" % i for i in range(n)]
  else:
    off = rng.randrange(len(XVALS))
    xs = [fr(XVALS[(off + i) % len(XVALS)] + (i // len(XVALS))) for i in range(n)]
  mem = mk_mem(rng, lm, sym)
  if mem[0] == "range" and not coefq:   # int memory items next to int / float / Fraction coefficients: native arithmetic
    mem = mk_mem(rng, lm, sym, kind="list")
  if sym and not allzero and rng.random() < 0.7:
    zero = ["sym", None]
  else:
    zero = rng.choice(ZEROS)
  run = {"mem": mem, "zero": zero, "xs": xs, "xs_gen": rng.random() < 0.4}
  u = rng.random()
  if u < 0.2:
    run["argstyle"] = "pos"
  elif zero[0] == "float" and u < 0.6:
    run["argstyle"] = "default_zero"      # the explicit value equals the default 0.
  if coefq and not sym and rng.random() < 0.3:
    run["xkind"] = "native"               # int / bool / float input samples next to exact coefficients
  return run


def is_allzero(num, den):
  def vals(a):
    if a is None: return []
    if a[0] == "list": return [(i, coef_val(c)) for i, c in enumerate(a[1])]
    return [(k, coef_val(c)) for k, c in a[1]]
  nz = [v for k, v in vals(num) if v != 0]
  dz = [(k, v) for k, v in (vals(den) if den is not None else [(0, Fraction(1))]) if v != 0]
  return (not nz) and len(dz) <= 1


def kinds_for(rng):
  return rng.choice(["q", "q", "q", "i", "f", "mix"])


def conv(kind, v, rng):
  if kind == "mix":
    kind = rng.choice(["q", "i", "f"])
  return mk_coef(kind, v)


def _requested_tier():
  import os, sys
  t = os.environ.get("VERIF_TIER")
  if not t and "--tier" in sys.argv:
    t = sys.argv[sys.argv.index("--tier") + 1]
  return t if t in ("quick", "thorough") else "quick"


def size(tier, quick, thorough, widen=None):
  """number of cases of a stream: the driver widens a quick check that found a broken obligation but no failing input
  by calling gen("thorough", other seed); that search is bounded (about 3 x quick), a requested thorough run is not"""
  if tier == "quick":
    return quick
  if _requested_tier() == "quick":
    return widen if widen is not None else 3 * quick
  return thorough


def gen_call(tier, rng):
  quick = tier == "quick"
  # ---- (1) exhaustive small universe
  bs = [list(t) for n in (1, 2, 3) for t in itertools.product(SMALL, repeat=n)]
  as_ = [[a0] + list(t) for a0 in A0S for n in (0, 1, 2) for t in itertools.product(SMALL, repeat=n)]
  keep = size(tier, 800.0, float(len(bs) * len(as_))) / (len(bs) * len(as_))
  for b in bs:
    for a in as_:
      if keep < 1.0 and rng.random() > keep:
        continue
      kind = kinds_for(rng)
      num = ["list", [conv(kind, v, rng) for v in b]]
      den = ["list", [conv(kind, v, rng) for v in a]]
      sym = rng.random() < 0.15
      az = is_allzero(num, den)
      yield {"build": {"kind": "list", "num": num, "den": den, "cls": rng.choice(["ZFilter", "ZFilter", "LinearFilter"])},
             "tamper": [], "sym": sym, "runs": [mk_run(rng, lm_guess(num, den), sym, az, coefq=(kind == "q"))],
             "tags": ["exh", "sym" if sym else "num", "allzero" if az else "lb=%d,la=%d" % (len(b), len(a))]}
  # ---- (2) random sparse dicts, negative / shifted powers, explicit zeros, empty denominators
  n2 = size(tier, 400, 7000)
  pool = [Fraction(1), Fraction(-1), Fraction(0), Fraction(2), Fraction(-1, 2), Fraction(1, 3), Fraction(-5, 4),
          Fraction(3), Fraction(1, 10), Fraction(-7)]
  for i in range(n2):
    kind = kinds_for(rng)
    def rdict(maxterms, lo, hi, force0=False):
      nt = rng.randrange(0, maxterms + 1)
      keys = rng.sample(range(lo, hi + 1), min(nt, hi - lo + 1))
      if force0 and 0 not in keys:
        keys.append(0)
      if rng.random() < 0.5:
        keys.sort()
      return [[k, conv(kind, rng.choice(pool), rng)] for k in keys]
    shape = rng.random()
    if shape < 0.70:     # causal, a0 present
      num = ["dict", rdict(4, 0, 12)]
      den = ["dict", rdict(4, 0, 12, force0=True)]
      tag = "sparse"
    elif shape < 0.85:   # anything, including negative powers and denominators starting late
      num = ["dict", rdict(4, -3, 8)]
      den = ["dict", rdict(3, -2, 6)]
      tag = "wild"
    elif shape < 0.93:   # lists with leading zeros in the denominator, None arguments
      num = rng.choice([None, ["list", [conv(kind, rng.choice(pool), rng) for _ in range(rng.randrange(0, 5))]]])
      den = rng.choice([None, ["list", [conv(kind, 0, rng)] * rng.randrange(0, 3) +
                               [conv(kind, rng.choice(pool), rng) for _ in range(rng.randrange(0, 4))]]])
      tag = "lists0"
    else:                # dense higher order lists
      num = ["list", [conv(kind, rng.choice(pool), rng) for _ in range(rng.randrange(1, 8))]]
      den = ["list", [conv(kind, rng.choice(pool[:2] + pool[3:]), rng)] +
                     [conv(kind, rng.choice(pool), rng) for _ in range(rng.randrange(0, 7))]]
      tag = "dense"
    tam = []
    if rng.random() < 0.15:
      for _ in range(rng.randrange(1, 3)):
        tam.append([rng.choice(["num", "den"]), rng.choice([0, 0, 1, 2, -1, 5]), conv(kind, rng.choice(pool), rng)])
      tag += "+set"
    sym = rng.random() < 0.2 and not tam
    az = is_allzero(num, den) or bool(tam)
    lm = lm_guess(num, den)
    yield {"build": {"kind": "args", "num": num, "den": den, "cls": rng.choice(["ZFilter", "LinearFilter"]),
                     "one_arg": rng.random() < 0.5, "via": rng.choice([None, None, None, None, "cast", "copy"]),
                     "cast_cls": rng.choice(["ZFilter", "LinearFilter"])},
           "tamper": tam, "sym": sym,
           "runs": [mk_run(rng, lm, sym, az, nmax=8 if lm < 6 else 16, coefq=(kind == "q"))
                    for _ in range(rng.choice([1, 1, 2]))],
           "tags": [tag, "sym" if sym else "num"]}
  # ---- (2b) long delay lines: sparse filters of order 40..64 (echo / comb like), memory of exactly the needed size
  for i in range(size(tier, 40, 400)):
    D = rng.choice([40, 47, 48, 49, 56, 63, 64])
    Dn = rng.choice([0, 1, D // 2, D - 1, D, 47, 48, 64])
    kind = rng.choice(["q", "q", "i"])
    num = ["dict", [[k, conv(kind, rng.choice(pool[:2] + pool[3:]), rng)] for k in sorted(set([0, Dn // 2, Dn]))]]
    den = ["dict", [[k, conv(kind, rng.choice(pool[:2] + pool[3:]), rng)] for k in sorted(set([0, rng.choice([1, 2, D]), D]))]]
    sym = False    # (a symbolic case is compared at one point per variable: 64 memory variables cost too much Coq parsing)
    r = mk_run(rng, D, sym, False, nmax=rng.choice([3, 6, 10]), coefq=(kind == "q"))
    r["mem"] = mk_mem(rng, D, sym, kind=rng.choice(["list", "list", "tuple", "deque", "stream", "call", "gen", "none"]),
                      ln=rng.choice([D, D, D, D + 1, D - 1]))
    yield {"build": {"kind": "args", "num": num, "den": den, "cls": rng.choice(["ZFilter", "LinearFilter"])},
           "tamper": [], "sym": sym, "runs": [r], "tags": ["long", "sym" if sym else "num", "order=%d" % D]}
  # ---- (2c) number kinds: bool, negative zero, huge / tiny floats, big ints, as coefficients and as zero value
  special = [["b", 1, 1], ["b", 0, 1], ["z", 0, 1], mk_coef("f", Fraction(1e40)), mk_coef("f", Fraction(1e-40)),
             mk_coef("f", Fraction(-1e16)), mk_coef("f", Fraction(123456789.125)), ["i", 10 ** 30, 1],
             ["i", -10 ** 30, 1], mk_coef("f", Fraction(-1.0)), mk_coef("f", Fraction(1.0)), ["i", -1, 1], ["i", 1, 1],
             mk_coef("f", Fraction(-2.5e-07)), mk_coef("q", Fraction(1, 3)), ["i", 2 ** 63, 1], ["i", -2 ** 63, 1]]
  zkinds = ZEROS + [["bool", fr(0)], ["negzero", fr(0)], ["frac", fr(0)]]   # (a non-zero native zero would add floats natively)
  for i in range(size(tier, 60, 600)):
    num = ["list", [rng.choice(special) for _ in range(rng.randrange(0, 4))]]
    a0 = rng.choice([c for c in special if coef_val(c) != 0])
    den = ["list", [a0] + [rng.choice(special) for _ in range(rng.randrange(0, 3))]]
    r = mk_run(rng, lm_guess(num, den), False, False)
    r["zero"] = rng.choice(zkinds)
    r.pop("argstyle", None)
    yield {"build": {"kind": "list", "num": num, "den": den, "cls": rng.choice(["ZFilter", "LinearFilter"])},
           "tamper": [], "sym": False, "runs": [r], "tags": ["kinds", "num"]}
  # ---- (2d) coefficient vectors with EQUAL values (symmetric / moving-sum FIR) and NEAR-EQUAL ones: different numbers
  #      that agree in 6 and more significant digits (dyadic floats, big ints, exact rationals 1e-9 apart)
  F_ = Fraction
  groups = [[("f", 1 + F_(1, 2 ** 30)), ("f", 1 + F_(1, 2 ** 31))], [("f", F_(1, 2) + F_(1, 2 ** 40)), ("f", F_(1, 2))],
            [("f", 1000 + F_(1, 2 ** 20)), ("f", 1000 + F_(1, 2 ** 21))], [("i", 10 ** 9), ("i", 10 ** 9 + 1)],
            [("q", F_(1, 3)), ("q", F_(1, 3) + F_(1, 10 ** 9))], [("f", -5 - F_(1, 2 ** 30)), ("i", -5)],
            [("f", F_(0.1234567)), ("f", F_(0.1234568))], [("f", F_(1000.001)), ("f", F_(1000.002))],
            [("f", 1 + F_(1, 2 ** 30)), ("i", 1)], [("f", -1 - F_(1, 2 ** 35)), ("i", -1)],
            [("f", F_(3, 4)), ("f", F_(3, 4))], [("i", 7), ("q", F_(7))], [("i", 2), ("i", 2), ("f", F_(2))],
            [("f", F_(1, 2 ** 20)), ("f", F_(1, 2 ** 20) + F_(1, 2 ** 50))], [("i", 123456789), ("i", 123456790)]]
  for i in range(size(tier, 70, 700)):
    def vec(maxother):
      g = list(rng.choice(groups))
      v = g + [rng.choice(special[7:13] + [mk_coef("q", F_(3)), mk_coef("i", 0)]) for _ in range(rng.randrange(0, maxother + 1))]
      rng.shuffle(v)
      return [c if isinstance(c, list) else mk_coef(c[0], c[1]) for c in v]
    num = ["list", vec(2)]
    den = ["list", [rng.choice([mk_coef("i", 1), mk_coef("i", -1), mk_coef("q", F_(2)), mk_coef("f", 1 + F_(1, 2 ** 30))])] +
                   (vec(1) if rng.random() < 0.4 else [])]
    r = mk_run(rng, lm_guess(num, den), False, False, nmax=8)
    if len(r["xs"]) < 3:
      r["xs"] = [fr(x) for x in XVALS[:5]]
    yield {"build": {"kind": "list", "num": num, "den": den, "cls": rng.choice(["ZFilter", "LinearFilter"])},
           "tamper": [], "sym": False, "runs": [r], "tags": ["near-equal", "num"]}
  # ---- (3) the refusals, systematically: assignments that zero a0 / add a negative power
  for num, den, tam in [
      ([1, 1], [1, -1], [["den", 0, 0]]), ([1], [2], [["den", 0, 0]]), ([1, 2], [1, 1, 1], [["den", 0, 0], ["num", -1, 1]]),
      ([1], [1], [["num", -1, 1]]), ([1], [1], [["den", -1, 1]]), ([1], [1, 1], [["num", -2, 3], ["num", -2, 0]]),
      ([0, 1], [1], [["num", 1, 0]]), ([1], [1, 2], [["den", 1, 0]]), ([1], [3], [["den", 0, 1]]),
      ([1, 1], [1, 1], [["den", 0, -1]]), ([2], [1, 0, 1], [["den", 2, -1], ["num", 3, -1]]), ([], [1], [["num", 2, 1]]),
      ([1], [0, 0, 1], []), ([0, 1], [0, 2], []), ([0, 0, 1], [0, 1, 1], []), ([1], [], []), ([1], [0, 0], []),
      ([], [], []), ([0], [1], []), ([0, 0], [5], []), ([], [1, 1], []), ([0], [1, 0], [])]:
    for rep in range(2):
      a = ["list", [mk_coef("q" if rep else "i", v) for v in num]]
      d = ["list", [mk_coef("q" if rep else "i", v) for v in den]]
      t = [[w, k, mk_coef("q" if rep else "i", v)] for w, k, v in tam]
      yield {"build": {"kind": "list", "num": a, "den": d, "cls": "ZFilter"}, "tamper": t, "sym": False,
             "runs": [mk_run(rng, 2, False, True) for _ in range(3)], "tags": ["refusals", "num"]}
  # ---- (4) z-expressions
  for text in ZEXPRS:
    for rep in range(2):
      sym = rep == 1
      yield {"build": {"kind": "zexpr", "text": text}, "tamper": [], "sym": sym,
             "runs": [mk_run(rng, rng.choice([0, 1, 2, 3, 12]), sym, True) for _ in range(2)],
             "tags": ["zexpr", "sym" if sym else "num"]}


def nontrivial_call(c, o):
  if o.get("init") is not None:
    return False
  for r, ro in zip(c["runs"], o.get("runs", [])):
    p = ro.get("prog")
    if "out" in ro and len(ro["out"]) >= 3 and p and "terms" in p:
      fb = any(t[0] in ("M", "NegM", "NegCoefM") for t in p["terms"])
      if fb or len(p["terms"]) >= 2:
        return True
  return False


# ----------------------------------------------------------------------------- fractions.Fraction coefficients
def gen_frac(tier, rng):
  F = lambda n, d=1: mk_coef("F", Fraction(n, d))
  I = lambda n: mk_coef("i", n)
  fixed = [
    ([I(1), F(1, 3)], None, [["int", fr(0)]]),                     # the recorded witness
    ([F(1, 2), F(-3, 4)], [F(1), F(1, 2)], [["int", fr(0)]]),      # dyadic: exact
    ([F(1)], [F(1, 3)], [["int", fr(0)]]),                         # gain 1/3 (fixed by 08abd6b: divided once)
    ([F(2, 3), F(1), F(-1)], [F(-1), F(1, 7)], [["float", fr(0)]]),
    ([F(1, 3)], [F(2), F(-1, 3), F(1, 5)], [["q", fr(Fraction(5, 3))]]),
    ([F(0)], None, [["frac", fr(Fraction(5, 3))]]),                # all-zero filter, Fraction zero: the second witness
    ([F(0)], None, [["frac", fr(Fraction(3, 4))]]),                # dyadic zero: exact
    ([], [F(1, 3)], [["frac", fr(Fraction(-2, 7))]]),
    ([I(1), I(2)], [I(1), I(-1)], [["frac", fr(Fraction(5, 3))]]), # Fraction zero in a normal filter: exact
    ([I(1), I(-1)], [I(-1), I(1)], [["frac", fr(Fraction(1, 3))]]),
  ]
  n = size(tier, 60, 600)
  pool = [Fraction(1, 3), Fraction(-2, 3), Fraction(1, 2), Fraction(1), Fraction(-1), Fraction(5, 7), Fraction(0),
          Fraction(-3, 4), Fraction(1, 10), Fraction(7, 5)]
  cases = [(b, a, z, "fixed") for b, a, z in fixed]
  for _ in range(n):
    b = [F(*fr(rng.choice(pool))) for _ in range(rng.randrange(0, 4))]
    a = [F(*fr(rng.choice([p for p in pool if p != 0])))] + [F(*fr(rng.choice(pool))) for _ in range(rng.randrange(0, 3))]
    # a Fraction zero next to Fraction coefficients would make CPython multiply float by Fraction (float arithmetic on the
    # samples themselves): outside the two recorded signatures, so Fraction zeros go with the all-zero filter only
    z = [rng.choice(ZEROS)]
    cases.append((b, a, z, "random"))
  for _ in range(n // 6):
    b = [F(0)] * rng.randrange(0, 3)
    a = [F(*fr(rng.choice([p for p in pool if p != 0])))]
    z = [["frac", fr(rng.choice([Fraction(5, 3), Fraction(1, 4), Fraction(-2, 7), Fraction(3), Fraction(1, 10)]))]]
    cases.append((b, a, z, "random-allzero"))
  for b, a, zs, tag in cases:
    num = ["list", b]
    den = None if a is None else ["list", a]
    runs = []
    for z in zs:
      r = mk_run(rng, lm_guess(num, den), False, False)
      r["zero"] = z
      if r.get("argstyle") == "default_zero" and (z[0] != "float" or unfr(z[1]) != 0):
        del r["argstyle"]
      if len(r["xs"]) < 2:
        r["xs"] = [fr(x) for x in XVALS[:4]]
      runs.append(r)
    yield {"build": {"kind": "list", "num": num, "den": den, "cls": "ZFilter"}, "tamper": [], "sym": False,
           "runs": runs, "tags": ["fraction", tag]}


def _ref_filter(num, den, mem, zero, xs):
  """difference equation in exact arithmetic with the given coefficient tables (independent of Coq and of /repo)"""
  a0 = den.get(0, Fraction(0))
  lm = max(den) if den else 0
  ys = []
  X = lambda i: xs[i] if i >= 0 else zero
  Y = lambda i: ys[i] if i >= 0 else mem[-i - 1]
  for n in range(len(xs)):
    acc = sum(c * X(n - k) for k, c in num.items()) - sum(c * Y(n - k) for k, c in den.items() if k != 0)
    ys.append(acc / a0)
  return ys


def known_frac(c, o):
  """The two recorded findings, matched by signature: the observed outputs are the difference equation with every
  fractions.Fraction coefficient rounded to float (C04-fraction-coeff-float), resp. the all-zero filter yields
  float(zero) for a Fraction zero (C04-fraction-zero-float). Anything else is not known."""
  b = c["build"]
  if o.get("init") is not None or c.get("tamper") or b["kind"] != "list":
    return None
  num_c = b["num"][1]
  den_c = b["den"][1] if b["den"] is not None else [mk_coef("i", 1)]
  rnd = lambda cf: Fraction(float(coef_val(cf))) if cf[0] == "F" else coef_val(cf)
  if den_c and coef_val(den_c[0]) == 0:
    return None
  num = {k: rnd(cf) for k, cf in enumerate(num_c) if coef_val(cf) != 0}
  den = {k: rnd(cf) for k, cf in enumerate(den_c) if coef_val(cf) != 0}
  inexact_coef = any(cf[0] == "F" and rnd(cf) != coef_val(cf) for cf in num_c + den_c)
  allzero = not num and set(den) <= {0}
  ids = set()
  for r, ro in zip(c["runs"], o.get("runs", [])):
    if "out" not in ro:
      return None
    got = [unfr(v) for v in ro["out"]]
    zero = unfr(r["zero"][1])
    xs = [unfr(v) for v in r["xs"]]
    if allzero:
      zr = Fraction(float(zero)) if r["zero"][0] == "frac" else zero
      if got != [zr] * len(xs):
        return None
      if zr != zero:
        ids.add("C04-fraction-zero-float")
      continue
    lm = max(den)
    m = r["mem"]
    if m[0] == "none":
      mem = [zero] * lm
    elif m[0] in CALL_KINDS:
      mem = _ramp(unfr(m[1]), m[2], m[3])(lm)[:lm]
    else:
      mem = [unfr(v) for v in mem_contents(m)][:lm]
    mem = [zero] * (lm - len(mem)) + mem
    if got != _ref_filter(num, den, mem, zero, xs):
      return None
    if inexact_coef:
      ids.add("C04-fraction-coeff-float")
  if len(ids) == 1:
    return ids.pop()
  if len(ids) == 2:
    return "C04-fraction-coeff-float"
  return None


# ----------------------------------------------------------------------------- histories (state, aliasing, interleaving)
def _hist_filter(rng, order, kind="q", variant=0):
  """a filter with feedback at delay `order` (and sometimes 1), coefficients depending on `variant`"""
  vals = [Fraction(2), Fraction(-1), Fraction(1, 2), Fraction(-3), Fraction(1), Fraction(3, 2)]
  pick = lambda i: vals[(i + variant) % len(vals)]
  nk = sorted(set([0, order // 2, rng.choice([0, 1, order])]))
  dk = sorted(set([0, rng.choice([1, order]), order])) if order else [0]
  num = ["dict", [[k, mk_coef(kind, pick(j))] for j, k in enumerate(nk)]]
  den = ["dict", [[k, mk_coef(kind, pick(j + 2) if k else pick(j + 1) or 1)] for j, k in enumerate(dk)]]
  return num, den


def _interleave(rng, pairs, n):
  """call everything first, then pull 1-3 items alternately, then read the rest"""
  sched = [["call", s, r] for s, r in pairs]
  for _ in range(n):
    for s, r in pairs:
      sched.append(["pull", s, r, rng.choice([1, 1, 2, 3])])
  order = list(pairs)
  rng.shuffle(order)
  return sched + [["read", s, r] for s, r in order]


def gen_hist(tier, rng):
  n = size(tier, 160, 2500)
  orders = [1, 2, 3, 5, 47, 48, 49, 64]
  for i in range(n):
    order = rng.choice(orders)
    shape = rng.choice(["same-list", "same-list", "two-filters", "mutate", "types", "short-long", "share-iter", "refused",
                        "live-coef"])
    xs_n = rng.choice([3, 5, 8])
    mkx = lambda k, off=0: [fr(XVALS[(off + j) % len(XVALS)] + j // len(XVALS)) for j in range(k)]
    memvals = [fr(Fraction(7 * (j + 1) % 13 - 6, (j % 2) + 1)) for j in range(order + 2)]
    zero = rng.choice(ZEROS)
    mkrun = lambda mem, k=xs_n, off=0, **kw: dict({"mem": mem, "zero": zero, "xs": mkx(k, off), "xs_gen": rng.random() < 0.3}, **kw)
    if shape == "same-list":        # one list (exactly / more than the needed size) given to two calls of one filter
      num, den = _hist_filter(rng, order)
      ln = rng.choice([order, order, order, order + 2])
      mk = rng.choice(["list", "list", "list", "deque", "tuple", "dequemax"])
      subs = [{"build": {"kind": "args", "num": num, "den": den, "cls": "ZFilter"}, "tamper": [], "sym": False,
               "runs": [mkrun([mk, memvals[:ln]]), mkrun([mk, memvals[:ln]], off=2, mem_share=[0, 0])]}]
      pairs = [(0, 0), (0, 1)]
      sched = rng.choice([_interleave(rng, pairs, 2),
                          [["call", 0, 0], ["call", 0, 1], ["read", 0, 0], ["read", 0, 1]],
                          [["call", 0, 0], ["call", 0, 1], ["read", 0, 1], ["read", 0, 0]],
                          [["call", 0, 0], ["read", 0, 0], ["call", 0, 1], ["read", 0, 1]]])
    elif shape == "two-filters":    # two live filters with the same delays and other coefficients, one memory object
      subs = []
      for v in (0, 1):
        num, den = _hist_filter(random.Random(i), order, variant=3 * v)
        subs.append({"build": {"kind": "args", "num": num, "den": den, "cls": rng.choice(["ZFilter", "LinearFilter"])},
                     "tamper": [], "sym": False, "runs": [mkrun(["list", memvals[:order]], off=v)]})
      if rng.random() < 0.6:
        subs[1]["runs"][0]["mem_share"] = [0, 0]
      sched = _interleave(rng, [(0, 0), (1, 0)], 3)
    elif shape == "mutate":         # the caller changes its list after the call, before / while reading the result
      num, den = _hist_filter(rng, order)
      subs = [{"build": {"kind": "args", "num": num, "den": den, "cls": "ZFilter"}, "tamper": [], "sym": False,
               "runs": [mkrun([rng.choice(["list", "list", "deque"]), memvals[:order]])]}]
      pos = rng.randrange(max(1, order))
      sched = [["call", 0, 0]] + ([["pull", 0, 0, 1]] if rng.random() < 0.5 else []) + \
              [["mutate", 0, 0, pos, fr(Fraction(99, 2))], ["read", 0, 0]]
    elif shape == "types":          # equal coefficient values of different types, one after the other and interleaved
      subs = []
      for kind in rng.sample(["i", "f", "q"], 3):
        num, den = _hist_filter(random.Random(i), min(order, 3), kind=kind)
        subs.append({"build": {"kind": "args", "num": num, "den": den, "cls": "ZFilter"}, "tamper": [], "sym": False,
                     "runs": [mkrun(["list", memvals[:min(order, 3)]])]})
      for j, zr in enumerate(rng.sample(ZEROS[:2] + [["q", fr(0)]], 3)):
        subs[j]["runs"][0]["zero"] = zr
      sched = rng.choice([None, _interleave(rng, [(0, 0), (1, 0), (2, 0)], 2)])
    elif shape == "short-long":     # the same filter on a short then a long input (and back), fresh and shared memories
      num, den = _hist_filter(rng, order)
      mk = rng.choice(["list", "none", "call", "stream"])
      mem = lambda: mk_mem(rng, order, False, kind=mk, ln=order)
      subs = [{"build": {"kind": "args", "num": num, "den": den, "cls": "ZFilter"}, "tamper": [], "sym": False,
               "runs": [mkrun(mem(), k=2), mkrun(mem(), k=9, off=1), mkrun(mem(), k=1, off=3)]}]
      sched = rng.choice([None, _interleave(rng, [(0, 0), (0, 1), (0, 2)], 2)])
    elif shape in ("refused", "live-coef"):
      o3 = min(order, 3)
      num, den = _hist_filter(rng, o3)
      via = rng.choice([None, None, "cast", "copy"])
      mk = rng.choice(["list", "track", "deque", "none"])
      m0 = [mk, memvals[:o3 + 1]] if mk != "none" else ["none"]
      runs = [mkrun(m0), mkrun(m0 if mk == "none" else [mk, []], off=1), mkrun(m0 if mk == "none" else [mk, []], off=2)]
      if mk != "none":
        runs[1]["mem_share"] = [0, 0]
        runs[2]["mem_share"] = [0, 0]
      subs = [{"build": {"kind": "args", "num": num, "den": den, "cls": "ZFilter", "via": via,
                         "cast_cls": rng.choice(["ZFilter", "LinearFilter"])},
               "tamper": [], "sym": False, "runs": runs}]
      cq_ = lambda v: mk_coef("q", v)
      a0 = [c for k, c in den[1] if k == 0][0]
      if shape == "refused":        # (g) a refused call leaves filter and arguments usable
        bad, good = rng.choice([(["num", -1, cq_(2)], ["num", -1, cq_(0)]), (["den", 0, cq_(0)], ["den", 0, a0]),
                                (["den", -2, cq_(1)], ["den", -2, cq_(0)])])
        sched = [["call", 0, 0], ["read", 0, 0], ["setitem", 0, None] + bad, ["call", 0, 1], ["read", 0, 1],
                 ["setitem", 0, None] + good, ["call", 0, 2], ["read", 0, 2]]
      else:                         # (h) coefficients assigned between the call and the reading of its result
        chg = [rng.choice(["num", "den"]), rng.choice([0, 1, o3, 5]), cq_(rng.choice([Fraction(7, 2), Fraction(-1), Fraction(1), Fraction(0)]))]
        if chg[0] == "den" and chg[1] == 0 and coef_val(chg[2]) == 0:
          chg[2] = cq_(3)
        sched = [["call", 0, 0], ["pull", 0, 0, rng.choice([0, 1, 2])], ["setitem", 0, None] + chg,
                 ["call", 0, 1], ["pull", 0, 1, 1], ["read", 0, 0], ["setitem", 0, None] + [chg[0], chg[1], cq_(Fraction(5, 4))],
                 ["read", 0, 1], ["call", 0, 2], ["read", 0, 2]]
    else:                           # one plain iterator given as memory to two calls: the second gets what is left
      num, den = _hist_filter(rng, min(order, 5))
      o5 = min(order, 5)
      subs = [{"build": {"kind": "args", "num": num, "den": den, "cls": "ZFilter"}, "tamper": [], "sym": False,
               "runs": [mkrun(["track", memvals[:2] + memvals[:o5 + 2] + memvals[:o5]]),
                        mkrun(["track", []], off=1, mem_share=[0, 0])]}]
      sched = rng.choice([None, _interleave(rng, [(0, 0), (0, 1)], 2)])
    yield {"subs": subs, "sched": sched, "tags": [shape, "order>=48" if order >= 48 else "order<48"]}


def run_hist(c):
  results, intact = execute(c["subs"], c["sched"])
  return {"subs": results, "intact": intact}


def lit_hist(c, o):
  """one ccase per call: the filter tables are those at the moment of that call (constructor arguments + every
  item assignment made on the live object before it)"""
  lits = []
  for sc, so in zip(c["subs"], o["subs"]):
    if so.get("init") is not None or not so["runs"]:
      lits.append(lit_call(sc, so))
      continue
    for r, ro in zip(sc["runs"], so["runs"]):
      if not ro:
        continue       # a call the schedule never made
      lits.append(lit_call(dict(sc, runs=[r], tamper=ro.get("tampers_before", sc.get("tamper", []))), dict(so, runs=[ro])))
  return "(HC %s %s)" % (L.lst(lits), L.boolean(o["intact"]))


def nontrivial_hist(c, o):
  return sum(len(sc["runs"]) for sc in c["subs"]) >= 2 or any(op[0] == "mutate" for op in (c["sched"] or []))


# ----------------------------------------------------------------------------- complex numbers (Gaussian rationals)
from C04_cq import CQ, parts as cparts

UNIT = [("C", 0, 1), ("C", 0, -1), ("C", Fraction(3, 5), Fraction(4, 5)), ("c", 0.0, 1.0), ("c", 0.0, -1.0),
        ("c", 0.6, 0.8), ("c", 0.8, -0.6), ("c", -1.0, 0.0), ("c", 1.0, 0.0), ("C", Fraction(-5, 13), Fraction(12, 13)),
        ("C", 1, 0), ("C", -1, 0), ("r", 1, 0), ("r", -1, 0)]
OTHER = [("C", 0, 2), ("C", 1, 1), ("C", Fraction(1, 2), Fraction(-3, 4)), ("c", 2.0, -1.0), ("c", 0.0, -3.0),
         ("r", 2, 0), ("C", 0, 0), ("c", 0.0, 0.0), ("c", 0.5, 0.5), ("C", Fraction(3, 5), Fraction(4, 5) + 1)]


def cplx_obj(v):
  kind, re_, im_ = v
  if kind == "C":
    return CQ(unfr(re_), unfr(im_))
  if kind == "c":
    return complex(float(unfr(re_)), float(unfr(im_)))
  v = unfr(re_)            # real kind: a native int (ExactQ does not combine with a native complex)
  return int(v) if v.denominator == 1 else CQ(v, 0)


def cplx_json(t):
  kind, re_, im_ = t
  return [kind, fr(Fraction(re_)), fr(Fraction(im_))]


def cq_lit(p):
  return "(%s, %s)" % (q(p[0]), q(p[1]))


def parts_json(v):
  p = cparts(v)
  if p is None:
    raise ValueError("not an exact complex number: %r" % (v,))
  return [fr(p[0]), fr(p[1])]


def gen_cplx(tier, rng):
  n = size(tier, 220, 2500)
  for i in range(n):
    exactc = rng.random() < 0.5          # all coefficients exact (CQ / ExactQ): samples may then be native complex
    pool = [t for t in UNIT + OTHER if not (exactc and t[0] == "c")]
    pick = lambda unit: cplx_json(rng.choice([t for t in pool if (t in UNIT) == unit] or pool))
    nb, na = rng.randrange(0, 4), rng.randrange(0, 3)
    b = [pick(rng.random() < 0.6) for _ in range(nb)]
    a0 = pick(rng.random() < 0.5)
    while unfr(a0[1]) == 0 and unfr(a0[2]) == 0:
      a0 = pick(True)
    a = [a0] + [pick(rng.random() < 0.6) for _ in range(na)]
    if rng.random() < 0.25:              # sparse dicts, higher delays
      num = ["dict", [[k, c] for k, c in zip(sorted(rng.sample(range(0, 9), len(b))), b)]]
      den = ["dict", [[0, a[0]]] + [[k, c] for k, c in zip(sorted(rng.sample(range(1, 9), len(a) - 1)), a[1:])]]
    else:
      num, den = ["list", b], ["list", a]
    runs = []
    for _ in range(rng.choice([1, 2])):
      k = rng.choice([0, 1, 3, 4, 6])
      skind = "c" if exactc and rng.random() < 0.3 else "C"
      xs = [[skind, fr(rng.randrange(-4, 5)), fr(rng.randrange(-4, 5))] if skind == "c" else
            ["C", fr(Fraction(rng.randrange(-6, 7), rng.choice([1, 2, 3]))), fr(Fraction(rng.randrange(-6, 7), rng.choice([1, 2])))]
            for _ in range(k)]
      lm = max([0] + [kk for kk, c in (den[1] if den[0] == "dict" else enumerate(den[1]))])
      mk = rng.choice(["none", "list", "list", "tuple", "gen", "stream", "deque"])
      ln = rng.choice([lm, lm, lm + 1, max(0, lm - 1)])
      mem = ["none"] if mk == "none" else [mk, [["C", fr(Fraction(j + 1, 2)), fr(Fraction(-j - 2, 3))] for j in range(ln)]]
      zero = rng.choice([["C", fr(0), fr(0)], ["r", fr(0), fr(0)], ["C", fr(Fraction(5, 3)), fr(-2)], ["c", fr(0), fr(0)],
                         ["c", fr(2), fr(1)] if exactc else ["c", fr(0), fr(0)]])   # native x native would be float arithmetic
      runs.append({"mem": mem, "zero": zero, "xs": xs})
    yield {"num": num, "den": den, "cls": rng.choice(["ZFilter", "LinearFilter"]), "runs": runs,
           "tags": ["cplx", "exact-coef" if exactc else "native-coef"]}


def run_cplx(c):
  import collections
  import audiolazy
  import audiolazy.lazy_filters as lf
  mk = lambda a: ([cplx_obj(v) for v in a[1]] if a[0] == "list" else
                  collections.OrderedDict((k, cplx_obj(v)) for k, v in a[1]))
  res = {"init": None, "runs": []}
  try:
    flt = getattr(audiolazy, c["cls"])(mk(c["num"]), mk(c["den"]))
    res["num_data"] = [[int(k), parts_json(v)] for k, v in flt.numpoly._data.items()]
    res["den_data"] = [[int(k), parts_json(v)] for k, v in flt.denpoly._data.items()]
  except Exception as e:
    res["init"] = type(e).__name__
    return res
  captured = []
  orig = lf._exec_eval

  def recorder(data, expr, *args, **kwargs):
    captured.append([data, expr])
    return orig(data, expr, *args, **kwargs)

  lf._exec_eval = recorder
  try:
    for r in c["runs"]:
      del captured[:]
      xs = [cplx_obj(v) for v in r["xs"]]
      m = r["mem"]
      vals = [cplx_obj(v) for v in m[1]] if m[0] != "none" else None
      mem = {"none": lambda: None, "list": lambda: list(vals), "tuple": lambda: tuple(vals),
             "gen": lambda: (v for v in vals), "stream": lambda: audiolazy.Stream(vals),
             "deque": lambda: collections.deque(vals)}[m[0]]()
      o, out = {}, []
      try:
        stream = flt(xs, memory=mem, zero=cplx_obj(r["zero"]))
      except Exception as e:
        o["raise"] = [1, type(e).__name__]
        stream = None
      if stream is not None:
        try:
          for v in stream:
            out.append(parts_json(v))
            if len(out) > len(xs) + 3:
              break
          o["out"] = out
        except Exception as e:
          o["raise"] = [2 if not out else 3, type(e).__name__]
      if len(captured) == 0:
        o["prog"] = None
      elif len(captured) == 1 and captured[0][1] == "gen":
        o["text"] = captured[0][0]
        o["prog"] = parse_program(captured[0][0], complex_ok=True)
      else:
        o["prog"] = {"error": "several programs"}
      res["runs"].append(o)
  finally:
    lf._exec_eval = orig
  return res


def cprog_lit(p):
  if p is None:
    return "CNoProg"
  if "error" in p:
    return "CUnparsed"
  if "zero" in p:
    return "(CCaptured (CPZero %s))" % cq_lit(p["zero"])
  terms = []
  for t in p["terms"]:
    name = {"D": "CD", "NegD": "CNegD", "M": "CM", "NegM": "CNegM", "CoefD": "CCoefD", "NegCoefM": "CNegCoefM"}[t[0]]
    terms.append("%s %s" % (name, L.nat(t[1])) if len(t) == 2 else "%s %s %s" % (name, cq_lit(t[2]), L.nat(t[1])))
  g = p["gain"]
  gain = {"one": "CGOne", "neg": "CGNeg"}.get(g[0]) or "(CGDiv %s)" % cq_lit(g[1])
  pairs = lambda l: L.lst(["(%s, %s)" % (L.nat(i), L.nat(j)) for i, j in l])
  return "(CCaptured (CPGen (Prog %s %s %s GOne %s %s) %s))" % (
    L.lst([L.nat(i) for i in p["mvars"]]), L.lst([L.nat(i) for i in p["dvars"]]),
    L.lst(terms), pairs(p["mshift"]), pairs(p["dshift"]), gain)


def lit_cplx(c, o):
  if o.get("init") is not None:     # not generated on purpose: a constructor failure can never agree
    return "(XC [] [] [XRun None c0 [] CUnparsed (CRaise 0 %s)])" % L.string(o["init"])
  tab = lambda d: L.lst(["(%s, %s)" % (L.z(k), cq_lit(v)) for k, v in d])
  val = lambda v: cq_lit([v[1], v[2]])
  runs = []
  for r, ro in zip(c["runs"], o["runs"]):
    mem = "None" if r["mem"][0] == "none" else "(Some %s)" % L.lst([val(v) for v in r["mem"][1]])
    if "out" in ro:
      ob = "(COut %s)" % L.lst([cq_lit(v) for v in ro["out"]])
    else:
      ob = "(CRaise %s %s)" % (L.nat(ro["raise"][0]), L.string(ro["raise"][1]))
    runs.append("(XRun %s %s %s %s %s)" % (mem, val(r["zero"]), L.lst([val(v) for v in r["xs"]]),
                                           cprog_lit(ro.get("prog")), ob))
  return "(XC %s %s %s)" % (tab(o["num_data"]), tab(o["den_data"]), L.lst(runs))


def nontrivial_cplx(c, o):
  if o.get("init") is not None:
    return False
  cplx = any(v[1][1][0] != 0 for v in o["num_data"] + o["den_data"])
  return cplx and any("out" in ro and len(ro["out"]) >= 3 for ro in o["runs"])


IMPORTS = "From AL Require Import C04.Model C04.Spec C04.Check."
FAMILIES = {
  "call": Family("call", IMPORTS, "ccase", "corr_call", "holds_call", gen_call, run_call, lit_call, nontrivial_call),
  "frac": Family("frac", IMPORTS, "ccase", "corr_call", "holds_call", gen_frac, run_call, lit_call, nontrivial_call,
                 known_frac),
  "cplx": Family("cplx", "From AL Require Import C04.Model C04.ModelC C04.CheckC.", "xcase", "corr_cplx", "holds_cplx",
                 gen_cplx, run_cplx, lit_cplx, nontrivial_cplx),
  "hist": Family("hist", IMPORTS, "hcase", "corr_hist", "holds_hist", gen_hist, run_hist, lit_hist, nontrivial_hist),
}
