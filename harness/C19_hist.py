# -*- coding: utf-8 -*-
"""C19 histories: several calls in one process on shared / mutated objects.  Every call is recorded as an ordinary
per-call case (family, case dict, observation) built from the CURRENT public contents of its arguments, and Coq
evaluates the per-call corr_* / holds_* on each record (Check.v: corr_hist / holds_hist)."""
import itertools, collections
from fractions import Fraction
from vlib.exactq import ExactQ
from C19_util import FQ, frac_of


def fr(x):
  x = Fraction(x)
  return [x.numerator, x.denominator]


def F(p):
  return Fraction(p[0], p[1])


def _tbl(rng, n):
  return [fr(Fraction(rng.randrange(-9, 10), rng.choice([1, 2, 3, 4]))) for _ in range(n)]


CYCS = [["q", [1, 1]], ["q", [2, 1]], ["q", [3, 2]], ["int", 1], ["int", 2], ["int", 4], ["float", [1, 2]], ["float", [2, 1]],
        ["frac", [3, 1]], ["fq", [2, 1]], ["bool", 1]]


def gen_table_hist(rng):
  n = rng.randrange(1, 8)
  ops = [["new", _tbl(rng, n), rng.choice(CYCS), rng.choice(["list", "tuple"])]]
  def obs():
    r = rng.random()
    if r < 0.7:
      f = Fraction(rng.randrange(-6, 14), rng.choice([1, 2, 3, 5]))
      p = Fraction(rng.randrange(-8, 9), rng.choice([1, 2, 3]))
      return ["call", fr(f), fr(p), 8]
    if r < 0.85:
      return ["get", fr(Fraction(rng.randrange(0, 40), rng.choice([1, 2, 3])))]
    return ["eq"]
  if rng.random() < 0.5:
    ops.append(obs())
  for _ in range(rng.randrange(1, 4)):
    r = rng.random()
    if r < 0.45:
      ops.append(["set_cycles", rng.choice(CYCS)])
    elif r < 0.6:
      n = rng.randrange(1, 8)
      ops.append(["set_table", _tbl(rng, n)])
      if rng.random() < 0.5:
        ops.append(["set_cycles", rng.choice(CYCS)])
    elif r < 0.7:
      ops.append(["normalize"])
    elif r < 0.8:
      ops.append(["harmonize", [[p, fr(Fraction(rng.randrange(-3, 4), rng.choice([1, 2])))] for p in rng.sample(range(0, 5), rng.choice([1, 2]))]])
    elif r < 0.9:
      ops.append(["op_ts", rng.choice(["add", "sub", "mul", "truediv"]), fr(Fraction(rng.randrange(1, 6), rng.choice([1, 2])))])
    elif r < 0.95:
      ops.append(["op_tt", rng.choice(["add", "sub", "mul"]), _tbl(rng, n)])
    else:
      ops.append(["neg"])
    ops.append(obs())
    if rng.random() < 0.3:
      ops.append(obs())
  return {"kind": "table", "ops": ops, "tags": ["table-object", "ops=%d" % len(ops)] +
          sorted(set(o[0] for o in ops if o[0] not in ("new", "call", "get", "eq")))}


def gen_hist(tier, rng):
  n = 1 if tier == "quick" else 12
  for _ in range(150 * n):
    yield gen_table_hist(rng)
  for _ in range(40 * n):
    # karplus_strong: 2-3 calls, same freq, different tau / alpha / memory
    delay = rng.choice([Fraction(2), Fraction(7, 2), Fraction(5, 2), Fraction(1, 2), Fraction(4, 3), Fraction(6)])
    calls = []
    for _c in range(rng.choice([2, 3])):
      if rng.random() < 0.25:
        delay = rng.choice([Fraction(3), Fraction(9, 4), Fraction(5)])
      calls.append({"delay": fr(delay), "tau": fr(Fraction(rng.randrange(1, 30), rng.choice([1, 2]))),
                    "alpha": fr(Fraction(rng.randrange(1, 16), 16)),
                    "mem": [fr(Fraction(rng.randrange(-8, 9), rng.choice([1, 2]))) for _ in range(rng.choice([0, 2, 4, 8]))]})
    yield {"kind": "ks", "calls": calls, "interleave": rng.random() < 0.5, "k": 10, "tags": ["karplus-calls"]}
  for _ in range(40 * n):
    # resample twice on one source object (re-iterable or a one-shot iterator)
    ln = rng.choice([3, 6, 9, 14])
    sig = [fr(Fraction(rng.randrange(-9, 10), rng.choice([1, 2, 3]))) for _ in range(ln)]
    calls = [{"old": fr(rng.choice([Fraction(1), Fraction(1, 2), Fraction(3, 2), Fraction(2)])), "new": fr(rng.choice([Fraction(1), Fraction(2), Fraction(3)])),
              "order": rng.randrange(0, 5), "k": rng.choice([40, 40, 3, 5])} for _c in range(2)]
    yield {"kind": "resample", "sig": sig, "src": rng.choice(["list", "tuple", "iter", "stream", "deque"]), "calls": calls,
           "tags": ["resample-twice"]}
  for _ in range(60 * n):
    # two modulo_counter (or line) generators from ONE set of argument objects, consumed alternately
    kinds = [rng.choice("sn") for _ in range(3)]
    m = rng.choice([Fraction(5, 2), Fraction(7), Fraction(1)])
    vals = [rng.choice([Fraction(0), Fraction(1, 3), Fraction(-7, 2)]), m, m / rng.choice([Fraction(5), Fraction(2), Fraction(-3), Fraction(1, 2), Fraction(7, 3)])]
    args = []
    allfq = rng.random() < 0.3     # FQ (a float subclass) must not meet ExactQ / Fraction in one expression
    for kd, v in zip(kinds, vals):
      if kd == "n":
        args.append({"num": fr(v), "py": "fq" if allfq else rng.choice(["q", "q", "frac"])})
      else:
        vary = rng.random() < 0.5
        args.append({"str": [fr(v + (Fraction(rng.randrange(-3, 4), 2) if vary and v != m else 0)) for _ in range(rng.choice([6, 12]))],
                     "py": rng.choice(["list", "tuple", "deque"]), "el": "fq" if allfq else "q"})
    yield {"kind": "mc2", "args": args, "pulls": [rng.randrange(2) for _ in range(rng.choice([10, 16]))], "tags": ["mc-interleaved"]}
  for _ in range(30 * n):
    d = rng.choice([Fraction(3), Fraction(5, 2), Fraction(7), Fraction(9, 2)])
    yield {"kind": "line2", "d": fr(d), "b": fr(Fraction(rng.randrange(-3, 4), 2)), "e": fr(Fraction(rng.randrange(-3, 4), 3)),
           "fin": rng.random() < 0.5, "py": rng.choice(["q", "fq", "frac", "int"]),
           "pulls": [rng.randrange(2) for _ in range(14)], "tags": ["line-interleaved"]}
  for _ in range(40 * n):
    # noise generators sharing the random source: the oracle sequence continues across calls
    gens = [{"f": rng.choice(["white", "gauss"]), "d": rng.choice([{"fin": fr(Fraction(rng.randrange(0, 9), rng.choice([1, 2])))}, "none", "pinf"]),
             "lo": fr(Fraction(rng.randrange(-4, 2), 2)), "hi": fr(Fraction(rng.randrange(2, 7), 2))} for _g in range(2)]
    yield {"kind": "noise2", "gens": gens, "us": [fr(Fraction(rng.randrange(0, 1001), 1000)) for _ in range(24)],
           "pulls": [rng.randrange(2) for _ in range(12)], "tags": ["noise-shared-oracle"]}


# ====================================================================== runners
def mk_cyc(spec):
  k, v = spec
  if k == "q": return ExactQ(F(v))
  if k == "fq": return FQ(F(v))
  if k == "int": return int(v)
  if k == "bool": return True
  if k == "float": return float(F(v))
  return F(v)   # Fraction: Fraction * float is a float, so the constant is a rounded float


def pull_interleaved(gens, pulls):
  """gens: list of zero-argument callables returning iterators (created up front); pulls: sequence of indices.
  Returns per generator {"outs", "end", "k"} with k = number of pulls attempted."""
  its, res = [], []
  for g in gens:
    r = {"outs": [], "end": "more", "k": 0}
    try:
      its.append(iter(g()))
    except Exception as e:
      its.append(None); r["end"] = type(e).__name__; r["k"] = 1
    res.append(r)
  for i in pulls:
    r = res[i]
    if r["end"] != "more":
      continue
    r["k"] += 1
    try:
      r["outs"].append(fr(frac_of(next(its[i]))))
    except StopIteration:
      r["end"] = "stop"
    except Exception as e:
      r["end"] = type(e).__name__
  return res


def run_table_hist(c, M):
  import audiolazy, operator
  from audiolazy import lazy_synth as ls
  TL = audiolazy.TableLookup
  recs = []
  T = None; container = None; orig = None
  opname = dict((b, a) for a, b in M.OPS)
  def now():
    return [fr(frac_of(x)) for x in T.table], fr(frac_of(T.cycles))
  def tbl_obs(r):
    return {"tbl": [fr(frac_of(x)) for x in r.table], "cycles": fr(frac_of(r.cycles))}
  def apply(case, fn):
    """a table-producing method / operator: recorded, and the object continues as its result"""
    try:
      r = fn()
      recs.append({"fam": "table", "case": case, "obs": tbl_obs(r)})
      return r
    except Exception as e:
      recs.append({"fam": "table", "case": case, "obs": {"err": type(e).__name__}})
      return T
  for op in c["ops"]:
    k = op[0]
    if k == "new":
      container = [FQ(F(x)) for x in op[1]]
      if op[3] == "tuple": container = tuple(container)
      orig = list(container)
      T = TL(container, mk_cyc(op[2]))
      continue
    tb, cy = now()
    if k == "set_cycles":
      T.cycles = mk_cyc(op[1])
    elif k == "set_table":
      T.table = [FQ(F(x)) for x in op[1]]
    elif k == "normalize":
      T = apply({"t": "norm", "t1": tb, "c1": cy}, lambda: T.normalize())
    elif k == "harmonize":
      T = apply({"t": "harm", "t1": tb, "c1": cy, "h": op[1]}, lambda: T.harmonize(dict((p, FQ(F(a))) for p, a in op[1])))
    elif k == "op_ts":
      f = getattr(operator, op[1])
      T = apply({"t": "bints", "op": opname[op[1]], "t1": tb, "c1": cy, "x": op[2]}, lambda: f(T, FQ(F(op[2]))))
    elif k == "op_tt":
      f = getattr(operator, op[1])
      T = apply({"t": "bintt", "op": opname[op[1]], "t1": tb, "c1": cy, "t2": op[2], "c2": cy},
                lambda: f(T, TL([FQ(F(x)) for x in op[2]], T.cycles)))
    elif k == "neg":
      T = apply({"t": "neg", "t1": tb, "c1": cy}, lambda: -T)
    elif k == "get":
      try:
        o = {"val": fr(frac_of(T[ExactQ(F(op[1]))]))}
      except Exception as e:
        o = {"err": type(e).__name__}
      recs.append({"fam": "table", "case": {"t": "get", "tbl": tb, "idx": op[1]}, "obs": o})
    elif k == "eq":
      cp = tuple(T.table) if isinstance(T.table, tuple) else list(T.table)   # list == tuple is False in Python
      same = TL(cp, T.cycles); other = TL(cp, T.cycles + 1)
      recs.append({"fam": "table", "case": {"t": "eq", "t1": tb, "c1": cy, "t2": tb, "c2": cy},
                   "obs": {"val": fr(1 if (T == same and not (T != same)) else 0)}})
      recs.append({"fam": "table", "case": {"t": "eq", "t1": tb, "c1": cy, "t2": tb, "c2": fr(F(cy) + 1)},
                   "obs": {"val": fr(1 if (T == other or not (T != other)) else 0)}})
    elif k == "call":
      fa, pa = {"num": op[1]}, {"num": op[2]}
      o = M.observe(lambda: T(ExactQ(F(op[1])), ExactQ(F(op[2]))), op[3])
      if isinstance(T.cycles, (ExactQ, FQ)):
        case = {"t": "call", "tbl": tb, "cycles": cy, "freq": fa, "phase": pa, "k": op[3]}
      else:
        # machine-number cycles: the constant len/(cycles*2*pi), as a NEW object with these attributes computes it
        seen = []; origmc = ls.modulo_counter
        def spy(part, modulo, step):
          seen.append(step); return origmc(part, modulo, step)
        ls.modulo_counter = spy
        try:
          TL(list(T.table), T.cycles)(ExactQ(1), ExactQ(0))
        except Exception:
          pass
        finally:
          ls.modulo_counter = origmc
        if seen: o["cl"] = fr(frac_of(seen[0]))
        case = {"t": "callf", "tbl": tb, "cyc": ["float", cy], "freq": fa, "phase": pa, "k": op[3]}
      recs.append({"fam": "table", "case": case, "obs": o})
  if isinstance(container, list) and [frac_of(x) for x in container] != [frac_of(x) for x in orig]:
    recs.append({"bad": "the caller's table list was modified"})
  return recs


class OneShot(object):
  """an iterator over a list that shows how far it has been consumed"""
  def __init__(self, data):
    self.data, self.pos = data, 0
  def __iter__(self):
    return self
  def __next__(self):
    if self.pos >= len(self.data):
      raise StopIteration
    self.pos += 1
    return self.data[self.pos - 1]


def mk_num(p, py):
  f = F(p)
  if py == "fq": return FQ(f)
  if py == "frac": return f
  if py == "int" and f.denominator == 1: return int(f)
  return ExactQ(f)


def run_hist(c):
  import C19 as M
  import audiolazy
  from audiolazy import lazy_synth as ls, lazy_filters as lf
  kind = c["kind"]
  recs = []
  if kind == "table":
    return {"recs": run_table_hist(c, M)}
  if kind == "ks":
    makers = []
    for call in c["calls"]:
      e = M._E(FQ(F(call["alpha"])))
      old = lf.e; lf.e = e
      try:   # the filter (and e ** x) is built when karplus_strong is called; pulling happens later
        s = audiolazy.karplus_strong(FQ(M.TWO_PI / F(call["delay"])), FQ(F(call["tau"])), memory=[FQ(F(x)) for x in call["mem"]])
        makers.append((lambda s=s: s))
      except Exception as ex:
        makers.append((lambda ex=ex: (_ for _ in ()).throw(ex)))
      finally:
        lf.e = old
      call["_expo"] = fr(frac_of(e.args[0])) if len(e.args) == 1 else None
    n = len(makers)
    pulls = ([i for _ in range(c["k"]) for i in range(n)] if c["interleave"] else [i for i in range(n) for _ in range(c["k"])])
    for call, r in zip(c["calls"], pull_interleaved(makers, pulls)):
      case = {"t": "ks", "freq": fr(M.TWO_PI / F(call["delay"])), "tau": call["tau"], "alpha": call["alpha"], "mem": call["mem"],
              "default_mem": False, "k": r["k"]}
      recs.append({"fam": "osc", "case": case, "obs": {"outs": r["outs"], "end": r["end"], "expo": call.pop("_expo")}})
    return {"recs": recs}
  if kind == "resample":
    data = [ExactQ(F(x)) for x in c["sig"]]
    src = c["src"]
    one = OneShot(data) if src in ("iter", "stream") else None
    obj = {"list": lambda: data, "tuple": lambda: tuple(data), "deque": lambda: collections.deque(data),
           "iter": lambda: one, "stream": lambda: audiolazy.Stream(one)}[src]()
    for call in c["calls"]:
      sig_now = c["sig"][one.pos:] if one is not None else c["sig"]
      o = M.observe(lambda: audiolazy.resample(obj, ExactQ(F(call["old"])), ExactQ(F(call["new"])), order=call["order"]), call["k"])
      recs.append({"fam": "resample", "obs": o,
                   "case": {"sig": sig_now, "old": {"num": call["old"]}, "new": call["new"], "order": call["order"],
                            "zero": [0, 1], "k": call["k"], "ints": False}})
    if one is None and [frac_of(x) for x in data] != [F(x) for x in c["sig"]]:
      recs.append({"bad": "the caller's input list was modified"})
    return {"recs": recs}
  if kind == "mc2":
    objs = []
    for a in c["args"]:
      if "num" in a:
        objs.append(mk_num(a["num"], a["py"]))
      else:
        l = [mk_num(x, a.get("el", "q")) for x in a["str"]]
        objs.append({"list": l, "tuple": tuple(l), "deque": collections.deque(l)}[a["py"]])
    res = pull_interleaved([lambda: audiolazy.modulo_counter(*objs)] * 2, c["pulls"])
    for r in res:
      case = dict((nm, dict((k, v) for k, v in a.items() if k not in ("py", "el"))) for nm, a in zip(("start", "modulo", "step"), c["args"]))
      case["k"] = r["k"]
      recs.append({"fam": "mc", "case": case, "obs": {"outs": r["outs"], "end": r["end"]}})
    return {"recs": recs}
  if kind == "line2":
    py = c["py"] if c["py"] != "frac" else "q"
    el = "fq" if py == "fq" else "q"      # FQ must not meet ExactQ in one expression
    d, b, e = mk_num(c["d"], py), mk_num(c["b"], el), mk_num(c["e"], el)
    res = pull_interleaved([lambda: audiolazy.line(d, b, e, finish=c["fin"])] * 2, c["pulls"])
    for r in res:
      recs.append({"fam": "dur", "obs": {"outs": r["outs"], "end": r["end"]},
                   "case": {"call": {"f": "line", "d": {"fin": c["d"]}, "b": c["b"], "e": c["e"], "fin": c["fin"]},
                            "k": r["k"], "us": [], "nk": "q"}})
    return {"recs": recs}
  if kind == "noise2":
    us = [F(u) for u in c["us"]]
    used = []          # (u) in the order the random source handed them out
    owner = {"cur": None, "per": [[], []]}
    def draw():
      u = us[len(used)]; used.append(u); owner["per"][owner["cur"]].append(fr(u))
      return u
    old = (ls.random.uniform, ls.random.gauss)
    ls.random.uniform = lambda lo, hi: lo + (hi - lo) * ExactQ(draw())
    ls.random.gauss = lambda mu, sg: mu + sg * ExactQ(draw())
    try:
      gens = []
      for g in c["gens"]:
        dur = M.mk_dur(g["d"], "fq")
        fn = audiolazy.white_noise if g["f"] == "white" else audiolazy.gauss_noise
        gens.append(iter(fn(dur, ExactQ(F(g["lo"])), ExactQ(F(g["hi"])))))
      res = [{"outs": [], "end": "more", "k": 0} for _ in gens]
      for i in c["pulls"]:
        r = res[i]
        if r["end"] != "more": continue
        r["k"] += 1; owner["cur"] = i
        try:
          r["outs"].append(fr(frac_of(next(gens[i]))))
        except StopIteration:
          r["end"] = "stop"
        except Exception as ex:
          r["end"] = type(ex).__name__
    finally:
      ls.random.uniform, ls.random.gauss = old
    for i, (g, r) in enumerate(zip(c["gens"], res)):
      recs.append({"fam": "dur", "obs": {"outs": r["outs"], "end": r["end"]},
                   "case": {"call": {"f": g["f"], "d": g["d"], "lo": g["lo"], "hi": g["hi"]}, "k": r["k"],
                            "us": owner["per"][i], "nk": "q"}})
    return {"recs": recs}
  raise ValueError(kind)


def lit_hist(c, o):
  import C19 as M
  from vlib import coqlit as L
  items = []
  for r in o.get("recs", [{"bad": "harness: " + str(o.get("raise", "?"))}]):
    if "bad" in r:
      items.append("ABad %s" % L.string("".join(ch for ch in r["bad"] if ch.isalnum() or ch in " :_-")[:80]))
      continue
    fam, case, ob = r["fam"], r["case"], r["obs"]
    if fam == "table": items.append("ATab %s" % M.lit_table(case, ob))
    elif fam == "mc": items.append("AMc %s" % M.lit_mc(case, ob))
    elif fam == "dur": items.append("ADur %s" % M.lit_dur(case, ob))
    elif fam == "resample": items.append("ARs %s" % M.lit_resample(case, ob))
    else: items.append("AOsc %s" % M.lit_osc(case, ob))
  return L.lst(items)


def nontrivial_hist(c, o):
  return len(o.get("recs", [])) >= 2
