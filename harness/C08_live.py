# -*- coding: utf-8 -*-
"""C08 round 2: live histories - the owner of the list changes it between two next() calls."""
from fractions import Fraction
from vlib import coqlit as L
import C08_util as U

COMBOS = [("list", "func"), ("iter", "func"), ("list", "stream"), ("list", "hub"), ("gen", "func"), ("only", "func"),
          ("stream", "func"), ("hub", "func"), ("sublist", "func"), ("chain", "func"), ("map", "func"), ("iter", "stream"),
          ("only", "stream"), ("list", "scopy"), ("gen", "hub"), ("list", "hub2"), ("sublist", "stream"), ("list", "func")]
ZKINDS = ["list", "iter", "gen", "only", "stream", "hub", "sublist", "chain"]
FRESH = ["n", None, 2.5, True, 0, (9,), -0.0, Fraction(2, 3), U.Obj("float"), U.Obj("nan"), U.Obj("alist")]
PADS = [None, "P", 0., 0, -1, (), False, U.Obj("abs"), U.Obj("list"), U.Obj("callobj"), U.Obj("nan"), U.Obj("lambda")]


class Sim(object):
  """Reference bookkeeping (k complete blocks so far, end reached) used only to GENERATE valid scripts."""
  def __init__(self, size, hop, n0):
    self.s, self.h, self.cnt = size, hop, 0
    self.buf = [self.fresh() for _ in range(n0)]
    self.buf0 = [U.enc(v) for v in self.buf]
    self.k, self.fin, self.ops, self.after_fin = 0, False, [], 0
    self.mid = False   # a change made between two complete blocks, followed by another block

  def fresh(self):
    self.cnt += 1
    v = FRESH[self.cnt % len(FRESH)]
    return 100 + self.cnt if self.cnt % 3 else ("n%d" % self.cnt if v == "n" else v)

  def read(self):
    return 0 if self.fin else U.items_read(self.s, self.h, self.k)

  def next(self, times=1):
    for _ in range(times):
      self.ops.append({"op": "next"})
      if self.fin:
        self.after_fin += 1
      elif self.k * self.h + self.s <= len(self.buf):
        self.k += 1
        if self.pending and self.k > 1:
          self.mid = True
      else:
        self.fin = True
  pending = False

  def drain(self):
    guard = 0
    while self.after_fin < 1 and guard < 200:
      self.next(); guard += 1

  def change(self, rng, what=None):
    r, n = self.read(), len(self.buf)
    what = what or rng.choice(["ext", "app", "iadd", "trunc", "set", "ins", "del", "tail"])
    if what in ("trunc", "set", "del") and n <= r:
      what = "ext"
    if what in ("ext", "iadd"):
      op = {"op": what, "items": [U.enc(self.fresh()) for _ in range(rng.randrange(1, 2 * self.s + self.h))]}
    elif what == "app":
      op = {"op": "app", "items": [U.enc(self.fresh())]}
    elif what == "trunc":
      op = {"op": "trunc", "n": rng.randrange(r, n)}
    elif what in ("set", "del"):
      op = {"op": what, "i": rng.randrange(r, n), "items": [U.enc(self.fresh())]}
    elif what == "ins":
      op = {"op": "ins", "i": rng.randrange(r, n + 1), "items": [U.enc(self.fresh())]}
    else:
      op = {"op": "tail", "i": rng.randrange(r, n + 1), "items": [U.enc(self.fresh()) for _ in range(rng.randrange(0, 2 * self.s))]}
    U.apply_op(self.buf, op)
    op["buf"] = [U.enc(v) for v in self.buf]
    self.ops.append(op)
    self.pending = not self.fin and self.k >= 1


def script(pat, size, hop, n0, rng):
  sm = Sim(size, hop, n0)
  if pat == 0:
    sm.change(rng, "ext")
  elif pat == 1:
    sm.next(); sm.change(rng, "ext")
  elif pat == 2:
    sm.next(2); sm.change(rng, "app"); sm.next(); sm.change(rng, "iadd")
  elif pat == 3:
    sm.next(); sm.change(rng, "trunc")
  elif pat == 4:
    sm.next(); sm.change(rng, "set"); sm.change(rng, "ins"); sm.next(); sm.change(rng, "del")
  elif pat == 5:
    sm.drain(); sm.change(rng, "ext"); sm.next(2)
  elif pat == 6:
    for _ in range(6):
      sm.next(); sm.change(rng, "app")
  else:
    for _ in range(rng.randrange(3, 9)):
      if rng.random() < 0.5:
        sm.next()
      else:
        sm.change(rng)
  sm.drain()
  return sm


def gen_hist(tier, rng):
  cnt = 0
  reps = 1 if tier == "quick" else 8
  for _ in range(reps):
    for size in range(1, 5):
      for hop in range(1, 6):
        for n0 in sorted({0, size - 1, size, size + 1, size + hop, size + 2 * hop + 1}):
          for pat in range(8):
            cnt += 1
            kind, entry = COMBOS[cnt % len(COMBOS)]
            sm = script(pat, size, hop, n0, rng)
            hopmode = "omit" if (hop == size and cnt % 2) else "given"
            yield {"kind": kind, "entry": entry, "style": ["kw", "pos", "mix"][cnt % 3], "size": size, "hop": hop,
                   "hopmode": hopmode, "pad": U.enc(PADS[cnt % len(PADS)]), "buf0": sm.buf0, "ops": sm.ops, "mid": sm.mid,
                   "tags": ["pat%d" % pat, "kind:" + kind, "entry:" + entry] + (["mid-change"] if sm.mid else [])}


def run_hist(c):
  try:
    items = [U.dec(j) for j in c["buf0"]]
    buf = U.SubList(items) if c["kind"] == "sublist" else list(items)
    src, _ = U.mk_source(c["kind"], items, live=buf)
    g = U.call_blocks(c["entry"], c["style"], src, c["size"], c["hop"], U.dec(c["pad"]), c["hopmode"], "given")
    out = []
    for op in c["ops"]:
      if op["op"] == "next":
        try:
          out.append([U.enc(v) for v in list(next(g))])     # snapshot at the moment it is produced
        except StopIteration:
          out.append(None)
      else:
        U.apply_op(buf, op)
        if [U.enc(v) for v in list.__iter__(buf)] != op["buf"]:
          return {"raise": "HarnessOpMismatch"}
    return {"outs": out}
  except Exception as e:
    return {"raise": type(e).__name__}


def lit_ops(ops):
  return L.lst(["HNext" if op["op"] == "next" else "(HBuf %s)" % U.pvl(op["buf"]) for op in ops])


def lit_hist(c, o):
  if "outs" in o:
    ob = "(HO %s)" % L.lst(["None" if b is None else "(Some %s)" % U.pvl(b) for b in o["outs"]])
  else:
    ob = "(HOR %s)" % L.string(o["raise"])
  return "(HC %s %s %s %s %s %s)" % (L.nat(c["size"]), L.nat(c["hop"]), U.pv(c["pad"]), U.pvl(c["buf0"]), lit_ops(c["ops"]), ob)


# ---------------------------------------------------------------- zero_pad on a live list
def gen_zhist(tier, rng):
  cnt = 0
  for left in range(3):
    for right in range(3):
      for n0 in range(4):
        for pat in range(6 if tier == "quick" else 30):
          cnt += 1
          sm = Sim(1, 1, n0)       # only its list bookkeeping is used: any change is fair for zero_pad
          ops, given = [], 0
          for _ in range(rng.randrange(2, 7)):
            if rng.random() < 0.6 or pat == 0:
              ops.append({"op": "next"})
            else:
              sm.fin = True        # read() = 0: every position may change
              sm.change(rng, ["ext", "app", "trunc", "set", "ins", "del", "tail", "iadd"][(cnt + len(ops)) % 8])
              ops.append(sm.ops[-1])
          ops += [{"op": "next"}] * (left + right + len(sm.buf) + 2)
          if pat % 3 == 2:         # a change after the end of the list was seen
            sm.fin = True; sm.change(rng, "ext"); ops.append(sm.ops[-1]); ops += [{"op": "next"}] * (right + 2)
          yield {"kind": ZKINDS[cnt % len(ZKINDS)], "style": ["kw", "pos", "mix", "min"][cnt % 4], "left": left, "right": right,
                 "zero": U.enc(PADS[cnt % len(PADS)]), "buf0": sm.buf0, "ops": ops,
                 "tags": ["zhist", "kind:" + ZKINDS[cnt % len(ZKINDS)]]}


def run_zhist(c):
  try:
    items = [U.dec(j) for j in c["buf0"]]
    buf = U.SubList(items) if c["kind"] == "sublist" else list(items)
    src, _ = U.mk_source(c["kind"], items, live=buf)
    g = U.call_zpad(c["style"], src, c["left"], c["right"], U.dec(c["zero"]), "given")
    out = []
    for op in c["ops"]:
      if op["op"] == "next":
        try:
          out.append(U.enc(next(g)))
        except StopIteration:
          out.append(None)
      else:
        U.apply_op(buf, op)
        if [U.enc(v) for v in list.__iter__(buf)] != op["buf"]:
          return {"raise": "HarnessOpMismatch"}
    return {"outs": out}
  except Exception as e:
    return {"raise": type(e).__name__}


def lit_zhist(c, o):
  if "outs" in o:
    ob = "(ZHO %s)" % L.lst(["None" if v is None else "(Some %s)" % U.pv(v) for v in o["outs"]])
  else:
    ob = "(ZHOR %s)" % L.string(o["raise"])
  return "(ZHC %s %s %s %s %s %s)" % (L.nat(c["left"]), L.nat(c["right"]), U.pv(c["zero"]), U.pvl(c["buf0"]), lit_ops(c["ops"]), ob)
