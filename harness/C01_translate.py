# -*- coding: utf-8 -*-
"""
C01 translator (fail-closed): reads, with the Python `ast` module,

  * OpMethod._initialize / OpMethod._insert and the dispatch dictionary of
    AbstractOperatorOverloaderMeta.__new__        (audiolazy/lazy_core.py)
  * HAS_MATMUL                                     (audiolazy/lazy_compat.py)
  * the operator dunders defined by hand in class Stream / StreamMeta
                                                   (audiolazy/lazy_stream.py)
  * _math_names and every elementwise(...) wrapper (audiolazy/lazy_math.py, lazy_midi.py)

and writes coq/theories/C01/Gen_OpTable.v.  Every statement of the translated
functions / modules has to match one of the shapes below; anything else is an
error string (= broken tie).  The expression translator covers exactly the
subset used by `_insert` (string constants, `and`, `!=`, `==`, `in [..]`,
`.startswith`, `"..{}..".format`, `x if c else y`, `s[b:]`).
"""
import ast, os, sys

TARGET = os.path.join(os.path.dirname(os.path.dirname(os.path.abspath(__file__))),
                      "coq", "theories", "C01", "Gen_OpTable.v")


class TrError(Exception):
  pass


def cstr(s):
  if '"' in s or "\\" in s or any(not (32 <= ord(ch) < 127) for ch in s):
    raise TrError("string constant not printable as a Coq literal: %r" % s)
  return '"%s"' % s


def clist(items):
  return "[" + "; ".join(items) + "]"


def dump(n):
  try:
    return ast.unparse(n)
  except Exception:
    return ast.dump(n)


# ------------------------------------------------------------------ expressions of _insert
class ExprTr(object):
  """Typed translation of the expression subset; env maps Python names / self.attrs to
  (coq_term, type) with type in {"string", "bool", "nat"}."""

  def __init__(self, env):
    self.env = env

  def tr(self, n):
    if isinstance(n, ast.Constant):
      if isinstance(n.value, bool):
        return ("true" if n.value else "false"), "bool"
      if isinstance(n.value, int) and 0 <= n.value < 100:
        return "%d" % n.value, "nat"
      if isinstance(n.value, str):
        return cstr(n.value), "string"
      raise TrError("constant %r" % (n.value,))
    if isinstance(n, ast.Name) and isinstance(n.ctx, ast.Load):
      if n.id in self.env:
        return self.env[n.id]
      raise TrError("unknown name %s" % n.id)
    if isinstance(n, ast.Attribute) and isinstance(n.value, ast.Name) and n.value.id == "self":
      key = "self." + n.attr
      if key in self.env:
        return self.env[key]
      raise TrError("attribute %s read before it is assigned" % key)
    if isinstance(n, ast.BoolOp):
      parts = [self.want(v, "bool") for v in n.values]
      op = {ast.And: " && ", ast.Or: " || "}.get(type(n.op))
      if op is None:
        raise TrError("boolean operator " + dump(n))
      return "(" + op.join(parts) + ")", "bool"
    if isinstance(n, ast.UnaryOp) and isinstance(n.op, ast.Not):
      return "(negb %s)" % self.want(n.operand, "bool"), "bool"
    if isinstance(n, ast.Compare) and len(n.ops) == 1:
      a, ta = self.tr(n.left)
      op, rhs = n.ops[0], n.comparators[0]
      if isinstance(op, (ast.Eq, ast.NotEq)):
        b, tb = self.tr(rhs)
        if ta != tb:
          raise TrError("comparison of %s with %s in %s" % (ta, tb, dump(n)))
        eq = {"string": "String.eqb", "nat": "Nat.eqb", "bool": "Bool.eqb"}[ta]
        t = "(%s %s %s)" % (eq, a, b)
        return (t if isinstance(op, ast.Eq) else "(negb %s)" % t), "bool"
      if isinstance(op, (ast.In, ast.NotIn)) and isinstance(rhs, (ast.List, ast.Tuple)) and ta == "string":
        elts = [self.want(e, "string") for e in rhs.elts]
        t = "(existsb (String.eqb %s) %s)" % (a, clist(elts))
        return (t if isinstance(op, ast.In) else "(negb %s)" % t), "bool"
      raise TrError("comparison " + dump(n))
    if isinstance(n, ast.IfExp):
      c = self.want(n.test, "bool")
      a, ta = self.tr(n.body)
      b, tb = self.tr(n.orelse)
      if ta != tb:
        raise TrError("branches of different types in " + dump(n))
      return "(if %s then %s else %s)" % (c, a, b), ta
    if isinstance(n, ast.Call) and isinstance(n.func, ast.Attribute) and not n.keywords:
      meth, obj = n.func.attr, n.func.value
      if meth == "startswith" and len(n.args) == 1:
        return "(String.prefix %s %s)" % (self.want(n.args[0], "string"), self.want(obj, "string")), "bool"
      if meth == "format" and isinstance(obj, ast.Constant) and isinstance(obj.value, str):
        pieces = obj.value.split("{}")
        if len(pieces) != len(n.args) + 1 or "{" in "".join(pieces) or "}" in "".join(pieces):
          raise TrError("format string " + dump(n))
        out = [cstr(pieces[0])]
        for arg, piece in zip(n.args, pieces[1:]):
          out.append(self.want(arg, "string"))
          out.append(cstr(piece))
        return "(" + " ++ ".join(out) + ")", "string"
      raise TrError("method call " + dump(n))
    if isinstance(n, ast.Subscript) and isinstance(n.slice, ast.Slice):
      sl = n.slice
      if sl.upper is None and sl.step is None and sl.lower is not None:
        s = self.want(n.value, "string")
        lo, tlo = self.tr(sl.lower)
        if tlo == "bool":      # a bool used as an index is 0 / 1
          lo = "(if %s then 1 else 0)" % lo
        elif tlo != "nat":
          raise TrError("slice bound " + dump(n))
        return "(sdrop %s %s)" % (lo, s), "string"
      raise TrError("slice " + dump(n))
    raise TrError("expression outside the translated subset: " + dump(n))

  def want(self, n, ty):
    t, got = self.tr(n)
    if got != ty:
      raise TrError("expected %s, got %s in %s" % (ty, got, dump(n)))
    return t


def find_class(mod, name):
  for n in mod.body:
    if isinstance(n, ast.ClassDef) and n.name == name:
      return n
  raise TrError("class %s not found" % name)


def find_method(cls, name):
  for n in cls.body:
    if isinstance(n, ast.FunctionDef) and n.name == name:
      return n
  raise TrError("method %s.%s not found" % (cls.name, name))


def is_self_attr_assign(st):
  return (isinstance(st, ast.Assign) and len(st.targets) == 1 and isinstance(st.targets[0], ast.Attribute)
          and isinstance(st.targets[0].value, ast.Name) and st.targets[0].value.id == "self")


def no_docstring(body):
  if body and isinstance(body[0], ast.Expr) and isinstance(body[0].value, ast.Constant) \
     and isinstance(body[0].value.value, str):
    return body[1:]
  return body


def translate_insert(fn):
  """OpMethod._insert(cls, name, symbol) -> Coq definitions of the six fields."""
  args = [a.arg for a in fn.args.args]
  if args != ["cls", "name", "symbol"] or fn.args.vararg or fn.args.kwarg or fn.args.kwonlyargs:
    raise TrError("_insert signature is %r" % args)
  env = {"name": ("name", "string"), "symbol": ("symbol", "string")}
  tr = ExprTr(env)
  body = no_docstring(fn.body)
  if not (isinstance(body[0], ast.Assign) and dump(body[0]) == "self = cls()"):
    raise TrError("_insert does not start with self = cls(): " + dump(body[0]))
  fields, defs, i = [], [], 1
  while i < len(body) and is_self_attr_assign(body[i]):
    st = body[i]
    attr = st.targets[0].attr
    val = st.value
    if attr == "func":
      # self.func = getattr(operator, <string expr>): the field is the attribute name looked up
      if not (isinstance(val, ast.Call) and isinstance(val.func, ast.Name) and val.func.id == "getattr"
              and len(val.args) == 2 and not val.keywords
              and isinstance(val.args[0], ast.Name) and val.args[0].id == "operator"):
        raise TrError("self.func is not getattr(operator, ...): " + dump(st))
      term, ty = tr.want(val.args[1], "string"), "string"
    else:
      term, ty = tr.tr(val)
    if attr in fields:
      raise TrError("field %s assigned twice" % attr)
    fields.append(attr)
    defs.append((attr, term, ty))
    # later statements read the field through its definition
    env["self." + attr] = ("(gen_%s name symbol)" % attr, ty)
    i += 1
  want = {"name": "string", "symbol": "string", "rev": "bool", "dname": "string", "arity": "nat", "func": "string"}
  got = dict((a, ty) for a, _, ty in defs)
  if got != want:
    raise TrError("_insert fields/types are %r, expected %r" % (got, want))
  # the rest only registers the instance in cls._all: keys = [...]; if self.rev: keys.append("r"); for key in keys: ...
  rest = body[i:]
  shapes = [dump(s).split("\n")[0] for s in rest]
  ok = (len(rest) == 3
        and isinstance(rest[0], ast.Assign) and dump(rest[0].targets[0]) == "keys" and isinstance(rest[0].value, ast.List)
        and isinstance(rest[1], ast.If) and dump(rest[1].test) == "self.rev" and not rest[1].orelse
        and [dump(s) for s in rest[1].body] == ["keys.append('r')"]
        and isinstance(rest[2], ast.For) and dump(rest[2].target) == "key" and dump(rest[2].iter) == "keys")
  if not ok:
    raise TrError("unrecognised statements after the field assignments of _insert: %r" % shapes)
  for s in ast.walk(rest[2]):
    if isinstance(s, (ast.Attribute,)) and isinstance(s.value, ast.Name) and s.value.id == "self" \
       and isinstance(s.ctx, ast.Store):
      raise TrError("_insert modifies self after the field assignments")
  out = []
  for attr, term, ty in defs:
    out.append("Definition gen_%s (name symbol : string) : %s :=\n  %s." % (attr, ty, term))
  out.append("Definition gen_insert (name symbol : string) : opentry :=\n"
             "  mk_op (gen_name name symbol) (gen_symbol name symbol) (gen_rev name symbol)\n"
             "        (gen_dname name symbol) (gen_arity name symbol) (gen_func name symbol).")
  return out


def has_matmul(compat_src):
  mod = ast.parse(compat_src)
  for st in mod.body:
    if isinstance(st, ast.Assign) and dump(st.targets[0]) == "HAS_MATMUL":
      v = st.value
      if (isinstance(v, ast.Compare) and dump(v.left) == "sys.version_info" and len(v.ops) == 1
          and isinstance(v.ops[0], ast.GtE) and isinstance(v.comparators[0], ast.Tuple)):
        tup = tuple(ast.literal_eval(e) for e in v.comparators[0].elts)
        return sys.version_info >= tup
      raise TrError("HAS_MATMUL has an unrecognised definition: " + dump(st))
  raise TrError("HAS_MATMUL not found in lazy_compat.py")


def translate_initialize(fn, matmul):
  """OpMethod._initialize -> list of (symbol, [names]) in insertion order."""
  body = no_docstring(fn.body)
  if len(body) != 3:
    raise TrError("_initialize has %d statements, expected 3" % len(body))
  a, cond, loop = body
  if not (isinstance(a, ast.Assign) and dump(a.targets[0]) == "op_symbols"
          and isinstance(a.value, ast.Call) and isinstance(a.value.func, ast.Attribute)
          and a.value.func.attr == "splitlines" and not a.value.args
          and isinstance(a.value.func.value, ast.Call) and isinstance(a.value.func.value.func, ast.Attribute)
          and a.value.func.value.func.attr == "strip" and not a.value.func.value.args
          and isinstance(a.value.func.value.func.value, ast.Constant)
          and isinstance(a.value.func.value.func.value.value, str)):
    raise TrError("op_symbols is not <string>.strip().splitlines(): " + dump(a)[:200])
  lines = a.value.func.value.func.value.value.strip().splitlines()
  if not (isinstance(cond, ast.If) and dump(cond.test) == "HAS_MATMUL" and not cond.orelse and len(cond.body) == 1
          and isinstance(cond.body[0], ast.Expr) and isinstance(cond.body[0].value, ast.Call)
          and dump(cond.body[0].value.func) == "op_symbols.append" and len(cond.body[0].value.args) == 1
          and isinstance(cond.body[0].value.args[0], ast.Constant)
          and isinstance(cond.body[0].value.args[0].value, str)):
    raise TrError("unrecognised HAS_MATMUL statement: " + dump(cond))
  if matmul:
    lines.append(cond.body[0].value.args[0].value)
  want_loop = ("for op_line in op_symbols:\n"
               "    symbol, names = op_line.split(None, 1)\n"
               "    for name in names.split():\n"
               "        cls._insert(name, symbol)")
  if dump(loop).replace("(symbol, names)", "symbol, names") != want_loop:
    raise TrError("unrecognised insertion loop in _initialize: " + dump(loop))
  res = []
  for op_line in lines:
    symbol, names = op_line.split(None, 1)
    res.append((symbol, names.split()))
  return res


def translate_dispatch(fn):
  """The dictionary {(rev, arity): builder} of AbstractOperatorOverloaderMeta.__new__."""
  found = []
  for n in ast.walk(fn):
    if isinstance(n, ast.Subscript) and isinstance(n.value, ast.Dict):
      found.append(n)
  if len(found) != 1:
    raise TrError("__new__ has %d subscripted dictionary displays, expected 1" % len(found))
  sub = found[0]
  if dump(sub.slice) not in ("(op.rev, op.arity)", "op.rev, op.arity"):
    raise TrError("dispatch dictionary indexed by " + dump(sub.slice))
  entries = []
  for k, v in zip(sub.value.keys, sub.value.values):
    if not (isinstance(k, ast.Tuple) and len(k.elts) == 2 and all(isinstance(e, ast.Constant) for e in k.elts)
            and isinstance(k.elts[0].value, bool) and isinstance(k.elts[1].value, int)
            and isinstance(v, ast.Attribute) and dump(v.value) == "mcls"):
      raise TrError("dispatch entry %s: %s" % (dump(k), dump(v)))
    entries.append((k.elts[0].value, k.elts[1].value, v.attr))
  # it must be called as {...}[op.rev, op.arity](cls, op) inside "if op.dname not in namespace"
  calls = [n for n in ast.walk(fn) if isinstance(n, ast.Call) and n.func is sub]
  if len(calls) != 1 or [dump(a) for a in calls[0].args] != ["cls", "op"] or calls[0].keywords:
    raise TrError("dispatch dictionary is not applied to (cls, op)")
  guards = [n for n in ast.walk(fn) if isinstance(n, ast.If) and dump(n.test) == "op.dname not in namespace"]
  if len(guards) != 1 or not any(c is calls[0] for g in guards for c in ast.walk(g)):
    raise TrError("builder call is not guarded by 'op.dname not in namespace'")
  loops = [n for n in ast.walk(fn) if isinstance(n, ast.For)
           and dump(n.iter) == "OpMethod.get(mcls.__operators__, without=mcls.__without__)"]
  if len(loops) != 1:
    raise TrError("__new__ does not loop over OpMethod.get(mcls.__operators__, without=mcls.__without__)")
  sets = [n for n in ast.walk(guards[0]) if isinstance(n, ast.Call) and dump(n.func) == "setattr"]
  if [dump(s) for s in sets] != ["setattr(cls, dunder.__name__, dunder)"]:
    raise TrError("installation of the dunder is not setattr(cls, dunder.__name__, dunder)")
  names = [n for n in ast.walk(guards[0]) if isinstance(n, ast.Assign) and dump(n.targets[0]) == "dunder.__name__"]
  if [dump(s.value) for s in names] != ["op.dname"]:
    raise TrError("dunder.__name__ is not set to op.dname")
  return entries


def class_level_strings(cls, wanted):
  res = {}
  for st in cls.body:
    if isinstance(st, ast.Assign) and len(st.targets) == 1 and isinstance(st.targets[0], ast.Name) \
       and st.targets[0].id in wanted:
      if not isinstance(st.value, ast.Constant):
        raise TrError("%s.%s is not a constant" % (cls.name, st.targets[0].id))
      res[st.targets[0].id] = st.value.value
  return res


def defined_names(cls):
  """Names bound in a class body (methods and simple/tuple assignments)."""
  res = []
  for st in cls.body:
    if isinstance(st, (ast.FunctionDef, ast.ClassDef)):
      res.append(st.name)
    elif isinstance(st, ast.Assign):
      for t in st.targets:
        for n in ast.walk(t):
          if isinstance(n, ast.Name):
            res.append(n.id)
    elif isinstance(st, (ast.Expr, ast.Pass)):
      pass
    else:
      raise TrError("statement in class %s body: %s" % (cls.name, dump(st)[:80]))
  return res


# ------------------------------------------------------------------ elementwise wrappers
def ew_args(call):
  """elementwise(name="", pos=None) call -> (name, pos)."""
  if not (isinstance(call, ast.Call) and isinstance(call.func, ast.Name) and call.func.id == "elementwise"):
    raise TrError("not an elementwise(...) call: " + dump(call))
  vals = {"name": "", "pos": None}
  order = ["name", "pos"]
  if len(call.args) > 2:
    raise TrError("elementwise called with %d positional arguments" % len(call.args))
  for k, a in zip(order, call.args):
    if not isinstance(a, ast.Constant):
      raise TrError("elementwise argument is not a constant: " + dump(call))
    vals[k] = a.value
  for kw in call.keywords:
    if kw.arg not in vals or not isinstance(kw.value, ast.Constant):
      raise TrError("elementwise keyword: " + dump(call))
    vals[kw.arg] = kw.value.value
  if not isinstance(vals["name"], str) or not (vals["pos"] is None or (isinstance(vals["pos"], int)
                                                                      and not isinstance(vals["pos"], bool)
                                                                      and 0 <= vals["pos"] < 50)):
    raise TrError("elementwise arguments %r" % (vals,))
  return vals["name"], vals["pos"]


def mentions(node, name):
  return any(isinstance(n, ast.Name) and n.id == name for n in ast.walk(node))


def translate_math_module(src, modname, allowed_plain):
  """Top-level statements of lazy_math.py / lazy_midi.py.
  Returns dict(math_names, wrappers[(fname, name, pos, target, params)], aliases, derived, plain)."""
  mod = ast.parse(src)
  res = {"math_names": None, "wrappers": [], "aliases": [], "derived": [], "plain": [], "all": []}
  for st in no_docstring(mod.body):
    if isinstance(st, (ast.Import, ast.ImportFrom)):
      continue
    if isinstance(st, ast.Assign) and len(st.targets) == 1 and isinstance(st.targets[0], ast.Name):
      tgt, val = st.targets[0].id, st.value
      if tgt == "__all__":
        res["all"] += list(ast.literal_eval(val))
        continue
      if tgt == "_math_names":
        names = ast.literal_eval(val)
        if not (isinstance(names, list) and all(isinstance(x, str) for x in names)):
          raise TrError("_math_names is not a list of strings")
        res["math_names"] = names
        continue
      if isinstance(val, ast.Call) and isinstance(val.func, ast.Call) and mentions(val.func, "elementwise"):
        # X = elementwise(name, pos)(callable)
        name, pos = ew_args(val.func)
        if len(val.args) != 1 or val.keywords or not isinstance(val.args[0], (ast.Name, ast.Attribute)):
          raise TrError("wrapped object in " + dump(st))
        res["wrappers"].append((tgt, name, pos, dump(val.args[0]), None))
        continue
      if mentions(val, "elementwise"):
        raise TrError("unrecognised use of elementwise: " + dump(st))
      if isinstance(val, ast.Name):       # alias such as ln = log
        res["aliases"].append((tgt, val.id))
        continue
      # plain constants (pi, e, inf, nan, MIDI_A4, ...)
      for n in ast.walk(val):
        if isinstance(n, (ast.Lambda, ast.ListComp, ast.GeneratorExp, ast.DictComp, ast.SetComp)):
          raise TrError("constant definition too complex: " + dump(st))
      res["plain"].append(tgt)
      continue
    if isinstance(st, ast.Expr) and dump(st.value) == "__all__.extend(_math_names)":
      res["all"] += list(res["math_names"] or [])
      continue
    if isinstance(st, ast.For):
      body = st.body
      if not (dump(st.target) == "func" and dump(st.iter) == "[getattr(math, name) for name in _math_names]"
              and len(body) == 1 and not st.orelse and isinstance(body[0], ast.Assign)
              and len(body[0].targets) == 1 and dump(body[0].targets[0]) == "locals()[func.__name__]"
              and isinstance(body[0].value, ast.Call) and [dump(x) for x in body[0].value.args] == ["func"]
              and not body[0].value.keywords):
        raise TrError("unrecognised wrapper loop: " + dump(st)[:200])
      name, pos = ew_args(body[0].value.func)
      if res["math_names"] is None:
        raise TrError("wrapper loop before _math_names")
      for n in res["math_names"]:
        # func.__name__ of a function of the math module is its attribute name (checked by the harness at run time)
        res["wrappers"].append((n, name, pos, "math." + n, None))
      continue
    if isinstance(st, ast.FunctionDef):
      params = [a.arg for a in st.args.args]
      if st.args.vararg or st.args.kwarg or st.args.kwonlyargs or getattr(st.args, "posonlyargs", []):
        raise TrError("signature of %s" % st.name)
      if len(st.decorator_list) == 1:
        name, pos = ew_args(st.decorator_list[0])
        # the keyword under which the broadcast argument is looked up must be the parameter at pos
        eff = 0 if (name == "" and pos is None) else pos
        if name != "" and (eff is None or eff >= len(params) or params[eff] != name):
          raise TrError("elementwise(%r, %r) on %s%r: keyword name is not the parameter at that position"
                        % (name, pos, st.name, tuple(params)))
        res["wrappers"].append((st.name, name, pos, "def", params))
        continue
      if st.decorator_list:
        raise TrError("decorators of %s" % st.name)
      body = no_docstring(st.body)
      if len(body) == 1 and isinstance(body[0], ast.Return) and isinstance(body[0].value, ast.Call):
        call = body[0].value
        if isinstance(call.func, ast.Name) and not call.keywords and len(params) == 1:
          p = params[0]
          # f(p) = g(p, consts...)
          if (call.args and dump(call.args[0]) == p
              and all(isinstance(a, ast.Constant) and isinstance(a.value, int) for a in call.args[1:])):
            res["derived"].append((st.name, "apply", call.func.id, [a.value for a in call.args[1:]]))
            continue
          # f(p) = g(h(p))
          if (len(call.args) == 1 and isinstance(call.args[0], ast.Call) and isinstance(call.args[0].func, ast.Name)
              and not call.args[0].keywords and [dump(a) for a in call.args[0].args] == [p]):
            res["derived"].append((st.name, "compose", call.func.id, call.args[0].func.id))
            continue
      if st.name in allowed_plain and not mentions(st, "elementwise"):
        res["plain"].append(st.name)
        continue
      raise TrError("function %s.%s is neither an elementwise wrapper nor a recognised derived form" % (modname, st.name))
    raise TrError("top-level statement of %s: %s" % (modname, dump(st)[:120]))
  return res


def check_elementwise_decl(src):
  """lazy_misc.elementwise(name="", pos=None): defaults as the model assumes."""
  mod = ast.parse(src)
  for st in mod.body:
    if isinstance(st, ast.FunctionDef) and st.name == "elementwise":
      params = [a.arg for a in st.args.args]
      defaults = [ast.literal_eval(d) for d in st.args.defaults]
      if params != ["name", "pos"] or defaults != ["", None]:
        raise TrError("elementwise signature is %r defaults %r" % (params, defaults))
      return
  raise TrError("lazy_misc.elementwise not found")


# ------------------------------------------------------------------ driver
def translate(repo):
  pkg = os.path.join(repo, "audiolazy")
  rd = lambda f: open(os.path.join(pkg, f)).read()
  core = ast.parse(rd("lazy_core.py"))
  opm = find_class(core, "OpMethod")
  insert_defs = translate_insert(find_method(opm, "_insert"))
  lines = translate_initialize(find_method(opm, "_initialize"), has_matmul(rd("lazy_compat.py")))
  # OpMethod._initialize() is called exactly once at module level
  inits = [st for st in core.body if isinstance(st, ast.Expr) and dump(st.value) == "OpMethod._initialize()"]
  if len(inits) != 1:
    raise TrError("OpMethod._initialize() is called %d times at module level" % len(inits))
  meta = find_class(core, "AbstractOperatorOverloaderMeta")
  dispatch = translate_dispatch(find_method(meta, "__new__"))
  sel = class_level_strings(meta, ["__operators__", "__without__"])
  if set(sel) != {"__operators__", "__without__"}:
    raise TrError("__operators__/__without__ defaults not found")
  stream = ast.parse(rd("lazy_stream.py"))
  smeta = find_class(stream, "StreamMeta")
  if [dump(b) for b in smeta.bases] != ["AbstractOperatorOverloaderMeta"]:
    raise TrError("StreamMeta bases: %r" % [dump(b) for b in smeta.bases])
  sel.update(class_level_strings(smeta, ["__operators__", "__without__"]))
  smeta_names = defined_names(smeta)
  scls = find_class(stream, "Stream")
  if [dump(b) for b in scls.bases] != ["meta(Iterable, metaclass=StreamMeta)"]:
    raise TrError("Stream bases: %r" % [dump(b) for b in scls.bases])
  snames = defined_names(scls)
  check_elementwise_decl(rd("lazy_misc.py"))
  m1 = translate_math_module(rd("lazy_math.py"), "lazy_math", [])
  m2 = translate_math_module(rd("lazy_midi.py"), "lazy_midi", ["octaves"])
  if m1["math_names"] is None:
    raise TrError("_math_names not found")
  if m2["math_names"] is not None:
    raise TrError("_math_names redefined in lazy_midi")
  info = {"op_lines": lines, "dispatch": dispatch, "select": sel, "stream_names": snames,
          "streammeta_names": smeta_names, "math": m1, "midi": m2}
  return insert_defs, info


def render(insert_defs, info):
  o = []
  o.append("(* GENERATED by harness/C01_translate.py from audiolazy/lazy_core.py, lazy_compat.py,")
  o.append("   lazy_stream.py, lazy_misc.py, lazy_math.py, lazy_midi.py.  Regenerated on every check; do not edit. *)")
  o.append("From Coq Require Import List String Bool Arith.")
  o.append("From AL Require Import C01.OpDefs.")
  o.append("Import ListNotations.")
  o.append("Open Scope string_scope.")
  o.append("")
  o.append("(* OpMethod._insert, field by field *)")
  o += insert_defs
  o.append("")
  o.append("(* OpMethod._initialize: op_symbols after strip().splitlines() (+ matmul), each line split(None, 1) and split() *)")
  o.append("Definition gen_op_lines : list (string * list string) :=\n  [ " + ";\n    ".join(
    "(%s, %s)" % (cstr(s), clist([cstr(n) for n in ns])) for s, ns in info["op_lines"]) + " ].")
  o.append("Definition gen_optable : list opentry :=\n"
           "  flat_map (fun ln => map (fun name => gen_insert name (fst ln)) (snd ln)) gen_op_lines.")
  o.append("")
  o.append("(* AbstractOperatorOverloaderMeta.__new__: {(rev, arity): builder}[op.rev, op.arity] *)")
  o.append("Definition gen_dispatch : list ((bool * nat) * string) :=\n  " + clist(
    "((%s, %d), %s)" % ("true" if r else "false", a, cstr(b)) for r, a, b in info["dispatch"]) + ".")
  sel = info["select"]
  if not isinstance(sel["__operators__"], str):
    raise TrError("__operators__ is %r" % (sel["__operators__"],))
  o.append("Definition gen_operators : string := %s." % cstr(sel["__operators__"]))
  if sel["__without__"] is None:
    o.append("Definition gen_without : option string := None.")
  elif isinstance(sel["__without__"], str):
    o.append("Definition gen_without : option string := Some %s." % cstr(sel["__without__"]))
  else:
    raise TrError("__without__ is %r" % (sel["__without__"],))
  o.append("(* names bound in the bodies of class Stream and of its metaclass (a dunder defined there is not built from a template) *)")
  o.append("Definition gen_stream_namespace : list string :=\n  " + clist(cstr(n) for n in info["stream_names"]) + ".")
  o.append("Definition gen_streammeta_namespace : list string :=\n  " + clist(cstr(n) for n in info["streammeta_names"]) + ".")
  o.append("")
  o.append("(* lazy_math._math_names *)")
  o.append("Definition gen_math_names : list string :=\n  " + clist(cstr(n) for n in info["math"]["math_names"]) + ".")
  o.append("(* every elementwise(name, pos) wrapper: exported name, keyword name, position, wrapped object *)")
  ws = info["math"]["wrappers"] + info["midi"]["wrappers"]
  o.append("Definition gen_wrappers : list wrapper :=\n  [ " + ";\n    ".join(
    "mk_wrapper %s %s %s %s" % (cstr(f), cstr(n), "None" if p is None else "(Some %d)" % p, cstr(t))
    for f, n, p, t, _ in ws) + " ].")
  al = info["math"]["aliases"] + info["midi"]["aliases"]
  o.append("Definition gen_aliases : list (string * string) :=\n  " + clist(
    "(%s, %s)" % (cstr(a), cstr(b)) for a, b in al) + ".")
  dv = info["math"]["derived"] + info["midi"]["derived"]
  o.append("(* undecorated one-liners that only delegate to wrappers: f x = g x consts  /  f x = g (h x) *)")
  o.append("Definition gen_derived : list derived :=\n  " + clist(
    ("DApply %s %s %s" % (cstr(d[0]), cstr(d[2]), clist("%d" % c for c in d[3]))) if d[1] == "apply"
    else ("DCompose %s %s %s" % (cstr(d[0]), cstr(d[2]), cstr(d[3]))) for d in dv) + ".")
  return "\n".join(o) + "\n"


_last_info = {}


def run(repo):
  """Returns (errors, info).  Writes Gen_OpTable.v only when its content changed."""
  try:
    insert_defs, info = translate(repo)
    text = render(insert_defs, info)
  except TrError as e:
    return ["C01 translator: " + str(e)], None
  except (SyntaxError, OSError, ValueError, IndexError, AttributeError, KeyError, TypeError) as e:
    return ["C01 translator: %s: %s" % (type(e).__name__, e)], None
  os.makedirs(os.path.dirname(TARGET), exist_ok=True)
  old = open(TARGET).read() if os.path.exists(TARGET) else None
  if old != text:
    tmp = TARGET + ".tmp%d" % os.getpid()
    with open(tmp, "w") as f:
      f.write(text)
    os.replace(tmp, TARGET)
  return [], info


if __name__ == "__main__":
  errs, info = run(sys.argv[1] if len(sys.argv) > 1 else "/repo")
  print(errs or "ok")
