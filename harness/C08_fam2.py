# -*- coding: utf-8 -*-
"""C08 round 2: input kinds x entry points x argument styles, and histories of calls in one process."""
import itertools
from fractions import Fraction
from vlib import coqlit as L
import C08_util as U

O = U.Obj
POOL = [1, "a", None, 2.5, True, 0, 0.0, -0.0, (1, 2), "b", Fraction(1, 3), False, 1.0, -7, "", (),
        O("float"), O("nan"), O("alist"), O("lambda"), O("stream"), O("callobj"), O("abs")]
# pads incl. callables meant as DATA, NaN, containers: given and compared by identity (object table of C08_util)
PADS = [0., 0, -0., False, True, 1, 1., None, "", "P", (), Fraction(1, 2), 2.5, -3] + [O(n) for n in U.OBJ_NAMES]
EQ_GROUPS = [[0., 0, -0., False], [1, True, 1.], [None, "", ()], [2, 2.0, Fraction(2)]]
ENTRIES = ["func", "stream", "scopy", "hub", "hub2"]
STYLES = ["kw", "pos", "mix", "rkw"]
ZSTYLES = ["kw", "pos", "mix", "min"]
TRIPLES = [(n, s, h) for n in range(0, 8) for s in range(1, 5) for h in range(1, 6)]


TEXT = "ab -c_dZ"
# pads for text-like sequences: ONE item per pad position whatever its length / type
TEXT_PADS = ["", "--", "-", " ", "abc", b"", b"xy", b"-", ("-",), (), None, 0, O("emptylist"), O("alist"), O("float")]


def items_for(kind, n, shift=0):
  if kind in U.STR_KINDS:
    return [TEXT[(i + shift) % len(TEXT)] for i in range(n)]
  if kind in U.BYTE_KINDS:
    return [(45 + 13 * (i + shift)) % 256 for i in range(n)]
  if kind == "range":
    return list(range(3 + shift, 3 + shift + n))
  if kind == "arr":
    return [(7 * i + shift) % 11 - 4 for i in range(n)]
  if kind == "keys":
    return [[5, "k", None, 2.5, (3,), -1, "m", Fraction(1, 7)][(i + shift) % 8] if i < 8 else i for i in range(n)]
  if kind == "rep":
    return [POOL[shift % len(POOL)]] * n
  return [POOL[(i + shift) % len(POOL)] for i in range(n)]


def has_tail(n, s, h):
  K = 0 if n < s else (n - s) // h + 1
  return n - K * h > max(s - h, 0)


def mk_bcall(kind, entry, style, n, s, h, pad, hopmode="given", padmode="given", shift=0, **extra):
  raw = items_for(kind, n, shift)
  if hopmode != "given":
    h = s
  if padmode == "omit":
    pad = 0.
  c = {"fn": "blocks", "kind": kind, "entry": entry, "style": style, "size": s, "hop": h, "pad": U.enc(pad),
       "hopmode": hopmode, "padmode": padmode, "raw": [U.enc(v) for v in raw]}
  c.update(extra)
  return c


def mk_zcall(kind, style, n, left, right, zero, zmode="given", shift=0, **extra):
  raw = items_for(kind, n, shift)
  if zmode == "omit":
    zero = 0.
  c = {"fn": "zpad", "kind": kind, "style": style, "left": left, "right": right, "zero": U.enc(zero), "zmode": zmode,
       "raw": [U.enc(v) for v in raw]}
  c.update(extra)
  return c


# ---------------------------------------------------------------- running one call
def start_call(c, shared=None):
  """Creates the source and the (lazy) result; returns (iterator over encoded outputs, keep, expected contents)."""
  items = [U.dec(j) for j in c["raw"]]
  if c.get("share") and shared is not None:
    shared[:] = items
    src, keep = U.mk_source(c["kind"], items, live=shared)
  else:
    src, keep = U.mk_source(c["kind"], items)
  if c["fn"] == "blocks":
    g = U.call_blocks(c["entry"], c["style"], src, c["size"], c["hop"], U.dec(c["pad"]), c["hopmode"], c["padmode"])
    it = ([U.enc(v) for v in list(b)] for b in g)       # snapshot at the moment the block is produced
  else:
    g = U.call_zpad(c["style"], src, c["left"], c["right"], U.dec(c["zero"]), c["zmode"])
    it = (U.enc(v) for v in g)
  return it, keep, (src if c["kind"] == "list" else None)


def finish_call(c, out, keep):
  if keep is not None and U.contents(keep) != c["raw"]:
    return {"raise": "SourceChanged"}
  return {"blocks": out} if c["fn"] == "blocks" else {"items": out}


def drain(live, res):
  while live:                           # round robin, one output at a time
    for ent in list(live):
      j, cj, itj, keepj, out = ent
      try:
        out.append(next(itj))
        if len(out) > 6000:
          raise OverflowError()
      except StopIteration:
        res[j] = finish_call(cj, out, keepj); live.remove(ent)
      except Exception as e:
        res[j] = {"raise": type(e).__name__}; live.remove(ent)


def run_calls(calls, mode):
  res = [None] * len(calls)
  shared = None
  live = []
  for i, c in enumerate(calls):
    try:
      it, keep, lst = start_call(c, shared)
      if lst is not None:
        shared = lst
      live.append((i, c, it, keep, []))
    except Exception as e:
      res[i] = {"raise": type(e).__name__}
    if mode == "seq":
      drain(live, res)
  drain(live, res)
  return res


def lit_call(c, o):
  if "blocks" in o:
    ob = "(POB %s)" % L.lst([U.pvl(b) for b in o["blocks"]])
  elif "items" in o:
    ob = "(POI %s)" % U.pvl(o["items"])
  else:
    ob = "(POR %s)" % L.string(o["raise"])
  xs = U.consumed(c["kind"], c["raw"])
  if c["fn"] == "blocks":
    return "(PB %s %s %s %s %s)" % (L.nat(c["size"]), L.nat(c["hop"]), U.pv(c["pad"]), U.pvl(xs), ob)
  return "(PZ %s %s %s %s %s)" % (L.nat(c["left"]), L.nat(c["right"]), U.pv(c["zero"]), U.pvl(xs), ob)


# ---------------------------------------------------------------- family "kinds": one call per case
def gen_kinds(tier, rng):
  kinds = U.ANY_KINDS + U.INT_KINDS + U.SPECIAL_KINDS
  per = 16 if tier == "quick" else 120
  cnt = 0
  for kind in kinds:
    for entry in ENTRIES:
      base = rng.randrange(len(TRIPLES))
      picked = [TRIPLES[(base + 37 * i) % len(TRIPLES)] for i in range(per)]
      # the padded tail with an explicit pad is what a dropped / replaced argument changes: make sure it is there
      picked += [t for t in TRIPLES if has_tail(*t)][cnt % 7::23][:6]
      for (n, s, h) in picked:
        cnt += 1
        style = STYLES[cnt % 4] if entry == "func" else ["kw", "pos", "mix"][cnt % 3]
        hopmode = ["given", "given", "given", "omit", "none"][(cnt // 4) % 5]
        padmode = "omit" if cnt % 11 == 0 else "given"
        pad = PADS[(cnt // 3) % len(PADS)]
        c = mk_bcall(kind, entry, style, n, s, h, pad, hopmode, padmode, shift=cnt % 5)
        c["tags"] = ["kind:" + kind, "entry:" + entry, "style:" + style, "hop:" + hopmode, "pad:" + padmode]
        yield c
    for i, (left, right, n) in enumerate(itertools.product(range(3), range(3), (0, 1, 3))):
      if tier == "quick" and (i + len(kind)) % 3:
        continue
      cnt += 1
      c = mk_zcall(kind, ZSTYLES[cnt % 4], n, left, right, PADS[cnt % len(PADS)], "omit" if cnt % 5 == 0 else "given",
                   shift=cnt % 5)
      c["tags"] = ["zpad", "kind:" + kind, "zstyle:" + c["style"]]
      yield c
  for c in gen_text(tier, rng):
    yield c
  # class (l): runs far longer than any internal period (tee links, > 8 * size, > 1024 items)
  for (n, s, h) in [(1025, 3, 2), (1500, 64, 17), (2049, 5, 8), (1100, 7, 7)]:
    for entry, kind in (("func", "list"), ("stream", "iter"), ("hub2", "range"), ("hub", "gen")):
      c = mk_bcall("range", entry, "kw", n, s, h, None, shift=rng.randrange(5))
      c["kind"] = kind
      c["tags"] = ["long", "entry:" + entry]
      yield c


def gen_text(tier, rng):
  """Class (j): text / bytes AS the sequence, str / bytes / tuple / None / list pads, left / right 0..3."""
  cnt = 0
  for kind in U.STR_KINDS + U.BYTE_KINDS + ["list", "iter"]:
    text_items = kind in ("list", "iter")    # the same characters coming from a list / an iterator
    for left, right, n in itertools.product(range(4), range(4), (0, 1, 3)):
      npads = len(TEXT_PADS) if tier != "quick" else 3
      for q in range(npads):
        cnt += 1
        if text_items and cnt % 3:
          continue
        pad = TEXT_PADS[(cnt + q * 5) % len(TEXT_PADS)] if tier == "quick" else TEXT_PADS[q]
        c = mk_zcall("str" if text_items else kind, ZSTYLES[cnt % 4], n, left, right, pad, shift=cnt % 4)
        c["kind"] = kind
        c["tags"] = ["text", "zpad", "kind:" + kind]
        yield c
    for (n, s, h) in [t for t in TRIPLES if has_tail(*t)][::5 if tier == "quick" else 1]:
      for entry in ENTRIES:
        cnt += 1
        c = mk_bcall("str" if text_items else kind, entry, ["kw", "pos", "mix"][cnt % 3], n, s, h,
                     TEXT_PADS[cnt % len(TEXT_PADS)], shift=cnt % 4)
        c["kind"] = kind
        c["tags"] = ["text", "kind:" + kind, "entry:" + entry]
        yield c


def run_kinds(c):
  return run_calls([c], "seq")[0]


def nontrivial_kinds(c, o):
  if c["fn"] == "zpad":
    return c["left"] + c["right"] > 0 and len(c["raw"]) > 0
  return has_tail(len(c["raw"]), c["size"], c["hop"]) and len(c["raw"]) >= c["size"]


# ---------------------------------------------------------------- family "calls": 2-4 calls in one process
def gen_calls(tier, rng):
  reps = 1 if tier == "quick" else 6
  for _ in range(reps):
    # equal-but-different-type pads, same pad COUNT, every order, across blocks and zero_pad
    for grp in EQ_GROUPS:
      for perm in itertools.permutations(grp, 3 if len(grp) > 3 else len(grp)):
        for (n, s, h) in [(1, 2, 2), (4, 3, 2), (5, 4, 4), (2, 4, 1)]:
          calls = []
          for i, p in enumerate(perm):
            if (i + n) % 3 == 2:
              calls.append(mk_zcall("iter", "kw", n, i % 2 * (s - 1), s - n % s, p))
            else:
              calls.append(mk_bcall(["iter", "list", "stream"][i % 3], ["func", "stream", "hub"][(i + n) % 3], "kw", n, s, h, p))
          yield {"calls": calls, "mode": "seq", "tags": ["eqpads"]}
    # two or three live results consumed alternately (same size: a buffer hoisted out of the call would be shared)
    for (s, h) in [(1, 1), (2, 1), (3, 2), (2, 2), (3, 3), (2, 3), (4, 1), (3, 5)]:
      for ns in [(5, 5), (3, 7), (7, 3), (4, 6, 5), (0, 4), (6, 6, 6)]:
        e = rng.choice(ENTRIES[:4])
        calls = [mk_bcall(rng.choice(["list", "iter", "tuple", "gen"]), e if i else "func", "kw", n, s, h,
                          rng.choice(PADS), shift=3 * i) for i, n in enumerate(ns)]
        yield {"calls": calls, "mode": "alt", "tags": ["alternate"]}
      calls = [mk_zcall("list", "kw", 3, s, h, "L"), mk_zcall("iter", "pos", 4, s, h, 0), mk_bcall("list", "func", "pos", 5, s, h, 0.)]
      yield {"calls": calls, "mode": "alt", "tags": ["alternate", "zpad"]}
    # the same list object again: unchanged, longer, shorter, modified; same and different size
    for (s, h) in [(2, 1), (3, 2), (2, 2), (2, 3), (4, 4)]:
      for (n1, n2, sh2) in [(5, 5, 0), (3, 6, 0), (6, 3, 0), (5, 5, 2), (4, 0, 0), (0, 4, 0)]:
        for e2 in ("func", "stream", "hub"):
          s2 = s if (n1 + n2) % 2 else s + 1
          calls = [mk_bcall("list", "func", "kw", n1, s, h, None),
                   mk_bcall("list", e2, "kw", n2, s2, h, "P", shift=sh2, share=True),
                   mk_zcall("list", "kw", n1, 1, 1, "Z", share=True)]
          yield {"calls": calls, "mode": "seq", "tags": ["samelist"]}
    # pad values that are callables / NaN / containers meant as DATA, through every entry, then again in zero_pad
    for i, name in enumerate(U.OBJ_NAMES):
      for (n, s, h) in [(2, 3, 3), (4, 3, 2), (1, 4, 1)]:
        e = ENTRIES[(i + n) % len(ENTRIES)]
        calls = [mk_bcall("list", e, STYLES[(i + n) % 3], n, s, h, O(name)),
                 mk_zcall("iter", ZSTYLES[(i + n) % 4], n, 1 + i % 2, 2, O(name)),
                 mk_bcall("iter", "func", "kw", n, s, h, O(name), shift=16)]
        yield {"calls": calls, "mode": ["seq", "alt"][(i + n) % 2], "tags": ["objpads"]}
    # same arguments twice (a result cached per arguments would be exhausted / shared the second time)
    for (n, s, h) in [(5, 2, 2), (5, 3, 1), (4, 3, 3), (7, 2, 3)]:
      for kind in ("tuple", "range", "list", "subtuple"):
        for mode in ("seq", "alt"):
          one = mk_bcall(kind, "func", "pos", n, s, h, 0)
          yield {"calls": [one, dict(one), dict(one)], "mode": mode, "tags": ["repeat"]}


def run_calls_case(c):
  return {"obs": run_calls(c["calls"], c["mode"])}


def lit_calls(c, o):
  return L.lst([lit_call(cc, oo) for cc, oo in zip(c["calls"], o["obs"])])
