# -*- coding: utf-8 -*-
"""C10 - acorr / lag_matrix / toeplitz / levinson_durbin / lpc.kautocor / lpc.kcovar against Model_C10 and the
defining sums of Spec_C10 (exact rationals; residuals evaluated in Coq on the implementation's coefficients)."""
import itertools, sys
from fractions import Fraction
import vlib.framework as _fw
from vlib.framework import Family
from vlib import coqlit as L
from vlib.exactq import ExactQ, to_frac

if hasattr(sys, "set_int_max_str_digits"):
  sys.set_int_max_str_digits(0)

PID = "C10"
PROP_FILES = ["Prop", "PropC05"]
EXTRA_COQ_DIRS = ["C07", "C05", "C04"]   # PropC05 / ProofsC05 tie the list arithmetic to the Poly / ZFilter models
ALLOWED_AXIOMS = []
RULE = ("tables: every block over {-1,0,1/2,2} up to length 3 (4 thorough) x every max_lag in None,0..len+1, plus "
        "random rational blocks of length 2..10; levinson_durbin: every r over {-1,0,1,2} up to length 3 (4) x order "
        "None,0..len+1, lag lists built from reflection coefficients in (-1,1) (step-up), from data, arbitrary "
        "indefinite rational lists, singular lists (|k|=1, zero energy) and orders below/at/beyond len(r); "
        "kautocor / kcovar: exhaustive small blocks x orders plus random blocks of length 2..10(12), orders 1..len-1 "
        "and beyond; scale (the property is scale free, proved in Prop.v): a sample of the levinson / kautocor / kcovar "
        "cases repeated with the lags / block times 1e-7, 1e-15, 1e-30, 1e+12, 2^-40, 2^-100, 2^+40, -1e-7 (exact "
        "rationals), reflection coefficients a hair (1e-12, 2^-40, 1e-7) inside the unit circle, and float runs on inputs "
        "times 2^-100..2^+100 compared bit for bit with the unscaled float run; call histories (harness/C10_hist.py): 2-4 calls of kautocor / kcovar / levinson_durbin / acorr / "
        "lag_matrix / toeplitz in one process on block objects that are reused and refilled in place (list, deque, "
        "len/getitem object; slice and item writes, same and other length) or rebuilt with equal contents (tuple, fresh "
        "list), descending / equal / ascending / 0 / omitted orders, the caller modifying in place what earlier calls "
        "returned (filt.error, numpoly items, lag lists, tables), arguments re-read after each call, every call form "
        "(positional, order= / max_lag= / blk= / acdata= keywords, explicit None) through every alias by attribute and "
        "item access, blocks without len() (TypeError) and the numpy strategies / lpc(...) dispatch (ImportError); "
        "every call compared with the per-call model on the contents at that moment. Non-trivial = the call returned a filter of order >= 2 with at least two non-zero predictor "
        "coefficients (tables: at least 3 samples and 2 lags). Distinct = distinct case hash.")
EXHAUSTIVE = {"quick": False, "thorough": False}
trusted_base = [
  "translator harness/C10_translate.py (Python ast -> Gen_Tables.v over the vocabulary of C10/TabLib.v: Z integers, "
  "xrange as zrange, negative list indices wrap, an out-of-range index reads 0) for acorr / lag_matrix / toeplitz; "
  "Proofs_Gen.v proves the generated definitions equal to the hand-written table models on every input",
  "samples and lags are exact rationals (ExactQ absorbs the ints 0/1 the library mixes in); float rounding of "
  "the library's arithmetic is outside the statement ('in exact arithmetic all of these are equalities')",
  "ZFilter/Poly arithmetic (+, -, number * filter, f(1/z) * z**-m, / number, numlist) is modelled in C10/Model.v as "
  "coefficient-list arithmetic; PropC05.v (C10_list_arith_is_filter_arith) proves each list operation equal to the "
  "corresponding operation of the C05 ZFilter model / C07 Poly model on FIR filters (those models are tied to /repo "
  "by the C05 / C07 checks); the composition into whole levinson_durbin / kcovar runs is tied by this check's correspondence",
  "negative 'order' arguments are outside the model's domain (order : option nat)"]
ASSUMPTIONS = ["CPython list / generator / sum semantics as documented"]

# Qc arithmetic on long numerators is slow under vm_compute and one case file is evaluated by one coqc process:
# smaller files keep all 16 cores busy (read by Checker.run_family at call time; this process only).
_fw.CASES_PER_FILE = 40

def pregen(chk):
  """Regenerates coq/theories/C10/Gen_Tables.v from the current source of acorr / lag_matrix / toeplitz."""
  from C10_translate import regenerate
  return regenerate(_fw.REPO, _fw.ROOT)


SMALL_T = [Fraction(-1), Fraction(0), Fraction(1, 2), Fraction(2)]
SMALL_L = [Fraction(-1), Fraction(0), Fraction(1), Fraction(2)]


def fr(x):
  x = Fraction(x)
  return [x.numerator, x.denominator]


def unfr(p):
  return Fraction(p[0], p[1])


def rq(rng, lo=-9, hi=9, dens=(1, 1, 2, 3, 4, 5)):
  return Fraction(rng.randrange(lo, hi + 1), rng.choice(dens))


def rblock(rng, n, kind=None):
  kind = kind or rng.choice(["int", "rat", "rat", "dyadic", "sparse"])
  if kind == "int":
    return [Fraction(rng.randrange(-5, 6)) for _ in range(n)]
  if kind == "dyadic":  # what float samples such as 0.375 are, exactly
    return [Fraction(rng.randrange(-16, 17), 8) for _ in range(n)]
  if kind == "sparse":
    return [rq(rng) if rng.random() < 0.45 else Fraction(0) for _ in range(n)]
  return [rq(rng) for _ in range(n)]


def py_acorr(x, lags):
  return [sum((x[n] * x[n + t] for n in range(len(x) - t)), Fraction(0)) for t in range(lags)]


def stepup(ks, r0):
  """lag list r_0..r_p whose Levinson recursion has the reflection coefficients ks (harness-side arithmetic)."""
  a, r, E = [Fraction(1)], [Fraction(r0)], Fraction(r0)
  for m, k in enumerate(ks, 1):
    acc = sum((a[i] * r[m - i] for i in range(1, m)), Fraction(0))
    r.append(-(k * E + acc))
    a2 = a + [Fraction(0)]
    a = [a2[i] + k * a2[m - i] for i in range(m + 1)]
    E = E * (1 - k * k)
  return r


def order_tag(order, n):
  if order is None:
    return "order=None"
  if order == 0:
    return "order=0"
  if order < n - 1:
    return "order<len-1"
  if order == n - 1:
    return "order=len-1"
  return "order>=len"


# ---------------------------------------------------------------------------------------------- observations
HUGE = 10 ** 400   # far above anything the unchanged code produces on the generated inputs (< 10**120)


def obs_filter(f):
  try:
    filt = f()
    o = {"num": [fr(to_frac(v)) for v in filt.numerator], "err": fr(to_frac(filt.error))}
  except Exception as e:
    return {"raise": type(e).__name__}
  if any(abs(n) > HUGE or d > HUGE for n, d in o["num"] + [o["err"]]):
    # a diverging (broken) recursion: not printable as a Coq literal in reasonable time; the case then fails the
    # correspondence (the model returns a filter) and smaller cases carry the concrete property failure
    return {"raise": "HugeNumbers"}
  return o


def q(p):
  return "(qc (%d) %d)" % (p[0], p[1])


def qlist(ps):
  return L.lst([q(p) for p in ps])


def lit_fobs(o):
  if "num" in o:
    return "(FOk %s %s)" % (qlist(o["num"]), q(o["err"]))
  return "(FErr %s)" % L.string(o["raise"][:60])


def lit_order(order):
  return L.option(order, L.nat)


def nontrivial_filter(c, o):
  return "num" in o and len(o["num"]) >= 3 and sum(1 for v in o["num"][1:] if v[0] != 0) >= 2


# ---------------------------------------------------------------------------------------------- tables
def gen_tab(tier, rng):
  maxlen = 3 if tier == "quick" else 4
  for n in range(0, maxlen + 1):
    for blk in itertools.product(SMALL_T, repeat=n):
      if tier == "quick" and n == 3 and rng.random() < 0.5:   # the full layer runs in the thorough tier
        continue
      for lag in [None] + list(range(0, n + 2)):
        yield {"blk": [fr(v) for v in blk], "lag": lag, "tags": ["exh", "len=%d" % n, order_tag(lag, n)]}
  for _ in range(200 if tier == "quick" else 3000):
    n = rng.randrange(2, 11)
    lag = rng.choice([None] + list(range(0, n + 3)))
    yield {"blk": [fr(v) for v in rblock(rng, n)], "lag": lag, "tags": ["random", order_tag(lag, n)]}


def run_tab(c):
  import audiolazy
  blk = [ExactQ(unfr(p)) for p in c["blk"]]
  o = {}
  try:
    o["acorr"] = [fr(to_frac(v)) for v in (audiolazy.acorr(blk) if c["lag"] is None else audiolazy.acorr(blk, c["lag"]))]
  except Exception as e:
    o["acorr_raise"] = type(e).__name__
  try:
    m = audiolazy.lag_matrix(blk) if c["lag"] is None else audiolazy.lag_matrix(blk, c["lag"])
    o["lagm"] = [[fr(to_frac(v)) for v in row] for row in m]
  except Exception as e:
    o["lagm_raise"] = type(e).__name__
  try:
    o["toep"] = [[fr(to_frac(v)) for v in row] for row in audiolazy.toeplitz(blk)]
  except Exception as e:
    o["toep_raise"] = type(e).__name__
  return o


BOGUS = "[(qc 987654321 1)]"   # an exception where the model has a list can never compare equal


def lit_tab(c, o):
  ac = qlist(o["acorr"]) if "acorr" in o else BOGUS
  lm = ("(TOk %s)" % L.lst([qlist(r) for r in o["lagm"]])) if "lagm" in o else "(TErr %s)" % L.string(o.get("lagm_raise", "?")[:60])
  tp = L.lst([qlist(r) for r in o["toep"]]) if "toep" in o else "[%s]" % BOGUS
  return "(TC %s %s %s %s %s)" % (qlist(c["blk"]), lit_order(c["lag"]), ac, lm, tp)


def gen_tabz(tier, rng):
  maxlen = 3 if tier == "quick" else 4
  for n in range(0, maxlen + 1):
    for blk in itertools.product(SMALL_T, repeat=n):
      if tier == "quick" and n == 3 and rng.random() < 0.5:
        continue
      for lag in [None, -3, -1] + list(range(0, n + 2)):
        yield {"blk": [fr(v) for v in blk], "lag": lag,
               "tags": ["exh", "len=%d" % n, "lag<0" if (lag is not None and lag < 0) else order_tag(lag, n)]}
  for _ in range(100 if tier == "quick" else 1500):
    n = rng.randrange(2, 11)
    lag = rng.choice([None, -1, -n, -n - 1] + list(range(0, n + 3)))
    yield {"blk": [fr(v) for v in rblock(rng, n)], "lag": lag,
           "tags": ["random", "lag<0" if (lag is not None and lag < 0) else order_tag(lag, n)]}


def lit_tabz(c, o):
  ac = qlist(o["acorr"]) if "acorr" in o else BOGUS
  lm = ("(TOk %s)" % L.lst([qlist(r) for r in o["lagm"]])) if "lagm" in o else "(TErr %s)" % L.string(o.get("lagm_raise", "?")[:60])
  tp = L.lst([qlist(r) for r in o["toep"]]) if "toep" in o else "[%s]" % BOGUS
  return "(ZC %s %s %s %s %s)" % (qlist(c["blk"]), L.option(c["lag"], L.z), ac, lm, tp)


def nontrivial_tab(c, o):
  return len(c["blk"]) >= 3 and (c["lag"] is None or c["lag"] >= 1) and any(v[0] for v in c["blk"])


# ---------------------------------------------------------------------------------------------- levinson_durbin
def _gen_lev_base(tier, rng):
  maxlen = 3 if tier == "quick" else 4
  for n in range(0, maxlen + 1):
    for r in itertools.product(SMALL_L, repeat=n):
      if tier == "quick" and n == 3 and rng.random() < 0.5:   # the full layer runs in the thorough tier
        continue
      for order in [None] + list(range(0, n + 2)):
        yield {"r": [fr(v) for v in r], "order": order, "tags": ["exh", "len=%d" % n, order_tag(order, n)]}
  N = 1 if tier == "quick" else 10
  # lag lists from reflection coefficients in (-1, 1)
  big = tier != "quick"
  for _ in range(160 * N):
    p = rng.randrange(1, 8) if big and rng.random() < 0.3 else rng.randrange(1, 6)
    ks = [Fraction(rng.randrange(-9, 10), 10) if rng.random() < 0.5 else Fraction(rng.randrange(-3, 4), 4) for _ in range(p)]
    r = stepup(ks, rng.choice([1, 2, Fraction(7, 3), 10]))
    order = rng.choice([None, p, p, max(1, p - 1), rng.randrange(0, p + 1), p + rng.randrange(1, 4)])
    yield {"r": [fr(v) for v in r], "order": order, "tags": ["reflection", order_tag(order, len(r)), "p=%d" % p]}
  # singular: some |k| = 1 (zero prediction error, the next step divides by zero)
  for _ in range(50 * N):
    p = rng.randrange(1, 6)
    ks = [Fraction(rng.randrange(-9, 10), 10) for _ in range(p)]
    ks[rng.randrange(p)] = Fraction(rng.choice([-1, 1]))
    r = stepup(ks, rng.choice([1, 3]))
    order = rng.choice([None, p, rng.randrange(0, p + 1), p + 1, p + 2])
    yield {"r": [fr(v) for v in r], "order": order, "tags": ["singular", order_tag(order, len(r))]}
  # from data
  for _ in range(100 * N):
    n = rng.randrange(2, 11) if big and rng.random() < 0.3 else rng.randrange(2, 8)
    x = rblock(rng, n)
    lags = rng.randrange(1, min(n, 6 if n < 8 else 8) + 3)
    r = py_acorr(x, lags)
    order = rng.choice([None, lags - 1, rng.randrange(0, lags), lags, lags + rng.randrange(1, 3)])
    yield {"r": [fr(v) for v in r], "order": order, "tags": ["data", order_tag(order, len(r))]}
  # arbitrary (indefinite) rational lists: the theorem covers them as long as no division by zero happens
  for _ in range(100 * N):
    n = rng.randrange(1, 8) if big and rng.random() < 0.3 else rng.randrange(1, 6)
    r = [rq(rng) for _ in range(n)]
    order = rng.choice([None, n - 1, rng.randrange(0, n), n, n + rng.randrange(1, 3)])
    yield {"r": [fr(v) for v in r], "order": order, "tags": ["indefinite", order_tag(order, n)]}


def run_lev(c):
  import audiolazy
  r = [ExactQ(unfr(p)) for p in c["r"]]
  if c["order"] is None:
    return obs_filter(lambda: audiolazy.levinson_durbin(r))
  return obs_filter(lambda: audiolazy.levinson_durbin(r, c["order"]))


def lit_lev(c, o):
  return "(LC %s %s %s)" % (qlist(c["r"]), lit_order(c["order"]), lit_fobs(o))


# ---------------------------------------------------------------------------------------------- lpc.kautocor
STRATS_A = ["kautocor", "kacorr", "kautocorrelation", "kauto_correlation"]
STRATS_C = ["kcovar", "kcov", "kcovariance"]


def _gen_kac_base(tier, rng):
  maxlen = 3 if tier == "quick" else 4
  for n in range(0, maxlen + 1):
    for blk in itertools.product(SMALL_L, repeat=n):
      if tier == "quick" and n == 3 and rng.random() < 0.5:   # the full layer runs in the thorough tier
        continue
      for order in [None] + list(range(0, n + 2)):
        yield {"blk": [fr(v) for v in blk], "order": order, "via": STRATS_A[(n + (order or 0)) % 4],
               "tags": ["exh", "len=%d" % n, order_tag(order, n)]}
  big = tier != "quick"
  for _ in range(200 if tier == "quick" else 3000):
    n = rng.randrange(2, 11) if big and rng.random() < 0.25 else rng.randrange(2, 8)
    order = rng.choice([None, n - 1, rng.randrange(1, n), rng.randrange(1, n), rng.randrange(1, n), n, n + rng.randrange(1, 3)])
    if order is None or order > 5:
      n = min(n, 6)
      order = None if order is None else min(order, n + 1)
    yield {"blk": [fr(v) for v in rblock(rng, n)], "order": order, "via": rng.choice(STRATS_A),
           "tags": ["random", order_tag(order, n)]}


def run_kac(c):
  import audiolazy
  blk = [ExactQ(unfr(p)) for p in c["blk"]]
  f = audiolazy.lpc[c.get("via", "kautocor")]
  if c["order"] is None:
    return obs_filter(lambda: f(blk))
  return obs_filter(lambda: f(blk, c["order"]))


def lit_kac(c, o):
  return "(AC %s %s %s)" % (qlist(c["blk"]), lit_order(c["order"]), lit_fobs(o))


# ---------------------------------------------------------------------------------------------- lpc.kcovar
def _kcovar_returns(x, p):
  """Harness-side screening only: would the covariance Gram-Schmidt reach order p with every |k| < 1?"""
  N = len(x)
  if p < 1 or p >= N:
    return False
  phi = [[sum((x[n - i] * x[n - j] for n in range(p, N)), Fraction(0)) for j in range(p + 1)] for i in range(p + 1)]
  ip = lambda a, b: sum((phi[i][j] * a[i] * b[j] for i in range(p + 1) for j in range(p + 1)), Fraction(0))
  unit = lambda m: [Fraction(int(i == m)) for i in range(p + 1)]
  A, B = unit(0), [unit(1)]
  beta = [ip(B[0], B[0])]
  for m in range(1, p + 1):
    if beta[m - 1] == 0:
      return False
    k = -ip(A, unit(m)) / beta[m - 1]
    if abs(k) >= 1:
      return False
    A = [a + k * b for a, b in zip(A, B[m - 1])]
    if m < p:
      nb = unit(m + 1)
      for q in range(m):
        g = ip(unit(m + 1), B[q]) / beta[q]
        nb = [u - g * v for u, v in zip(nb, B[q])]
      B.append(nb); beta.append(ip(nb, nb))
  return True


def _gen_kcv_base(tier, rng):
  maxlen = 3 if tier == "quick" else 4
  for n in range(0, maxlen + 1):
    for blk in itertools.product(SMALL_L, repeat=n):
      if tier == "quick" and n == 3 and rng.random() < 0.5:   # the full layer runs in the thorough tier
        continue
      for order in [None] + list(range(0, n + 2)):
        yield {"blk": [fr(v) for v in blk], "order": order, "via": STRATS_C[(n + (order or 0)) % 3],
               "tags": ["exh", "len=%d" % n, order_tag(order, n)]}
  for _ in range(300 if tier == "quick" else 4000):
    order = rng.choice([1, 1, 2, 2, 3, 3, 4, 5] if tier != "quick" else [1, 1, 2, 2, 3, 3, 4])
    n = order + rng.randrange(0, 9 if tier != "quick" else 6) if rng.random() < 0.9 else rng.randrange(1, order + 1)
    n = max(n, 1)
    # bias towards blocks on which the covariance recursion returns (|k| < 1 at every stage): up to 4 candidates are
    # screened with a harness-side replica of the stage test (generation only; nothing is checked against it)
    for attempt in range(4):
      kind = rng.choice(["decay", "decay", None])
      if kind == "decay":  # a decaying resonance plus noise
        g = rng.choice([Fraction(1, 2), Fraction(2, 3), Fraction(3, 4), Fraction(-1, 2)])
        blk = [(g ** i) * rng.choice([1, 1, -1]) * rng.randrange(1, 4) + Fraction(rng.randrange(-1, 2), 4) for i in range(n)]
      else:
        blk = rblock(rng, n)
      if rng.random() < 0.25 or _kcovar_returns(blk, order):
        break
    if rng.random() < 0.04:
      order_arg = None
    else:
      order_arg = order
    yield {"blk": [fr(v) for v in blk], "order": order_arg, "via": rng.choice(STRATS_C),
           "tags": ["random", order_tag(order_arg, n)]}


def run_kcv(c):
  import audiolazy
  blk = [ExactQ(unfr(p)) for p in c["blk"]]
  f = audiolazy.lpc[c.get("via", "kcovar")]
  if c["order"] is None:
    return obs_filter(lambda: f(blk))
  return obs_filter(lambda: f(blk, c["order"]))


def lit_kcv(c, o):
  return "(CC %s %s %s)" % (qlist(c["blk"]), lit_order(c["order"]), lit_fobs(o))




# ---------------------------------------------------------------------------------------------- scale (class l)
# The property is scale free: levinson_durbin(c * r) has the coefficients of levinson_durbin(r) and c times its error
# (c**2 for a block scaled by c), proved in Prop.v.  Every filter family therefore repeats a sample of its cases with the
# lags / the block multiplied by very small and very large factors (exact rationals; the per-call model and the
# normal equations are evaluated on the scaled input as on any other), and levinson_durbin gets reflection
# coefficients a hair inside the unit circle (regular, though the error energy all but vanishes).
SCALES = [("1e-7", Fraction(1, 10 ** 7)), ("1e-15", Fraction(1, 10 ** 15)), ("1e-30", Fraction(1, 10 ** 30)),
          ("1e+12", Fraction(10 ** 12)), ("2^-40", Fraction(1, 2 ** 40)), ("2^-100", Fraction(1, 2 ** 100)),
          ("2^+40", Fraction(2 ** 40)), ("-1e-7", Fraction(-1, 10 ** 7))]


def _with_scales(base, key, n_quick, n_thorough, negative_ok):
  def gen(tier, rng):
    pool_r, pool_e = [], []
    for c in base(tier, rng):
      yield c
      if len(c[key]) >= 2 and any(v[0] for v in c[key]):
        (pool_e if "exh" in c["tags"] else pool_r).append(c)
    for i in range(n_quick if tier == "quick" else n_thorough):
      pool = pool_r if (pool_r and rng.random() < 0.8) or not pool_e else pool_e
      c = rng.choice(pool)
      name, f = SCALES[i % len(SCALES)]
      if f < 0 and not negative_ok:
        name, f = "1e-7", -f
      d = dict(c)
      d[key] = [fr(unfr(v) * f) for v in c[key]]
      d["tags"] = [t for t in c["tags"] if not t.startswith(("len=", "p="))] + ["scale=" + name]
      yield d
  return gen


def _gen_lev_hair(tier, rng):
  for c in _gen_lev_base(tier, rng):
    yield c
  for i in range(24 if tier == "quick" else 240):
    p = rng.randrange(1, 5)
    ks = [Fraction(rng.randrange(-9, 10), 10) for _ in range(p)]
    eps = [Fraction(1, 10 ** 12), Fraction(1, 2 ** 40), Fraction(1, 10 ** 7)][i % 3]
    ks[rng.randrange(p)] = rng.choice([-1, 1]) * (1 - eps)
    r = stepup(ks, rng.choice([1, 3, Fraction(1, 10 ** 9)]))
    order = rng.choice([None, p, p, p + 1])
    yield {"r": [fr(v) for v in r], "order": order, "tags": ["hair-inside-unit-circle", order_tag(order, len(r))]}


gen_lev = _with_scales(_gen_lev_hair, "r", 64, 640, True)      # a lag list may be negated: the theorem covers it
gen_kac = _with_scales(_gen_kac_base, "blk", 48, 480, True)
gen_kcv = _with_scales(_gen_kcv_base, "blk", 48, 480, True)


# ---------------------------------------------------------------------------------------------- scale, float runs
# The same call on float inputs and on the inputs times a power of two (an exact operation in binary floating point):
# coefficients must agree bit for bit, the error by the factor (corr); a filter must come back whenever the unscaled
# call returns one (holds).  Exponents -100..+100 keep every intermediate far from overflow / subnormals.
FS_EXP = [-100, -50, -23, 40, 100]


def gen_fs(tier, rng):
  for i in range(90 if tier == "quick" else 900):
    fn = ["lev", "kac", "kcv"][i % 3]
    n = rng.randrange(3, 9)
    x = [Fraction(rng.randrange(-16, 17), 8) for _ in range(n)]
    if fn == "lev":
      lags = rng.randrange(2, min(n, 5) + 1)
      vals = py_acorr(x, lags)
      order = rng.choice([None, lags - 1, rng.randrange(1, lags), lags + 1])
    else:
      vals = x
      order = rng.choice([1, 2, 2, 3, min(4, n - 1)])
    yield {"fn": fn, "vals": [fr(v) for v in vals], "order": order, "exp": FS_EXP[(i // 3) % len(FS_EXP)],
           "tags": ["float", fn, "2^%d" % FS_EXP[(i // 3) % len(FS_EXP)]]}


def run_fs(c):
  import audiolazy, math
  f = {"lev": audiolazy.levinson_durbin, "kac": audiolazy.lpc.kautocor, "kcv": audiolazy.lpc.kcovar}[c["fn"]]
  base = [float(unfr(p)) for p in c["vals"]]
  assert [Fraction(v) for v in base] == [unfr(p) for p in c["vals"]], "harness: not a float"
  scaled = [math.ldexp(v, c["exp"]) for v in base]
  call = lambda xs: obs_filter((lambda: f(xs)) if c["order"] is None else (lambda: f(xs, c["order"])))
  return {"base": call(base), "scaled": call(scaled)}


def lit_fs(c, o):
  if "base" not in o:
    o = {"base": {"raise": o.get("raise", "?")}, "scaled": {"raise": "harness"}}
  sc = Fraction(2) ** c["exp"]
  return "(FSC %s %s %s %s)" % (L.nat(1 if c["fn"] == "lev" else 2), q(fr(sc)), lit_fobs(o["base"]), lit_fobs(o["scaled"]))


def nontrivial_fs(c, o):
  return "num" in o.get("base", {}) and len(o["base"]["num"]) >= 2


import C10_hist as _hist   # call histories (harness/C10_hist.py)

IMPORTS = "From AL Require Import C10.Model C10.Spec C10.Check."
FAMILIES = {
  "tab": Family("tab", IMPORTS, "tcase", "corr_tab", "holds_tab", gen_tab, run_tab, lit_tab, nontrivial_tab),
  "tabz": Family("tabz", IMPORTS + " From AL Require Import C10.TabLib C10.Gen_Tables.", "zcase", "corr_tabz", "holds_tabz",
                 gen_tabz, run_tab, lit_tabz, nontrivial_tab),
  "hist": Family("hist", IMPORTS, "hcase", "corr_hist", "holds_hist", _hist.gen_hist, _hist.run_hist, _hist.lit_hist,
                 _hist.nontrivial_hist),
  "fs": Family("fs", IMPORTS, "fscase", "corr_fs", "holds_fs", gen_fs, run_fs, lit_fs, nontrivial_fs),
  "lev": Family("lev", IMPORTS, "lcase", "corr_lev", "holds_lev", gen_lev, run_lev, lit_lev, nontrivial_filter),
  "kac": Family("kac", IMPORTS, "acase", "corr_kac", "holds_kac", gen_kac, run_kac, lit_kac, nontrivial_filter),
  "kcv": Family("kcv", IMPORTS, "ccase", "corr_kcv", "holds_kcv", gen_kcv, run_kcv, lit_kcv, nontrivial_filter),
}
