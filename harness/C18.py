# -*- coding: utf-8 -*-
"""C18 - chunks (struct / array) and WavStream against Model_C18 and the round-trip spec."""
import io, struct, sys, itertools
from fractions import Fraction
from vlib.framework import Family
from vlib import coqlit as L

PID = "C18"
PROP_FILES = ["Prop", "PropHist", "PropSrc"]
EXTRA_COQ_DIRS = ["C08"]
# Flocq's binary32/binary64 formats are defined over Coq's axiomatic reals (only the f/d theorems depend on them)
ALLOWED_AXIOMS = [r"ClassicalDedekindReals\.sig_not_dec$", r"ClassicalDedekindReals\.sig_forall_dec$",
                  r"FunctionalExtensionality\.functional_extensionality_dep$", r"Classical_Prop\.classic$"]
RULE = ("chunks: size 1..9 x length 0..20 x format b h i f d x byte order None/</>/!/=/@ x both strategies, sample values "
        "include the extremes of each width and non-representable doubles for 'f'; non-trivial = at least one full "
        "chunk and a padded tail; wav: every width x mono/stereo x keep, samples include the extremes; files written "
        "with the standard wave module from bytes built by int.to_bytes; non-trivial = >= 3 samples incl. a negative "
        "(or > 127 for 8 bit) one; header sample rates in all wav families are drawn from the usual ones, 1..19, 20..100 "
        "and the largest a 32-bit header holds (rate * channels * width < 2**32), with a sweep rate 1..20 / max x 1 and 3 "
        "frames x width x channels x keep, and files of 1023..2049 frames; chunk runs up to 40 * size samples; "
        "files with more than two channels are outside the property text (mono or stereo) and not generated; wavhist: 2-3 WavStreams (same file / different files / mixed widths, opened by name) "
        "alive together and pulled one sample at a time in seeded orders (alternating, frame-wise, sequential, random, "
        "stopping early), pulls continue past StopIteration, the OS file objects the library opened are watched after "
        "every pull and after deletion; non-trivial = >= 2 switches between streams that both still hold samples; "
        "ckinds / cinter: the caller's object of 12 kinds (list, tuple, generator, iterator, Stream, deque bounded and "
        "not, array.array with the same / another typecode, range, __iter__-only object, itertools.repeat, thub) used in "
        "2-4 chunks calls (other size / pad / strategy / byte order; reached as chunks[name], chunks.name, chunks(); "
        "keyword / positional / defaults left out; size=None), sequentially or with the generators alive together and "
        "consumed alternately; the object is read again after the calls and the yielded chunk objects are re-read at the "
        "end; a call refused for its pad value and the user-set chunks.default / chunks.size are part of the histories; "
        "non-trivial = padded tail in the first call and a later call on the same object; wavsrc: the wave_file "
        "argument as file name (str), open file on disk, BytesIO, pipe (os.fdopen, not seekable), object with only "
        "read(), every width x mono/stereo, the object standing at the offset where the wave data starts after "
        "nothing / another wave file with another header / junk bytes, and followed by nothing / a wave file / junk "
        "(bytes and pathlib paths and wave.Wave_read objects are refused by the unchanged code: AttributeError, left "
        "out); non-trivial = an object standing at a non-zero offset, >= 2 samples")
EXHAUSTIVE = {"quick": False, "thorough": False}
trusted_base = ["native byte order of the machine running the check is little-endian (checked at run time); the struct marks "
                "'!' / '=' / '@' are mapped to the model's Big / Little / Native (struct documents '!' = big-endian, '=' = native "
                "order with standard sizes, '@' = native mode)",
                "struct.pack / array / wave module of CPython are the reference for the byte formats",
                "Flocq 'binary_normalize' with mode_NE models the double->single conversion of struct 'f'",
                "wavhist: 'file closed' = .closed of every file object created by builtins.open (wrapped during the run) for "
                "the stream's path; deletion = dropping all references + gc.collect() on CPython",
                "wavsrc: the reader is modelled as a parser of the canonical 44-byte header the standard wave module writes "
                "(the Coq header writer is compared byte for byte with wave.Wave_write on every case); nothing is demanded "
                "about closing a caller-owned object (the unchanged code leaves it open: observed in the correspondence)"]
ASSUMPTIONS = ["WAV files contain whole frames only",
               "histories: the harness itself never mutates an object between the calls, so every call on a re-iterable "
               "object is held against the object's ORIGINAL contents (a call that changes its argument shows in the next one)"]

FMTW = {"b": 1, "h": 2, "i": 4, "f": 4, "d": 8}
FLOATS = [0.0, 1.0, -1.0, 0.5, 0.1, -0.3, 1e-3, 0.999999, -2.5, 3.0e10, 1.0000001, 2.0 ** -130, -0.0, 1 / 3.0,
          2.0 ** -149, 2.0 ** -150, 1.5 * 2.0 ** -149, 3.4028234e38, 1e-50]


def dbits(x):
  return struct.unpack("<Q", struct.pack("<d", x))[0]


def ints_for(fmt, n, rng):
  w = FMTW[fmt]
  lo, hi = -(1 << (8 * w - 1)), (1 << (8 * w - 1)) - 1
  pool = [lo, hi, 0, 1, -1, lo + 1, hi - 1, 100 % (hi + 1), -37]
  return [rng.choice(pool) if rng.random() < 0.5 else rng.randrange(lo, hi + 1) for _ in range(n)]


def gen_chunks(tier, rng):
  sizes = range(1, 10)
  lens = range(0, 21)
  combos = list(itertools.product(sizes, lens, "bhifd", [None, "<", ">"]))
  if tier == "quick":
    combos = [c for i, c in enumerate(combos) if (i * 7919) % 4 == 0]
  # the other struct byte-order marks: "!" (network = big-endian), "=" (native order, standard sizes: on this
  # little-endian host the same bytes and the same strictness as "<"), "@" (native mode, the same as None)
  extra = list(itertools.product(sizes, lens, "bhifd", ["!", "=", "@"]))
  combos += [c for i, c in enumerate(extra) if tier != "quick" or (i * 7919) % 8 == 0]
  for size, n, fmt, bo in combos:
    if fmt in "bhi":
      xs = ints_for(fmt, n, rng); pad = rng.choice([0, 0, -1, 5])
    else:
      xs = [dbits(rng.choice(FLOATS) if rng.random() < 0.6 else rng.uniform(-1, 1)) for _ in range(n)]
      pad = dbits(rng.choice([0.0, 0.0, 0.25]))
    yield {"size": size, "fmt": fmt, "order": bo, "pad": pad, "xs": xs, "tags": ["fmt=" + fmt, "order=%s" % bo]}
  # the default-sized buffer of the array strategy (size > 128 with an 8-bit format)
  for size in (129, 200, 300):
    n = size + 3
    yield {"size": size, "fmt": "b", "order": None, "pad": 0, "xs": ints_for("b", n, rng), "tags": ["fmt=b", "bigsize"]}
  # sequences far longer than the chunk (> 8 * size samples, up to a few hundred chunks)
  for k in range(12 if tier == "quick" else 120):
    fmt = rng.choice("bhifd"); size = rng.randrange(1, 8); n = rng.randrange(8 * size + 1, 40 * size + 2)
    if fmt in "bhi":
      xs = ints_for(fmt, n, rng); pad = rng.choice([0, -1, 5])
    else:
      xs = [dbits(rng.choice(FLOATS) if rng.random() < 0.6 else rng.uniform(-1, 1)) for _ in range(n)]; pad = dbits(0.25)
    yield {"size": size, "fmt": fmt, "order": rng.choice([None, "<", ">", "!", "=", "@"]), "pad": pad, "xs": xs,
           "tags": ["fmt=" + fmt, "long"]}
  # out-of-range integers / floats overflowing binary32 (struct.error / OverflowError / inf: the property says
  # nothing, but model and code must still agree: "<" and ">" raise, native struct mode and array store inf)
  for k in range(30 if tier == "quick" else 300):
    fmt = rng.choice("bhf")
    size = rng.randrange(1, 5); n = rng.randrange(1, 9)
    if fmt == "f":
      xs = [dbits(rng.choice([1.0, 1e39, -1e39, 3.5e38, 3.4028235677973366e+38, 0.5])) for _ in range(n)]; pad = dbits(0.0)
    else:
      xs = [rng.choice([0, 1, 1 << (8 * FMTW[fmt] - 1), -(1 << (8 * FMTW[fmt] - 1)) - 1]) for _ in range(n)]; pad = 0
    yield {"size": size, "fmt": fmt, "order": rng.choice([None, "<", ">", "!", "=", "@"]), "pad": pad, "xs": xs, "tags": ["malformed"]}


def _val(fmt, v):
  return v if fmt in "bhi" else struct.unpack("<d", struct.pack("<Q", v))[0]


def run_chunks(c):
  import audiolazy
  from audiolazy.lazy_io import chunks
  assert sys.byteorder == "little"
  res = {}
  for strat in ("struct", "array"):
    out, raised = [], None
    try:
      g = chunks[strat](iter([_val(c["fmt"], v) for v in c["xs"]]), size=c["size"], dfmt=c["fmt"],
                        byte_order=c["order"], padval=_val(c["fmt"], c["pad"]))
      for ch in g:
        out.append(list(bytes(ch)))
        if len(out) > 100:
          raised = "TooMany"; break
    except Exception as e:
      raised = type(e).__name__
    res[strat] = {"chunks": out, "raised": raised}
  return res


def _zl(l):
  return L.lst([str(int(x)) for x in l])


def lit_chunks(c, o):
  def co(r):
    return "(CO %s %s)" % (L.lst([_zl(ch) for ch in r["chunks"]]), L.boolean(r["raised"] is not None))
  order = {None: "Native", "@": "Native", "<": "Little", "=": "Little", ">": "Big", "!": "Big"}[c["order"]]
  return "(CC %s F%s %s %s %s %s %s)" % (L.nat(c["size"]), c["fmt"], order, L.z(c["pad"]),
                                          L.lst([L.z(v) for v in c["xs"]]), co(o["struct"]), co(o["array"]))


def known_chunks(c, o):
  a = o.get("array", {})
  if a.get("raised") == "AttributeError" and not a.get("chunks"):
    return "C18-array-tostring"
  return None


def nontrivial_chunks(c, o):
  n, s = len(c["xs"]), c["size"]
  return n > s and n % s != 0


def gen_wav(tier, rng):
  reps = 2 if tier == "quick" else 12
  for bits in (8, 16, 24, 32):
    for channels in (1, 2):
      for keep in (False, True):
        for nfr in list(range(0, 6)) + [rng.randrange(6, 40) for _ in range(reps)]:
          lo, hi = (0, 255) if bits == 8 else (-(1 << (bits - 1)), (1 << (bits - 1)) - 1)
          pool = [lo, hi, 0, 1, lo + 1, hi - 1, 128 if bits == 8 else -1, 127 if bits == 8 else -2]
          samples = [rng.choice(pool) if rng.random() < 0.6 else rng.randrange(lo, hi + 1) for _ in range(nfr * channels)]
          yield {"bits": bits, "channels": channels, "keep": keep, "samples": samples,
                 "rate": H.wav_rate(rng, bits, channels), "tags": ["bits=%d" % bits, "ch=%d" % channels, "keep=%s" % keep]}
  # header fields at the ends of their range: sample rate 1..20 and the largest the header can hold, 1 and 3 frames,
  # every width x mono / stereo x keep (any internal block size derived from the rate must not lose data)
  for bits in (8, 16, 24, 32):
    for channels in (1, 2):
      for keep in (False, True):
        m = H.max_rate(bits, channels)
        rates = list(range(1, 21)) + [m] if tier != "quick" else [1, 19, 20, rng.randrange(2, 19), m]
        for rate in rates:
          for nfr in (1, 3):
            yield {"bits": bits, "channels": channels, "keep": keep, "samples": H._wav_samples(bits, nfr * channels, rng),
                   "rate": rate, "tags": ["bits=%d" % bits, "ch=%d" % channels, "keep=%s" % keep, "rate-end"]}
  # runs far longer than any internal period (1024 frames, 50 ms of audio, ...), at low, usual and high rates
  longs = [(8, 1023), (16, 1024), (8, 1025), (16, 2049)] if tier == "quick" else \
          [(b, n) for b in (8, 16, 24, 32) for n in (1023, 1024, 1025, 2049)]
  for bits, nfr in longs:
    channels = rng.choice([1, 2])
    yield {"bits": bits, "channels": channels, "keep": rng.random() < 0.5, "samples": H._wav_samples(bits, nfr * channels, rng),
           "rate": H.wav_rate(rng, bits, channels), "tags": ["bits=%d" % bits, "ch=%d" % channels, "long"]}


def run_wav(c):
  import wave
  import audiolazy
  from audiolazy.lazy_wav import WavStream
  bits, ch = c["bits"], c["channels"]
  w = bits // 8
  raw = b"".join((v if bits == 8 else v % (1 << bits)).to_bytes(w, "little") for v in c["samples"])
  buf = io.BytesIO()
  wf = wave.open(buf, "wb")
  wf.setnchannels(ch); wf.setsampwidth(w); wf.setframerate(c["rate"])
  wf.writeframes(raw)
  wf.close() if False else None
  data = None
  # wave closes the BytesIO it was given only if it opened it; keep our own copy of the bytes
  wf._ensure_header_written(len(raw)) if False else None
  wf.close()
  # (BytesIO is closed by wave.close() only when wave opened it itself: it did not)
  fobj = io.BytesIO(buf.getvalue())
  try:
    ws = WavStream(fobj, keep=c["keep"])
    attrs = [ws.rate, ws.channels, ws.bits]
    outs, closed_during = [], False
    it = iter(ws)
    n = len(c["samples"])
    while True:
      if ws._file.getfp() is None and len(outs) < n:
        closed_during = True
      try:
        v = next(it)
      except StopIteration:
        break
      outs.append(v)
      if len(outs) > n + 10:
        return {"raise": "TooManySamples", "raw": list(raw)}
    closed_after = ws._file.getfp() is None
    enc = []
    for v in outs:
      if isinstance(v, bool) or not isinstance(v, (int, float)):
        return {"raise": "BadType:" + type(v).__name__, "raw": list(raw)}
      enc.append(["i", v] if isinstance(v, int) else ["f", [Fraction(v).numerator, Fraction(v).denominator]])
    return {"outs": enc, "raw": list(raw), "attrs": attrs, "closed_during": closed_during, "closed_after": closed_after}
  except Exception as e:
    return {"raise": type(e).__name__, "raw": list(raw)}


def lit_wav(c, o):
  if "outs" in o:
    ob = "(WO %s)" % L.lst(["(WInt %s)" % L.z(v[1]) if v[0] == "i" else "(WFlt (qc (%d) %d))" % (v[1][0], v[1][1]) for v in o["outs"]])
    attrs = "(%s, %s, %s)" % tuple(L.z(a) for a in o["attrs"])
    cd, ca = L.boolean(o["closed_during"]), L.boolean(o["closed_after"])
  else:
    ob = "(WRaise %s)" % L.string(o["raise"].replace(":", "_"))
    attrs, cd, ca = "(0%Z, 0%Z, 0%Z)", "false", "false"
  return "(WC %s %s %s %s %s %s %s %s %s %s)" % (
    L.z(c["bits"]), L.nat(c["channels"]), L.boolean(c["keep"]), L.lst([L.z(v) for v in c["samples"]]),
    _zl(o["raw"]), ob, attrs, L.z(c["rate"]), cd, ca)


def nontrivial_wav(c, o):
  s = c["samples"]
  return len(s) >= 3 and any((v > 127) if c["bits"] == 8 else (v < 0) for v in s)


IMPORTS = "From AL Require Import C18.Model C18.Spec C18.Check.\nOpen Scope Z_scope."
IMPORTS_H = "From AL Require Import C18.Model C18.Spec C18.Check C18.Hist.\nOpen Scope Z_scope."
import C18_hist as H
import C18_src as S
IMPORTS_S = "From AL Require Import C18.Model C18.Spec C18.Check C18.Src.\nOpen Scope Z_scope."
FAMILIES = {
  "chunks": Family("chunks", IMPORTS, "ccase", "corr_chunks", "holds_chunks", gen_chunks, run_chunks, lit_chunks,
                   nontrivial_chunks, known_chunks),
  "wav": Family("wav", IMPORTS, "wcase", "corr_wav", "holds_wav", gen_wav, run_wav, lit_wav, nontrivial_wav),
  # several live streams pulled alternately; file-handle state after every pull and after deletion
  "wavhist": Family("wavhist", IMPORTS_H, "hcase", "corr_wavhist", "holds_wavhist", H.gen_wavhist, H.run_wavhist,
                    H.lit_wavhist, H.nontrivial_wavhist),
  # the wave_file argument: name / file on disk / BytesIO / pipe / read()-only object, standing where the data starts
  "wavsrc": Family("wavsrc", IMPORTS_S, "scase", "corr_wavsrc", "holds_wavsrc", S.gen_wavsrc, S.run_wavsrc, S.lit_wavsrc,
                   S.nontrivial_wavsrc),
  # every kind of caller's object, used again in later calls (other size / pad / strategy / order)
  "ckinds": Family("ckinds", IMPORTS_H, "kcase", "corr_ckinds", "holds_ckinds", H.gen_ckinds, H.run_chist, H.lit_chist,
                   H.nontrivial_chist),
  # two or three chunk generators alive together, consumed alternately
  "cinter": Family("cinter", IMPORTS_H, "kcase", "corr_ckinds", "holds_ckinds", H.gen_cinter, H.run_chist, H.lit_chist,
                   H.nontrivial_chist),
}
