# -*- coding: utf-8 -*-
"""C10 - call histories.  Sequences of 2-4 calls of lpc.kautocor / lpc.kcovar / levinson_durbin / acorr / lag_matrix in
one process, built to expose state that survives a call, aliasing of results and arguments, argument kinds and call
forms:
  * block objects REUSED and refilled in place between calls (slice / item writes, deque clear+extend, same and other
    length), or rebuilt as new objects with EQUAL contents, orders descending / equal / ascending;
  * the objects RETURNED by earlier calls (filter .error, numpoly items, lag lists, tables) are mutated in place by the
    caller between calls; later calls must not see it;
  * after every call the argument object is compared with what the caller put in it;
  * every call is issued positionally and by keyword (order= / max_lag= / blk= / acdata=), with the default given
    explicitly (None) or omitted, through every alias (attribute and item access of the StrategyDict) and through the
    lpc(...) default dispatch / numpy strategies (ImportError here);
  * block kinds: list, tuple, deque (bounded / unbounded), an object with only __len__/__getitem__, and the kinds
    without len() (generator, iterator, Stream: TypeError).
The functions are pure, so every call is compared with the per-call model on the contents of its block at that moment."""
from fractions import Fraction

HFNS = ["kac", "kcv", "lev", "acorr", "lagm", "toep"]
HCOQ = {"kac": "HKac", "kcv": "HKcv", "lev": "HLev", "acorr": "HAcorr", "lagm": "HLagm", "toep": "HToep"}
ARGNAMES = {"kac": ("blk", "order"), "kcv": ("blk", "order"), "lev": ("acdata", "order"),
            "acorr": ("blk", "max_lag"), "lagm": ("blk", "max_lag"), "toep": ("vect", None)}
SIZED = ["list", "list", "tuple", "deque", "dequemax", "seqobj", "fresh"]
UNSIZED = ["gen", "iter", "stream"]
INPLACE = ("list", "deque", "dequemax", "seqobj")      # kinds whose object is kept and refilled in place
STYLES_SOME = ["pos", "pos", "kw1", "kw_all"]            # f(x, p)  f(x, order=p)  f(blk=x, order=p)
STYLES_NONE = ["omit", "omit_kw", "pos", "kw1", "kw_all"]  # f(x)  f(blk=x)  f(x, None)  f(x, order=None)  f(blk=x, order=None)
POKES = [None, "error_div", "error_set", "coef", "both"]
NUMPY_VIAS = ["default", "autocor", "acorr", "nautocor", "covar", "cov"]


def _fr(v):
  v = Fraction(v)
  return [v.numerator, v.denominator]


def _vals(rng, fn, n):
  if fn == "lev":  # a lag list: dominant first lag so that most recursions run through
    return [Fraction(rng.randrange(6, 13))] + [Fraction(rng.randrange(-5, 6), rng.choice([1, 1, 2])) for _ in range(n - 1)]
  return [Fraction(rng.randrange(-4, 5), rng.choice([1, 1, 2])) for _ in range(n)]


def _form(rng, fn, order, style=None):
  import C10 as H
  style = style or rng.choice(STYLES_NONE if order is None else STYLES_SOME)
  if fn == "toep":   # one parameter only
    style = "omit_kw" if style in ("omit_kw", "kw_all") else "omit"
  via = {"kac": rng.choice(H.STRATS_A), "kcv": rng.choice(H.STRATS_C)}.get(fn, fn)
  return {"style": style, "via": via, "access": rng.choice(["attr", "item"])}


def _step(rng, fn, obj, kind, how, vals, order, style=None, poke=None):
  if fn == "toep":
    order = None
  if kind == "seqobj" and fn == "lev" and order is not None and order >= len(vals):
    kind = "list"   # Stream(acdata) of the zero extension needs a real iterable
  return {"fn": fn, "obj": obj, "kind": kind, "how": how, "vals": vals, "order": order,
          "form": _form(rng, fn, order, style), "poke": poke}


def _history(rng, fn, kind, orders, lens, other=None, same_values=False, pokes=None, styles=None):
  """Object 0 called with `fn` at the given orders.  Before call k > 0 its contents are replaced (in place for the
  INPLACE kinds) by new values of length lens[k], or - same_values - by values EQUAL to the previous ones.
  other = (position, fn2): an extra call on a second object in between."""
  steps, last = [], None
  for k, (o, n) in enumerate(zip(orders, lens)):
    if k == 0:
      how = "new"
    elif same_values or rng.random() < 0.15:
      how = rng.choice(["keep", "rewrite"])        # untouched object / same values written again
    else:
      how = rng.choice(["slice", "slice", "items"] if n == len(last) else ["slice"])
    vals = last if how in ("keep", "rewrite") else [_fr(v) for v in _vals(rng, fn, n)]
    last = vals
    poke = pokes[k] if pokes else rng.choice(POKES)
    steps.append(_step(rng, fn, 0, kind, how, vals, o, styles[k] if styles else None, poke))
    if other is not None and other[0] == k:
      steps.append(_step(rng, other[1], 1, "list", "new", [_fr(v) for v in _vals(rng, other[1], n)],
                         rng.choice([1, 2]), None, rng.choice(POKES)))
  return steps


def gen_hist(tier, rng):
  quick = tier == "quick"
  # (1) reused block, refilled in place: every function x kind x order pattern x same / other length
  for fn in HFNS:
    for kind in ("list", "deque", "seqobj", "tuple", "fresh"):
      for orders in ([2, 1], [2, 2], [1, 2], [3, 2, 1], [None, 2], [2, None], [0, 2, 0]):
        for samelen in (True, False):
          if quick and rng.random() < 0.5:
            continue
          n0 = rng.randrange(4, 7)
          lens = [n0 if samelen else rng.randrange(4, 8) for _ in orders]
          yield {"steps": _history(rng, fn, kind, orders, lens),
                 "tags": ["refill", fn, kind, "samelen" if samelen else "difflen"]}
  # (2) equal contents and equal order asked again after the caller modified what it got before
  for fn in HFNS:
    for kind in SIZED:
      for poke in POKES[1:]:
        for orders in ([2, 2], [1, 1, 1], [None, None], [3, 2, 3]):
          if quick and rng.random() < 0.6:
            continue
          n0 = rng.randrange(3, 7)
          yield {"steps": _history(rng, fn, kind, orders, [n0] * len(orders), same_values=True,
                                   pokes=[poke] * len(orders)),
                 "tags": ["requery", fn, kind, "poke=%s" % poke]}
  # (3) every call form x alias on one block: all results must be the positional one
  for fn in HFNS:
    for order in (None, 0, 1, 2):
      styles = list(STYLES_NONE if order is None else ["pos", "kw1", "kw_all"])
      n0 = rng.randrange(4, 7)
      for kind in ("list", "tuple"):
        yield {"steps": _history(rng, fn, kind, [order] * len(styles), [n0] * len(styles), same_values=True,
                                 pokes=[None] * len(styles), styles=styles),
               "tags": ["forms", fn, kind, "order=%s" % order]}
  # (4) blocks without len(), and the strategies that need numpy / the default dispatch of lpc(...)
  for fn in HFNS:
    for kind in UNSIZED:
      for order in (None, 2):
        vals = [_fr(v) for v in _vals(rng, fn, 5)]
        yield {"steps": [_step(rng, fn, 0, kind, "new", vals, order), _step(rng, fn, 1, "list", "new", vals, order)],
               "tags": ["unsized", fn, kind]}
  for via in NUMPY_VIAS:
    for style in ("pos", "kw1", "kw_all"):
      vals = [_fr(v) for v in _vals(rng, "kac", 5)]
      st = _step(rng, "kac", 0, "list", "new", vals, 2, style)
      st["form"]["via"] = via
      st["numpy"] = True
      yield {"steps": [st, _step(rng, "kac", 0, "list", "keep", vals, 2)], "tags": ["numpy", via, style]}
  # (5) random histories
  for _ in range(120 if quick else 2500):
    fn = rng.choice(["kac", "kac", "kac", "kcv", "kcv", "lev", "lev", "acorr", "lagm"])
    kind = rng.choice(SIZED)
    k = rng.randrange(2, 5)
    orders = [rng.choice([None, 0, 1, 2, 2, 3, 3, 4]) for _ in range(k)]
    if rng.random() < 0.5:
      orders.sort(key=lambda o: -(o if o is not None else 5))
    n0 = rng.randrange(3, 8)
    lens = [n0 if rng.random() < 0.7 else rng.randrange(3, 8) for _ in range(k)]
    other = (rng.randrange(k), rng.choice(HFNS)) if rng.random() < 0.3 else None
    yield {"steps": _history(rng, fn, kind, orders, lens, other, same_values=rng.random() < 0.25),
           "tags": ["random", fn, kind, "interleaved" if other else "alone"]}


# ---------------------------------------------------------------------------------------------- runner
class _SeqObj(object):
  """A block with only __len__ and integer __getitem__ (no __iter__, no slices)."""
  def __init__(self, v):
    self.v = list(v)

  def __len__(self):
    return len(self.v)

  def __getitem__(self, i):
    if isinstance(i, slice):
      raise TypeError("no slices")
    return self.v[i]


def _contents(obj):
  """What a sized block object holds now (None for the kinds that cannot be read back without consuming them)."""
  import collections
  if isinstance(obj, _SeqObj):
    return list(obj.v)
  if isinstance(obj, (list, tuple, collections.deque)):
    return list(obj)
  return None


def _make(kind, vals):
  import collections, audiolazy
  if kind in ("list", "fresh"): return list(vals)
  if kind == "tuple": return tuple(vals)
  if kind == "deque": return collections.deque(vals)
  if kind == "dequemax": return collections.deque(vals, maxlen=len(vals) + 2)
  if kind == "seqobj": return _SeqObj(vals)
  if kind == "gen": return (v for v in list(vals))
  if kind == "iter": return iter(list(vals))
  if kind == "stream": return audiolazy.Stream(list(vals))
  raise ValueError(kind)


def _refill(obj, how, vals):
  tgt = obj.v if isinstance(obj, _SeqObj) else obj
  if how == "items" and len(tgt) == len(vals):
    for i, v in enumerate(vals):
      tgt[i] = v                       # element-wise writes into the same object
  elif isinstance(tgt, list):
    tgt[:] = vals                      # the same list object, refilled in place
  else:
    tgt.clear(); tgt.extend(vals)      # deque


def _callable(st):
  import audiolazy
  fn, form = st["fn"], st["form"]
  if st.get("numpy"):
    return audiolazy.lpc if form["via"] == "default" else audiolazy.lpc[form["via"]]
  if fn in ("kac", "kcv"):
    return getattr(audiolazy.lpc, form["via"]) if form["access"] == "attr" else audiolazy.lpc[form["via"]]
  return {"lev": audiolazy.levinson_durbin, "acorr": audiolazy.acorr, "lagm": audiolazy.lag_matrix,
          "toep": audiolazy.toeplitz}[fn]


def _invoke(f, st, blk):
  a0, a1 = ARGNAMES[st["fn"]]
  style, order = st["form"]["style"], st["order"]
  if style == "omit": return f(blk)
  if style == "omit_kw": return f(**{a0: blk})
  if style == "pos": return f(blk, order)
  if style == "kw1": return f(blk, **{a1: order})
  if style == "kw_all": return f(**{a0: blk, a1: order})
  raise ValueError(style)


def _poke(res, poke, fn, k):
  """The caller modifies, in place, what an earlier call returned to it."""
  from vlib.exactq import ExactQ
  if poke is None:
    return
  try:
    if fn in ("kac", "kcv", "lev"):
      if poke in ("error_div", "both"):
        res.error /= 4                        # e.g. total -> mean squared error
      if poke == "error_set":
        res.error = ExactQ(-7 - k)
      if poke in ("coef", "both"):
        res.numpoly[1] = ExactQ(9 + k, 2)
        res.numpoly[0] = ExactQ(3)
    elif fn == "acorr":
      if res:
        res[0] = ExactQ(1000 + k)
      res.append(ExactQ(5))
    else:
      if res and res[0]:
        res[0][0] = ExactQ(1000 + k)
      res.reverse()
  except Exception:
    pass                                      # a result that cannot be modified is fine


def run_hist(c):
  import C10 as H
  from vlib.exactq import ExactQ, to_frac
  objs, out, kept = {}, [], []
  for k, st in enumerate(c["steps"]):
    want = [H.unfr(p) for p in st["vals"]]
    vals = [ExactQ(v) for v in want]
    key, kind = st["obj"], st["kind"]
    fits = key in objs and (getattr(objs[key], "maxlen", None) is None or len(vals) <= objs[key].maxlen)
    if kind in INPLACE and fits and type(objs[key]) is type(_make(kind, [])):
      if st["how"] != "keep":
        _refill(objs[key], st["how"], vals)
    else:
      objs[key] = _make(kind, vals)
    blk = objs[key]
    before = _contents(blk)
    assert before is None or [to_frac(v) for v in before] == want, "harness: block contents"
    f = _callable(st)
    res = []
    def call():
      r = _invoke(f, st, blk)
      res.append(r)
      return r
    if st["fn"] in ("kac", "kcv", "lev") or st.get("numpy"):
      o = H.obs_filter(call)
    else:
      try:
        r = call()
        o = {"val": [H.fr(to_frac(v)) for v in r] if st["fn"] == "acorr" else [[H.fr(to_frac(v)) for v in row] for row in r]}
      except Exception as e:
        o = {"raise": type(e).__name__}
    after = _contents(blk)
    if after is not None and [to_frac(v) for v in after] != want:
      o = {"raise": "ArgumentMutated"}         # the call changed the caller's block
    out.append(o)
    if res:
      kept.append(res[0])                      # the caller keeps every result alive ...
      _poke(res[0], st.get("poke"), st["fn"], k)   # ... and may modify it
  return {"outs": out}


def lit_hist(c, o):
  import C10 as H
  from vlib import coqlit as L
  outs = o.get("outs")
  if outs is None:  # the runner itself failed (timeout): no step can compare equal
    outs = [{"raise": o.get("raise", "?")}] * len(c["steps"])
  lits = []
  for st, ob in zip(c["steps"], outs):
    fn = st["fn"]
    special = "HNumpy" if st.get("numpy") else "HUnsized" if st["kind"] in UNSIZED else None
    if special:
      ho = "(HF (FErr %s))" % L.string(ob["raise"][:60] if "raise" in ob else "returned")
    elif fn in ("kac", "kcv", "lev"):
      ho = "(HF %s)" % H.lit_fobs(ob)
    elif fn == "acorr":
      ho = "(HL %s)" % (H.qlist(ob["val"]) if "val" in ob else H.BOGUS)
    else:
      ho = "(HT %s)" % (("(TOk %s)" % L.lst([H.qlist(r) for r in ob["val"]])) if "val" in ob
                        else "(TErr %s)" % L.string(ob["raise"][:60]))
    lits.append("HS %s %s %s %s" % (special or HCOQ[fn], H.qlist(st["vals"]), H.lit_order(st["order"]), ho))
  return L.lst(lits)


def nontrivial_hist(c, o):
  """a returning call that (i) follows an in-place refill of its block with OTHER contents at an order an earlier
  call already covered, or (ii) repeats an earlier call's contents and order after that call's result was modified
  by the caller, or (iii) passes a non-default order by keyword"""
  seen, ok = {}, False
  for st, ob in zip(c["steps"], o.get("outs", [])):
    if st.get("numpy") or st["kind"] in UNSIZED:
      continue
    key = (st["obj"], st["fn"])
    od = st["order"] if st["order"] is not None else len(st["vals"]) - 1
    good = "raise" not in ob
    if key in seen:
      pod, pvals, ppoke = seen[key]
      if good and st["kind"] in INPLACE and st["how"] in ("slice", "items") and st["vals"] != pvals and od <= pod:
        ok = True
      if good and st["vals"] == pvals and od == pod and ppoke:
        ok = True
    if good and st["form"]["style"] in ("kw1", "kw_all") and st["order"] is not None:
      ok = True
    seen[key] = (od, st["vals"], st.get("poke"))
  return ok
