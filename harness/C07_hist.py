# -*- coding: utf-8 -*-
"""C07 - histories on live Poly objects (classes (a) state between calls, (b) aliasing, (d) timing):
hashing / set and dict insertion in between comparisons, the caller's containers mutated after construction,
item assignment on operands and results of every operator.  Model: Model.hstep (pure, objects never share
storage except p ** 1 of a several-term p, which IS p)."""
from collections import OrderedDict
from fractions import Fraction
from vlib import coqlit as L

UNOPS_EQ = [["diff", 0], ["copy"], ["pos"], ["add0"], ["mul1"], ["pow", 1], ["poly"],   # results equal to the operand
            ["rezero", "int"], ["rezero", "frac"], ["rezero", "false"], ["rezero", "float"]]
UNOPS_ALL = UNOPS_EQ + [["neg"], ["diff", 1], ["diff", 2], ["pow", 2], ["pow", 0], ["pow", -1], ["int"]]
BINOPS = ["add", "sub", "mul", "call"]
NEAR = [(-1, -2), (1, 2), (-2, -1), (2, 1), (-1, 1), (Fraction(-1, 2), Fraction(-3, 2)), (-1, -3), (3, 2), (-2, -4)]


def _H():
  import C07
  return C07


def run_hist(c):
  import audiolazy
  H = _H()
  Poly = audiolazy.Poly
  slots, conts, obs = [], [], []
  for op in c["ops"]:
    flag = ["ok", 0]
    vals = []
    try:
      t = op[0]
      if t == "new":
        kind, data, ty = op[1], op[2], op[3]
        cont = None
        zkw = H.zero_kw(op[4] if len(op) > 4 else "default")     # the kind of the polynomial's zero (class (f))
        if kind == "dict":
          cont = dict((k, H.num(v, ty)) for k, v in data); p = Poly(cont, **zkw)
        elif kind == "odict":
          cont = OrderedDict((k, H.num(v, ty)) for k, v in data); p = Poly(cont, **zkw)
        elif kind == "list":
          cont = [H.num(v, ty) for v in data]; p = Poly(cont, **zkw)
        elif kind == "const":
          p = Poly(H.num(data, ty), **zkw)
        else:
          p = Poly(**zkw)
        slots.append(p); conts.append(cont)
      elif t == "mutc":
        cont, act = (conts[op[1]] if op[1] < len(conts) else None), op[2]   # a variable a refused call never created
        try:
          if isinstance(cont, list):
            if act[0] == "set" and cont: cont[act[1] % len(cont)] = H.num(act[2], op[3])
            elif act[0] == "append": cont.append(H.num(act[2], op[3]))
            elif act[0] == "clear": del cont[:]
            elif act[0] == "del" and cont: cont.pop()
          elif cont is not None:
            if act[0] in ("set", "append"): cont[act[1]] = H.num(act[2], op[3])
            elif act[0] == "clear": cont.clear()
            elif act[0] == "del" and cont: cont.pop(next(iter(cont)))
        except (KeyError, IndexError):
          pass
      elif t == "un":
        u, p = op[1], slots[op[2]]
        if u[0] == "diff": r = p.diff(u[1])
        elif u[0] == "int": r = p.integrate()
        elif u[0] == "copy": r = p.copy()
        elif u[0] == "pos": r = +p
        elif u[0] == "neg": r = -p
        elif u[0] == "add0": r = p + 0
        elif u[0] == "mul1": r = p * 1
        elif u[0] == "pow": r = p ** u[1]
        elif u[0] == "rezero": r = Poly(p, **H.zero_kw(u[1]))     # copy-constructor giving another kind of zero
        else: r = Poly(p)
        slots.append(r); conts.append(None)
      elif t == "bin":
        a, b = slots[op[2]], slots[op[3]]
        r = {"add": lambda: a + b, "sub": lambda: a - b, "mul": lambda: a * b, "call": lambda: a(b)}[op[1]]()
        slots.append(r); conts.append(None)
      elif t == "set":
        slots[op[1]][op[2]] = H.num(op[3], op[4])
      elif t == "eval":
        p, v = slots[op[1]], H.typed(op[2], op[3])
        vals = [H.qv(p(v)), H.qv(p(v, horner=True)), H.qv(p(v, horner=False))]
      elif t == "zero":
        slots[op[1]].zero = H.zero_kw(op[2] if op[2] not in ("default", "none") else "float")["zero"]
      elif t == "hash":
        ps = [slots[i] for i in op[1] if i < len(slots)]   # a variable a refused call never created
        if op[2] == "hash":
          for p in ps: hash(p)
          n = len(set(ps))
        elif op[2] == "set":
          n = len(set(ps))
        else:
          d = {}
          for p in ps: d[p] = 1
          n = len(d)
        flag = ["ok", n]
    except Exception as e:
      flag = ["raise", type(e).__name__]
    hashed = [hasattr(p, "_hash") for p in slots]
    obs.append({"flag": flag, "vals": vals, "terms": [H.terms_of(p) for p in slots],
                "eq": [[bool(p == r) for r in slots] for p in slots],
                "ne": [[bool(p != r) for r in slots] for p in slots],
                "heq": [[(not (hashed[i] and hashed[j])) or hash(p) == hash(r) for j, r in enumerate(slots)]
                        for i, p in enumerate(slots)]})
  return {"steps": obs}


def _unop_lit(u):
  if u[0] == "diff": return "(UDiff %s)" % L.nat(u[1])
  if u[0] == "pow": return "(UPow (%d)%%Z)" % u[1]
  return {"int": "UInt", "copy": "UCopy", "pos": "UPos", "neg": "UNeg", "add0": "UAdd0", "mul1": "UMul1", "poly": "UPoly",
          "rezero": "UPoly"}[u[0]]


def op_lit(op):
  H = _H()
  t = op[0]
  if t == "new":
    kind, data = op[1], op[2]
    if kind in ("dict", "odict"): return "(HNew (EPairs %s))" % H.pairs_lit(data)
    if kind == "list": return "(HNew (EList %s))" % L.lst([H.q(x) for x in data])
    if kind == "const": return "(HNew (EConst %s))" % H.q(data)
    return "(HNew ENone)"
  if t == "mutc": return "HNop"
  if t == "un": return "(HUn %s %s)" % (_unop_lit(op[1]), L.nat(op[2]))
  if t == "bin": return "(HBin %s %s %s)" % ({"add": "BAdd", "sub": "BSub", "mul": "BMul", "call": "BCall"}[op[1]], L.nat(op[2]), L.nat(op[3]))
  if t == "set": return "(HSet %s %s %s)" % (L.nat(op[1]), H.zl(op[2]), H.q(op[3]))
  if t == "hash": return "(HHash %s)" % L.lst([L.nat(i) for i in op[1]])
  if t == "eval": return "(HEval %s %s)" % (L.nat(op[1]), H.q(op[2]))
  if t == "zero": return "(HZero %s)" % L.nat(op[1])
  raise ValueError(t)


def _bm(m):
  return L.lst([L.lst([L.boolean(b) for b in row]) for row in m])


def lit_hist(c, o):
  H = _H()
  steps = []
  for st in o.get("steps", []):
    fl = "(Ok (%d)%%Z)" % st["flag"][1] if st["flag"][0] == "ok" else "(Raise %s)" % L.string(st["flag"][1])
    steps.append("(HO %s %s %s %s %s %s)" % (fl, L.lst([H.pairs_lit(t) for t in st["terms"]]), _bm(st["eq"]), _bm(st["ne"]),
                                            _bm(st["heq"]), L.lst([H.q(x) for x in st.get("vals", [])])))
  return "(HC %s %s)" % (L.lst([op_lit(op) for op in c["ops"]]), L.lst(steps))


# ----------------------------------------------------------------------------- generators
def _fr(x):
  x = Fraction(x)
  return [x.numerator, x.denominator]


def _types(rng, exact, vals):
  """a numeric type able to carry every value of vals exactly"""
  if exact:
    return rng.choice(["frac", "frac", "q"])
  opts = ["frac", "q", "float"]
  if all(Fraction(*v).denominator == 1 for v in vals):
    opts += ["int", "int"]
  return rng.choice(opts)


def _pairs(rng, exact, n=None, lo=-3, hi=4):
  pool = ([Fraction(a, b) for a in (-3, -2, -1, 1, 2, 5) for b in (1, 2, 3)] if exact
          else [Fraction(a, b) for a in (-3, -2, -1, 1, 2, 3) for b in (1, 2, 4)])
  ks = rng.sample(range(lo, hi + 1), rng.randrange(1, 4) if n is None else n)
  return [[k, _fr(rng.choice(pool))] for k in ks]


ZK = ["default", "none", "int", "float", "frac", "false", "q"]


def _new(rng, pairs, ty, kinds=("dict", "odict")):
  op = _new0(rng, pairs, ty, kinds)
  return op + [rng.choice(ZK) if rng.random() < 0.5 else "default"]


def _new0(rng, pairs, ty, kinds=("dict", "odict")):
  ks = sorted(k for k, _ in pairs)
  if "list" in kinds and ks and ks[0] >= 0 and rng.random() < 0.5:
    d = dict((k, v) for k, v in pairs)
    return ["new", "list", [d.get(i, [0, 1]) for i in range(ks[-1] + 1)], ty]
  return ["new", rng.choice([k for k in kinds if k != "list"] or ["dict"]), [list(p) for p in pairs], ty]


def _setsim(pairs, k, c):
  """value of the terms after p[k] = c"""
  d = OrderedDict((a, b) for a, b in pairs)
  if c[0] == 0:
    d.pop(k, None)
  else:
    d[k] = c
  return [[a, b] for a, b in d.items()]


def _hash_op(rng, idx):
  return ["hash", list(idx), rng.choice(["hash", "set", "dict"])]


def gen_hist(tier, rng):
  n = 110 if tier == "quick" else 1300
  # S1: near-miss pairs compared before and after hashing (one side, both sides, set / dict insertion)
  for i in range(n):
    exact = rng.random() < 0.5
    base = _pairs(rng, exact)
    a, b = rng.choice(NEAR)
    j = rng.randrange(len(base))
    base[j] = [base[j][0], _fr(a)]
    var = [list(p) for p in base]; var[j] = [var[j][0], _fr(b)]
    if rng.random() < 0.3:
      rng.shuffle(var)
    ops = [_new(rng, base, _types(rng, exact, [p[1] for p in base]), ("dict", "odict", "list")),
           _new(rng, var, _types(rng, exact, [p[1] for p in var]), ("dict", "odict", "list"))]
    if rng.random() < 0.5:
      cp = [list(p) for p in base]; rng.shuffle(cp)
      ops.append(_new(rng, cp, _types(rng, exact, [p[1] for p in cp])))
    if rng.random() < 0.3:
      ops += [["un", rng.choice([["neg"], ["mul1"], ["pow", 1], ["diff", 0]]), 0], ["un", ["neg"], 1]]
    ns = sum(1 for o in ops if o[0] in ("new", "un"))
    idx = list(range(ns))
    sched = rng.choice([[[0], [1], idx], [[0, 1]], [idx], [[1], [0, 1], idx], [[0], idx, [1, 0]]])
    for s in sched:
      ops.append(_hash_op(rng, s))
    yield {"ops": ops, "tags": ["S1-nearmiss", "exact" if exact else "mixed", "%s/%s" % (a, b)]}
  # S2: the caller goes on using the container it built the polynomial from
  for i in range(n):
    exact = rng.random() < 0.5
    base = _pairs(rng, exact, lo=0 if rng.random() < 0.5 else -3)
    ty = _types(rng, exact, [p[1] for p in base])
    ops = [_new(rng, base, ty, ("dict", "odict", "odict", "list"))]
    free = [k for k in range(0, 6) if k not in [p[0] for p in base]]
    for _ in range(rng.randrange(1, 4)):
      act = rng.choice([["set", rng.choice(base)[0], [0, 1]], ["set", rng.choice(base)[0], _fr(rng.choice([1, -2, 3]))],
                        ["append", rng.choice(free), [0, 1]], ["append", rng.choice(free), _fr(rng.choice([1, 2, -1]))],
                        ["del"], ["clear"]])
      ops.append(["mutc", 0, act, ty])
      r = rng.random()
      if r < 0.3:
        ops.append(_hash_op(rng, [0]))
      elif r < 0.6:
        ops.append(_new(rng, base, _types(rng, exact, [p[1] for p in base])))
        ops.append(_hash_op(rng, list(range(sum(1 for o in ops if o[0] == "new")))))
      elif r < 0.8:
        ops.append(["un", rng.choice(UNOPS_EQ), 0])
    yield {"ops": ops, "tags": ["S2-container", ops[0][1], "exact" if exact else "mixed"]}
  # S3: results of every operator are independent of their operands (item assignment, stale hashes)
  for i in range(2 * n):
    exact = rng.random() < 0.6
    base = _pairs(rng, exact, n=rng.randrange(1, 4))
    ty = _types(rng, exact, [p[1] for p in base])
    u = rng.choice(UNOPS_EQ + UNOPS_EQ + [["neg"], ["diff", 1], ["pow", 2]] + ([["int"]] if exact and all(p[0] != -1 for p in base) else []))
    ops = [_new(rng, base, ty, ("dict", "odict", "list")), ["un", u, 0]]
    k = rng.choice([p[0] for p in base] + [5])
    cnew = _fr(rng.choice([0, 0, 7, -2, Fraction(1, 2)]))
    if exact is False and ty == "int" and cnew[1] != 1:
      cnew = [7, 1]
    who, other = rng.choice([(0, 1), (0, 1), (1, 0)])
    newval = _setsim(base, k, cnew)
    order = rng.choice(["hash-then-set", "set-then-hash", "set-only"])
    if order == "hash-then-set":
      ops += [_hash_op(rng, [other]), ["set", who, k, cnew, ty]]
    elif order == "set-then-hash":
      ops += [["set", who, k, cnew, ty], _hash_op(rng, [other])]
    else:
      ops += [["set", who, k, cnew, ty]]
    # fresh polynomials equal to the old and to the new value, hashed: a stale hash shows as == without hash equality
    ops += [_new(rng, base, _types(rng, exact, [p[1] for p in base])), _new(rng, newval, _types(rng, exact, [p[1] for p in newval]))]
    ops += [_hash_op(rng, [2, 3]), _hash_op(rng, [0, 1, 2, 3])]
    if rng.random() < 0.4:
      ops += [["set", other, k, cnew, ty]]
    yield {"ops": ops, "tags": ["S3-independence", "op=" + u[0] + (str(u[1]) if len(u) > 1 else ""), order]}
  # S5 (class (k), per-object caches): ONE instance is evaluated under every scheme, mutated through its public
  # mutators (item assignment at a NEW power, at an existing power, to zero = removal, the zero setter), evaluated
  # again ...; a fresh polynomial equal to its final value, built another way, must evaluate equally
  for i in range(2 * n):
    exact = rng.random() < 0.6
    lo = 0 if rng.random() < 0.6 else -3
    base = _pairs(rng, exact, n=rng.randrange(1, 4), lo=lo, hi=4)
    ty = _types(rng, exact, [p[1] for p in base])
    vpool = ([Fraction(2), Fraction(-3, 2), Fraction(5, 7), Fraction(1, 3), Fraction(0), Fraction(-1)] if exact
             else [Fraction(2), Fraction(-2), Fraction(1, 2), Fraction(-1), Fraction(4), Fraction(0)])
    def ev(slot):
      v = rng.choice(vpool)
      vty = rng.choice(["frac", "q"]) if exact else rng.choice(["frac", "float"] + (["int"] if v.denominator == 1 else []))
      return ["eval", slot, _fr(v), vty]
    ops = [_new(rng, base, ty, ("dict", "odict", "list")), ev(0)]
    cur = [list(p) for p in base]
    for _ in range(rng.randrange(1, 4)):
      present = [p[0] for p in cur]
      absent = [k for k in range(lo, 7) if k not in present]
      kind = rng.choice(["new", "new", "new", "upd", "del", "nop", "zero"])
      cval = _fr(rng.choice([7, -2, 3] if not exact else [7, -2, Fraction(1, 2), Fraction(-4, 3)]))
      if kind == "new" and absent:
        k = rng.choice(absent); ops.append(["set", 0, k, cval, ty if exact else "int"]); cur = _setsim(cur, k, cval)
      elif kind == "upd" and present:
        k = rng.choice(present); ops.append(["set", 0, k, cval, ty if exact else "int"]); cur = _setsim(cur, k, cval)
      elif kind == "del" and present:
        k = rng.choice(present); ops.append(["set", 0, k, [0, 1], "q"]); cur = _setsim(cur, k, [0, 1])
      elif kind == "nop" and absent:
        ops.append(["set", 0, rng.choice(absent), [0, 1], "q"])
      else:
        ops.append(["zero", 0, rng.choice(["int", "float", "frac", "false", "q"])])
      ops.append(ev(0))
      if rng.random() < 0.4:
        ops.append(ev(0))
    ns = 1
    if rng.random() < 0.7:        # the same ring element through another history
      fresh = [list(p) for p in cur]; rng.shuffle(fresh)
      ops.append(_new(rng, fresh, _types(rng, exact, [p[1] for p in fresh]))); ns += 1
      ops.append(["eval", ns - 1] + ops[-2][2:] if ops[-2][0] == "eval" else ev(ns - 1))
    if rng.random() < 0.3:        # frozen by hashing: the refused assignment must not disturb later evaluations
      ops += [_hash_op(rng, [0]), ["set", 0, 6, _fr(5), "q" if exact else "int"], ev(0), ["zero", 0, "int"], ev(0)]
    yield {"ops": ops, "tags": ["S5-eval-mutate", "exact" if exact else "mixed", "poly" if lo == 0 else "laurent"]}
  # S4: random histories
  for i in range(n):
    exact = rng.random() < 0.6
    ops, ns = [], 0
    for step in range(rng.randrange(4, 9)):
      r = rng.random()
      if ns == 0 or (r < 0.25 and ns < 6):
        base = _pairs(rng, exact, lo=-2, hi=3)
        ops.append(_new(rng, base, _types(rng, exact, [p[1] for p in base]), ("dict", "odict", "list"))); ns += 1
      elif r < 0.45 and ns < 6:
        us = [u for u in UNOPS_ALL if (u != ["pow", 0] if exact else (u[0] != "int" and u != ["pow", -1]))]
        # non-exact palettes: no division; exact palettes: no p ** 0 (its Python int 1 must not reach integrate)
        ops.append(["un", rng.choice(us), rng.randrange(ns)]); ns += 1     # an integrate that is refused (x^-1 term) adds
        # no variable: later steps naming it are IndexError in the model and in the run alike (class (g))
      elif r < 0.55 and ns < 6:
        ops.append(["bin", rng.choice(BINOPS[:3]), rng.randrange(ns), rng.randrange(ns)]); ns += 1
      elif r < 0.75:
        c = _fr(rng.choice([0, 1, -2, 3])) if not exact else _fr(rng.choice([0, 1, -2, Fraction(1, 3)]))
        ops.append(["set", rng.randrange(ns), rng.randrange(-2, 4), c, "q" if exact else "int"])
      elif r < 0.85:
        v = rng.choice([Fraction(2), Fraction(-1), Fraction(1, 2), Fraction(0)])
        ops.append(["eval", rng.randrange(ns), _fr(v), "frac"])
      elif r < 0.95:
        ops.append(_hash_op(rng, rng.sample(range(ns), rng.randrange(1, ns + 1))))
      else:
        ops.append(["mutc", rng.randrange(ns), ["clear"], "q"])
    yield {"ops": ops, "tags": ["S4-random", "exact" if exact else "mixed"]}


def nontrivial_hist(c, o):
  kinds = [op[0] for op in c["ops"]]
  if kinds.count("eval") >= 2 and ("set" in kinds or "zero" in kinds):
    return True
  return "hash" in kinds and (("set" in kinds) or ("mutc" in kinds) or kinds.count("new") >= 2)
