# -*- coding: utf-8 -*-
"""C19 machine-float families (class: scale and values a hair away from 0 / from the modulo).
modulo_counter and the TableLookup oscillator are run on plain Python floats / ints.  Coq checks on the observed
floats (as exact rationals): range membership [0, modulo) as such, and agreement with the exact closed form as
points of the circle up to a rounding tolerance computed here from the INPUTS (never from the result)."""
import math, itertools
from fractions import Fraction


def fr(x):
  x = Fraction(x)
  return [x.numerator, x.denominator]


def F(p):
  return Fraction(p[0], p[1])


def pyval(a):
  """the Python number of a stored value: ["f", [n, d]] float, ["i", n] int"""
  return int(a[1]) if a[0] == "i" else float(F(a[1]))


def st(x):
  return ["i", int(x)] if isinstance(x, int) and not isinstance(x, bool) else ["f", fr(Fraction(float(x)))]


def exact(a):
  return Fraction(int(a[1])) if a[0] == "i" else F(a[1])


def hairs(m, rng):
  """values a hair below 0 and a hair below / at the modulo (m > 0 float).  The extreme exponents (1e-100,
  denormals) cost Coq seconds per case (rationals with 2^1074 denominators): they are drawn rarely."""
  m = float(m)
  if rng.random() < 0.015:
    return [-1e-100, -5e-324, 5e-324]
  return [-1e-16, -1e-30, -m * 2.0 ** -80, -m * 2.0 ** -54, -m * 2.0 ** -53, -m * 2.0 ** -40, 0.0, -0.0,
          math.nextafter(m, 0.0), m * (1 - 2.0 ** -40), m - m * 1e-12, m, math.nextafter(m, 2 * m), m * 2.0 ** -60]


MODS = [7.0, 256.0, 6.283185307179586, 3.0, 10, 7e-15, 7e12, 2.5e-7, 1.0]
RATIOS = [1.0 / 7, 0.1, 0.5, 1.0, 2.5, -0.3, 0.0, 1.0 / 3, 1e-3]


def gen_fmc(tier, rng):
  combos = list(itertools.product("sn", repeat=3))
  def arg(kind, v, n, dip=None):
    if kind == "n":
      return {"num": st(v)}
    l = [st(v)] * n
    if dip is not None:
      l = [st(x) for x in dip]
    return {"str": l}
  nper = 2 if tier == "quick" else 16
  for (ks, km, kst) in combos:
    for m in MODS:
      for _ in range(nper):
        r = rng.choice(RATIOS)
        s = m * r if not (isinstance(m, int) and r == 1.0) else m
        if isinstance(m, int) and rng.random() < 0.5:
          s = rng.choice([3, 1, 2, 4, -3])
        p = rng.choice(hairs(m, rng))
        n = rng.choice([8, 12])
        dip = None
        if ks == "s" and rng.random() < 0.4:
          tiny = rng.choice([-1e-16, -1e-30, -float(m) * 2.0 ** -54] if rng.random() < 0.97 else [-1e-100, -5e-324])
          dip = [0.0, 0.0, 0.0, -3 * float(s) + tiny, -4 * float(s)] + [rng.choice([0.0, tiny, float(m) * 0.25]) for _ in range(n - 5)]
        yield {"start": arg(ks, p, n, dip), "modulo": arg(km, m, n), "step": arg(kst, s, n), "k": 9,
               "tags": ["float", "kinds=" + ks + km + kst, "mod=%g" % m, "hair" if dip is None else "dip"]}
  for _ in range(24 if tier == "quick" else 240):   # negative and zero moduli, ints with non-integer partners
    ks, km, kst = rng.choice(combos)
    m = rng.choice([-7.0, -2.5, 0.0, 10, 3])
    s = rng.choice([1.0, 0.75, -0.5, 0.3, 3])
    p = rng.choice([1e-16, -1e-16, 0.0, -1e-30, 2.0 ** -70, 2.5])
    yield {"start": arg(ks, p, 12), "modulo": arg(km, m, 12), "step": arg(kst, s, 12), "k": 10,
           "tags": ["float", "kinds=" + ks + km + kst, "mod<=0" if m <= 0 else "mod=int"]}


def mk(a):
  if "num" in a:
    return pyval(a["num"])
  return [pyval(x) for x in a["str"]]


def tol_mc(c):
  """2^-30 of the scale of the numbers involved"""
  def vals(a):
    return [exact(a["num"])] if "num" in a else [exact(x) for x in a["str"]]
  k = c["k"]
  scale = max(abs(v) for v in vals(c["modulo"])) + max(abs(v) for v in vals(c["start"])) * 2 \
          + sum(sorted((abs(v) for v in vals(c["step"]) * (k if "num" in c["step"] else 1)), reverse=True)[:k])
  return scale / 2 ** 30


def run_fmc(c):
  import audiolazy
  import C19 as M
  a, b, s = mk(c["start"]), mk(c["modulo"]), mk(c["step"])
  o = M.observe(lambda: audiolazy.modulo_counter(a, b, s), c["k"])
  o["tol"] = fr(tol_mc(c))
  return o


def arg_lit(a, M):
  if "num" in a:
    return "(Num %s)" % M.q(fr(exact(a["num"])))
  return "(Str %s)" % M.qlist([fr(exact(x)) for x in a["str"]])


def lit_fmc(c, o):
  import C19 as M
  from vlib import coqlit as L
  return "(FMC %s %s %s %s %s %s %s)" % (arg_lit(c["start"], M), arg_lit(c["modulo"], M), arg_lit(c["step"], M), L.nat(c["k"]),
                                         M.q(o.get("tol", [0, 1])), M.qlist(o.get("outs", [])), M.end_lit(o) if "end" in o else '(ERaise "harness")')


# ====================================================================== float TableLookup oscillator
def gen_ftab(tier, rng):
  n_cases = 50 if tier == "quick" else 500
  for _ in range(n_cases):
    n = rng.randrange(1, 9)
    tbl = [st(rng.choice([float(i * i), rng.randrange(-9, 10) / 4.0, 0.1 * rng.randrange(-20, 20), rng.randrange(-5, 6)]))
           for i in range(n)]
    cyc = rng.choice(["default", ["i", 1], ["i", 2], ["f", fr(Fraction(0.5))], ["f", fr(Fraction(3.0))]])
    cycv = 1.0 if cyc == "default" else pyval(cyc)
    period = 2 * math.pi * cycv
    freq = rng.choice([period / 8, period / n, 0.3, 0.0, -0.4, 1e-9, period, 2.0 * period / 3])
    phase = rng.choice([-1e-100, -5e-324] if rng.random() < 0.04 else [-1e-16, -1e-30, -2.0 ** -70, 0.0, -period * 2.0 ** -54, math.nextafter(period, 0.0),
                        period * (1 - 2.0 ** -40), period, -period, 0.7, -2.0, 1e-7 * period])
    kind = rng.choice(["nn", "nn", "nn", "sn", "ns"])
    fa = {"num": st(freq)} if kind[0] == "n" else {"str": [st(freq + rng.choice([0.0, 0.125, -0.25])) for _ in range(9)]}
    pa = {"num": st(phase)} if kind[1] == "n" else {"str": [st(rng.choice([phase, phase, 0.0, -1e-16, phase - 0.25])) for _ in range(9)]}
    yield {"tbl": tbl, "cyc": cyc, "freq": fa, "phase": pa, "k": 8,
           "tags": ["float-table", "size=%d" % n, "args=" + kind, "cycles=" + (cyc if cyc == "default" else cyc[0])]}


def run_ftab(c):
  import audiolazy
  from audiolazy import lazy_synth as ls
  import C19 as M
  TL = audiolazy.TableLookup
  tb = [pyval(x) for x in c["tbl"]]
  mkT = (lambda: TL(list(tb))) if c["cyc"] == "default" else (lambda: TL(list(tb), pyval(c["cyc"])))
  seen = []; orig = ls.modulo_counter
  def spy(part, modulo, step):
    seen.append(step); return orig(part, modulo, step)
  ls.modulo_counter = spy
  try:
    mkT()(1.0, 0.0)           # cycle_length * 1.0 is cycle_length
  finally:
    ls.modulo_counter = orig
  def arg(a):
    return pyval(a["num"]) if "num" in a else audiolazy.Stream([pyval(x) for x in a["str"]])
  T = mkT()
  o = M.observe(lambda: T(arg(c["freq"]), arg(c["phase"])), c["k"])
  cl = Fraction(seen[0]) if seen else Fraction(0)
  o["cl"] = fr(cl)
  def vals(a):
    return [exact(a["num"])] if "num" in a else [exact(x) for x in a["str"]]
  t = [exact(x) for x in c["tbl"]]
  k = c["k"]
  fsum = sum(sorted((abs(v) for v in vals(c["freq"]) * (k if "num" in c["freq"] else 1)), reverse=True)[:k])
  pos_scale = len(t) + abs(cl) * (2 * max(abs(v) for v in vals(c["phase"])) + fsum)
  slope = max([abs(t[(i + 1) % len(t)] - t[i]) for i in range(len(t))] + [0])
  o["tol"] = fr(pos_scale / 2 ** 30 * slope + max(abs(v) for v in t) / 2 ** 30 + Fraction(1, 2 ** 200))
  return o


def lit_ftab(c, o):
  import C19 as M
  from vlib import coqlit as L
  cycles = [1, 1] if c["cyc"] == "default" else fr(exact(c["cyc"]))
  return "(FT %s %s %s %s %s %s %s %s %s)" % (
    M.qlist([fr(exact(x)) for x in c["tbl"]]), M.q(cycles), M.q(o.get("cl", [987654321, 1])), arg_lit(c["freq"], M),
    arg_lit(c["phase"], M), L.nat(c["k"]), M.q(o.get("tol", [0, 1])), M.qlist(o.get("outs", [])),
    M.end_lit(o) if "end" in o else '(ERaise "harness")')


def nontrivial_f(c, o):
  return len(o.get("outs", [])) >= 3 and o.get("end") in ("stop", "more")
