# -*- coding: utf-8 -*-
"""C01 - Stream operators and broadcast functions act element by element.

Families
  bin   one operator dunder of Stream on symbolic elements: 35 dunders x operand kind x call
        mode x lengths, exhaustively
  expr  seeded random expression trees (depth <= 4) on symbolic elements
  conc  concrete int / float / complex / Fraction / bool elements; the element oracle is a
        table filled by the harness with operator.* (checks the oracle wiring)
  ew    the elementwise decorator itself around a symbolic function: (name, pos) x argument
        layout x container kind
  math  every wrapped math / dB / MIDI function x container kind x call form; values are the
        unwrapped function applied by the harness (bit-equal, compared as float.hex text)
"""
import itertools as it
import collections, operator, math, cmath, types, os
from fractions import Fraction
from vlib.framework import Family
from vlib import framework as FW
from vlib import coqlit as L
import C01_translate as TR
import C01_sym as S
from C01_sym import Sym, DUNDERS, MIRROR

PID = "C01"
PROP_FILES = ["Prop", "PropLive"]
ALLOWED_AXIOMS = []
EXTRA_COQ_DIRS = []
RULE = ("bin: every one of the 35 dunders x operand kind {Stream, list, tuple, generator, endless iterator, "
        "symbolic scalar, int scalar} x call mode {direct, operator syntax, mirrored comparison} x self length "
        "{0..3, periodic endless} x other length {equal, shorter, longer, periodic endless}, symbolic elements, "
        "plus ignored-class, unknown-dunder and wrong-arity calls; non-trivial = at least one output element and "
        "(for iterable operands) unequal lengths or an endless operand. expr: seeded random trees of depth <= 4 "
        "over all node kinds; non-trivial = depth >= 2 and a non-empty result. conc: five concrete element types "
        "through every dunder; non-trivial = no exception and non-empty. ew: (name, pos) x layout x 16 kinds; "
        "non-trivial = iterable broadcast argument with >= 1 element. math: every wrapper x kind x call form; "
        "non-trivial = container input with >= 1 element. Round 2: operands / selves built from itertools, "
        "lazy_itertools and builtin objects (repeat(v, n) n=0..3 and endless, islice, takewhile, chain, cycle, map, "
        "filter, deque, dict views, range, array, thub, object with only __iter__); every position of a result is "
        "pulled and an exception raised by the element operation is recorded IN its position while the consumer keeps "
        "pulling (symbolic elements of source 'boom' raise in every operator; heterogeneous concrete elements with "
        "zero divisors, negative shifts, complex orderings); two results of the same call on fresh objects are "
        "consumed alternately and must agree, the caller's containers must be unchanged; math: containers of "
        "equal-but-distinct numbers (1 / 1.0 / True / Fraction(1), 0.0 / -0.0, complex zero signs) preceded by a "
        "call on the reversed container, compared type- and sign-exactly. Round 3: family live = expressions over "
        "Python lists that are appended to / extended / truncated / overwritten between construction and consumption "
        "and between two pulls (also feedback memory: each output appended to an operand), on either side and nested, "
        "against a pull machine with list-iterator semantics (non-trivial = some output and some mutation); zeros of "
        "every kind, None, real-valued complex elements and scalars; a refused dunder call (TypeError / "
        "NotImplemented) must leave the Stream unconsumed; Stream(Stream(..)) and Stream.copy() as self. "
        "Distinct = distinct case hash.")
EXHAUSTIVE = {"quick": False, "thorough": False}   # bin / ew / math grids are enumerated completely, expr trees are sampled
trusted_base = [
  "element-level meaning of Python's operators, getattr, call and abs is an oracle (Section variables opsem, "
  "unsem, attrsem, callsem): theorems hold for every such oracle; CPython's dispatch from `a + b` to "
  "type(a).__add__ / type(b).__radd__ and from operator.add(x, y) to the element dunders is trusted",
  "translator harness/C01_translate.py (Python ast, fail-closed) produces Gen_OpTable.v from lazy_core.py / "
  "lazy_math.py / lazy_midi.py; the three StreamMeta templates, __getattr__/__call__/__abs__ and elementwise are "
  "hand-modelled and tied by correspondence on symbolic elements (class Sym, harness/C01_sym.py)",
  "an element operation that raises is the literal raise:<Exception> in its position (map objects carry on: "
  "checked position by position for one operator call; in NESTED expressions and in elementwise results, which are "
  "generators and end at the first exception, exceptions are not part of the theorems); numpy branch of "
  "elementwise, dict / bytes / array inputs and nested iterables as elements are not modelled",
]
ASSUMPTIONS = ["map/zip/generator semantics of CPython are as documented (map over two iterators stops with the shorter)",
               "isinstance(x, Iterable) is decided by the type of x"]

CAP = 8
_info = {}


def pregen(chk):
  errs, info = TR.run(FW.REPO)
  _info.clear()
  if info:
    _info.update(info)
  return errs


def info():
  if not _info:
    pregen(None)
  return _info


# ------------------------------------------------------------------ helpers
def svars(name, n):
  return [["v", name, i] for i in range(n)]


def mk_stream(al, src):
  """A fresh Stream for a source description."""
  els = [S.to_sym(t) for t in src.get("fin", src.get("cyc"))]
  via = src.get("via")                  # the Stream wraps an itertools / builtin object instead of a list
  if via in ("it_repeat", "stream_of_repeat"):
    return al.Stream(it.repeat(S.to_sym(src["v"]), len(src["fin"])))
  if via == "al_repeat":
    return al.repeat(S.to_sym(src["v"]), len(src["fin"]))
  if via == "restream":                 # Stream(Stream(list)): the copy-constructor shares the iterator
    return al.Stream(al.Stream(list(els)))
  if via == "copy":                     # Stream.copy(): a tee of the original
    return al.Stream(list(els)).copy()
  if via:
    return al.Stream(mk_exotic(al, via, els))
  if "fin" in src:
    return al.Stream(list(els))
  if len(els) == 1:
    return al.Stream(els[0])            # non-iterable argument: endless repeat
  return al.Stream(*els)                # several non-iterables: it.cycle


def mk_iterable(al, kind, src):
  els = [S.to_sym(t) for t in src.get("fin", src.get("cyc"))]
  if "cyc" in src:
    if kind == "stream":
      return mk_stream(al, src)
    return it.cycle(els) if len(els) > 1 else it.repeat(els[0])
  if kind == "stream":
    return al.Stream(list(els))
  if kind == "list":
    return list(els)
  if kind == "tuple":
    return tuple(els)
  if kind == "gen":
    return (e for e in els)
  return mk_exotic(al, kind, els)


# operand kinds built from itertools / lazy_itertools / builtin objects with their own length semantics;
# the model sees each of them as what it is: an iterable with its finite (or endless) sequence of items
EXOTIC_REPEAT = ["it_repeat", "al_repeat", "stream_of_repeat"]
EXOTIC_OTHER = ["islice", "takewhile", "chain", "map", "deque", "dictkeys", "dictvalues", "al_chain", "filter",
                "onlyiter", "thub"]


class OnlyIter(object):
  """An object with nothing but __iter__."""
  def __init__(self, els):
    self._els = list(els)

  def __iter__(self):
    return iter(self._els)
EXOTIC_INT = ["range", "array"]           # their items are the ints 0..n-1


def mk_exotic(al, kind, els):
  import array
  n = len(els)
  if kind in EXOTIC_REPEAT:               # finite repeat: n copies of ONE value (els are all the same; n may be 0)
    raise ValueError("repeat kinds are built by mk_repeat")
  if kind == "islice":
    return it.islice(it.cycle(els), n) if n else it.islice(iter(()), 0)
  if kind == "takewhile":
    return it.takewhile(lambda v: True, list(els))
  if kind == "chain":
    return it.chain(els[:1], els[1:])
  if kind == "al_chain":
    return al.chain(els[:1], els[1:])
  if kind == "map":
    return map(lambda v: v, list(els))
  if kind == "filter":
    return filter(lambda v: True, list(els))
  if kind == "deque":
    return collections.deque(els)
  if kind == "onlyiter":
    return OnlyIter(els)
  if kind == "thub":
    return al.thub(al.Stream(list(els)), 1)
  if kind == "dictkeys":
    return dict.fromkeys(els).keys()
  if kind == "dictvalues":
    return dict(enumerate(els)).values()
  if kind == "range":
    return range(n)
  if kind == "array":
    return array.array("l", range(n))
  raise ValueError(kind)


def mk_repeat(al, kind, v, n):
  """n copies of v (n None = endless) through itertools.repeat / audiolazy.repeat."""
  args = (v,) if n is None else (v, n)
  if kind == "it_repeat":
    return it.repeat(*args)
  if kind == "al_repeat":
    return al.repeat(*args)
  if kind == "stream_of_repeat":
    return al.Stream(it.repeat(*args))
  raise ValueError(kind)


def repeat_src(v, n):
  return {"cyc": [v]} if n is None else {"fin": [v] * n}


def observe_stream(res, al, cap=CAP):
  if res is NotImplemented:
    return {"notimpl": True}
  if type(res) is not al.Stream:
    return {"raise": "NotAStream:" + type(res).__name__}
  # every position is pulled: an exception is recorded in its place and the consumer keeps asking
  items = []
  itr = iter(res)
  for _ in range(cap):
    try:
      v = next(itr)
    except StopIteration:
      return {"items": items, "st": "ended"}
    except Exception as e:
      items.append(["l", "raise:" + type(e).__name__])
      continue
    items.append(S.cval(v))
  return {"items": items, "st": "more"}


def sobs_lit(o):
  if o.get("notimpl"):
    return "SNotImpl"
  if "items" in o:
    return "(SItems %s %s)" % (L.lst([S.term_lit(t) for t in o["items"]]), L.string(o["st"]))
  return "(SRaise %s)" % L.string(o["raise"])


class _Ignored(object):
  """Registered with avoid_stream; also iterable, to see that the ignored test comes first."""
  def __iter__(self):
    return iter([1, 2])


_ignored_ready = {}


def ignored_instance(al):
  key = id(al.Stream)
  if key not in _ignored_ready:
    _ignored_ready[key] = al.avoid_stream(_Ignored)
  return _Ignored()


def operand_obj(al, o):
  k = o["kind"]
  if k == "ignored":
    return ignored_instance(al)
  if k == "sym":
    return S.to_sym(o["t"])
  if k == "int":
    return o["t"][1]
  if k in EXOTIC_REPEAT:
    return mk_repeat(al, k, S.to_sym(o["v"]), o["n"])
  return mk_iterable(al, k, o["src"])


def operand_lit(o):
  k = o["kind"]
  if k == "ignored":
    return "OIgnored"
  if k in ("sym", "int"):
    return "(OScalar %s)" % S.term_lit(o["t"])
  return "(OIter %s)" % S.seq_lit(o["src"])


def call_dunder(al, dname, mode, s, others):
  """Invokes one operator method of Stream the way the case says."""
  if mode == "direct":
    return getattr(al.Stream, dname)(s, *others)     # looked up on the type, as Python's dispatch does
  func, rev, arity = DUNDERS[dname]
  fn = getattr(operator, func)
  if mode == "syntax":
    if arity == 1:
      return fn(s)
    return fn(others[0], s) if rev else fn(s, others[0])
  if mode == "mirror":                               # other < stream  runs  Stream.__gt__(stream, other)
    return getattr(operator, "__%s__" % MIRROR[func.strip("_")])(others[0], s)
  raise ValueError(mode)


# ------------------------------------------------------------------ family bin
SELF_SRCS = [{"fin": svars("x", n)} for n in range(4)] + [{"cyc": svars("x", 2)}]


def other_srcs(self_src):
  """equal, shorter, longer, periodic endless (relative to self)."""
  res = []
  if "fin" in self_src:
    n = len(self_src["fin"])
    for m in sorted(set([n, n - 1, n + 1, 0, 3])):
      if 0 <= m <= 4:
        rel = "equal" if m == n else "shorter" if m < n else "longer"
        res.append((rel, {"fin": svars("y", m)}))
    res.append(("endless", {"cyc": svars("y", 3)}))
    res.append(("endless", {"cyc": svars("y", 1)}))
  else:
    for m in range(4):
      res.append(("finite-cuts-endless", {"fin": svars("y", m)}))
    res.append(("both-endless", {"cyc": svars("y", 3)}))
  return res


def gen_bin(tier, rng):
  for dname in sorted(DUNDERS):
    func, rev, arity = DUNDERS[dname]
    base = func.strip("_")
    if arity == 1:
      for ss in SELF_SRCS:
        for mode in ("direct", "syntax"):
          yield {"dname": dname, "mode": mode, "self": ss, "others": [], "tags": ["unary", mode]}
      continue
    for ss in SELF_SRCS:
      for kind in ("stream", "list", "tuple", "gen"):
        for rel, os_ in other_srcs(ss):
          if "cyc" in os_ and kind in ("list", "tuple"):
            continue                                   # an endless list does not exist; gen = it.cycle / it.repeat
          modes = ["direct"]
          if not (rev and kind == "stream"):
            modes.append("syntax")                     # Stream op Stream always runs the plain dunder
          if base in MIRROR and kind != "stream":
            modes.append("mirror")
          if tier == "quick" and kind == "tuple":
            modes = modes[-1:]                         # a tuple takes the same path as a list: one mode in quick
          for mode in modes:
            yield {"dname": dname, "mode": mode, "self": ss, "others": [{"kind": kind, "src": os_}],
                   "tags": ["binary", "rev" if rev else "plain", kind, mode, rel]}
      for sc in ({"kind": "sym", "t": ["v", "k", 0]}, {"kind": "int", "t": ["c", 5]}):
        modes = ["direct", "syntax"]
        if base in MIRROR and sc["kind"] == "sym":
          modes.append("mirror")
        if base in MIRROR and sc["kind"] == "int":
          modes = ["direct"]                           # int < Sym would run the element's mirrored dunder
        for mode in modes:
          yield {"dname": dname, "mode": mode, "self": ss, "others": [sc],
                 "tags": ["binary", "rev" if rev else "plain", "scalar-" + sc["kind"], mode]}
  for c in gen_bin_exotic(tier):
    yield c
  for c in gen_bin_raising(tier):
    yield c
  # edge stream: ignored class, unknown dunders, wrong number of arguments
  for dname in ("__add__", "__radd__", "__lt__", "__rmatmul__", "__pow__"):
    yield {"dname": dname, "mode": "direct", "self": SELF_SRCS[2], "others": [{"kind": "ignored"}], "tags": ["ignored"]}
    yield {"dname": dname, "mode": "direct", "self": SELF_SRCS[2], "others": [], "tags": ["arity"]}
    yield {"dname": dname, "mode": "direct", "self": SELF_SRCS[2],
           "others": [{"kind": "int", "t": ["c", 1]}, {"kind": "int", "t": ["c", 2]}], "tags": ["arity"]}
  for dname in ("__neg__", "__invert__"):
    yield {"dname": dname, "mode": "direct", "self": SELF_SRCS[2], "others": [{"kind": "int", "t": ["c", 1]}], "tags": ["arity"]}
  for dname in ("__div__", "__rdiv__", "__divmod__", "__rdivmod__", "__cmp__", "__rlt__", "__rneg__", "__iadd__", "__rrrshift__"):
    yield {"dname": dname, "mode": "direct", "self": SELF_SRCS[2], "others": [{"kind": "int", "t": ["c", 1]}], "tags": ["unknown-dunder"]}


EXOTIC_DUNDERS = ["__add__", "__radd__", "__sub__", "__rsub__", "__mul__", "__rpow__", "__lt__", "__eq__",
                  "__rshift__", "__rrshift__", "__rand__", "__matmul__"]


def int_src(n):
  return {"fin": [["c", i] for i in range(n)]}


def gen_bin_exotic(tier):
  """Operands (and selves) whose iterator is an itertools / lazy_itertools / builtin object."""
  binary = sorted(d for d, v in DUNDERS.items() if v[2] == 2)
  v = ["v", "r", 0]
  selfs = SELF_SRCS if tier != "quick" else [SELF_SRCS[0], SELF_SRCS[2], SELF_SRCS[3], SELF_SRCS[4]]
  # finite / endless repeat(v, n) as the OTHER operand of every binary dunder
  for dname in binary:
    func, rev, _ = DUNDERS[dname]
    for ss in selfs:
      for n in (0, 1, 2, 3, None):
        for kind in EXOTIC_REPEAT:
          if tier == "quick" and kind != "it_repeat" and n in (1, 3):
            continue
          modes = ["direct"]
          if kind == "it_repeat" or not rev:
            modes.append("syntax")
          if tier == "quick" and kind != "it_repeat":
            modes = modes[-1:]
          for mode in modes:
            ln = len(ss["fin"]) if "fin" in ss else None
            rel = ("endless" if n is None else "finite-cuts-endless" if ln is None else
                   "equal" if n == ln else "shorter" if n < ln else "longer")
            yield {"dname": dname, "mode": mode, "self": ss,
                   "others": [{"kind": kind, "v": v, "n": n, "src": repeat_src(v, n)}],
                   "tags": ["binary", "rev" if rev else "plain", kind, mode, rel, "exotic"]}
  # ... and as the stream itself, against a list / a scalar / another repeat
  for dname in binary:
    func, rev, _ = DUNDERS[dname]
    for via in ("it_repeat", "al_repeat"):
      for n in (0, 2, 3):
        ss = {"fin": [v] * n, "via": via, "v": v}
        others = [{"kind": "list", "src": {"fin": svars("y", m)}} for m in (1, 4)]
        others.append({"kind": "sym", "t": ["v", "k", 0]})
        others.append({"kind": "it_repeat", "v": ["v", "q", 0], "n": 1, "src": repeat_src(["v", "q", 0], 1)})
        for o in others:
          yield {"dname": dname, "mode": "direct", "self": ss, "others": [o],
                 "tags": ["binary", "rev" if rev else "plain", "self-" + via, o["kind"], "exotic"]}
  # the other itertools / builtin objects, on a representative subset of dunders, on either side
  lens = (0, 1, 3) if tier == "quick" else (0, 1, 2, 3, 4)
  for dname in EXOTIC_DUNDERS:
    for via in ("restream", "copy"):
      for m in (0, 2, 3):
        for o in ({"kind": "list", "src": {"fin": svars("y", 2)}}, {"kind": "sym", "t": ["v", "k", 0]}):
          yield {"dname": dname, "mode": "direct", "self": {"fin": svars("x", m), "via": via}, "others": [o],
                 "tags": ["binary", "self-" + via, o["kind"], "exotic"]}
  for dname in EXOTIC_DUNDERS:
    func, rev, _ = DUNDERS[dname]
    for kind in EXOTIC_OTHER + EXOTIC_INT + ["cycle"]:
      for ss in ((SELF_SRCS[0], SELF_SRCS[2], SELF_SRCS[4]) if tier != "quick" else (SELF_SRCS[2], SELF_SRCS[4])):
        for m in lens:
          if kind == "cycle":
            if m == 0:
              continue
            src = {"cyc": svars("y", m)}
          else:
            src = int_src(m) if kind in EXOTIC_INT else {"fin": svars("y", m)}
          modes = ["direct"]
          # dict views have their own set operators; al.chain / thub are Streams; a thub is an instance of a
          # SUBCLASS of Stream, so Python runs ITS mirrored comparison first
          if not (rev and kind in ("dictkeys", "al_chain", "thub")) and not (kind == "thub" and func.strip("_") in MIRROR):
            modes.append("syntax")
          for mode in modes:
            yield {"dname": dname, "mode": mode, "self": ss,
                   "others": [{"kind": "gen" if kind == "cycle" else kind, "src": src}],
                   "tags": ["binary", "rev" if rev else "plain", kind, mode, "exotic"]}
      if kind != "cycle" and not (kind in EXOTIC_INT and func.strip("_") in MIRROR):
        # (an int item on the left of a comparison would run the symbolic element's mirrored dunder)
        for m in lens:                                          # the same object inside the Stream itself
          src = dict(int_src(m) if kind in EXOTIC_INT else {"fin": svars("x", m)}, via=kind)
          yield {"dname": dname, "mode": "direct", "self": src,
                 "others": [{"kind": "list", "src": {"fin": svars("y", 2)}}],
                 "tags": ["binary", "rev" if rev else "plain", "self-" + kind, "exotic"]}


def gen_bin_raising(tier):
  """Element operations that raise at SOME positions (symbolic elements of source "boom"): the observer
  catches the exception at that position and keeps pulling; every later position must still be there."""
  x = lambda i: ["v", "x", i]
  y = lambda i: ["v", "y", i]
  b = lambda i: ["v", "boom", i]
  selfs = [{"fin": [x(0), b(1), x(2), x(3)]}, {"fin": [b(0), x(1)]}, {"fin": [x(0), x(1), b(2)]},
           {"fin": [x(0), x(1), x(2)]}, {"cyc": [x(0), b(1), x(2)]}]
  for dname in sorted(DUNDERS):
    func, rev, arity = DUNDERS[dname]
    base = func.strip("_")
    for ss in selfs:
      if arity == 1:
        for mode in ("direct", "syntax"):
          yield {"dname": dname, "mode": mode, "self": ss, "others": [], "tags": ["unary", mode, "raising"]}
        continue
      scalars = [({"kind": "sym", "t": ["v", "k", 0]}, ["direct", "syntax"]),
                 ({"kind": "sym", "t": b(9)}, ["direct"] if rev else ["direct", "syntax"]),
                 ({"kind": "int", "t": ["c", 5]}, ["direct"] if base in MIRROR else ["direct", "syntax"])]
      for sc, modes in scalars:
        for mode in modes:
          yield {"dname": dname, "mode": mode, "self": ss, "others": [sc],
                 "tags": ["binary", "rev" if rev else "plain", "scalar", mode, "raising"]}
      for kind in (("list", "stream", "gen") if tier != "quick" else ("list", "stream")):
        for os_ in ({"fin": [y(0), y(1), b(2), y(3), y(4)]}, {"fin": [b(0), y(1), y(2)]}, {"fin": [y(0), y(1)]})[:3 if tier != "quick" else 2]:
          mode = "direct" if (rev and kind == "stream") or tier == "quick" else "syntax"
          yield {"dname": dname, "mode": mode, "self": ss, "others": [{"kind": kind, "src": os_}],
                 "tags": ["binary", "rev" if rev else "plain", kind, mode, "raising"]}


def run_bin(c):
  import audiolazy as al
  try:
    s = mk_stream(al, c["self"])
    others = [operand_obj(al, o) for o in c["others"]]
    snap = [(o, list(o)) for o in others if type(o) in (list, tuple, collections.deque)]
    res = call_dunder(al, c["dname"], c["mode"], s, others)
    # a second, independent result of the same call on fresh objects, consumed alternately with the first:
    # two live results must not share any state
    twin = call_dunder(al, c["dname"], c["mode"], mk_stream(al, c["self"]), [operand_obj(al, o) for o in c["others"]])
  except Exception as e:
    try:
      if not still_intact(s, c["self"]):         # a refused call must leave the Stream as it was
        return {"raise": "SelfConsumedByRefusedCall"}
    except NameError:
      pass
    return {"raise": type(e).__name__}
  if res is NotImplemented or type(res) is not al.Stream or type(twin) is not al.Stream:
    if res is NotImplemented and not still_intact(s, c["self"]):
      return {"raise": "SelfConsumedByRefusedCall"}
    return observe_stream(res, al)
  o1, o2 = observe_interleaved(res, twin, al)
  if o1 != o2:
    return {"raise": "TwinResultsDiffer"}
  for obj, before in snap:                      # the caller's containers are left as they were
    after = list(obj)
    if len(after) != len(before) or any(a is not b_ for a, b_ in zip(after, before)):
      return {"raise": "OperandMutated"}
  return o1


def still_intact(s, src, cap=CAP):
  """The Stream still delivers its source from the first item on."""
  want = src.get("fin", src.get("cyc"))
  want = want[:cap] if "fin" in src else [want[j % len(want)] for j in range(cap)]
  got = [S.cval(v) for v in it.islice(iter(s), cap)]
  return got == want


def observe_interleaved(r1, r2, al, cap=CAP):
  """observe_stream on two results, pulling one position from each in turn."""
  outs, its, done = [[], []], [iter(r1), iter(r2)], [None, None]
  for _ in range(cap):
    for j in (0, 1):
      if done[j]:
        continue
      try:
        outs[j].append(S.cval(next(its[j])))
      except StopIteration:
        done[j] = "ended"
      except Exception as e:
        outs[j].append(["l", "raise:" + type(e).__name__])
  return tuple({"items": outs[j], "st": done[j] or "more"} for j in (0, 1))


def lit_bin(c, o):
  return "(BC %s %s %s [] %s %s)" % (L.string(c["dname"]), S.seq_lit(c["self"]),
                                     L.lst([operand_lit(x) for x in c["others"]]), L.nat(CAP), sobs_lit(o))


def nontrivial_bin(c, o):
  if not o.get("items"):
    return False
  if c["others"] and "src" in c["others"][0]:
    a, b = c["self"], c["others"][0]["src"]
    return ("cyc" in a) or ("cyc" in b) or len(a["fin"]) != len(b["fin"])
  return True


# ------------------------------------------------------------------ family expr
ATTR_NAMES = ["real", "imag", "foo", "conjugate"]
BIN_DUNDERS = sorted(d for d, v in DUNDERS.items() if v[2] == 2)
UN_DUNDERS = sorted(d for d, v in DUNDERS.items() if v[2] == 1)


def rand_src(rng, name, allow_cyc=True, allow_via=False):
  if allow_via and rng.random() < 0.3:
    via = rng.choice(["it_repeat", "al_repeat", "it_repeat", "islice", "takewhile", "chain", "map", "deque",
                      "dictvalues", "filter"])
    n = rng.choice([0, 1, 2, 3, 4])
    if via in EXOTIC_REPEAT:
      v = ["v", name, 0]
      return {"fin": [v] * n, "via": via, "v": v}
    return {"fin": svars(name, n), "via": via}
  if allow_cyc and rng.random() < 0.25:
    return {"cyc": svars(name, rng.randrange(1, 4))}
  return {"fin": svars(name, rng.choice([0, 1, 2, 3, 3, 4, 5, 6]))}


def rand_tree(rng, depth, counter):
  def fresh():
    counter[0] += 1
    return "s%d" % counter[0]
  if depth == 0 or rng.random() < 0.12:
    return {"n": "leaf", "src": rand_src(rng, fresh(), allow_via=True)}
  r = rng.random()
  if r < 0.12:
    return {"n": "un", "d": rng.choice(UN_DUNDERS), "mode": rng.choice(["direct", "syntax"]),
            "e": rand_tree(rng, depth - 1, counter)}
  if r < 0.18:
    return {"n": "abs", "e": rand_tree(rng, depth - 1, counter)}
  if r < 0.24:
    return {"n": "attr", "name": rng.choice(ATTR_NAMES), "mode": rng.choice(["direct", "syntax"]),
            "e": rand_tree(rng, depth - 1, counter)}
  if r < 0.30:
    nargs = rng.randrange(0, 3)
    return {"n": "call", "args": [["v", fresh(), 0] if rng.random() < 0.6 else ["c", rng.randrange(-3, 9)]
                                  for _ in range(nargs)],
            "kw": [["key%d" % j, ["v", fresh(), 0]] for j in range(rng.randrange(0, 2))],
            "e": rand_tree(rng, depth - 1, counter)}
  if r < 0.36:
    return {"n": "fun", "g": "g%d" % rng.randrange(3),
            "extra": [["v", fresh(), 0] for _ in range(rng.randrange(0, 2))],
            "e": rand_tree(rng, depth - 1, counter)}
  d = rng.choice(BIN_DUNDERS)
  func, rev, _ = DUNDERS[d]
  base = func.strip("_")
  k = rng.random()
  e = rand_tree(rng, depth - 1, counter)
  if k < 0.45:
    mode = "direct" if rev else rng.choice(["direct", "syntax"])
    return {"n": "bin", "d": d, "mode": mode, "e": e, "o": rand_tree(rng, depth - 1, counter)}
  if k < 0.75:
    if rng.random() < 0.35:          # an itertools / builtin object as the operand
      kind = rng.choice(EXOTIC_REPEAT + ["it_repeat"] + EXOTIC_OTHER)
      mode = "direct" if (rev and kind in ("dictkeys", "al_chain", "thub", "al_repeat", "stream_of_repeat")) \
             or (kind == "thub" and base in MIRROR) \
             else rng.choice(["direct", "syntax"])
      if kind in EXOTIC_REPEAT:
        v, n = ["v", fresh(), 0], rng.choice([0, 1, 2, 3, None])
        return {"n": "bini", "d": d, "mode": mode, "kind": kind, "v": v, "rn": n, "src": repeat_src(v, n), "e": e}
      return {"n": "bini", "d": d, "mode": mode, "kind": kind, "src": {"fin": svars(fresh(), rng.randrange(0, 5))}, "e": e}
    kind = rng.choice(["list", "tuple", "gen"])
    src = rand_src(rng, fresh(), allow_cyc=(kind == "gen"))
    modes = ["direct", "syntax"] + (["mirror"] if base in MIRROR else [])
    return {"n": "bini", "d": d, "mode": rng.choice(modes), "kind": kind, "src": src, "e": e}
  if rng.random() < 0.5 and base not in MIRROR:
    return {"n": "bins", "d": d, "mode": rng.choice(["direct", "syntax"]), "c": ["c", rng.randrange(-4, 10)], "e": e}
  modes = ["direct", "syntax"] + (["mirror"] if base in MIRROR else [])
  return {"n": "bins", "d": d, "mode": rng.choice(modes), "c": ["v", fresh(), 0], "e": e}


def tree_depth(t):
  return 0 if t["n"] == "leaf" else 1 + max(tree_depth(t["e"]), tree_depth(t["o"]) if t["n"] == "bin" else 0)


def build_tree(al, t):
  n = t["n"]
  if n == "leaf":
    return mk_stream(al, t["src"])
  e = build_tree(al, t["e"])
  if n == "un":
    return call_dunder(al, t["d"], t["mode"], e, [])
  if n == "abs":
    return abs(e)
  if n == "attr":
    return getattr(e, t["name"]) if t["mode"] == "syntax" else al.Stream.__getattr__(e, t["name"])
  if n == "call":
    return e(*[S.to_sym(a) for a in t["args"]], **dict((k, S.to_sym(v)) for k, v in t["kw"]))
  if n == "fun":
    # an elementwise-decorated symbolic function applied to the Stream expression
    return al.elementwise("x", 0)(S.symfunc(t["g"]))(e, *[S.to_sym(a) for a in t["extra"]])
  if n == "bin":
    return call_dunder(al, t["d"], t["mode"], e, [build_tree(al, t["o"])])
  if n == "bini":
    if t["kind"] in EXOTIC_REPEAT:
      return call_dunder(al, t["d"], t["mode"], e, [mk_repeat(al, t["kind"], S.to_sym(t["v"]), t["rn"])])
    return call_dunder(al, t["d"], t["mode"], e, [mk_iterable(al, t["kind"], t["src"])])
  if n == "bins":
    return call_dunder(al, t["d"], t["mode"], e, [S.to_sym(t["c"])])
  raise ValueError(n)


def tree_lit(t):
  n = t["n"]
  if n == "leaf":
    return "(Leaf %s)" % S.seq_lit(t["src"])
  e = tree_lit(t["e"])
  if n == "un":
    return "(Un %s %s)" % (L.string(t["d"]), e)
  if n == "abs":
    return "(AbsE %s)" % e
  if n == "attr":
    return "(AttrE %s %s)" % (L.string(t["name"]), e)
  if n == "call":
    return "(CallE %s %s %s)" % (e, L.lst([S.term_lit(a) for a in t["args"]]),
                                 L.lst(["(%s, %s)" % (L.string(k), S.term_lit(v)) for k, v in t["kw"]]))
  if n == "fun":
    extra = "".join(" :: PScalar %s" % S.term_lit(a) for a in t["extra"])
    return "(FunE (fun x => o_func [] %s (PScalar x%s :: []) []) %s)" % (L.string(t["g"]), extra, e)
  if n == "bin":
    return "(Bin %s %s %s)" % (L.string(t["d"]), e, tree_lit(t["o"]))
  if n == "bini":
    return "(BinI %s %s %s)" % (L.string(t["d"]), e, S.seq_lit(t["src"]))
  if n == "bins":
    return "(BinS %s %s %s)" % (L.string(t["d"]), e, S.term_lit(t["c"]))
  raise ValueError(n)


def fixed_trees():
  x = lambda n, k: {"n": "leaf", "src": {"fin": svars(n, k)}}
  cyc = lambda n, k: {"n": "leaf", "src": {"cyc": svars(n, k)}}
  yield {"n": "attr", "name": "__next__", "mode": "direct", "e": x("a", 2)}          # AttributeError
  yield {"n": "attr", "name": "__next__", "mode": "syntax", "e": x("a", 2)}
  yield {"n": "bin", "d": "__add__", "mode": "syntax",
         "e": {"n": "bins", "d": "__rmul__", "mode": "syntax", "c": ["c", 2], "e": cyc("a", 3)},
         "o": x("b", 5)}                                                               # 2*x + y, endless cut by finite
  yield {"n": "bin", "d": "__sub__", "mode": "syntax", "e": cyc("a", 2), "o": cyc("b", 3)}   # endless result
  yield {"n": "call", "args": [["c", 1]], "kw": [["k", ["v", "w", 0]]],
         "e": {"n": "attr", "name": "method", "mode": "syntax", "e": x("a", 3)}}        # stream.method(1, k=w)
  yield {"n": "bins", "d": "__add__", "mode": "syntax", "c": ["c", 1],
         "e": {"n": "fun", "g": "g0", "extra": [["v", "b", 0]], "e": cyc("a", 2)}}      # g0(stream, b) + 1
  # a chain of depth 4 ending with the shortest leaf deep inside
  t = x("a", 6)
  for j, d in enumerate(["__add__", "__rsub__", "__mul__", "__rpow__"]):
    t = {"n": "bin", "d": d, "mode": "direct", "e": t, "o": x("b%d" % j, 5 - j)}
  yield t


def gen_expr(tier, rng):
  for t in fixed_trees():
    yield {"tree": t, "tags": ["fixed", "depth%d" % tree_depth(t)]}
  n = 600 if tier == "quick" else 6000
  for i in range(n):
    depth = 1 + (i % 4)
    t = rand_tree(rng, depth, [0])
    yield {"tree": t, "tags": ["random", "depth%d" % tree_depth(t)]}


def run_expr(c):
  import audiolazy as al
  try:
    res = build_tree(al, c["tree"])
  except Exception as e:
    return {"raise": type(e).__name__}
  return observe_stream(res, al)


def lit_expr(c, o):
  return "(EC %s [] %s %s)" % (tree_lit(c["tree"]), L.nat(CAP), sobs_lit(o))


# ------------------------------------------------------------------ family live
LIVE_DUNDERS = ["__add__", "__rsub__", "__lt__", "__rmatmul__", "__pow__", "__radd__"]


def live_scripts(a, b):
  """Event scripts for a two-cell expression (cell 0 inside the Stream, cell 1 the other operand)."""
  P = ["pull"]
  n = lambda k: ["v", "n", k]
  yield "grow-other-before", [["ext", 1, [n(0), n(1)]]] + [P] * 5
  yield "grow-self-before", [["ext", 0, [n(0), n(1)]]] + [P] * 5
  yield "grow-both-before", [["ext", 0, [n(0)]], ["ext", 1, [n(1), n(2)]]] + [P] * 5
  yield "grow-between", [P, ["ext", 1, [n(0)]], P, P, ["ext", 0, [n(1), n(2)]], P, P, ["ext", 1, [n(3)]], P, P]
  yield "dead-stays-dead", [P] * (min(a, b) + 1) + [["ext", 0, [n(0), n(1)]], ["ext", 1, [n(2), n(3)]], P, P]
  yield "truncate-other", [P, ["trunc", 1, 1], P, P, ["ext", 1, [n(0)]], P]
  yield "truncate-self", [["trunc", 0, 1], P, P, ["ext", 0, [n(0)]], P]
  yield "setitem-ahead", [["set", 1, 0, n(0)], P, ["set", 1, 1, n(1)], ["set", 0, 1, n(2)], ["set", 0, 0, n(3)], P, P]
  yield "feedback", [P, ["fb", 1], P, ["fb", 1], P, ["fb", 1], P, P]
  yield "feedback-self", [P, ["fb", 0], P, ["fb", 0], P, P]


def gen_live(tier, rng):
  leaf = lambda c: {"n": "leaf", "cell": c}
  for d in LIVE_DUNDERS:
    rev = DUNDERS[d][1]
    for a in range(3):
      for b in range(3):
        cells = [svars("x", a), svars("y", b)]
        for shape in ("binl", "bin"):
          for mode in (["direct"] if (shape == "bin" and rev) else ["direct", "syntax"]):
            if shape == "binl":
              tree = {"n": "binl", "d": d, "mode": mode, "e": leaf(0), "cell": 1}
            else:
              tree = {"n": "bin", "d": d, "mode": mode, "e": leaf(0), "o": leaf(1)}
            for name, evs in live_scripts(a, b):
              yield {"cells": cells, "tree": tree, "events": evs, "tags": [name, shape, "rev" if rev else "plain", mode]}
  # the same list on both sides, a scalar node and a unary node above a live list, nesting
  for name, evs in live_scripts(2, 2):
    for tree in ({"n": "binl", "d": "__mul__", "mode": "syntax", "e": leaf(1), "cell": 1},
                 {"n": "bins", "d": "__rsub__", "mode": "syntax", "c": ["c", 1], "e": {"n": "un", "d": "__neg__", "mode": "syntax", "e": leaf(1)}},
                 {"n": "binl", "d": "__add__", "mode": "syntax", "cell": 1,
                  "e": {"n": "binl", "d": "__rmul__", "mode": "direct", "cell": 0, "e": leaf(1)}},
                 {"n": "bin", "d": "__sub__", "mode": "syntax", "e": {"n": "binl", "d": "__add__", "mode": "syntax", "e": leaf(0), "cell": 1},
                  "o": {"n": "binl", "d": "__rtruediv__", "mode": "syntax", "e": leaf(1), "cell": 0}}):
      yield {"cells": [svars("x", 2), svars("y", 2)], "tree": tree, "events": evs, "tags": [name, "nested"]}
  # seeded random trees over three cells with random histories
  for i in range(300 if tier == "quick" else 3000):
    cells = [svars("c%d" % j, rng.randrange(0, 4)) for j in range(3)]
    cnt = [0]
    def tree(depth):
      r = rng.random()
      if depth == 0 or r < 0.15:
        return leaf(rng.randrange(3))
      d = rng.choice(BIN_DUNDERS)
      rev_ = DUNDERS[d][1]
      if r < 0.25:
        return {"n": "un", "d": rng.choice(UN_DUNDERS), "mode": rng.choice(["direct", "syntax"]), "e": tree(depth - 1)}
      if r < 0.35:
        return {"n": "bins", "d": d, "mode": "direct", "c": ["v", "k", rng.randrange(3)], "e": tree(depth - 1)}
      if r < 0.7:
        return {"n": "binl", "d": d, "mode": rng.choice(["direct", "syntax"]), "e": tree(depth - 1), "cell": rng.randrange(3)}
      return {"n": "bin", "d": d, "mode": "direct" if rev_ else rng.choice(["direct", "syntax"]),
              "e": tree(depth - 1), "o": tree(depth - 1)}
    evs = []
    for _ in range(rng.randrange(5, 13)):
      r = rng.random()
      if r < 0.5:
        evs.append(["pull"])
      elif r < 0.75:
        cnt[0] += 1
        evs.append(["ext", rng.randrange(3), [["v", "n%d" % cnt[0], j] for j in range(rng.randrange(1, 3))]])
      elif r < 0.83:
        evs.append(["trunc", rng.randrange(3), rng.randrange(0, 3)])
      elif r < 0.92:
        cnt[0] += 1
        evs.append(["set", rng.randrange(3), rng.randrange(0, 3), ["v", "n%d" % cnt[0], 0]])
      else:
        evs.append(["fb", rng.randrange(3)])
    yield {"cells": cells, "tree": tree(1 + i % 3), "events": evs + [["pull"]], "tags": ["random"]}


def live_build(al, t, cells):
  n = t["n"]
  if n == "leaf":
    return al.Stream(cells[t["cell"]])          # Stream(list): holds iter(list)
  e = live_build(al, t["e"], cells)
  if n == "un":
    return call_dunder(al, t["d"], t["mode"], e, [])
  if n == "bins":
    return call_dunder(al, t["d"], t["mode"], e, [S.to_sym(t["c"])])
  if n == "binl":
    return call_dunder(al, t["d"], t["mode"], e, [cells[t["cell"]]])   # the list object itself
  if n == "bin":
    return call_dunder(al, t["d"], t["mode"], e, [live_build(al, t["o"], cells)])
  raise ValueError(n)


def run_live(c):
  import audiolazy as al
  cells = [[S.to_sym(t) for t in l] for l in c["cells"]]
  try:
    res = live_build(al, c["tree"], cells)
    itr = iter(res)
  except Exception as e:
    return {"raise": type(e).__name__}
  outs, applied, last = [], [], None
  for ev in c["events"]:
    if ev[0] == "pull":
      try:
        last = S.cval(next(itr))
        outs.append(last)
      except StopIteration:
        last = None
        outs.append(None)
      except Exception as e:
        last = None
        outs.append(["l", "raise:" + type(e).__name__])
      applied.append(["pull"])
    elif ev[0] == "ext":
      cells[ev[1]].extend(S.to_sym(t) for t in ev[2])
      applied.append(ev)
    elif ev[0] == "fb":                         # feedback memory: the value just produced is appended
      if last is not None:
        cells[ev[1]].append(S.to_sym(last))
        applied.append(["ext", ev[1], [last]])
    elif ev[0] == "trunc":
      del cells[ev[1]][ev[2]:]
      applied.append(ev)
    elif ev[0] == "set":
      if ev[2] < len(cells[ev[1]]):
        cells[ev[1]][ev[2]] = S.to_sym(ev[3])
      applied.append(ev)
  return {"outs": outs, "applied": applied}


def live_tree_lit(t):
  n = t["n"]
  if n == "leaf":
    return "(LLeaf %s 0 false)" % L.nat(t["cell"])
  e = live_tree_lit(t["e"])
  if n == "un":
    return "(LUn %s %s)" % (L.string(t["d"]), e)
  if n == "bins":
    return "(LBinS %s %s %s)" % (L.string(t["d"]), e, S.term_lit(t["c"]))
  if n == "binl":
    return "(LBinL %s %s %s 0 false)" % (L.string(t["d"]), e, L.nat(t["cell"]))
  return "(LBin %s %s %s)" % (L.string(t["d"]), e, live_tree_lit(t["o"]))


def lit_live(c, o):
  def ev_lit(ev):
    if ev[0] == "pull":
      return "EPull"
    if ev[0] == "ext":
      return "(EExtend %s %s)" % (L.nat(ev[1]), L.lst([S.term_lit(t) for t in ev[2]]))
    if ev[0] == "trunc":
      return "(ETrunc %s %s)" % (L.nat(ev[1]), L.nat(ev[2]))
    return "(ESet %s %s %s)" % (L.nat(ev[1]), L.nat(ev[2]), S.term_lit(ev[3]))
  heap = L.lst([L.lst([S.term_lit(t) for t in l]) for l in c["cells"]])
  if "outs" not in o:
    return "(LC %s %s [EPull] [Some (TLit %s)])" % (heap, live_tree_lit(c["tree"]), L.string("raise:" + o.get("raise", "?")))
  return "(LC %s %s %s %s)" % (heap, live_tree_lit(c["tree"]), L.lst([ev_lit(e) for e in o["applied"]]),
                               L.lst([L.option(t, S.term_lit) for t in o["outs"]]))


def nontrivial_live(c, o):
  outs = o.get("outs") or []
  return any(t is not None for t in outs) and any(e[0] != "pull" for e in o.get("applied", []))


# ------------------------------------------------------------------ family conc
ZERO_POOL = [0, 0.0, Fraction(0), False, 0j, -0.0]
POOLS = {
  "int": [7, -3, 2, 0, 12, 5],
  "bool": [True, False, True, True, False, False],
  "float": [1.5, -0.25, 3.0, 0.1, -7.75, 2.0],
  "complex": [1 + 2j, -0.5j, 3 + 0j, 0.25 - 1j, -2 + 2j, 1j],
  "Fraction": [Fraction(1, 3), Fraction(-7, 2), Fraction(5), Fraction(2, 7), Fraction(-1, 5), Fraction(9, 4)],
}


def conc_val(ty, j):
  if ty == "zero":
    return ZERO_POOL[j % len(ZERO_POOL)]
  if ty == "none":
    return None
  if ty == "rcomplex":                  # a real-valued complex
    return complex([1.0, -2.0, 0.5][j % 3], 0.0)
  return POOLS[ty][j % len(POOLS[ty])]


def gen_conc(tier, rng):
  for c in gen_conc_mixed(tier):
    yield c
  reps = 1 if tier == "quick" else 4
  for dname in sorted(DUNDERS):
    func, rev, arity = DUNDERS[dname]
    for ty in sorted(POOLS):
      for rep in range(reps):
        n = 3 + rep % 2
        off = rep * 2
        xs = [[ty, (off + j) % 6] for j in range(n)]
        if arity == 1:
          yield {"dname": dname, "mode": ["direct", "syntax"][rep % 2], "ty": ty, "xs": xs, "other": None,
                 "tags": ["unary", ty]}
          continue
        oty = ty if rep % 2 == 0 else sorted(POOLS)[(rep + len(dname)) % 5]
        for kind in ("stream", "list", "scalar"):
          m = n if kind != "list" else n - 1
          ys = [[oty, (off + 3 + j) % 6] for j in range(1 if kind == "scalar" else m)]
          mode = "direct" if (rev and kind == "stream") else ["direct", "syntax"][(rep + len(kind)) % 2]
          yield {"dname": dname, "mode": mode, "ty": ty, "xs": xs, "other": {"kind": kind, "ys": ys},
                 "tags": ["binary", ty + "/" + oty, kind]}


MIXED_XS = [["int", 0], ["int", 3], ["float", 1], ["complex", 0], ["Fraction", 1], ["bool", 1], ["int", 1], ["float", 3]]
MIXED_XS2 = [["zero", 0], ["zero", 1], ["zero", 2], ["zero", 3], ["zero", 4], ["zero", 5], ["none", 0], ["rcomplex", 0]]
MIXED_YS = [["int", 3], ["float", 2], ["int", 1], ["int", 0], ["bool", 1], ["Fraction", 0], ["complex", 1], ["int", 2]]


def gen_conc_mixed(tier):
  """Heterogeneous elements (7, 0, -0.25, 1+2j, -7/2, False, -3, 0.1): for most operators SOME positions raise
  (zero divisor, negative shift, ordering a complex, bitwise on a float); every position is observed."""
  for dname in sorted(DUNDERS):
    func, rev, arity = DUNDERS[dname]
    if arity == 1:
      for mode in ("direct", "syntax"):
        yield {"dname": dname, "mode": mode, "ty": "mixed", "xs": MIXED_XS, "other": None, "tags": ["unary", "mixed"]}
      continue
    for sc in (["int", 3], ["int", 1], ["float", 0], ["int", 0], ["complex", 0], ["Fraction", 1], ["bool", 0],
               ["rcomplex", 1], ["zero", 2]):
      for mode in ("direct", "syntax"):
        if mode == "syntax" and dname == "__rpow__" and isinstance(conc_val(*sc), Fraction):
          continue     # Fraction.__pow__(q, stream) itself turns q into a float before Stream.__rpow__ is tried
        for xs in (MIXED_XS, MIXED_XS2):
          if mode == "syntax" and xs is MIXED_XS2:
            continue
          yield {"dname": dname, "mode": mode, "ty": "mixed", "xs": xs, "other": {"kind": "scalar", "ys": [sc]},
                 "tags": ["binary", "mixed", "scalar"]}
    for kind in ("list", "stream"):
      mode = "direct" if (rev and kind == "stream") else "syntax"
      yield {"dname": dname, "mode": mode, "ty": "mixed", "xs": MIXED_XS, "other": {"kind": kind, "ys": MIXED_YS},
             "tags": ["binary", "mixed", kind]}
      yield {"dname": dname, "mode": "direct", "ty": "mixed", "xs": MIXED_YS, "other": {"kind": kind, "ys": MIXED_XS[:5]},
             "tags": ["binary", "mixed", kind]}


def conc_objs(c):
  xs = [conc_val(t, j) for t, j in c["xs"]]
  ys = None if c["other"] is None else [conc_val(t, j) for t, j in c["other"]["ys"]]
  return xs, ys


def conc_table(c):
  """operator.* applied by the harness to the pairs the property pairs up (both argument orders)."""
  func, rev, arity = DUNDERS[c["dname"]]
  fn = getattr(operator, func)
  xs, ys = conc_objs(c)
  tbl, seen = [], set()
  def add(key, val):
    if repr(key) not in seen:
      seen.add(repr(key))
      tbl.append([key, val])
  if arity == 1:
    for x in xs:
      add(["o1", func, S.cval(x)], S.apply_safely(fn, x))
    return tbl
  pairs = [(x, ys[0]) for x in xs] if c["other"]["kind"] == "scalar" else list(zip(xs, ys))
  for x, y in pairs:
    add(["o2", func, S.cval(x), S.cval(y)], S.apply_safely(fn, x, y))
    add(["o2", func, S.cval(y), S.cval(x)], S.apply_safely(fn, y, x))
  return tbl


def run_conc(c):
  import audiolazy as al
  xs, ys = conc_objs(c)
  try:
    s = al.Stream(list(xs))
    if c["other"] is None:
      others = []
    elif c["other"]["kind"] == "scalar":
      others = [ys[0]]
    elif c["other"]["kind"] == "list":
      others = [list(ys)]
    else:
      others = [al.Stream(list(ys))]
    res = call_dunder(al, c["dname"], c["mode"], s, others)
  except Exception as e:
    return {"raise": type(e).__name__}
  return observe_stream(res, al)


def lit_conc(c, o):
  xs, ys = conc_objs(c)
  self_lit = "(Fin %s)" % L.lst([S.term_lit(S.cval(x)) for x in xs])
  if c["other"] is None:
    others = "[]"
  elif c["other"]["kind"] == "scalar":
    others = "[OScalar %s]" % S.term_lit(S.cval(ys[0]))
  else:
    others = "[OIter (Fin %s)]" % L.lst([S.term_lit(S.cval(y)) for y in ys])
  return "(BC %s %s %s %s %s %s)" % (L.string(c["dname"]), self_lit, others, S.tbl_lit(conc_table(c)),
                                     L.nat(CAP), sobs_lit(o))


def nontrivial_conc(c, o):
  items = o.get("items") or []
  return o.get("st") == "ended" and any(not (t[0] == "l" and t[1].startswith("raise:")) for t in items)


# ------------------------------------------------------------------ containers for the broadcast families
KINDS = ["list", "tuple", "deque", "set", "frozenset", "stream", "streamsub",
         "gen", "range", "map", "zip", "filter", "enumerate", "zip_longest"]
KIND_COQ = {"list": "KList", "tuple": "KTuple", "deque": "KDeque", "set": "KSet", "frozenset": "KFrozenset",
            "stream": "KStream", "streamsub": "KStreamSub", "gen": "KGen", "range": "KRange", "map": "KMap",
            "zip": "KZip", "filter": "KFilter", "enumerate": "KEnumerate", "zip_longest": "KZipLongest"}
LAZY_IN = ("stream", "streamsub", "gen", "map", "zip", "filter", "enumerate", "zip_longest")
_subcls = {}


def stream_subclass(al):
  if id(al.Stream) not in _subcls:
    _subcls[id(al.Stream)] = type("SubStream", (al.Stream,), {})
  return _subcls[id(al.Stream)]


class Counter(object):
  def __init__(self, items):
    self.items, self.n = list(items), 0

  def __iter__(self):
    for x in self.items:
      self.n += 1
      yield x


def make_container(al, kind, els):
  """Returns (object, element values as the function will see them, counter or None)."""
  cnt = Counter(els)
  if kind == "list":
    return list(els), list(els), None
  if kind == "tuple":
    return tuple(els), list(els), None
  if kind == "deque":
    return collections.deque(els, maxlen=len(els) + 2), list(els), None
  if kind == "set":
    o = set(els)
    return o, list(o), None
  if kind == "frozenset":
    o = frozenset(els)
    return o, list(o), None
  if kind == "stream":
    return al.Stream(iter(cnt)), list(els), cnt
  if kind == "streamsub":
    return stream_subclass(al)(iter(cnt)), list(els), cnt
  if kind == "gen":
    return iter(cnt), list(els), cnt
  if kind == "range":
    return range(len(els)), list(range(len(els))), None
  if kind == "map":
    return map(lambda v: v, iter(cnt)), list(els), cnt
  if kind == "zip":
    return zip(iter(cnt)), [(e,) for e in els], cnt
  if kind == "filter":
    return filter(lambda v: True, iter(cnt)), list(els), cnt
  if kind == "enumerate":
    return enumerate(iter(cnt)), list(enumerate(els)), cnt
  if kind == "zip_longest":
    return it.zip_longest(iter(cnt)), [(e,) for e in els], cnt
  raise ValueError(kind)


def result_kind(al, res):
  t = type(res)
  table = [(list, "list"), (tuple, "tuple"), (collections.deque, "deque"), (set, "set"), (frozenset, "frozenset"),
           (al.Stream, "stream"), (types.GeneratorType, "gen"), (range, "range"), (map, "map"), (zip, "zip"),
           (filter, "filter"), (enumerate, "enumerate"), (it.zip_longest, "zip_longest")]
  for ty, k in table:
    if t is ty:
      return k
  if isinstance(res, al.Stream):
    return "streamsub"
  return None


def observe_result(al, res, cnt, conv, cap=CAP, scalar_in=False):
  """Observation of what a broadcasting function returned (scalar_in: the broadcast argument was
  not a container, so the result is observed as one value, whatever its type)."""
  k = result_kind(al, res)
  if scalar_in and type(res) in (tuple, list):
    k = None
  if k is None:
    try:
      return {"scalar": conv(res)}
    except TypeError:
      return {"raise": "UnknownResult:" + type(res).__name__}
  lazy_ok = True
  items = []
  if cnt is not None and k in ("gen", "stream", "streamsub") and cnt.n != 0:
    lazy_ok = False                      # something was read before anything was asked for
  try:
    itr = iter(res)
    st = "more"
    for j in range(cap):
      try:
        v = next(itr)
      except StopIteration:
        st = "ended"
        break
      items.append(conv(v))
      if cnt is not None and k in ("gen", "stream", "streamsub") and cnt.n != j + 1:
        lazy_ok = False                  # one input item per output item
  except Exception as e:
    st = "raise:" + type(e).__name__
  return {"kind": k, "items": items, "st": st, "lazy": lazy_ok}


def wobs_lit(o):
  if "scalar" in o:
    return "(WScalar %s)" % S.term_lit(o["scalar"])
  if "kind" in o:
    return "(WCont %s %s %s %s)" % (KIND_COQ[o["kind"]], L.lst([S.term_lit(t) for t in o["items"]]),
                                    L.string(o["st"]), L.boolean(o["lazy"]))
  return "(WRaise %s)" % L.string(o["raise"])


def pyval_lit(a):
  """a = {"scalar": term} | {"str": term} | {"kind": k, "vals": [terms]}"""
  if "scalar" in a:
    return "(PScalar %s)" % S.term_lit(a["scalar"])
  if "str" in a:
    return "(PStr %s)" % S.term_lit(a["str"])
  return "(PCont %s (Fin %s))" % (KIND_COQ[a["kind"]], L.lst([S.term_lit(t) for t in a["vals"]]))


# ------------------------------------------------------------------ family ew
EW_DECLS = [("", None), ("x", None), ("x", 0), ("x", 1), ("y", 2), ("", 1), ("", 0)]


def gen_ew(tier, rng):
  prims = [{"scalar": ["v", "p", 0]}, {"str": ["l", "s:abc"]}]
  for k in KINDS:
    for n in ([0, 1, 3] if tier == "quick" else [0, 1, 2, 3, 5]):
      prims.append({"kind": k, "n": n})
  sec = lambda j: {"scalar": ["v", "a%d" % j, 0]}
  for name, pos in EW_DECLS:
    for prim in prims:
      layouts = []
      # positional layouts: the broadcast argument at every position of 1..3 positional arguments
      for nargs in (1, 2, 3):
        for at in range(nargs):
          layouts.append(([prim if j == at else sec(j) for j in range(nargs)], []))
      layouts.append(([], []))                                        # nothing given
      for key in ("x", "y", "z"):
        layouts.append(([], [[key, prim]]))                           # keyword only
        layouts.append(([sec(0)], [["w", sec(5)], [key, prim], ["v", sec(6)]]))   # keyword among others
      layouts.append(([sec(0), sec(1)], [["x", prim]]))
      if tier == "quick" and "kind" in prim and prim["kind"] not in ("list", "set", "stream", "gen", "range", "zip"):
        layouts = layouts[::3]
      for args, kw in layouts:
        yield {"name": name, "pos": pos, "args": args, "kw": kw,
               "tags": ["decl=%s/%s" % (name or "-", pos), prim.get("kind", "scalar" if "scalar" in prim else "str")]}


def ew_materialise(al, a):
  """-> (python object, pyval description with the values the function will see, counter)"""
  if "scalar" in a:
    return S.to_sym(a["scalar"]), a, None
  if "str" in a:
    return a["str"][1][2:], a, None
  els = [Sym(["v", "e", i]) for i in range(a["n"])]
  obj, seen, cnt = make_container(al, a["kind"], els)
  return obj, {"kind": a["kind"], "vals": [S.lift_any(v) for v in seen]}, cnt


def run_ew(c):
  import audiolazy as al
  args, kw, desc_args, desc_kw, cnt = [], {}, [], [], None
  for a in c["args"]:
    o, d, k = ew_materialise(al, a)
    args.append(o); desc_args.append(d); cnt = cnt or k
  for key, a in c["kw"]:
    o, d, k = ew_materialise(al, a)
    kw[key] = o; desc_kw.append([key, d]); cnt = cnt or k
  out = {"args": desc_args, "kw": desc_kw}
  try:
    wrapped = al.elementwise(c["name"], c["pos"])(S.symfunc("f"))
    snap = [(o, list(o)) for o in list(args) + list(kw.values()) if type(o) in (list, tuple, collections.deque, set, frozenset)]
    res = wrapped(*args, **kw)
    for obj, before in snap:
      after = list(obj)
      if res is obj and type(obj) not in (tuple, frozenset):
        out["raise"] = "ResultIsTheArgument"
        return out
      if len(after) != len(before) or any(a is not b_ for a, b_ in zip(after, before)):
        out["raise"] = "ArgumentMutated"
        return out
  except Exception as e:
    out["raise"] = type(e).__name__
    return out
  out.update(observe_result(al, res, cnt, S.lift_any))
  return out


def lit_ew(c, o):
  if "args" not in o:
    return "(WC %s None %s [] [] [] %s (WRaise %s))" % (L.string(""), L.string("f"), L.nat(CAP), L.string(o.get("raise", "?")))
  return "(WC %s %s %s %s %s [] %s %s)" % (
    L.string(c["name"]), L.option(c["pos"], L.nat), L.string("f"),
    L.lst([pyval_lit(a) for a in o["args"]]),
    L.lst(["(%s, %s)" % (L.string(k), pyval_lit(a)) for k, a in o["kw"]]),
    L.nat(CAP), wobs_lit(o))


def nontrivial_ew(c, o):
  return "kind" in o and len(o["items"]) > 0


# ------------------------------------------------------------------ family math
DEFAULT_POOL = [0.25, 0.5, 0.75, 0.5]
MATH_POOLS = {
  "acosh": [1.0, 1.5, 2.5, 1.5], "gamma": [0.5, 1.5, 4.0, 0.5], "lgamma": [0.5, 1.5, 4.0, 0.5],
  "factorial": [0, 3, 5.0, 3], "str2midi": ["C4", "A#3", "?", "Bb2"], "str2freq": ["A4", "C#5", "A4", "Gb3"],
  "midi2str": [60, 61.5, 69, float("inf")], "midi2freq": [69, 60, 72.5, 57], "freq2midi": [440.0, 220.0, 261.5, 440.0],
  "freq2str": [440.0, 220.0, 261.5, 440.0],
  "log": [1.0, -2.0, 0, 0.5], "ln": [1.0, -2.0, 0, 2.5], "log1p": [0.5, -1, -3.0, 1j], "log10": [1, 10, 0, -100.0],
  "log2": [8, 0.5, 0, -4], "dB10": [1.0, 10, 0, -0.5], "dB20": [1.0, 10, 0, 2j], "sign": [-2, 0, 3.5, -0.0],
  "absolute": [-1, 2j, -0.5, 3], "cexp": [0, 1j, 0.5, -1 + 1j], "phase": [1j, -1.0, 1 + 1j, 0],
  "isinf": [float("inf"), 1.0, float("-inf"), 2], "isnan": [float("nan"), 1.0, 0, 0.5],
  "ceil": [0.25, -1.5, 3, 2.75], "floor": [0.25, -1.5, 3, 2.75], "trunc": [0.25, -1.5, 3, 2.75],
  "degrees": [0.25, -1.5, 3, 2.75], "radians": [30, -90.0, 0.5, 180], "fabs": [-1.5, 2, -0.0, 0.25],
  "sqrt": [0.25, 2, 9.0, 0], "exp": [0, 1, -1.5, 0.5], "expm1": [0, 1e-9, -1.5, 0.5], "erf": [0, 0.5, -2.0, 1],
  "erfc": [0, 0.5, -2.0, 1], "frexp": [0.75, 8.0, -3.5, 0], "modf": [0.75, 8.5, -3.25, 0],
  "atan": [0, 1.0, -5.5, 0.5], "sinh": [0, 1.0, -2.5, 0.5], "cosh": [0, 1.0, -2.5, 0.5], "tanh": [0, 1.0, -2.5, 0.5],
  "asinh": [0, 1.0, -2.5, 0.5], "sin": [0, 1.0, -2.5, 0.5], "cos": [0, 1.0, -2.5, 0.5], "tan": [0, 1.0, -2.5, 0.5],
}
# extra (secondary) arguments used with some functions: (positional extras, keyword extras)
MATH_EXTRAS = {"log": [([], {}), ([2], {}), ([], {"base": 10.0}), ([None], {})], "ln": [([], {}), ([3], {})],
               "midi2str": [([], {}), ([False], {}), ([], {"sharp": False}), ([True], {})]}


_MN = ["acos", "acosh", "asin", "asinh", "atan", "atanh", "ceil", "cos", "cosh", "degrees", "erf", "erfc", "exp",
       "expm1", "fabs", "floor", "frexp", "gamma", "isinf", "isnan", "lgamma", "modf", "radians", "sin", "sinh",
       "sqrt", "tan", "tanh", "trunc"]
STATIC_FUNCS = ([(n, "wrapper", (n, "x", 0, "math." + n, None)) for n in _MN] +
                [(n, "wrapper", (n, "", 0, "def", None)) for n in
                 ["log", "log1p", "factorial", "dB10", "dB20", "sign", "midi2freq", "str2midi", "freq2midi", "midi2str"]] +
                [(n, "wrapper", (n, "", 0, "builtin", None)) for n in ["absolute", "cexp", "phase"]] +
                [("ln", "alias", "log"), ("log10", "derived", None), ("log2", "derived", None),
                 ("str2freq", "derived", None), ("freq2str", "derived", None)])


def math_functions():
  """Every broadcasting function the regenerated tables know: wrappers, aliases, derived."""
  inf_ = info()
  res = []
  if "math" not in inf_:       # the translator failed (reported as a broken tie): use the harness's own list
    return list(STATIC_FUNCS)
  for m in ("math", "midi"):
    for w in inf_[m]["wrappers"]:
      res.append((w[0], "wrapper", w))
    for a, b in inf_[m]["aliases"]:
      res.append((a, "alias", b))
    for d in inf_[m]["derived"]:
      res.append((d[0], "derived", d))
  return res


def unwrapped(al, fname):
  """The function without its elementwise wrapper, obtained independently of the translator."""
  if hasattr(math, fname) and fname not in ("log", "log1p", "log10", "log2", "factorial"):
    return getattr(math, fname)
  special = {"cexp": cmath.exp, "phase": cmath.phase, "absolute": abs}
  if fname in special:
    return special[fname]
  fn = getattr(al, fname)
  return getattr(fn, "__wrapped__", None)


def math_oracle(al, fname, x, extra_args, extra_kw, tbl, pname=None):
  """Fills tbl with the applications the specification needs for element x; returns nothing.
  pname: the element is passed by keyword under that name."""
  def add(fn_name, f, xa, ea, ekw):
    if pname is None:
      key = ["call", ["v", fn_name, 0], [S.cval(xa)] + [S.cval(e) for e in ea], [[k, S.cval(v)] for k, v in ekw.items()]]
      val = S.apply_safely(f, xa, *ea, **ekw)
    else:
      key = ["call", ["v", fn_name, 0], [], [[pname, S.cval(xa)]] + [[k, S.cval(v)] for k, v in ekw.items()]]
      val = S.apply_safely(f, **dict([(pname, xa)] + list(ekw.items())))
    tbl.append([key, val])
    return val
  if fname == "ln":
    fname = "log"
  if fname in ("log10", "log2"):
    return add("log", al.log.__wrapped__, x, [10 if fname == "log10" else 2], {})
  if fname in ("str2freq", "freq2str"):
    inner, outer = ("str2midi", "midi2freq") if fname == "str2freq" else ("freq2midi", "midi2str")
    try:
      mid = getattr(al, inner).__wrapped__(x)
    except Exception:
      add(inner, getattr(al, inner).__wrapped__, x, [], {})
      return
    add(inner, getattr(al, inner).__wrapped__, x, [], {})
    add(outer, getattr(al, outer).__wrapped__, mid, [], {})
    return
  add(fname, unwrapped(al, fname), x, extra_args, extra_kw)


def gen_math(tier, rng):
  for fname, how, _ in math_functions():
    pool = MATH_POOLS.get(fname, DEFAULT_POOL)
    extras = MATH_EXTRAS.get(fname, [([], {})])
    forms = ["pos"]
    if how == "wrapper" and _[3] == "def":
      forms.append("kw")
    for form in forms:
      for ea, ekw in extras:
        for n, kind in [(1, "scalar")] + [(n, k) for k in KINDS for n in ((3,) if tier == "quick" else (0, 1, 4))]:
          if kind == "range":
            continue          # range elements are fixed ints, exercised separately below
          yield {"fname": fname, "form": form, "kind": kind, "n": n, "ea": [L.jsonable(e) for e in ea],
                 "ekw": [[k, L.jsonable(v)] for k, v in sorted(ekw.items())],
                 "tags": [fname, kind, form]}
    if fname in ("exp", "sqrt", "factorial", "dB10", "sign", "midi2freq", "log2", "absolute"):
      yield {"fname": fname, "form": "pos", "kind": "range", "n": 4, "ea": [], "ekw": [], "tags": [fname, "range", "pos"]}
    # containers whose elements are equal-but-distinct numbers (types, zero signs): the i-th output must be
    # the function of the i-th element itself, type- and sign-exactly (compared as type tag + float.hex text)
    for which in sorted(MIXED):
      for kind in (MIXED_KINDS if tier != "quick" else MIXED_KINDS[:2] + [MIXED_KINDS[3 + len(fname) % 5]]):
        yield {"fname": fname, "form": "pos", "kind": kind, "n": 8, "ea": [], "ekw": [], "mixed": which,
               "tags": [fname, kind, "pos", "mixed"]}
    # a str argument is a scalar for elementwise
    yield {"fname": fname, "form": "pos", "kind": "str", "n": 1, "ea": [], "ekw": [], "tags": [fname, "str", "pos"]}


# elements that compare EQUAL (same hash) without being the same number: other numeric type, other zero sign
MIXED = {
  "A": [1, 1.0, True, Fraction(1), -0.0, 0.0, 0, False],
  "B": [complex(-1, 0.), complex(-1, -0.), -2, -2.0, Fraction(-2), 0j, complex(0., -0.), complex(-2, -0.)],
}
MIXED["C"] = [0, Fraction(0), 0.0, False, 0j, complex(1., 0.), 1, Fraction(1)]   # zeros of every kind, real-valued complex
MIXED["Ar"] = MIXED["A"][::-1]
MIXED["Br"] = MIXED["B"][::-1]
MIXED_KINDS = ["list", "tuple", "deque", "stream", "streamsub", "gen", "map", "filter"]


def scalar_ref(al, fname):
  """The function on ONE element, without any elementwise wrapper (used to keep only inputs it accepts)."""
  if fname in ("ln", "log"):
    return al.log.__wrapped__
  if fname in ("log10", "log2"):
    return lambda x: al.log.__wrapped__(x, 10 if fname == "log10" else 2)
  if fname == "str2freq":
    return lambda x: al.midi2freq.__wrapped__(al.str2midi.__wrapped__(x))
  if fname == "freq2str":
    return lambda x: al.midi2str.__wrapped__(al.freq2midi.__wrapped__(x))
  return unwrapped(al, fname)


def mixed_inputs(al, fname, which):
  ref = scalar_ref(al, fname)
  def accepted(pool):
    res = []
    for x in pool:
      try:
        S.cval(ref(x))
        res.append(x)
      except Exception:
        pass
    return res
  res = accepted(MIXED[which])
  if len(res) < 2:
    res = accepted(MIXED["A" if which in ("A", "B") else "Ar"])
  if len(res) < 2:
    res = list(MATH_POOLS.get(fname, DEFAULT_POOL))[:3]
  return res


def math_inputs(c, al=None):
  if c.get("mixed"):
    return mixed_inputs(al, c["fname"], c["mixed"])
  pool = MATH_POOLS.get(c["fname"], DEFAULT_POOL)
  if c["kind"] == "range":
    return list(range(c["n"]))
  if c["kind"] == "str":
    return ["C4"]
  return [pool[j % len(pool)] for j in range(c["n"])]


def run_math(c):
  import audiolazy as al
  fname = c["fname"]
  xs = math_inputs(c, al)
  ea = [L.unjson(e) for e in c["ea"]]
  ekw = dict((k, L.unjson(v)) for k, v in c["ekw"])
  cnt = None
  if c["kind"] in ("scalar", "str"):
    obj, seen = xs[0], None
    desc = {"scalar": S.cval(xs[0])} if c["kind"] == "scalar" else {"str": S.cval(xs[0])}
  else:
    obj, seen, cnt = make_container(al, c["kind"], xs)
    desc = {"kind": c["kind"], "vals": [S.cval(v) for v in seen]}
  # the keyword name is read from the function itself (first parameter), not from the translator
  fn = getattr(al, fname)
  pname = None
  if c["form"] == "kw":
    import inspect
    pname = list(inspect.signature(fn).parameters)[0]
  tbl = []
  for v in (seen if seen is not None else [xs[0]]):
    math_oracle(al, fname, v, ea, ekw, tbl, pname)
  out = {"tbl": tbl}
  try:
    if c.get("mixed"):
      # history: an earlier call in the same process on the same values in the opposite order, fully consumed
      pre = fn(make_container(al, c["kind"], xs[::-1])[0])
      collections.deque(iter(pre), maxlen=0)
    if c["form"] == "kw":
      out["args"] = []
      out["kw"] = [[pname, desc]] + [[k, {"scalar": S.cval(v)}] for k, v in ekw.items()]
      res = fn(**dict([(pname, obj)] + list(ekw.items())))
    else:
      out["args"] = [desc] + [{"scalar": S.cval(e)} for e in ea]
      out["kw"] = [[k, {"scalar": S.cval(v)}] for k, v in ekw.items()]
      res = fn(obj, *ea, **ekw)
  except Exception as e:
    out["raise"] = type(e).__name__
    return out
  out.update(observe_result(al, res, cnt, S.cval, scalar_in=c["kind"] in ("scalar", "str")))
  return out


def lit_math(c, o):
  return "(MC %s %s %s %s %s %s)" % (
    L.string(c["fname"]),
    L.lst([pyval_lit(a) for a in o.get("args", [])]),
    L.lst(["(%s, %s)" % (L.string(k), pyval_lit(a)) for k, a in o.get("kw", [])]),
    S.tbl_lit(o.get("tbl", [])), L.nat(CAP), wobs_lit(o))


def nontrivial_math(c, o):
  return "kind" in o and len(o["items"]) > 0 and o["st"] == "ended"


# ------------------------------------------------------------------ extra: coverage of __all__
def extra(chk, tier, rng):
  """Every public callable of lazy_math / lazy_midi is a recognised wrapper, alias or derived form
  (or octaves), and the math wrappers wrap the math functions of the same name."""
  import audiolazy as al
  from audiolazy import lazy_math, lazy_midi
  known = set(n for n, _, _ in math_functions()) | {"octaves"}
  for mod in (lazy_math, lazy_midi):
    for n in mod.__all__:
      if callable(getattr(mod, n)) and n not in known:
        chk.broken.append(("tie", "translator", "public function %s.%s is not in the regenerated tables" % (mod.__name__, n)))
  for n in info().get("math", {}).get("math_names", _MN):
    if getattr(getattr(al, n), "__wrapped__", None) is not getattr(math, n):
      chk.broken.append(("tie", "translator", "audiolazy.%s does not wrap math.%s" % (n, n)))


IMPORTS = "From AL Require Import C01.OpDefs C01.Gen_OpTable C01.Model C01.Spec C01.Check."
FAMILIES = collections.OrderedDict([
  ("bin", Family("bin", IMPORTS, "bcase", "corr_bin", "holds_bin", gen_bin, run_bin, lit_bin, nontrivial_bin)),
  ("expr", Family("expr", IMPORTS, "ecase", "corr_expr", "holds_expr", gen_expr, run_expr, lit_expr,
                  lambda c, o: tree_depth(c["tree"]) >= 2 and bool(o.get("items")))),
  ("live", Family("live", IMPORTS + " From AL Require Import C01.Live C01.LiveCheck.", "lcase", "corr_live", "holds_live",
                  gen_live, run_live, lit_live, nontrivial_live)),
  ("conc", Family("conc", IMPORTS, "bcase", "corr_bin", "holds_bin", gen_conc, run_conc, lit_conc, nontrivial_conc)),
  ("ew", Family("ew", IMPORTS, "wcase", "corr_ew", "holds_ew", gen_ew, run_ew, lit_ew, nontrivial_ew)),
  ("math", Family("math", IMPORTS, "mcase", "corr_math", "holds_math", gen_math, run_math, lit_math, nontrivial_math)),
])
