# -*- coding: utf-8 -*-
"""Fail-closed parser for the generator function text built by LinearFilter.__call__ (constant coefficients).

Grammar (every line must match, nothing else is accepted):

  def gen(seq, memory, zero):
    for unused in seq:
      yield NUM
or
  def gen(seq, memory, zero):
    m1 , m2 , ... , = memory          (optional)
    d1 = d2 = ... = zero              (optional)
    for d0 in seq:
      m0 = EXPR
      yield m0
      m<i> = m<j>                     (any number)
      d<i> = d<j>                     (any number)

  EXPR := SUM | -(SUM) | (SUM) / (NUM)
  SUM  := TERM { " + " TERM }
  TERM := d<k> | -d<k> | (NUM) * d<k> | m<k> | -m<k> | -(NUM) * m<k>
  NUM  := _Q(n,d) | int | float repr | n/d        (n/d is evaluated as Python does: float division)

Returns a JSON-able dict, or {"error": ...}."""
import re
from fractions import Fraction

FLT = r"-?\d+(?:\.\d+)?(?:e[-+]?\d+)?"
REAL = r"(?:_Q\(-?\d+,\d+\)|-?\d+/\d+|True|False|%s)" % FLT
CPLX = r"(?:_C4\(-?\d+,\d+,-?\d+,\d+\)|%sj|\(%s[-+]\d+(?:\.\d+)?(?:e[-+]?\d+)?j\))" % (FLT, FLT)
NUM = r"(?:%s|%s)" % (CPLX, REAL)
TERM = r"(?:-?d\d+|\(%s\) \* d\d+|-?m\d+|-\(%s\) \* m\d+)" % (NUM, NUM)
SUM = r"%s(?: \+ %s)*" % (TERM, TERM)


class ParseError(Exception):
  pass


COMPLEX_OK = [False]    # set by parse_program(text, complex_ok=True): numbers become [[re], [im]] pairs


def num(t):
  if re.fullmatch(CPLX, t):
    if not COMPLEX_OK[0]:
      raise ParseError("complex literal %r" % t)
    m = re.fullmatch(r"_C4\((-?\d+),(\d+),(-?\d+),(\d+)\)", t)
    if m:
      if int(m.group(2)) == 0 or int(m.group(4)) == 0:
        raise ParseError("zero denominator")
      re_, im_ = Fraction(int(m.group(1)), int(m.group(2))), Fraction(int(m.group(3)), int(m.group(4)))
    else:
      c = complex(t)                       # what CPython computes for the literal
      re_, im_ = Fraction(c.real), Fraction(c.imag)
    return [[re_.numerator, re_.denominator], [im_.numerator, im_.denominator]]
  r = real_num(t)
  return [r, [0, 1]] if COMPLEX_OK[0] else r


def real_num(t):
  if t in ("True", "False"):
    return [int(t == "True"), 1]
  m = re.fullmatch(r"_Q\((-?\d+),(\d+)\)", t)
  if m:
    if int(m.group(2)) == 0:
      raise ParseError("zero denominator")
    v = Fraction(int(m.group(1)), int(m.group(2)))
  elif re.fullmatch(r"-?\d+", t):
    v = Fraction(int(t))
  elif re.fullmatch(r"-?\d+/\d+", t):
    a, b = t.split("/")
    if int(b) == 0:
      raise ParseError("division by zero")
    v = Fraction(int(a) / int(b))        # what CPython computes for  n/d
  elif re.fullmatch(r"-?\d+(?:\.\d+)?(?:e[-+]?\d+)?", t):
    v = Fraction(float(t))
  else:
    raise ParseError("number %r" % t)
  return [v.numerator, v.denominator]


def term(t):
  m = re.fullmatch(r"(-?)([dm])(\d+)", t)
  if m:
    kind = {"d": "D", "-d": "NegD", "m": "M", "-m": "NegM"}[m.group(1) + m.group(2)]
    return [kind, int(m.group(3))]
  m = re.fullmatch(r"\((%s)\) \* d(\d+)" % NUM, t)
  if m:
    return ["CoefD", int(m.group(2)), num(m.group(1))]
  m = re.fullmatch(r"-\((%s)\) \* m(\d+)" % NUM, t)
  if m:
    return ["NegCoefM", int(m.group(2)), num(m.group(1))]
  raise ParseError("term %r" % t)


def summ(t):
  if not re.fullmatch(SUM, t):
    raise ParseError("sum %r" % t)
  return [term(x) for x in t.split(" + ")]


def expr(t):
  if re.fullmatch(SUM, t):
    return summ(t), ["one"]
  m = re.fullmatch(r"-\((%s)\)" % SUM, t)
  if m:
    return summ(m.group(1)), ["neg"]
  m = re.fullmatch(r"\((%s)\) / \((%s)\)" % (SUM, NUM), t)
  if m:
    return summ(m.group(1)), ["div", num(m.group(2))]
  raise ParseError("expression %r" % t)


def parse_program(text, complex_ok=False):
  COMPLEX_OK[0] = complex_ok
  try:
    return _parse(text)
  except (ParseError, ValueError, OverflowError) as e:
    return {"error": str(e)[:200]}
  finally:
    COMPLEX_OK[0] = False


def _parse(text):
  lines = text.split("\n")
  if not lines or lines[0] != "def gen(seq, memory, zero):":
    raise ParseError("header %r" % lines[:1])
  if len(lines) == 3 and lines[1] == "  for unused in seq:":
    m = re.fullmatch(r"    yield (%s)" % NUM, lines[2])
    if not m:
      raise ParseError("yield line %r" % lines[2])
    return {"zero": num(m.group(1))}
  i = 1
  mvars, dvars = [], []
  m = re.fullmatch(r"  ((?:m\d+ , )*m\d+ ,) = memory", lines[i]) if i < len(lines) else None
  if m:
    mvars = [int(x) for x in re.findall(r"m(\d+) ,", m.group(1))]
    i += 1
  m = re.fullmatch(r"  ((?:d\d+ = )+)zero", lines[i]) if i < len(lines) else None
  if m:
    dvars = [int(x) for x in re.findall(r"d(\d+) = ", m.group(1))]
    i += 1
  if i + 3 > len(lines) or lines[i] != "  for d0 in seq:":
    raise ParseError("loop header %r" % lines[i:i + 1])
  m = re.fullmatch(r"    m0 = (.*)", lines[i + 1])
  if not m:
    raise ParseError("assignment %r" % lines[i + 1])
  terms, gain = expr(m.group(1))
  if lines[i + 2] != "    yield m0":
    raise ParseError("yield %r" % lines[i + 2])
  i += 3
  mshift, dshift = [], []
  while i < len(lines):
    m = re.fullmatch(r"    m(\d+) = m(\d+)", lines[i])
    if not m:
      break
    mshift.append([int(m.group(1)), int(m.group(2))])
    i += 1
  while i < len(lines):
    m = re.fullmatch(r"    d(\d+) = d(\d+)", lines[i])
    if not m:
      raise ParseError("line %r" % lines[i])
    dshift.append([int(m.group(1)), int(m.group(2))])
    i += 1
  return {"mvars": mvars, "dvars": dvars, "terms": terms, "gain": gain, "mshift": mshift, "dshift": dshift}
