# -*- coding: utf-8 -*-
"""C12 - histories on ONE object (state surviving between calls, in-place edits):
  hist  : one FIR ZFilter object: run / impulse+dft / freq_response interleaved with
          filt.numpoly[k] = v, filt.denpoly[0] = g, filt.numpoly = Poly(list)
  lhist : one CascadeFilter / ParallelFilter object: freq_response interleaved with obj[i] = f,
          obj.append(f), obj.pop()
  dhist : several dft calls sharing the same frequency objects, block lengths growing / shrinking
Every call must equal the per-call model / specification on the CURRENT contents of the object."""
from fractions import Fraction
from vlib import coqlit as L
import C12 as H
from C12_util import CQ, UnitAngle, exact_exponentials, unit_point, _parts


def zl(k):
  return "(%d)%%Z" % k


# ------------------------------------------------------------------ hist
def gen_hist(tier, rng):
  n = 120 if tier == "quick" else 1500
  for i in range(n):
    b = H.rnd_list(rng, 5, 1, p_zero=0.2, p_cplx=0.1)
    g = rng.choice([CQ(1), CQ(1), CQ(-1), CQ(2), CQ(Fraction(-1, 2))])
    ops, tags = [], ["random"]
    for r in range(rng.randrange(1, 4)):
      for _ in range(rng.randrange(1, 3)):
        x = rng.random()
        ops.append(["run", rng.randrange(len(b), len(b) + 6)] if x < 0.45 else
                   ["imp", rng.choice([len(b), len(b) + 2, 7])] if x < 0.8 else ["fr"])
      x = rng.random()
      if x < 0.55:      # same set of delays, other value
        k = rng.randrange(0, len(b))
        v = H.rnd_coeff(rng, p_zero=0.12)
        ops.append(["setnum", k, H.cj(v)]); tags.append("setnum")
      elif x < 0.7:
        ops.append(["setden", 0, H.cj(rng.choice([CQ(2), CQ(-1), CQ(Fraction(3, 4)), CQ(1), CQ(0)]))]); tags.append("setden")
      elif x < 0.9:     # replaced by a polynomial with (mostly) the same delays
        nb = [c if (c == CQ(0) and rng.random() < 0.8) else H.rnd_coeff(rng, p_zero=0.05) for c in b]
        ops.append(["newnum", [H.cj(c) for c in nb]]); tags.append("newnum")
      elif x < 0.95:
        ops.append(["setnum", rng.choice([-1, len(b) + 1]), H.cj(CQ(rng.choice(H.REALS[1:])))]); tags.append("new-delay")
    ops += [["run", len(b) + 4], ["imp", len(b) + 3], ["fr"]]
    yield {"b": [H.cj(c) for c in b], "a": [H.cj(g)], "u": H.cj(H.rnd_point(rng)), "ops": ops, "tags": tags}


def run_hist(c):
  from audiolazy import ZFilter, dft, Poly
  u = H.cqv(c["u"])
  out = []
  with exact_exponentials():
    filt = ZFilter([H.cqv(x) for x in c["b"]], [H.cqv(x) for x in c["a"]])
    for op in c["ops"]:
      if op[0] == "run":
        try:
          out.append(["run", H._vals(list(filt([u ** n for n in range(op[1])])))])
        except Exception as e:
          out.append(["run", None, type(e).__name__])
      elif op[0] == "imp":
        ir = d = None
        try:
          raw = list(filt([1] + [0] * (op[1] - 1) if op[1] else []))
          ir = H._vals(raw)
          d = H._vals(dft(raw, [UnitAngle(u)], normalize=False))
        except Exception as e:
          pass
        out.append(["imp", ir, d])
      elif op[0] == "fr":
        try:
          out.append(["fr", H.num_obs(filt.freq_response(UnitAngle(u)))])
        except Exception as e:
          out.append(["fr", ["exc", type(e).__name__]])
      elif op[0] == "setnum":
        filt.numpoly[op[1]] = H.cqv(op[2]); out.append(["edit"])
      elif op[0] == "setden":
        filt.denpoly[op[1]] = H.cqv(op[2]); out.append(["edit"])
      elif op[0] == "newnum":
        filt.numpoly = Poly([H.cqv(x) for x in op[1]]); out.append(["edit"])
  return {"obs": out}


def lit_hist(c, o):
  ops = []
  for op in c["ops"]:
    ops.append({"run": lambda: "HRun %s" % L.nat(op[1]), "imp": lambda: "HImp %s" % L.nat(op[1]), "fr": lambda: "HFr",
                "setnum": lambda: "HSetNum %s %s" % (zl(op[1]), H.cql(op[2])),
                "setden": lambda: "HSetDen %s %s" % (zl(op[1]), H.cql(op[2])),
                "newnum": lambda: "HNewNum %s" % H.cqlist(op[1])}[op[0]]())
  obs = []
  for x in o.get("obs", []):
    if x[0] == "run":
      obs.append("ORun %s" % H.olist_lit(x[1]))
    elif x[0] == "imp":
      obs.append("OImp %s %s" % (H.olist_lit(x[1]), H.olist_lit(x[2])))
    elif x[0] == "fr":
      obs.append("OFr Nan" if x[1][0] == "nan" else "OFr (Val %s)" % H.cql(x[1][1]) if x[1][0] == "val" else "OEdit")
    else:
      obs.append("OEdit")
  return "(HC %s %s %s %s %s)" % (H.cqlist(c["b"]), H.cqlist(c["a"]), H.cql(c["u"]), L.lst(ops), L.lst(obs))


def nontrivial_hist(c, o):
  kinds = [op[0] for op in c["ops"]]
  first_edit = next((i for i, k in enumerate(kinds) if k in ("setnum", "setden", "newnum")), None)
  return first_edit is not None and any(k in ("run", "imp") for k in kinds[:first_edit]) \
      and H.cqv(c["u"]) not in (CQ(1), CQ(-1))


# ------------------------------------------------------------------ lhist
def gen_lhist(tier, rng):
  n = 100 if tier == "quick" else 1200
  for i in range(n):
    u = H.rnd_point(rng)
    cas = rng.random() < 0.5
    items = []
    for _ in range(rng.choice([0, 1, 2, 2, 3])):
      t = H.rnd_tree(rng, 2, u, "cas" if cas else "par")
      while not _constructible(t):
        t = H.rnd_tree(rng, 2, u, "cas" if cas else "par")
      items.append(t)
    ops, size = [["fr"]], len(items)
    for _ in range(rng.randrange(1, 5)):
      x = rng.random()
      if x < 0.45:
        idx = rng.randrange(0, size + 1) if rng.random() < 0.1 else rng.randrange(0, max(size, 1))
        ops.append(["set", idx, H.rnd_tree(rng, 2, u, "cas" if cas else "par")])
      elif x < 0.8:
        ops.append(["append", H.rnd_tree(rng, 2, u, "cas" if cas else "par")]); size += 1
      else:
        ops.append(["pop"]); size = max(size - 1, 0)
      ops.append(["fr"])
    yield {"cas": cas, "items": items, "u": H.cj(u), "ops": ops, "tags": ["cas" if cas else "par", "n=%d" % len(items)]}


def run_lhist(c):
  from audiolazy import CascadeFilter, ParallelFilter
  out = []
  w = UnitAngle(H.cqv(c["u"]))
  with exact_exponentials():
    obj = (CascadeFilter if c["cas"] else ParallelFilter)(*[H.build_tree(t, H.cqv) for t in c["items"]])
    for op in c["ops"]:
      try:
        if op[0] == "fr":
          try:
            out.append(["fr", H.num_obs(obj.freq_response(w))])
          except Exception as e:
            out.append(["fr", ["exc", type(e).__name__]])
        elif op[0] == "set":
          obj[op[1]] = H.build_tree(op[2], H.cqv); out.append(["edit"])
        elif op[0] == "append":
          obj.append(H.build_tree(op[1], H.cqv)); out.append(["edit"])
        else:
          obj.pop(); out.append(["edit"])
      except IndexError:
        out.append(["index"])
      except ValueError:          # the new item cannot be constructed: nothing is edited
        out.append(["noitem"])
  return {"obs": out}


def _constructible(t):
  if t[0] == "lin":
    return any(x[0] or x[2] for x in t[2])
  return all(_constructible(s) for s in t[1])


def lit_lhist(c, o):
  # an item that cannot even be constructed (all-zero denominator) never reaches the list: such ops are dropped
  ops, obs = [], []
  for op, ob in zip(c["ops"], o.get("obs", [])):
    if ob[0] == "noitem":
      continue
    ops.append({"fr": lambda: "LFr", "set": lambda: "LSet %s %s" % (L.nat(op[1]), H.tree_lit(op[2])),
                "append": lambda: "LAppend %s" % H.tree_lit(op[1]), "pop": lambda: "LPop"}[op[0]]())
    obs.append("BLFr %s" % H.oresp_lit(ob[1]) if ob[0] == "fr" else "BLEdit" if ob[0] == "edit" else "BLIndexError")
  if len(o.get("obs", [])) != len(c["ops"]):
    obs.append("BLIndexError")
  return "(LC %s %s %s %s %s)" % (L.boolean(c["cas"]), L.lst([H.tree_lit(t) for t in c["items"]]), H.cql(c["u"]),
                                  L.lst(ops), L.lst(obs))


def nontrivial_lhist(c, o):
  return sum(1 for op in c["ops"] if op[0] in ("set", "append")) >= 1 and H.cqv(c["u"]) not in (CQ(1), CQ(-1))


# ------------------------------------------------------------------ dhist
def gen_dhist(tier, rng):
  n = 80 if tier == "quick" else 800
  for i in range(n):
    freqs = [H.rnd_point(rng) for _ in range(rng.randrange(1, 4))]
    if rng.random() < 0.4:
      freqs[0] = rng.choice([CQ(1), CQ(-1)])
    lens = rng.choice([[1, 4], [2, 5, 3], [0, 3, 6], [5, 2, 7], [3, 3, 4]])
    mode = "float0" if rng.random() < 0.2 else "exact"
    calls = []
    for ln in lens:
      blk = [H.rnd_coeff(rng, p_zero=0.1, p_cplx=0.0 if mode == "float0" else 0.3) for _ in range(ln)]
      if blk and blk[-1] == CQ(0):
        blk[-1] = CQ(Fraction(3, 2))
      calls.append([[H.cj(x) for x in blk], (rng.random() < 0.4) and (mode == "exact" or ln in (1, 2, 4))])
    if mode == "float0":
      freqs = [CQ(1)] * len(freqs)
    yield {"freqs": [H.cj(x) for x in freqs], "calls": calls, "mode": mode,
           "tags": [mode, "grow" if lens[0] < lens[-1] else "shrink"]}


def run_dhist(c):
  from audiolazy import dft
  ws = [UnitAngle(H.cqv(u)) for u in c["freqs"]] if c["mode"] == "exact" else [0.0 for _ in c["freqs"]]
  out = []
  with exact_exponentials():
    for blk, norm in c["calls"]:
      data = [H.cqv(x) for x in blk] if c["mode"] == "exact" else [H.as_float(x) for x in blk]
      try:
        out.append(H._vals(dft(data, ws, normalize=norm)))
      except Exception as e:
        out.append(None)
  return {"obs": out}


def lit_dhist(c, o):
  obs = o.get("obs", [None] * len(c["calls"]))
  calls = ["(%s, %s, %s)" % (H.cqlist(blk), L.boolean(norm), H.olist_lit(ob)) for (blk, norm), ob in zip(c["calls"], obs)]
  return "(DH %s %s)" % (H.cqlist(c["freqs"]), L.lst(calls))
