# -*- coding: utf-8 -*-
"""
Symbolic elements for C01: class Sym, whose dunders build terms of the free term algebra
(coq/theories/C01/Check.v, type `term`), plus printers for terms and concrete values.

Terms (JSON-able nested lists):
  ["v", s, i]            TVar s i       i-th symbolic element of source s
  ["c", z]               TCst z         a Python int
  ["l", text]            TLit text      a concrete value in canonical text form
  ["o2", f, a, b]        TOp2 f a b     operator.f(a, b)
  ["o1", f, a]           TOp1 f a       operator.f(a) / abs(a)
  ["at", n, a]           TAttr n a      getattr(a, n)
  ["call", f, [args], [[k, v], ...]]    TCall
  ["opaque"]             TOpaque
"""
import operator
from fractions import Fraction
from vlib import coqlit as L

# The harness's own operator table (independent of audiolazy.OpMethod and of Spec.v):
# dunder -> (operator-module function name, reflected?, arity)
BINARY = ["add", "sub", "mul", "truediv", "floordiv", "mod", "pow", "rshift", "lshift",
          "and", "or", "xor", "matmul"]
COMPARE = ["lt", "le", "eq", "ne", "gt", "ge"]
UNARY = ["pos", "neg", "invert"]
MIRROR = {"lt": "gt", "gt": "lt", "le": "ge", "ge": "le", "eq": "eq", "ne": "ne"}
DUNDERS = {}
for _n in BINARY:
  DUNDERS["__%s__" % _n] = ("__%s__" % _n, False, 2)
  DUNDERS["__r%s__" % _n] = ("__%s__" % _n, True, 2)
for _n in COMPARE:
  DUNDERS["__%s__" % _n] = ("__%s__" % _n, False, 2)
for _n in UNARY:
  DUNDERS["__%s__" % _n] = ("__%s__" % _n, False, 1)
assert len(DUNDERS) == 35


def lift(x):
  """Term of an element-level operand, or None when x is not an element."""
  if isinstance(x, Sym):
    return x.t
  if isinstance(x, bool):
    return None
  if isinstance(x, int):
    return ["c", x]
  return None


class Sym(object):
  __slots__ = ("t",)

  def __init__(self, t):
    object.__setattr__(self, "t", t)

  @staticmethod
  def var(s, i):
    return Sym(["v", s, i])

  def __setattr__(self, k, v):
    raise AttributeError("Sym is immutable")

  def __hash__(self):
    return hash(repr(self.t))

  def __repr__(self):
    return "Sym(%r)" % (self.t,)

  def __bool__(self):
    raise TypeError("a symbolic element has no truth value")

  def __abs__(self):
    return Sym(["o1", "abs", self.t])

  def __getattr__(self, name):
    if name.startswith("__") and name.endswith("__"):
      raise AttributeError(name)
    return Sym(["at", name, self.t])

  def __call__(self, *args, **kwargs):
    return Sym(["call", self.t, [lift_any(a) for a in args], [[k, lift_any(v)] for k, v in kwargs.items()]])


def _mk_bin(fname, rev):
  def dunder(self, other, *extra):
    if isinstance(other, Boom):
      raise ZeroDivisionError("boom")
    o = lift(other)
    if o is None or extra:
      return NotImplemented
    return Sym(["o2", fname, o, self.t] if rev else ["o2", fname, self.t, o])
  return dunder


def _mk_un(fname):
  def dunder(self):
    return Sym(["o1", fname, self.t])
  return dunder


for _d, (_f, _rev, _ar) in DUNDERS.items():
  setattr(Sym, _d, _mk_bin(_f, _rev) if _ar == 2 else _mk_un(_f))


class Boom(Sym):
  """A symbolic element (term TVar "boom" i) for which EVERY operator raises ZeroDivisionError, on either
  side (being a subclass of Sym, its reflected methods are tried first when it is the right operand)."""
  __slots__ = ()


def _mk_boom(*unused):
  def dunder(self, *args):
    raise ZeroDivisionError("boom")
  return dunder


for _d in DUNDERS:
  setattr(Boom, _d, _mk_boom())
Boom.__abs__ = _mk_boom()


def sym_eq(a, b):
  return isinstance(a, Sym) and isinstance(b, Sym) and a.t == b.t


def lift_any(x):
  """Term of anything a symbolic function may receive."""
  t = lift(x)
  if t is not None:
    return t
  if isinstance(x, tuple):
    return ["call", ["v", "tuple", 0], [lift_any(y) for y in x], []]
  try:
    return cval(x)
  except TypeError:
    return ["opaque"]


def symfunc(fname):
  """A function whose result is the term of its own application."""
  def f(*args, **kwargs):
    return Sym(["call", ["v", fname, 0], [lift_any(a) for a in args],
                [[k, lift_any(v)] for k, v in kwargs.items()]])
  f.__name__ = fname
  return f


# ------------------------------------------------------------------ concrete values
def fhex(x):
  if x != x:
    return "nan"
  return float(x).hex()


def enc(v):
  """Canonical text of a concrete value: type tag + exact contents (floats as hex strings)."""
  if isinstance(v, bool):
    return "b:%s" % v
  if isinstance(v, int):
    return "i:%d" % v
  if isinstance(v, float):
    return "f:" + fhex(v)
  if isinstance(v, complex):
    return "z:%s,%s" % (fhex(v.real), fhex(v.imag))
  if isinstance(v, Fraction):
    return "q:%d/%d" % (v.numerator, v.denominator)
  if isinstance(v, str):
    if '"' in v or "\\" in v or any(not (32 <= ord(ch) < 127) for ch in v):
      raise TypeError("string not encodable: %r" % v)
    return "s:" + v
  if isinstance(v, tuple):
    return "t:(" + ";".join(enc(x) for x in v) + ")"
  if v is None:
    return "n:None"
  raise TypeError("no canonical text for %r" % (type(v),))


def cval(v):
  """Term of a concrete value (ints are TCst, everything else a tagged literal)."""
  if isinstance(v, Sym):
    return v.t
  if isinstance(v, int) and not isinstance(v, bool):
    return ["c", v]
  return ["l", enc(v)]


def apply_safely(fn, *args, **kwargs):
  """Value term of fn(*args), or the literal that stands for the exception it raises."""
  try:
    return cval(fn(*args, **kwargs))
  except Exception as e:
    return ["l", "raise:" + type(e).__name__]


# ------------------------------------------------------------------ Coq literals
def term_lit(t):
  k = t[0]
  if k == "v":
    return "(TVar %s %s)" % (L.string(t[1]), L.nat(t[2]))
  if k == "c":
    return "(TCst %s)" % L.z(t[1])
  if k == "l":
    return "(TLit %s)" % L.string(t[1])
  if k == "o2":
    return "(TOp2 %s %s %s)" % (L.string(t[1]), term_lit(t[2]), term_lit(t[3]))
  if k == "o1":
    return "(TOp1 %s %s)" % (L.string(t[1]), term_lit(t[2]))
  if k == "at":
    return "(TAttr %s %s)" % (L.string(t[1]), term_lit(t[2]))
  if k == "call":
    return "(TCall %s %s %s %s)" % (term_lit(t[1]), L.lst([term_lit(a) for a in t[2]]),
                                    L.lst([L.string(kv[0]) for kv in t[3]]),
                                    L.lst([term_lit(kv[1]) for kv in t[3]]))
  if k == "opaque":
    return "TOpaque"
  raise ValueError(t)


def seq_lit(src):
  """src = {"fin": [terms]} or {"cyc": [terms]} -> lseq term literal."""
  if "fin" in src:
    return "(Fin %s)" % L.lst([term_lit(t) for t in src["fin"]])
  assert len(src["cyc"]) > 0
  return "(Inf (cyc %s TOpaque))" % L.lst([term_lit(t) for t in src["cyc"]])


def tbl_lit(tbl):
  return L.lst(["(%s, %s)" % (term_lit(k), term_lit(v)) for k, v in tbl])


def to_sym(t):
  """Python object for an element term: symbolic terms become Sym, TCst stays an int."""
  if t[0] == "c":
    return t[1]
  if t[0] == "v" and t[1] == "boom":
    return Boom(t)
  return Sym(t)
