# -*- coding: utf-8 -*-
"""C12 - freq_response / dft / FIR filtering against Model_C12 (exact, Gaussian rationals) and
against the real-number specification (checked enclosures by the Interval tactic)."""
import itertools, collections, types
from fractions import Fraction
from vlib.framework import Family
from vlib import coqlit as L
from C12_util import CQ, UnitAngle, exact_exponentials, unit_point, _parts
import C12_encl
import vlib.framework as _FW
_FW.CASES_PER_FILE = 150     # this property's families are evaluated one after the other: smaller case files
                             # (in this check process only) let the 16 coqc workers share each family

PID = "C12"
PROP_FILES = ["Prop"]
EXTRA_COQ_DIRS = ["C04", "C07"]   # ProofsC04.v / ProofsC07.v: this model is the same function as theirs on rationals
ALLOWED_AXIOMS = [r"ClassicalDedekindReals\.sig_forall_dec$", r"ClassicalDedekindReals\.sig_not_dec$",
                  r"Classical_Prop\.classic$", r"FunctionalExtensionality\.functional_extensionality_dep$"]
RULE = ("exact families: the real freq_response / dft / LinearFilter.__call__ run on Gaussian rationals (class CQ), "
        "frequencies given as rational points of the unit circle through patched complex exponentials (only the "
        "libm call is replaced), or on floats at w = 0 where every operation is exact; filters of order <= 6 with "
        "zero coefficients (merged Horner steps), leading zeros in the denominator (Laurent path), all-zero "
        "denominators, denominators vanishing at the probed frequency (nan), cascades and parallel banks of 0-3 "
        "sections, nested cascades / banks of depth <= 3 with mixed and same-kind nesting (family tree); exhaustive over coefficients {-1,0,1} for short filters. non-trivial = at least two non-zero "
        "denominator or three numerator coefficients at a frequency other than 0 and pi. enclosure family "
        "(extra): float runs, see C12_encl.RULE")
EXHAUSTIVE = {"quick": False, "thorough": False}
trusted_base = [
  "exact families: only the complex exponential (lazy_filters.complex_exp, lazy_analysis.cexp) is replaced, by an "
  "exact one on rational points of the unit circle (harness/C12_util.py exact_exp); every other line of the library "
  "runs unchanged on Gaussian rationals (class CQ absorbs int/float/complex operands exactly)",
  "the theorems are about real / complex numbers (Coq R, Coquelicot C) and, generically, any field with an exponential "
  "family; the float evaluation is tied only through the per-sample enclosures below and the exact float cases at w = 0",
] + list(C12_encl.TRUSTED)
ASSUMPTIONS = ["CPython complex arithmetic on exact operands is exact when the result is representable",
               "cmath.exp(-1j*0.0) == 1 (w = 0 float cases)"]


# ------------------------------------------------------------------ encoding
def cj(x):
  """CQ -> JSON [n1, d1, n2, d2]"""
  return [x.re.numerator, x.re.denominator, x.im.numerator, x.im.denominator]


def cqv(j):
  return CQ(Fraction(j[0], j[1]), Fraction(j[2], j[3]))


def cql(j):
  return "(cq (%d) %d (%d) %d)" % tuple(j)


def cqlist(js):
  return L.lst([cql(j) for j in js])


def num_obs(r):
  """observation of one response value"""
  if isinstance(r, (float, complex)) and r != r:
    return ["nan"]
  p = _parts(r)
  if p is None or p == "nan":
    return ["odd", repr(r)[:60]]
  return ["val", cj(CQ(*p))]


def oresp_lit(o):
  if o[0] == "nan":
    return "ONan"
  if o[0] == "val":
    return "(OVal %s)" % cql(o[1])
  return "OExc"


def olist_lit(vals):
  if vals is None:
    return "None"
  return "(Some %s)" % cqlist(vals)


def is_dyadic_real(j, maxden=1 << 30):
  return j[2] == 0 and j[1] <= maxden and (j[1] & (j[1] - 1)) == 0


def as_float(j):
  return float(Fraction(j[0], j[1]))


# ------------------------------------------------------------------ pools
REALS = [Fraction(0), Fraction(1), Fraction(-1), Fraction(1, 2), Fraction(-1, 2), Fraction(2), Fraction(3, 2),
         Fraction(-3, 4), Fraction(1, 4), Fraction(-2), Fraction(5, 8), Fraction(-7, 4), Fraction(3), Fraction(4)]


def rnd_coeff(rng, p_zero=0.25, p_cplx=0.1):
  x = rng.random()
  if x < p_zero:
    return CQ(0)
  if x < p_zero + p_cplx:
    return CQ(rng.choice(REALS), rng.choice(REALS))
  return CQ(rng.choice(REALS[1:]))


def rnd_list(rng, maxlen=7, minlen=0, **kw):
  return [rnd_coeff(rng, **kw) for _ in range(rng.randrange(minlen, maxlen + 1))]


SPECIAL_POINTS = [CQ(1), CQ(-1), CQ(0, 1), CQ(0, -1)]


def rnd_point(rng):
  if rng.random() < 0.2:
    return rng.choice(SPECIAL_POINTS)
  q = rng.randrange(1, 8)
  p = rng.randrange(-3 * q, 3 * q + 1)
  return unit_point(p, q)


def vanishing_den(rng, u):
  """real-coefficient denominator with a root at conj(u) = e^{-jw}: 1 - 2 Re(u) x + x^2, times extra"""
  base = [CQ(1), CQ(-2 * u.re), CQ(1)]
  if rng.random() < 0.5:
    base = [CQ(1), -u]              # complex coefficient: 1 - u x
  if rng.random() < 0.4:            # multiply by (1 + c x)
    c = rng.choice(REALS[1:])
    ext = base + [CQ(0)]
    base = [ext[i] + (CQ(c) * ext[i - 1] if i else CQ(0)) for i in range(len(ext))]
  return base


# ------------------------------------------------------------------ family fr
def gen_fr(tier, rng):
  # exhaustive: coefficients in {-1,0,1}
  pts = [CQ(1), unit_point(1, 2), CQ(-1)]
  small = [CQ(-1), CQ(0), CQ(1)]
  maxb, maxa = (2, 3) if tier == "quick" else (3, 3)
  for lb in range(0, maxb + 1):
    for b in itertools.product(small, repeat=lb):
      for la in range(0, maxa + 1):
        for a in itertools.product(small, repeat=la):
          for u in pts:
            yield {"kind": "single", "secs": [[[cj(x) for x in b], [cj(x) for x in a]]], "u": cj(u),
                   "mode": "exact", "tags": ["exh", "single"]}
  n = 500 if tier == "quick" else 6000
  for i in range(n):
    kind = rng.choice(["single", "single", "cascade", "parallel"])
    nsec = 1 if kind == "single" else rng.choice([0, 1, 2, 2, 3, 3])
    u = rnd_point(rng)
    mode = "exact"
    tags = ["random", kind]
    secs = []
    for _ in range(nsec):
      b = rnd_list(rng)
      x = rng.random()
      if x < 0.04:
        a = [CQ(0)] * rng.randrange(0, 3); tags.append("zero-den")
      elif x < 0.16:
        a = vanishing_den(rng, u); tags.append("vanishing-den")
      elif x < 0.3:
        a = [CQ(0)] * rng.randrange(1, 3) + rnd_list(rng, 5, 1, p_zero=0.1); tags.append("shifted-den")
      else:
        a = rnd_list(rng, 7, 1)
      secs.append([[cj(c) for c in b], [cj(c) for c in a]])
    if rng.random() < 0.15:
      # float run at w = 0: dyadic real coefficients, exactly representable quotient
      secs2, ok = [], True
      for b, a in secs:
        b = [c if is_dyadic_real(c) else cj(CQ(1)) for c in b]
        a = [c if is_dyadic_real(c) else cj(CQ(-1)) for c in a]
        sa = sum(Fraction(c[0], c[1]) for c in a)
        sb = sum(Fraction(c[0], c[1]) for c in b)
        if sa != 0:
          qd = (sb / sa).denominator
          ok = ok and (qd & (qd - 1)) == 0 and qd < (1 << 20)
        secs2.append([b, a])
      if ok:
        secs, mode, u = secs2, rng.choice(["float0", "int0"]), CQ(1)
        tags.append(mode)
    yield {"kind": kind, "secs": secs, "u": cj(u), "mode": mode, "tags": tags}


def build_filter(c, conv):
  from audiolazy import ZFilter, CascadeFilter, ParallelFilter
  fs = [ZFilter([conv(x) for x in b], [conv(x) for x in a]) for b, a in c["secs"]]
  if c["kind"] == "single":
    return fs[0]
  return (CascadeFilter if c["kind"] == "cascade" else ParallelFilter)(*fs)


def run_fr(c):
  try:
    if c["mode"] == "exact":
      with exact_exponentials():
        r = build_filter(c, cqv).freq_response(UnitAngle(cqv(c["u"])))
    else:
      r = build_filter(c, as_float).freq_response(0.0 if c["mode"] == "float0" else 0)
  except Exception as e:
    return {"r": ["exc", type(e).__name__]}
  return {"r": num_obs(r)}


def secs_lit(secs):
  return L.lst(["(%s, %s)" % (cqlist(b), cqlist(a)) for b, a in secs])


def fexpr_lit(c):
  if c["kind"] == "single":
    b, a = c["secs"][0]
    return "(FSingle %s %s)" % (cqlist(b), cqlist(a))
  return "(%s %s)" % ("FCascade" if c["kind"] == "cascade" else "FParallel", secs_lit(c["secs"]))


def lit_fr(c, o):
  r = o.get("r", ["exc", o.get("raise", "?")])
  return "(FRC %s %s %s)" % (fexpr_lit(c), cql(c["u"]), oresp_lit(r))


def nontrivial_fr(c, o):
  if cqv(c["u"]) in (CQ(1), CQ(-1)) or not c["secs"]:
    return False
  nz = lambda l: sum(1 for x in l if x[0] or x[2])
  return any(nz(a) >= 2 or nz(b) >= 3 for b, a in c["secs"])


# ------------------------------------------------------------------ family tree (nested lists)
def rnd_leaf(rng, u):
  b = rnd_list(rng, 4, 0)
  x = rng.random()
  if x < 0.03:
    a = [CQ(0)] * rng.randrange(0, 2)
  elif x < 0.1:
    a = vanishing_den(rng, u)
  elif x < 0.2:
    a = [CQ(0)] + rnd_list(rng, 3, 1, p_zero=0.1)
  else:
    a = rnd_list(rng, 4, 1)
  return ["lin", [cj(c) for c in b], [cj(c) for c in a]]


def rnd_tree(rng, depth, u, kind=None):
  if depth == 0 or (kind is None and rng.random() < 0.1) or (kind is not None and rng.random() < 0.45):
    return rnd_leaf(rng, u)
  k = rng.choice(["cas", "par"])
  if kind is not None and rng.random() < 0.7:
    k = "par" if kind == "cas" else "cas"        # mixed nesting is the interesting case
  n = rng.choice([0, 1, 2, 2, 2, 3, 3]) if rng.random() < 0.15 else rng.choice([2, 2, 3])
  return [k, [rnd_tree(rng, depth - 1, u, k) for _ in range(n)]]


def tree_depth(t):
  return 0 if t[0] in ("lin", "num") else 1 + max([tree_depth(c) for c in t[1]] + [0])


def tree_mixed(t, parent=None):
  """a list of the other kind with at least two items directly inside a list"""
  if t[0] in ("lin", "num"):
    return False
  here = parent is not None and parent != t[0] and len(t[1]) >= 2
  return here or any(tree_mixed(c, t[0]) for c in t[1])


def coincide_tree(rng, leaf, scalar):
  """cascades / banks with COINCIDENCES: the same filter built twice (equal but distinct objects), one object held
  several times, equal members at different nesting depths, scalar members (cast to LinearFilter by the list),
  lists built by repetition / concatenation / from an iterable, copy-constructed leaves.
  leaf() -> [b, a] coefficient lists (JSON form), scalar() -> one coefficient (JSON form)"""
  def lin(ba, **opts):
    return ["lin", list(ba[0]), list(ba[1]), dict(opts)]
  base, other = leaf(), leaf()
  outer = rng.choice(["cas", "par"])
  inner = rng.choice(["cas", "par"])
  k = rng.choice([2, 2, 3, 4])
  mode = rng.choice(["equal-distinct", "same-object", "both", "depth", "scalars", "times", "cast", "depth-shared"])
  if mode == "equal-distinct":
    kids = [lin(base) for _ in range(k)] + ([lin(other)] if rng.random() < 0.5 else [])
  elif mode == "same-object":
    kids = [lin(base, sid=0) for _ in range(k)] + ([lin(other)] if rng.random() < 0.5 else [])
  elif mode == "both":
    kids = [lin(base, sid=0), lin(base), lin(base, sid=0), lin(other), lin(base)]
  elif mode == "depth":
    kids = [lin(base), [inner, [lin(base), lin(other), lin(base)]], lin(base)]
  elif mode == "depth-shared":
    kids = [lin(base, sid=0), [inner, [lin(base, sid=0), [outer, [lin(base, sid=0), lin(other)]]]], lin(other, sid=1),
            lin(other, sid=1)]
  elif mode == "scalars":
    c = scalar()
    kids = [["num", c], lin(base), ["num", c]] + ([["num", scalar()]] if rng.random() < 0.4 else [])
  elif mode == "cast":
    kids = [lin(base, via="cast"), lin(base, via="cast", sid=0), lin(base, sid=0)]
  else:
    return [outer, [lin(base), lin(other)], {"style": "times", "n": k}], mode
  rng.shuffle(kids)
  return [outer, kids, {"style": rng.choice(["star", "star", "iter", "concat"])}], mode


def gen_tree(tier, rng):
  A = ["lin", [cj(CQ(1)), cj(CQ(Fraction(1, 2)))], [cj(CQ(1)), cj(CQ(Fraction(-1, 4)))]]
  B = ["lin", [cj(CQ(Fraction(1, 4))), cj(CQ(0)), cj(CQ(-1))], [cj(CQ(1)), cj(CQ(Fraction(1, 2))), cj(CQ(Fraction(1, 8)))]]
  Cc = ["lin", [cj(CQ(2)), cj(CQ(Fraction(-3, 4)))], [cj(CQ(1)), cj(CQ(Fraction(-1, 2)))]]
  for u in [CQ(1), unit_point(1, 2), unit_point(-2, 3), CQ(-1)]:
    for o in ("cas", "par"):
      for i in ("cas", "par"):
        shapes = [[o, [[i, [A, B]], Cc]], [o, [A, [i, [B, Cc]]]], [o, [[i, [A, B]], [i, [Cc, A]]]],
                  [o, [[i, [[o, [A, B]], Cc]], B]], [o, [[i, [A]], B]], [o, [[i, []], B]],
                  [o, [[i, [[i, [A, B]], [o, [B, Cc]]]]]]]
        for t in shapes:
          yield {"tree": t, "u": cj(u), "tags": ["exh", "outer=%s" % o, "inner=%s" % i]}
  for _ in range(120 if tier == "quick" else 1500):
    u = rnd_point(rng)
    def leaf():
      t = rnd_leaf(rng, u)
      while not any(x[0] or x[2] for x in t[2]):
        t = rnd_leaf(rng, u)
      return [t[1], t[2]]
    t, mode = coincide_tree(rng, leaf, lambda: cj(rnd_coeff(rng, p_zero=0.1)))
    yield {"tree": t, "u": cj(u), "tags": ["coincide", mode]}
  n = 150 if tier == "quick" else 3000
  for _ in range(n):
    u = rnd_point(rng)
    t = rnd_tree(rng, 3, u)
    yield {"tree": t, "u": cj(u), "tags": ["random", "depth=%d" % tree_depth(t), "mixed" if tree_mixed(t) else "unmixed"]}


def tree_norm(t, one):
  """plain value of a tree description: scalar members are LinearFilter(c) = c / 1 (FilterList.callables casts
  what is not callable), a list written with style "times" holds its items n times; sharing marks are dropped"""
  if t[0] == "num":
    return ["lin", [t[1]], [one]]
  if t[0] == "lin":
    return ["lin", t[1], t[2]]
  opts = t[2] if len(t) > 2 else {}
  kids = [tree_norm(c, one) for c in t[1]]
  return [t[0], kids * opts.get("n", 1) if opts.get("style") == "times" else kids]


def build_tree(t, conv, memo=None):
  """builds the Python object.  Options: {"sid": k} on a leaf - leaves with the same sid are ONE object (any other two
  leaves are separately built, even when equal); {"via": "cast"} - ZFilter(ZFilter(b, a)) (copy constructor);
  list styles "star" cls(*items), "iter" cls([items]), "concat" cls(*head) + cls(*tail), "times" cls(*items) * n"""
  from audiolazy import ZFilter, CascadeFilter, ParallelFilter
  memo = {} if memo is None else memo
  if t[0] == "num":
    return conv(t[1])
  if t[0] == "lin":
    opts = t[3] if len(t) > 3 else {}
    if "sid" in opts and opts["sid"] in memo:
      return memo[opts["sid"]]
    f = ZFilter([conv(x) for x in t[1]], [conv(x) for x in t[2]])
    if opts.get("via") == "cast":
      f = ZFilter(f)
    if "sid" in opts:
      memo[opts["sid"]] = f
    return f
  cls = CascadeFilter if t[0] == "cas" else ParallelFilter
  opts = t[2] if len(t) > 2 else {}
  items = [build_tree(c, conv, memo) for c in t[1]]
  style = opts.get("style", "star")
  if style == "iter":
    return cls(items)
  if style == "concat":
    h = len(items) // 2
    return cls(*items[:h]) + cls(*items[h:])
  if style == "times":
    return cls(*items) * opts.get("n", 1)
  return cls(*items)


def run_tree(c):
  try:
    with exact_exponentials():
      r = build_tree(c["tree"], cqv).freq_response(UnitAngle(cqv(c["u"])))
  except Exception as e:
    return {"r": ["exc", type(e).__name__]}
  return {"r": num_obs(r)}


def tree_lit(t):
  t = tree_norm(t, cj(CQ(1)))
  if t[0] == "lin":
    return "(TLin %s %s)" % (cqlist(t[1]), cqlist(t[2]))
  return "(%s %s)" % ("TCas" if t[0] == "cas" else "TPar", L.lst([tree_lit(c) for c in t[1]]))


def lit_tree(c, o):
  r = o.get("r", ["exc", o.get("raise", "?")])
  return "(TC %s %s %s)" % (tree_lit(c["tree"]), cql(c["u"]), oresp_lit(r))


def nontrivial_tree(c, o):
  return ("coincide" in c["tags"] or tree_mixed(c["tree"])) and cqv(c["u"]) not in (CQ(1), CQ(-1))


# ------------------------------------------------------------------ family kind
KINDS = ["IScalar", "IList", "ITuple", "IDeque", "IStream", "IGen", "IMap", "IListIter"]


def gen_kind(tier, rng):
  n = 12 if tier == "quick" else 60
  for i in range(n):
    kind = rng.choice(["single", "cascade", "parallel"])
    nsec = 1 if kind == "single" else rng.choice([1, 2, 3])
    secs = []
    for _ in range(nsec):
      b = [cj(CQ(rng.choice(REALS))) for _ in range(rng.randrange(1, 6))]
      a = [cj(CQ(1))] + [cj(CQ(rng.choice(REALS) / 4)) for _ in range(rng.randrange(0, 5))]
      if rng.random() < 0.3:
        a = [cj(CQ(1)), cj(CQ(-1))]     # nan at w = 0
      secs.append([b, a])
    for k in KINDS:
      nf = 1 if k == "IScalar" else rng.randrange(0, 5)
      freqs = []
      for _ in range(nf):
        x = rng.random()
        if x < 0.25:
          freqs.append([0, 1])
        else:
          freqs.append([rng.randrange(0, 402), 64])   # dyadic floats in [0, 2 pi)
      yield {"kind": kind, "secs": secs, "ikind": k, "freqs": freqs, "tags": [k, kind]}


def run_kind(c):
  from audiolazy import Stream
  filt = build_filter(c, as_float)
  ws = [float(Fraction(n, d)) for n, d in c["freqs"]]
  each = [num_obs(filt.freq_response(w)) for w in ws]
  k = c["ikind"]
  arg = {"IScalar": lambda: ws[0], "IList": lambda: list(ws), "ITuple": lambda: tuple(ws),
         "IDeque": lambda: collections.deque(ws), "IStream": lambda: Stream(ws),
         "IGen": lambda: (w for w in ws), "IMap": lambda: map(float, ws), "IListIter": lambda: iter(ws)}[k]()
  try:
    r = filt.freq_response(arg)
    if isinstance(r, Stream):
      ok, vals = "OStream", list(r)
    elif isinstance(r, types.GeneratorType):
      ok, vals = "OGen", list(r)
    elif type(r) is list:
      ok, vals = "OList", r
    elif type(r) is tuple:
      ok, vals = "OTuple", list(r)
    elif type(r) is collections.deque:
      ok, vals = "ODeque", list(r)
    elif isinstance(r, (float, complex)):
      ok, vals = "OScalar", [r]
    else:
      return {"each": each, "okind": "ORaise", "vals": [], "odd": repr(type(r))}
  except TypeError as e:
    return {"each": each, "okind": "ORaise", "vals": [], "exc": "TypeError"}
  return {"each": each, "okind": ok, "vals": [num_obs(v) for v in vals]}


def lit_kind(c, o):
  if "each" not in o:
    return "(KC %s [] ORaise [OExc])" % c["ikind"]
  return "(KC %s %s %s %s)" % (c["ikind"], L.lst([oresp_lit(x) for x in o["each"]]), o["okind"],
                               L.lst([oresp_lit(x) for x in o["vals"]]))


# ------------------------------------------------------------------ family dft
def gen_dft(tier, rng):
  # exhaustive small blocks
  small = [CQ(0), CQ(1), CQ(-1, 1)]
  for n in range(0, 4):
    for blk in itertools.product(small, repeat=n):
      for norm in (False, True):
        for fr_ in ([], [CQ(1)], [unit_point(1, 2), CQ(-1)]):
          yield {"blk": [cj(x) for x in blk], "freqs": [cj(x) for x in fr_], "norm": norm, "mode": "exact",
                 "tags": ["exh", "len=%d" % n]}
  n = 250 if tier == "quick" else 3000
  for i in range(n):
    blk = rnd_list(rng, 10, 0, p_zero=0.15, p_cplx=0.3)
    freqs = [rnd_point(rng) for _ in range(rng.randrange(0, 4))]
    mode, tags = "exact", ["random", "len=%d" % min(len(blk), 5)]
    norm = rng.random() < 0.5
    if rng.random() < 0.12:
      # float run at w = 0 (every product and sum exact); normalised only for lengths 1,2,4,8
      blk = [c if is_dyadic_real(cj(c)) else CQ(1) for c in blk]
      freqs = [CQ(1)] * len(freqs)
      mode = "float0"
      norm = norm and len(blk) in (0, 1, 2, 4, 8)
      tags.append("float0")
    yield {"blk": [cj(x) for x in blk], "freqs": [cj(x) for x in freqs], "norm": norm, "mode": mode, "tags": tags}


def run_dft(c):
  from audiolazy import dft
  try:
    if c["mode"] == "exact":
      with exact_exponentials():
        r = dft([cqv(x) for x in c["blk"]], [UnitAngle(cqv(u)) for u in c["freqs"]], normalize=c["norm"])
    else:
      r = dft([as_float(x) for x in c["blk"]], [0.0 for u in c["freqs"]], normalize=c["norm"])
    if type(r) is not list:
      return {"exc": "not a list: %r" % type(r)}
    out = []
    for v in r:
      p = _parts(v)
      if p is None or p == "nan":
        return {"exc": "odd value %r" % (v,)}
      out.append(cj(CQ(*p)))
    return {"vals": out}
  except Exception as e:
    return {"exc": type(e).__name__}


def lit_dft(c, o):
  return "(DC %s %s %s %s)" % (cqlist(c["blk"]), cqlist(c["freqs"]), L.boolean(c["norm"]), olist_lit(o.get("vals")))


def nontrivial_dft(c, o):
  return len(c["blk"]) >= 3 and any(cqv(u) not in (CQ(1), CQ(-1)) for u in c["freqs"])


# ------------------------------------------------------------------ family fir
def gen_fir(tier, rng):
  n = 220 if tier == "quick" else 3000
  for i in range(n):
    b = rnd_list(rng, 7, 0, p_zero=0.3, p_cplx=0.15)
    g = rng.choice([CQ(1), CQ(1), CQ(-1), CQ(2), CQ(Fraction(-1, 2)), CQ(Fraction(3, 4)), CQ(1, 1)])
    tags = ["random"]
    x = rng.random()
    if x < 0.1:
      a = [CQ(0), g]; b = [CQ(0)] + b; tags.append("shifted")
    elif x < 0.15:
      a = [CQ(0), g]; tags.append("maybe-noncausal")
    elif x < 0.18:
      a = [CQ(0)] * rng.randrange(0, 2); tags.append("zero-den")
    else:
      a = [g]
    ln = rng.randrange(0, 14)
    iln = rng.choice([0, 1, 2, len(b), len(b) + 1, len(b) + 3])
    if g == CQ(1): tags.append("gain=1")
    elif g == CQ(-1): tags.append("gain=-1")
    yield {"b": [cj(x) for x in b], "a": [cj(x) for x in a], "u": cj(rnd_point(rng)), "len": ln, "ilen": iln,
           "tags": tags}


def _vals(seq):
  out = []
  for v in seq:
    p = _parts(v)
    if p is None or p == "nan":
      raise ValueError("odd value %r" % (v,))
    out.append(cj(CQ(*p)))
  return out


def run_fir(c):
  from audiolazy import ZFilter, dft
  o = {"ys": None, "ir": None, "dft": None}
  u = cqv(c["u"])
  with exact_exponentials():
    try:
      filt = ZFilter([cqv(x) for x in c["b"]], [cqv(x) for x in c["a"]])
    except Exception as e:
      o["exc"] = type(e).__name__
      return o
    try:
      o["ys"] = _vals(list(filt([u ** n for n in range(c["len"])])))
    except Exception as e:
      o["exc_ys"] = type(e).__name__
    try:
      ir = list(filt([1] + [0] * (c["ilen"] - 1) if c["ilen"] else []))
      o["ir"] = _vals(ir)
      try:
        o["dft"] = _vals(dft(ir, [UnitAngle(u)], normalize=False))
      except Exception as e:
        o["exc_dft"] = type(e).__name__
    except Exception as e:
      o["exc_ir"] = type(e).__name__
  return o


def lit_fir(c, o):
  return "(FC %s %s %s %s %s %s %s %s)" % (cqlist(c["b"]), cqlist(c["a"]), cql(c["u"]), L.nat(c["len"]),
                                         L.nat(c["ilen"]), olist_lit(o.get("ys")), olist_lit(o.get("ir")),
                                         olist_lit(o.get("dft")))


def nontrivial_fir(c, o):
  nz = sum(1 for x in c["b"] if x[0] or x[2])
  return nz >= 2 and o.get("ys") is not None and c["len"] > len(c["b"]) and cqv(c["u"]) not in (CQ(1), CQ(-1))


IMPORTS = "From AL Require Import C12.Model C12.Spec C12.Check."
import C12_hist as HI
FAMILIES = collections.OrderedDict([
  ("fr", Family("fr", IMPORTS, "frcase", "corr_fr", "holds_fr", gen_fr, run_fr, lit_fr, nontrivial_fr)),
  ("tree", Family("tree", IMPORTS, "tcase", "corr_tree", "holds_tree", gen_tree, run_tree, lit_tree, nontrivial_tree)),
  ("hist", Family("hist", IMPORTS, "hcase", "corr_hist", "holds_hist", HI.gen_hist, HI.run_hist, HI.lit_hist, HI.nontrivial_hist)),
  ("lhist", Family("lhist", IMPORTS, "lcase", "corr_lhist", "holds_lhist", HI.gen_lhist, HI.run_lhist, HI.lit_lhist, HI.nontrivial_lhist)),
  ("dhist", Family("dhist", IMPORTS, "dhcase", "corr_dhist", "holds_dhist", HI.gen_dhist, HI.run_dhist, HI.lit_dhist)),
  ("kind", Family("kind", IMPORTS, "kcase", "corr_kind", "holds_kind", gen_kind, run_kind, lit_kind)),
  ("dft", Family("dft", IMPORTS, "dcase", "corr_dft", "holds_dft", gen_dft, run_dft, lit_dft, nontrivial_dft)),
  ("fir", Family("fir", IMPORTS, "fcase", "corr_fir", "holds_fir", gen_fir, run_fir, lit_fir, nontrivial_fir)),
])


def extra(chk, tier, rng):
  C12_encl.run(chk, tier, rng)
