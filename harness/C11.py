# -*- coding: utf-8 -*-
"""C11 - parcor / parcor_stable (and levinson_durbin as the inverse of parcor) against the Coq model
and the specification (Durbin's recursion, step-up rebuild, poles known by construction)."""
import itertools
from fractions import Fraction as F
from vlib.framework import Family
from vlib import coqlit as L
from vlib.exactq import ExactQ, to_frac
from C11_util import ExactC, real_frac

PID = "C11"
PROP_FILES = ["Prop", "PropStab"]
ALLOWED_AXIOMS = [r"ClassicalDedekindReals\.sig_forall_dec$", r"ClassicalDedekindReals\.sig_not_dec$",
                  r"FunctionalExtensionality\.functional_extensionality_dep$", r"Classical_Prop\.classic$"]
EXTRA_COQ_DIRS = []
RULE = ("lev: autocorrelation lags synthesised from chosen rational reflection vectors (orders 1..6; entries inside, on and "
        "outside (-1,1), zeros in the middle and at the end, r0 from a pool), explicit/default/over-long orders, plus raw "
        "small-rational lag lists and an exhaustive grid of 2- and 3-lag lists; levinson_durbin then list(parcor(.)). "
        "Non-trivial = order >= 2 with no exception. pc: parcor on monic step-up filters (unit coefficient planted at "
        "every depth), non-monic numerators, constant denominators d != 1, feedback / shifted / empty denominators, "
        "exhaustive grid of numerators of length <= 3. stab: denominators multiplied out from chosen real roots and "
        "conjugate pairs (rational parts; radius <, =, > 1; root 0) times a gain from {1,-1,2,-1/3,5/7}; every multiset "
        "of <= 2 chosen roots exhaustively, every chosen root with multiplicity 2..4 (on-circle roots included), random "
        "multisets up to degree 6 (quick) / 10 (thorough). Non-trivial = degree >= 2. coef: every "
        "denominator [a0,a1,a2] on a rational grid (decided by the Jury conditions) and random coefficient lists. "
        "hist: histories of 2-5 calls in one process on shared objects: the same dyadic root-built denominator as exact, "
        "float, Fraction and int filters (different gains, built from lists / z-expressions / factor products) in "
        "twin-first, exact-first and sandwich order; one lag container (list, tuple, deque, bounded deque; generator and "
        "iterator must raise TypeError) analysed with over-long, default and short orders in turn and re-read after every "
        "call; parcor run twice and as two interleaved generators on one filter object. Every step on exact objects "
        "must equal the per-call model / spec on the original values. Number kinds: the stab and pc families also let "
        "the LIBRARY multiply the denominator out of first-order sections whose conjugate pairs are complex numbers "
        "(harness class ExactC: exact, complex-typed even when real valued, no ordering; Python complex with dyadic "
        "non-critical roots), members of a pair adjacent or not, real or complex-typed gains; histories add ExactC and "
        "complex twins. Plain int / float filters g * (monic small-integer polynomial), g in +-{1,2,3,4,7,8,16,49,64,98,"
        "103,107,128}: the region where the double-precision computation is exact by construction, so the exact "
        "verdict is demanded. Histories also mutate in place (pop, append, setitem, clear, popitem) the lists / dicts "
        "returned by .numerator .denominator .numlist .denlist .numdict .dendict of a filter (and of the filter "
        "returned by levinson_durbin) between calls on the same object. A hair from critical: reflection coefficients "
        "and poles at 1 -+ 1e-12, 1 -+ 2**-40, 1 - 2**-52 (exact Fractions; dyadic order-1 float filters where the "
        "double computation is exact), last / middle position, next to the same vectors with exactly +-1; lags scaled "
        "by 1e-15, 1e12, -1e-7. levinson_durbin may raise only where Durbin's recursion itself breaks down.")
EXHAUSTIVE = {"quick": False, "thorough": False}
trusted_base = ["coefficients are exact rationals (ExactQ); the float 0.0 that Poly returns for an absent coefficient is "
                "absorbed exactly",
                "ZFilter/Poly arithmetic on numerator polynomials is summarised in the header of C11/Model.v "
                "(checked on every case by the correspondence, not proved: that is C05/C07)",
                "Lev.v is a private copy of the C10 Levinson model, tied to levinson_durbin by family lev"]
ASSUMPTIONS = ["poles are the complex roots of sum_i den[i] z^(n-i); complex numbers are pairs of Coq reals",
               "the generator parcor is observed through list(): coefficients yielded before ParCorError are kept"]

IMPORTS = "From AL Require Import C11.Lev C11.Model C11.Spec C11.Check."


def fr(x):
  x = F(x)
  return [x.numerator, x.denominator]


def unfr(p):
  return F(p[0], p[1])


def q(p):
  return "(qc (%d) %d)" % (p[0], p[1])


def ql(ps):
  return L.lst([q(p) for p in ps])


def _huge(x):
  if isinstance(x, int) and not isinstance(x, bool):
    return x.bit_length() > 6000
  if isinstance(x, (list, tuple)):
    return any(_huge(y) for y in x)
  if isinstance(x, dict):
    return any(_huge(y) for y in x.values())
  return False


def obs_lit(o, f):
  if _huge(o):            # a runaway computation is an observation, not a harness crash
    o = {"raise": "HugeNumber"}
  if "raise" in o:
    name = o["raise"]
    if not all(ch.isalnum() or ch == "_" for ch in name):
      name = "Other"
    return "(ORaise %s)" % L.string(name)
  return "(OOk %s)" % f(o)


# ------------------------------------------------------------------ helpers (harness side, Fractions)
def up1(A, k):
  m = len(A)
  ext = A + [F(0)]
  rv = [F(0)] + A[::-1]
  return [ext[i] + k * rv[i] for i in range(m + 1)]


def lags_from_ks(ks, r0):
  """r[0..p] whose Durbin recursion has the reflection coefficients ks (k_1 first); None if some E_m = 0 too early."""
  r, A, E = [F(r0)], [F(1)], F(r0)
  for m, k in enumerate(ks, 1):
    if E == 0:
      return None
    # k = -(r_m + sum_{i=1}^{m-1} a_i r_{m-i}) / E
    s = sum(A[i] * r[m - i] for i in range(1, m))
    r.append(-k * E - s)
    A = up1(A, k)
    E = E * (1 - k * k)
  return r


def pmul(a, b):
  res = [F(0)] * (len(a) + len(b) - 1)
  for i, x in enumerate(a):
    for j, y in enumerate(b):
      res[i + j] += x * y
  return res


def factor(x, y):
  return [F(1), -x] if y == 0 else [F(1), -2 * x, x * x + y * y]


def den_from_roots(g, roots):
  d = [F(g)]
  for x, y in reversed(roots):
    d = pmul(factor(x, y), d)
  return d


KS_IN = [F(1, 2), F(-1, 2), F(1, 3), F(-2, 3), F(3, 4), F(-1, 5), F(2, 5), F(-9, 10), F(1, 7)]
KS_OUT = [F(3, 2), F(-2), F(5, 4), F(-7, 3)]
R0S = [F(1), F(2), F(5, 3), F(-1), F(12)]
GAINS = [F(1), F(-1), F(2), F(-1, 3), F(5, 7)]
REAL_IN = [F(0), F(1, 2), F(-1, 2), F(1, 3), F(-3, 4), F(9, 10), F(-9, 10)]
REAL_ON = [F(1), F(-1)]
REAL_OUT = [F(5, 4), F(-2), F(3, 2), F(-11, 10)]
PAIR_IN = [(F(1, 2), F(1, 2)), (F(3, 5), F(2, 5)), (F(0), F(1, 2)), (F(-1, 2), F(2, 3)), (F(-4, 5), F(1, 2))]
PAIR_ON = [(F(3, 5), F(4, 5)), (F(0), F(1)), (F(-4, 5), F(3, 5)), (F(5, 13), F(12, 13))]
PAIR_OUT = [(F(1), F(1)), (F(0), F(3, 2)), (F(6, 5), F(1, 5)), (F(-1, 2), F(1)), (F(4, 5), F(7, 10))]
ROOTS_IN = [(x, F(0)) for x in REAL_IN] + PAIR_IN
ROOTS_ON = [(x, F(0)) for x in REAL_ON] + PAIR_ON
ROOTS_OUT = [(x, F(0)) for x in REAL_OUT] + PAIR_OUT
ALL_ROOTS = ROOTS_IN + ROOTS_ON + ROOTS_OUT


# ------------------------------------------------------------------ family lev
def gen_lev(tier, rng):
  def case(r, order, tags):
    return {"r": [fr(x) for x in r], "order": order, "tags": tags}
  # exhaustive grid of short lag lists, default order
  grid = [F(0), F(1), F(-1), F(2), F(1, 2)]
  for n in (1, 2, 3):
    for r in itertools.product(grid, repeat=n):
      yield case(list(r), None, ["grid", "len=%d" % n])
  yield case([], None, ["empty"])
  yield case([], 0, ["empty"])
  yield case([], 2, ["empty"])
  # every reflection vector of order <= 2 (quick) / 3 (thorough) from a small pool, r0 = 1
  pool = [F(1, 2), F(-1, 3), F(0), F(1), F(-1), F(3, 2)]
  for n in ((1, 2) if tier == "quick" else (1, 2, 3)):
    for ks in itertools.product(pool, repeat=n):
      r = lags_from_ks(list(ks), F(1))
      if r is not None:
        yield case(r, None, ["ks-exh", "order=%d" % n])
  # random reflection vectors
  n = 280 if tier == "quick" else 4000
  for _ in range(n):
    p = rng.randrange(1, 7)
    ks = [rng.choice(KS_IN) for _ in range(p)]
    kind = rng.random()
    tags = ["ks", "order=%d" % p]
    if kind < 0.12:
      ks[-1] = rng.choice([F(1), F(-1)]); tags.append("unit-last")
    elif kind < 0.22:
      ks[rng.randrange(p)] = rng.choice(KS_OUT); tags.append("outside")
    elif kind < 0.34:
      ks[rng.randrange(p)] = F(0); tags.append("zero-mid")
    elif kind < 0.42:
      ks[-1] = F(0); tags.append("zero-last")
      if p > 2 and rng.random() < 0.5:
        ks[-2] = F(0)
    elif kind < 0.47:
      ks[rng.randrange(p)] = rng.choice([F(1), F(-1)]); tags.append("unit-mid")
    r = lags_from_ks(ks, rng.choice(R0S))
    if r is None:
      # E hit zero before the end: keep the lags computed so far by truncating the vector
      j = next(i for i, k in enumerate(ks) if k * k == 1)
      r = lags_from_ks(ks[:j + 1], rng.choice(R0S)) + [F(rng.randrange(-3, 4), 2) for _ in range(p - j - 1)]
    o = rng.random()
    if o < 0.7:
      order = None
    elif o < 0.85:
      order = rng.randrange(0, len(r))
    else:
      order = len(r) - 1 + rng.randrange(0, 3)
    yield case(r, order, tags + ["order-default" if order is None else "order-explicit"])
  # raw lag lists
  for _ in range(60 if tier == "quick" else 800):
    n_ = rng.randrange(1, 7)
    r = [F(rng.randrange(-6, 7), rng.choice([1, 1, 2, 3])) for _ in range(n_)]
    yield case(r, None if rng.random() < 0.7 else rng.randrange(0, n_ + 2), ["raw", "len=%d" % n_])


def run_lev(c):
  import audiolazy
  r = [ExactQ(unfr(p)) for p in c["r"]]
  res = {}
  try:
    filt = audiolazy.levinson_durbin(r, c["order"]) if c["order"] is not None else audiolazy.levinson_durbin(r)
    res["lev"] = {"num": [fr(to_frac(x)) for x in filt.numerator], "err": fr(to_frac(filt.error))}
  except Exception as e:
    return {"lev": {"raise": type(e).__name__}, "pc": {"raise": "skipped"}}
  res["pc"] = observe_parcor(lambda: filt, len(c["r"]) + (c["order"] or 0) + 8)
  return res


def observe_parcor(mk, cap):
  import audiolazy
  ks = []
  try:
    filt = mk()
    for k in audiolazy.parcor(filt):
      ks.append(fr(real_frac(k)))
      if len(ks) > cap:            # (cap >= order of the filter) a generator that does not end is an observation, not a hang
        return {"raise": "EndlessGenerator", "ks": ks[:4]}
  except audiolazy.ParCorError:
    return {"ks": ks, "err": True}
  except Exception as e:
    return {"raise": type(e).__name__, "ks": ks}
  return {"ks": ks, "err": False}


def pc_lit(o):
  return "(%s, %s)" % (ql(o["ks"]), L.boolean(o["err"]))


def lit_lev(c, o):
  if "lev" not in o:
    o = {"lev": {"raise": o.get("raise", "Other")}, "pc": {"raise": "skipped"}}
  return "(LC %s %s %s %s)" % (
    ql(c["r"]), L.option(c["order"], L.nat),
    obs_lit(o["lev"], lambda v: "(%s, %s)" % (ql(v["num"]), q(v["err"]))),
    obs_lit(o["pc"], pc_lit))


def nontrivial_lev(c, o):
  return "lev" in o and "num" in o["lev"] and len(o["lev"]["num"]) >= 3 and "ks" in o["pc"] and not o["pc"].get("err", True)


# ------------------------------------------------------------------ family pc
def rebuild_first_to_last(ks):
  A = [F(1)]
  for k in ks:
    A = up1(A, k)
  return A


def gen_pc(tier, rng):
  def case(num, den, tags):
    return {"num": [fr(x) for x in num], "den": [fr(x) for x in den], "tags": tags}
  grid = [F(0), F(1), F(-1), F(1, 2), F(2)]
  for n in (0, 1, 2, 3):
    for num in itertools.product(grid, repeat=n):
      for den in ([F(1)], [F(2)], [F(-1, 3)]):
        if tier == "quick" and n == 3 and den != [F(1)] and rng.random() < 0.6:
          continue
        yield case(list(num), den, ["grid", "len=%d" % n])
  odd_dens = [[], [F(0)], [F(0), F(0)], [F(0), F(2)], [F(2), F(0)], [F(1), F(1, 2)], [F(0), F(1), F(1, 2)],
              [F(0), F(0), F(3)], [F(1), F(0), F(0)]]
  for den in odd_dens:
    for num in ([], [F(0)], [F(1)], [F(1), F(1, 2)], [F(0), F(1), F(1, 2)], [F(0), F(0), F(3), F(1), F(1, 2)],
                [F(0), F(0)], [F(2), F(1, 2), F(1, 3)]):
      yield case(num, den, ["odd-den"])
  n = 220 if tier == "quick" else 3500
  for _ in range(n):
    p = rng.randrange(1, 8)
    kind = rng.random()
    if kind < 0.55:
      ks = [rng.choice(KS_IN + KS_OUT[:2]) for _ in range(p)]
      tags = ["monic", "order=%d" % p]
      if rng.random() < 0.35:
        j = rng.randrange(p); ks[j] = rng.choice([F(1), F(-1)]); tags.append("unit@%d" % min(j, 3))
      if rng.random() < 0.2:
        ks[rng.randrange(p)] = F(0); tags.append("zero")
      A = rebuild_first_to_last(ks)
      d = rng.choice([F(1), F(1), F(2), F(-1, 3), F(5, 7)])
      yield case([a * d for a in A], [d], tags + ["d=1" if d == 1 else "d!=1"])
    else:
      num = [F(rng.randrange(-5, 6), rng.choice([1, 1, 2, 3])) for _ in range(p + 1)]
      if rng.random() < 0.3:
        num[rng.randrange(p + 1)] = F(0)
      d = rng.choice([F(1), F(1), F(2), F(-1, 3), F(5, 7)])
      yield case(num, [d] + ([F(0)] if rng.random() < 0.1 else []), ["nonmonic", "order=%d" % p, "d=1" if d == 1 else "d!=1"])


def run_pc(c):
  import audiolazy
  num = [ExactQ(unfr(p)) for p in c["num"]]
  den = [ExactQ(unfr(p)) for p in c["den"]]
  try:
    filt = audiolazy.ZFilter(num, den)
  except Exception as e:
    return {"raise": type(e).__name__, "where": "constructor"}
  return observe_parcor(lambda: filt, len(c["num"]) + 8)


def lit_pc(c, o):
  return "(PC %s %s %s)" % (ql(c["num"]), ql(c["den"]), obs_lit(o, pc_lit))


def nontrivial_pc(c, o):
  return "ks" in o and len(o["ks"]) >= 2 and "raise" not in o


# ------------------------------------------------------------------ family stab
def gen_stab(tier, rng):
  def case(roots, g, tags):
    den = den_from_roots(g, roots)
    return {"roots": [[fr(x), fr(y)] for x, y in roots], "gain": fr(g), "den": [fr(x) for x in den], "tags": tags}
  def cls(roots):
    if any(x * x + y * y > 1 for x, y in roots): return "outside"
    if any(x * x + y * y == 1 for x, y in roots): return "on"
    return "inside"
  for g in GAINS:
    yield case([], g, ["exh", "n=0", "inside"])
    for rt in ALL_ROOTS:
      yield case([rt], g, ["exh", "n=1", cls([rt])])
  for i, a in enumerate(ALL_ROOTS):
    for b in ALL_ROOTS[i:]:
      for g in (GAINS if tier == "thorough" else [GAINS[(i + ALL_ROOTS.index(b)) % 5]]):
        yield case([a, b], g, ["exh", "n=2", cls([a, b])])
  # repeated roots: every chosen root with multiplicity 2 and 3 (4 in the thorough tier), alone and next to a
  # stable factor; roots ON the unit circle with multiplicity are the critical cases
  for i, rt in enumerate(ALL_ROOTS):
    for mult in ((2, 3) if tier == "quick" else (2, 3, 4)):
      if (1 if rt[1] == 0 else 2) * mult > 10:
        continue
      g = GAINS[(i + mult) % 5]
      yield case([rt] * mult, g, ["mult", "mult=%d" % mult, cls([rt])])
      other = ROOTS_IN[(i + mult) % len(ROOTS_IN)]
      yield case([rt] * mult + [other], GAINS[(i + 1) % 5], ["mult", "mult=%d" % mult, cls([rt, other])])
      yield case([other] + [rt] * mult, GAINS[(i + 2) % 5], ["mult", "mult=%d" % mult, cls([rt, other])])
  for _ in range(60 if tier == "quick" else 800):
    # a random root of random multiplicity among random inside roots
    pool = rng.choice([ROOTS_IN, ROOTS_ON, ROOTS_ON, ROOTS_OUT])
    rt = rng.choice(pool)
    d = 1 if rt[1] == 0 else 2
    mult = rng.randrange(2, 5)
    while d * mult > (6 if tier == "quick" else 10):
      mult -= 1
    roots = [rt] * mult
    for _k in range(rng.randrange(0, 3)):
      o = rng.choice(ROOTS_IN)
      if sum(1 if r[1] == 0 else 2 for r in roots) + (1 if o[1] == 0 else 2) <= (6 if tier == "quick" else 10):
        roots.append(o)
    rng.shuffle(roots)
    yield case(roots, rng.choice(GAINS), ["mult-random", "mult=%d" % mult, cls(roots)])
  n = 180 if tier == "quick" else 2000
  maxdeg = 6 if tier == "quick" else 10
  for _ in range(n):
    kind = rng.random()
    roots, deg = [], 0
    target = rng.randrange(2, min(maxdeg, 8) + 1)
    if maxdeg > 8 and rng.random() < 0.15:     # degrees 9 and 10 are costly to evaluate exactly: a thinner stream
      target = rng.randrange(9, maxdeg + 1)
    while deg < target:
      pool = ROOTS_IN
      if kind >= 0.45 and rng.random() < 0.3:
        pool = ROOTS_ON if kind < 0.7 else ROOTS_OUT
      rt = rng.choice(pool)
      if target <= 6 and rng.random() < 0.25:   # a fresh rational root / pair (kept to degree <= 6: number size)
        x, y = F(rng.randrange(-12, 13), rng.choice([5, 7, 8, 10])), F(rng.randrange(0, 11), rng.choice([5, 7, 8, 10]))
        rt = (x, y if rng.random() < 0.6 else F(0))
      d = 1 if rt[1] == 0 else 2
      if deg + d > target:
        continue
      roots.append(rt); deg += d
    yield case(roots, rng.choice(GAINS), ["random", "deg=%d" % deg, cls(roots)])


def sections_filter(roots, gain, kind, gain_complex, rng_order=0):
  """prod (1 - p z^-1) over the chosen roots, each conjugate pair given as two COMPLEX numbers (exact ExactC for
  kind "cx", Python complex for kind "cf"), times the gain: the way a user builds a denominator from its poles.
  The coefficients are real valued but stay complex-typed."""
  import audiolazy
  z = audiolazy.z
  if kind == "cx":
    cnum = lambda re, im: ExactC(re, im)
    rnum = lambda v: ExactC(v) if rng_order % 3 else ExactQ(v)
  else:
    cnum = lambda re, im: complex(float(re), float(im))
    rnum = lambda v: float(v)
  ps = []
  for x, y in roots:
    if y == 0:
      ps.append(rnum(x))
    else:
      ps += [cnum(x, y), cnum(x, -y)]
  if rng_order % 2:                     # the two members of a pair need not be adjacent
    ps = ps[::2] + ps[1::2]
  g = cnum(gain, 0) if gain_complex else (ExactQ(gain) if kind == "cx" else float(gain))
  den = audiolazy.ZFilter(g)
  for p in ps:
    den = den * (1 - p * z ** -1)
  return den


def run_stab(c):
  import audiolazy
  try:
    if c.get("build", "list") in ("cx", "cf"):
      roots = [(unfr(x), unfr(y)) for x, y in c["roots"]]
      filt = 1 / sections_filter(roots, unfr(c["gain"]), c["build"], c.get("gain_complex", False), c.get("ord", 0))
    elif c.get("build") in ("fl", "in"):          # plain Python numbers, exact by construction (see gen_stab3)
      conv = float if c["build"] == "fl" else int
      filt = audiolazy.ZFilter([conv(1)], [conv(unfr(p)) for p in c["den"]])
    else:
      den = [ExactQ(unfr(p)) for p in c["den"]]
      filt = audiolazy.ZFilter([ExactQ(1)], den)
    b = audiolazy.parcor_stable(filt)
  except Exception as e:
    return {"raise": type(e).__name__}
  if b is True or b is False:
    return {"stable": b}
  return {"raise": "NotABool"}


def lit_stab(c, o):
  roots = L.lst(["(%s, %s)" % (q(x), q(y)) for x, y in c["roots"]])
  return "(SC %s %s %s %s)" % (roots, q(c["gain"]), ql(c["den"]), obs_lit(o, lambda v: L.boolean(v["stable"])))


def nontrivial_stab(c, o):
  return len(c["den"]) >= 3 and "stable" in o


# ------------------------------------------------------------------ family coef
def gen_coef(tier, rng):
  def case(den, tags):
    return {"den": [fr(x) for x in den], "tags": tags}
  vals = [F(i, 2) for i in range(-5, 6)] + [F(1, 3), F(-2, 3)]
  for a0 in (F(1), F(-2), F(1, 3)):
    yield case([a0], ["grid", "order=0"])
    for a1 in vals:
      yield case([a0, a0 * a1], ["grid", "order=1"])
      for a2 in vals:
        if tier == "quick" and a0 != 1 and rng.random() < 0.5:
          continue
        yield case([a0, a0 * a1, a0 * a2], ["grid", "order=2"])
  for den in ([], [F(0)], [F(0), F(0)], [F(0), F(1)], [F(0), F(1), F(-2)], [F(0), F(2), F(-1)], [F(2), F(-1), F(0), F(0)],
              [F(0), F(0), F(1), F(1, 2), F(0)]):
    yield case(den, ["degenerate"])
  for _ in range(80 if tier == "quick" else 2500):
    n = rng.randrange(3, 8)
    den = [F(rng.randrange(-6, 7), rng.choice([1, 2, 3, 4]))] + \
          [F(rng.randrange(-6, 7), rng.choice([2, 3, 4, 8, 8, 8])) for _ in range(n)]
    if den[0] == 0 and rng.random() < 0.8:
      den[0] = F(1)
    yield case(den, ["random", "order=%d" % n])


def run_coef(c):
  return run_stab(c)


def lit_coef(c, o):
  return "(CC %s %s)" % (ql(c["den"]), obs_lit(o, lambda v: L.boolean(v["stable"])))


def nontrivial_coef(c, o):
  return len(c["den"]) >= 3 and "stable" in o


# a case runs in well under a second; the 30 s watchdog keeps a loaded machine (other checks running concurrently)
# from turning a stalled process into a spurious Timeout observation; endless generators are cut by observe_parcor
FAMILIES = {
  "lev": Family("lev", IMPORTS, "lcase", "corr_lev", "holds_lev", gen_lev, run_lev, lit_lev, nontrivial_lev, timeout=30),
  "pc": Family("pc", IMPORTS, "pcase", "corr_pc", "holds_pc", gen_pc, run_pc, lit_pc, nontrivial_pc, timeout=30),
  "stab": Family("stab", IMPORTS, "scase", "corr_stab", "holds_stab", gen_stab, run_stab, lit_stab, nontrivial_stab, timeout=30),
  "coef": Family("coef", IMPORTS, "ccase", "corr_coef", "holds_coef", gen_coef, run_coef, lit_coef, nontrivial_coef, timeout=30),
}


# ------------------------------------------------------------------ family hist (round 2: histories in one process)
# Shared objects are created ONCE per history and reused by its steps: filters (exact ExactQ coefficients or their
# float / Fraction / int twins with the same dyadic values, built from lists, from z-expressions or as products of
# factor filters, with a gain) and lag containers (list, tuple, deque, bounded deque, generator, iterator).  Every
# step on exact objects must equal the per-call model on the ORIGINAL values; the container is re-read after each call.
DY_REAL = [F(0), F(1, 2), F(-1, 2), F(1, 4), F(-3, 4), F(7, 8), F(-7, 8), F(3, 8), F(-3, 8), F(1, 8)]
DY_ON = [(F(1), F(0)), (F(-1), F(0)), (F(0), F(1)), (F(0), F(1)), (F(0), F(1))]
DY_OUT = [(F(5, 4), F(0)), (F(-3, 2), F(0)), (F(2), F(0)), (F(1), F(1)), (F(0), F(3, 2)), (F(3, 4), F(3, 4))]
DY_IN = [(x, F(0)) for x in DY_REAL] + [(F(0), F(1, 2)), (F(1, 2), F(1, 2)), (F(-1, 4), F(1, 2)), (F(1, 2), F(3, 4))]
DY_GAINS = [F(1), F(-1), F(2), F(-3, 2), F(4), F(1, 2)]


def _conv(elt):
  if elt == "q": return lambda v: ExactQ(F(v))
  if elt == "f": return lambda v: float(F(v))
  if elt == "F": return lambda v: F(v)
  if elt == "i": return lambda v: int(v) if F(v).denominator == 1 else float(F(v))
  if elt == "c": return lambda v: ExactC(F(v))               # exact, complex-typed
  if elt == "cf": return lambda v: complex(float(F(v)), 0.0)  # Python complex twin
  raise ValueError(elt)


def gen_hist(tier, rng):
  n = 220 if tier == "quick" else 3000
  for idx in range(n):
    kind = idx % 5
    if kind in (0, 1):                      # stability verdicts: twins of the same monic denominator
      deg_target = rng.randrange(2, 7)
      roots, deg = [], 0
      crit = rng.random()
      if crit < 0.6: roots.append(rng.choice(DY_ON))
      elif crit < 0.75: roots.append(rng.choice(DY_OUT))
      deg = sum(1 if r[1] == 0 else 2 for r in roots)
      while deg < deg_target:
        rt = rng.choice(DY_IN); d = 1 if rt[1] == 0 else 2
        if deg + d > deg_target + 1: continue
        roots.append(rt); deg += d
      rng.shuffle(roots)
      filters, steps = {}, []
      twins = rng.sample(["f", "F", "i", "cf"], rng.randrange(1, 3))
      order = rng.choice(["twin-first", "twin-first", "exact-first", "sandwich"])
      names = []
      for j, elt in enumerate([rng.choice(["q", "q", "c"])] + twins):
        g = rng.choice(DY_GAINS)
        nm = "%s%d" % (elt, j)
        filters[nm] = {"roots": [[fr(x), fr(y)] for x, y in roots], "gain": fr(g), "elt": elt,
                       "den": [fr(x) for x in den_from_roots(g, roots)], "build": rng.choice(["list", "expr", "mul"])}
        names.append(nm)
      ex, tw = names[0], names[1:]
      if order == "twin-first": seq = tw + [ex]
      elif order == "exact-first": seq = [ex] + tw + [ex]
      else: seq = tw[:1] + [ex] + tw + [ex]
      if rng.random() < 0.3:                # a second exact object with another gain: same monic polynomial
        g2 = rng.choice(DY_GAINS)
        filters["q9"] = dict(filters[ex], gain=fr(g2), den=[fr(x) for x in den_from_roots(g2, roots)], build="list")
        seq.append("q9")
      yield {"filters": filters, "lags": {}, "steps": [["stab", s] for s in seq],
             "tags": ["stab-twins", order, "crit" if crit < 0.6 else "noncrit"]}
    elif kind in (2, 3):                    # lag containers reused by several calls
      p = rng.randrange(1, 6)
      ks = [rng.choice(KS_IN) for _ in range(p)]
      if rng.random() < 0.2: ks[rng.randrange(p)] = F(0)
      r = lags_from_ks(ks, rng.choice(R0S))
      ckind = rng.choice(["list", "list", "tuple", "deque", "deque_bounded"])
      lags = {"L": {"vals": [fr(x) for x in r], "kind": ckind, "elt": "q"}}
      n_ = len(r)
      orders = [rng.choice([n_, n_ + 1, n_ + 3]), None, rng.choice([None, n_ - 1, 1, n_ + 2]), None]
      if rng.random() < 0.3: orders = [None] + orders
      steps = [["lev", "L", o] for o in orders[:rng.randrange(2, len(orders) + 1)]]
      if rng.random() < 0.4:                # a float twin of the same lags analysed first
        lags["T"] = {"vals": [fr(x) for x in r], "kind": "list", "elt": "f"}
        steps = [["lev", "T", rng.choice([None, n_ + 1])]] + steps
      if rng.random() < 0.5:
        steps.insert(rng.randrange(1, len(steps) + 1), ["levpc", "L", rng.choice([None, n_ + 1])])
      yield {"filters": {}, "lags": lags, "steps": steps, "tags": ["lags", ckind]}
    else:                                   # kinds the code cannot take, and parcor twice on one filter object
      r = lags_from_ks([rng.choice(KS_IN) for _ in range(rng.randrange(1, 4))], F(1))
      lags = {"G": {"vals": [fr(x) for x in r], "kind": rng.choice(["gen", "iter"]), "elt": "q"},
              "L": {"vals": [fr(x) for x in r], "kind": "list", "elt": "q"}}
      p = rng.randrange(1, 6)
      ks = [rng.choice(KS_IN + KS_OUT[:1]) for _ in range(p)]
      if rng.random() < 0.3: ks[rng.randrange(p)] = rng.choice([F(1), F(-1), F(0)])
      d = rng.choice([F(1), F(2), F(-1, 3)])
      pcs = {"P": {"num": [fr(a * d) for a in rebuild_first_to_last(ks)], "den": [fr(d)],
                   "build": rng.choice(["list", "expr"])}}
      steps = [["lev", "G", rng.choice([None, 2])], ["pc2", "P"], ["levpc", "L", None], ["pc2", "P"]]
      rng.shuffle(steps)
      yield {"filters": {}, "lags": lags, "pcs": pcs, "steps": steps[:rng.randrange(2, 5)], "tags": ["kinds+pc2"]}


def _build_filter(spec, num=None):
  """ZFilter for 1/den (or num/den) with the requested element type and construction style."""
  import audiolazy
  z = audiolazy.z
  conv = _conv(spec.get("elt", "q"))
  den = [conv(unfr(p)) for p in spec["den"]]
  numl = [conv(1)] if num is None else [conv(unfr(p)) for p in num]
  build = spec.get("build", "list")
  if build == "expr":
    poly = lambda cs: sum(c * z ** -i for i, c in enumerate(cs))
    return poly(numl) / poly(den)
  if build == "mul" and num is None and "roots" in spec:
    d = audiolazy.ZFilter([conv(1)])
    for x, y in spec["roots"]:
      x, y = unfr(x), unfr(y)
      d = d * audiolazy.ZFilter([conv(c) for c in factor(x, y)])
    return 1 / (conv(unfr(spec["gain"])) * d)
  return audiolazy.ZFilter(numl, den)


def _build_lags(spec):
  import collections
  conv = _conv(spec["elt"])
  vals = [conv(unfr(p)) for p in spec["vals"]]
  k = spec["kind"]
  if k == "list": return vals
  if k == "tuple": return tuple(vals)
  if k == "deque": return collections.deque(vals)
  if k == "deque_bounded": return collections.deque(vals, maxlen=len(vals))
  if k == "gen": return (v for v in vals)
  if k == "iter": return iter(vals)
  raise ValueError(k)


def _fr_safe(x):
  f = to_frac(x)
  if f is None:
    raise ArithmeticError("non-finite")
  return fr(f)


def _lev_obs(audiolazy, obj, order):
  try:
    filt = audiolazy.levinson_durbin(obj, order) if order is not None else audiolazy.levinson_durbin(obj)
    lev = {"num": [_fr_safe(x) for x in filt.numerator], "err": _fr_safe(filt.error)}
  except Exception as e:
    return None, {"raise": type(e).__name__}
  return filt, lev


def _interleaved(audiolazy, filt, cap):
  """Two live parcor generators of the same filter object, consumed alternately."""
  outs, errs = [[], []], [False, False]
  try:
    gens = [audiolazy.parcor(filt), audiolazy.parcor(filt)]
    live = [True, True]
    while any(live):
      for i in (0, 1):
        if live[i]:
          try:
            outs[i].append(_fr_safe(next(gens[i])))
            if len(outs[i]) > cap: return {"raise": "EndlessGenerator"}
          except StopIteration:
            live[i] = False
          except audiolazy.ParCorError:
            live[i] = False; errs[i] = True
  except Exception as e:
    return {"raise": type(e).__name__}
  if outs[0] != outs[1] or errs[0] != errs[1]:      # report the one that differs from a fresh sequential run later
    return {"ks": outs[1], "err": errs[1], "other": outs[0]}
  return {"ks": outs[0], "err": errs[0]}


def _mutate(obj, attr, op):
  """In-place mutation of a container the library handed out (a caller is free to do that with a returned list)."""
  try:
    cont = getattr(obj, attr)
    if isinstance(cont, dict):
      if op == "clear": cont.clear()
      elif op == "set0": cont[0] = 99
      elif len(cont): cont.popitem()
    else:
      if op == "clear": del cont[:]
      elif op == "append": cont.append(7)
      elif op == "set0" and len(cont): cont[0] = 99
      elif op == "poplast" and len(cont): cont.pop()
      elif len(cont): cont.pop(0)
    return "ok"
  except Exception as e:
    return type(e).__name__


def run_hist(c):
  import audiolazy
  filters = {k: _build_filter(v) for k, v in c.get("filters", {}).items()}
  lags = {k: _build_lags(v) for k, v in c.get("lags", {}).items()}
  pcs = {k: _build_filter(dict(v, elt="q"), num=v["num"]) for k, v in c.get("pcs", {}).items()}
  out = []
  for st in c["steps"]:
    if st[0] == "stab":
      try:
        b = audiolazy.parcor_stable(filters[st[1]])
        out.append({"stable": b} if b is True or b is False else {"raise": "NotABool"})
      except Exception as e:
        out.append({"raise": type(e).__name__})
    elif st[0] in ("lev", "levpc"):
      spec, obj = c["lags"][st[1]], lags[st[1]]
      filt, lev = _lev_obs(audiolazy, obj, st[2])
      cap = len(spec["vals"]) + (st[2] or 0) + 8
      pc = observe_parcor(lambda: filt, cap) if filt is not None else {"raise": "skipped"}
      after = None
      if spec["kind"] not in ("gen", "iter"):
        try: after = [_fr_safe(x) for x in obj]
        except Exception as e: after = [[type(e).__name__]]
      o = {"lev": lev, "pc": pc, "after": after}
      if st[0] == "levpc" and filt is not None and len(st) > 3 and st[3]:
        o["mut"] = _mutate(filt, st[3][0], st[3][1])
      if st[0] == "levpc" and filt is not None:       # parcor again on the SAME returned filter, then interleaved
        o["pc_again"] = observe_parcor(lambda: filt, cap)
        o["pc_inter"] = _interleaved(audiolazy, filt, cap)
      out.append(o)
    elif st[0] == "mut":
      out.append({"mut": _mutate((filters if st[1] == "filters" else pcs)[st[2]], st[3], st[4])})
    elif st[0] == "pc2":
      filt = pcs[st[1]]
      if len(st) > 2 and st[2]:
        _mutate(filt, st[2][0], st[2][1])
      cap = len(c["pcs"][st[1]]["num"]) + 8
      out.append({"pc_again": observe_parcor(lambda: filt, cap), "pc_inter": _interleaved(audiolazy, filt, cap)})
  return {"steps": out}


def lit_hist(c, o):
  steps = o.get("steps")
  if steps is None or len(steps) != len(c["steps"]):
    return L.lst(["HExn %s %s" % (L.string("HarnessFailure"), L.string("none"))])
  lits = []
  for st, so in zip(c["steps"], steps):
    if st[0] == "stab":
      spec = c["filters"][st[1]]
      roots = L.lst(["(%s, %s)" % (q(x), q(y)) for x, y in spec["roots"]])
      lits.append("HStab %s %s %s %s %s" % (L.boolean(spec["elt"] in ("q", "c")), roots, q(spec["gain"]), ql(spec["den"]),
                                           obs_lit(so, lambda v: L.boolean(v["stable"]))))
    elif st[0] in ("lev", "levpc"):
      spec = c["lags"][st[1]]
      if spec["kind"] in ("gen", "iter"):
        lits.append("HExn %s %s" % (L.string(so["lev"].get("raise", "NoError")), L.string("TypeError")))
        continue
      vals = spec["vals"] if spec["elt"] == "q" else [fr(F(float(unfr(p)))) for p in spec["vals"]]
      after = so["after"]
      if after is None or any(len(a) != 2 for a in after) or _huge(after):
        after = [[987654321, 1]]
      lits.append("HLev %s %s %s %s %s %s" % (
        L.boolean(spec["elt"] == "q"), ql(vals), L.option(st[2], L.nat),
        obs_lit(so["lev"], lambda v: "(%s, %s)" % (ql(v["num"]), q(v["err"]))), obs_lit(so["pc"], pc_lit), ql(after)))
      if st[0] == "levpc" and "num" in so["lev"] and spec["elt"] == "q":
        lits.append("HPc %s %s %s %s" % (ql(so["lev"]["num"]), ql([[1, 1]]),
                                        obs_lit(so["pc_again"], pc_lit), obs_lit(so["pc_inter"], pc_lit)))
    elif st[0] == "mut":
      lits.append("HExn %s %s" % (L.string(so.get("mut", "missing")), L.string("ok")))
    elif st[0] == "pc2":
      spec = c["pcs"][st[1]]
      lits.append("HPc %s %s %s %s" % (ql(spec["num"]), ql(spec["den"]),
                                      obs_lit(so["pc_again"], pc_lit), obs_lit(so["pc_inter"], pc_lit)))
  return L.lst(lits)


def nontrivial_hist(c, o):
  return len(c["steps"]) >= 2 and "steps" in o


FAMILIES["hist"] = Family("hist", IMPORTS, "hcase", "corr_hist", "holds_hist", gen_hist, run_hist, lit_hist,
                          nontrivial_hist, timeout=30)


# ------------------------------------------------------------------ round 3, class (f): number kinds
# The same root-built denominators, now multiplied out BY THE LIBRARY from first-order sections whose conjugate pairs
# are complex numbers (exact ExactC: any rational parts; Python complex: dyadic parts, no root on the circle so that
# rounding cannot blur the verdict), with real or complex-typed gains.  The expected verdict is still "all chosen
# roots strictly inside", so corr / holds apply unchanged to the exact expected coefficients c["den"].
DY_ALL_NONCRIT = DY_IN + DY_OUT


def gen_stab2(tier, rng):
  for c in gen_stab(tier, rng):
    yield c
  def ccase(roots, g, build, tags, k):
    den = den_from_roots(g, roots)
    return {"roots": [[fr(x), fr(y)] for x, y in roots], "gain": fr(g), "den": [fr(x) for x in den],
            "build": build, "gain_complex": bool(k % 2), "ord": k, "tags": tags}
  def cls(roots):
    if any(x * x + y * y > 1 for x, y in roots): return "outside"
    if any(x * x + y * y == 1 for x, y in roots): return "on"
    return "inside"
  pairs = [r for r in ALL_ROOTS if r[1] != 0]
  k = 0
  for rt in pairs:                                   # every chosen pair alone and next to a real root, exact complex
    for g in (GAINS[k % 5], GAINS[(k + 2) % 5]):
      k += 1
      yield ccase([rt], g, "cx", ["cx", "exh", cls([rt])], k)
      other = (ALL_ROOTS[k % len(ALL_ROOTS)][0], F(0))
      yield ccase([rt, other], g, "cx", ["cx", "exh", cls([rt, other])], k)
  for _ in range(90 if tier == "quick" else 1200):
    k += 1
    target = rng.randrange(2, 7 if tier == "quick" else 9)
    roots, deg = [], 0
    while deg < target:
      rt = rng.choice(pairs if rng.random() < 0.6 else ALL_ROOTS)
      d = 1 if rt[1] == 0 else 2
      if deg + d > target: continue
      roots.append(rt); deg += d
    yield ccase(roots, rng.choice(GAINS + [F(-3), F(1, 4)]), "cx", ["cx", "random", "deg=%d" % deg, cls(roots)], k)
  dy_pairs = [r for r in DY_ALL_NONCRIT if r[1] != 0]
  for _ in range(60 if tier == "quick" else 500):    # Python complex, dyadic, no critical root
    k += 1
    target = rng.randrange(2, 5)
    roots, deg = [], 0
    while deg < target:
      rt = rng.choice(dy_pairs if rng.random() < 0.6 else DY_ALL_NONCRIT)
      d = 1 if rt[1] == 0 else 2
      if deg + d > target: continue
      roots.append(rt); deg += d
    yield ccase(roots, rng.choice([F(1), F(-3), F(1, 4), F(2)]), "cf", ["cf", "deg=%d" % deg, cls(roots)], k)


FAMILIES["stab"] = Family("stab", IMPORTS, "scase", "corr_stab", "holds_stab", gen_stab2, run_stab, lit_stab,
                          nontrivial_stab, timeout=30)


# parcor itself on filters multiplied out from complex sections: the yielded coefficients are complex-typed but real
# valued and must equal the model's on the exact expected numerator
def gen_pc2(tier, rng):
  for c in gen_pc(tier, rng):
    yield c
  pairs = [r for r in ALL_ROOTS if r[1] != 0]
  for k in range(60 if tier == "quick" else 600):
    target = rng.randrange(2, 7)
    roots, deg = [], 0
    while deg < target:
      rt = rng.choice(pairs if rng.random() < 0.6 else ALL_ROOTS)
      d = 1 if rt[1] == 0 else 2
      if deg + d > target: continue
      roots.append(rt); deg += d
    yield {"num": [fr(x) for x in den_from_roots(F(1), roots)], "den": [fr(F(1))],
           "croots": [[fr(x), fr(y)] for x, y in roots], "ord": k, "tags": ["cx-sections", "order=%d" % deg]}


def run_pc2(c):
  if "croots" not in c:
    return run_pc(c)
  try:
    filt = sections_filter([(unfr(x), unfr(y)) for x, y in c["croots"]], F(1), "cx", bool(c["ord"] % 2), c["ord"])
  except Exception as e:
    return {"raise": type(e).__name__, "where": "constructor"}
  return observe_parcor(lambda: filt, len(c["num"]) + 8)


FAMILIES["pc"] = Family("pc", IMPORTS, "pcase", "corr_pc", "holds_pc", gen_pc2, run_pc2, lit_pc, nontrivial_pc, timeout=30)
# keep the histories last (they were registered before the two families above were replaced)
FAMILIES["hist"] = FAMILIES.pop("hist")


# ------------------------------------------------------------------ round 3 (u1): plain int / float filters, gains
# Region where the unchanged code is exact in double precision BY CONSTRUCTION (decided from the inputs alone): the
# denominator is g * (monic polynomial with small INTEGER coefficients), g a non-zero integer, all products small
# integers.  Then den / den[0] divides multiples of g by g (exact), the first reflection coefficient is the integer
# a_n, and the verdict is reached before any rounding: |a_n| > 1 stops `all` at once, |a_n| = 1 raises
# ZeroDivisionError -> ParCorError -> False (1 - 1.0 ** 2 == 0.0), a_n = 0 is dropped by Poly.  Roots with integer
# parts give such polynomials; the expected verdict is "all chosen roots inside" (only the root 0 is).
INT_ROOTS = [(F(0), F(0)), (F(1), F(0)), (F(-1), F(0)), (F(2), F(0)), (F(-3), F(0)),
             (F(0), F(1)), (F(1), F(1)), (F(0), F(2)), (F(-1), F(2))]
INT_GAINS = [1, 2, 3, 4, 7, 8, 16, 49, 64, 98, 103, 107, 128]


def gen_stab3(tier, rng):
  for c in gen_stab2(tier, rng):
    yield c
  def icase(roots, g, build, tags):
    den = den_from_roots(F(g), roots)
    assert all(x.denominator == 1 and abs(x) < 2 ** 40 for x in den)
    return {"roots": [[fr(x), fr(y)] for x, y in roots], "gain": fr(F(g)), "den": [fr(x) for x in den],
            "build": build, "tags": tags}
  k = 0
  for rt in INT_ROOTS:                              # every integer root / pair alone, every gain, both signs
    for g in INT_GAINS:
      k += 1
      if tier == "quick" and k % 2 and g not in (49, 98, 103, 107):
        continue
      yield icase([rt], g if k % 3 else -g, "fl" if k % 2 else "in", ["intfloat", "exh", "n=1"])
  for _ in range(120 if tier == "quick" else 1500):
    roots = [rng.choice(INT_ROOTS) for _ in range(rng.randrange(0, 4))]
    g = rng.choice(INT_GAINS) * rng.choice([1, -1])
    yield icase(roots, g, rng.choice(["fl", "in"]), ["intfloat", "random", "n=%d" % len(roots)])


FAMILIES["stab"] = Family("stab", IMPORTS, "scase", "corr_stab", "holds_stab", gen_stab3, run_stab, lit_stab,
                          nontrivial_stab, timeout=30)


# ------------------------------------------------------------------ round 3 (u2): containers handed out by the library
# .numerator / .denominator / .numlist / .denlist / .numdict / .dendict of a filter (also of the filter returned by
# levinson_durbin) are mutated in place between calls on the SAME filter object; parcor / parcor_stable afterwards
# must be unaffected (the per-call model on the original values).
MUT_LISTS = ["numerator", "denominator", "numlist", "denlist"]
MUT_DICTS = ["numdict", "dendict"]
MUT_OPS = ["pop0", "poplast", "append", "set0", "clear"]


def _mutspec(rng):
  if rng.random() < 0.75:
    return [rng.choice(MUT_LISTS), rng.choice(MUT_OPS)]
  return [rng.choice(MUT_DICTS), rng.choice(["clear", "set0", "popitem"])]


def gen_hist2(tier, rng):
  for c in gen_hist(tier, rng):
    yield c
  for _ in range(90 if tier == "quick" else 1000):
    roots, deg, target = [], 0, rng.randrange(1, 6)
    while deg < target:
      rt = rng.choice(ALL_ROOTS); d = 1 if rt[1] == 0 else 2
      if deg + d > target: continue
      roots.append(rt); deg += d
    g = rng.choice(GAINS)
    filters = {"q0": {"roots": [[fr(x), fr(y)] for x, y in roots], "gain": fr(g), "elt": rng.choice(["q", "q", "c"]),
                      "den": [fr(x) for x in den_from_roots(g, roots)], "build": rng.choice(["list", "expr"])}}
    p = rng.randrange(1, 6)
    ks = [rng.choice(KS_IN + KS_OUT[:1]) for _ in range(p)]
    d = rng.choice([F(1), F(2), F(-1, 3)])
    pcs = {"P": {"num": [fr(a * d) for a in rebuild_first_to_last(ks)], "den": [fr(d)], "build": rng.choice(["list", "expr"])}}
    r = lags_from_ks([rng.choice(KS_IN) for _ in range(rng.randrange(1, 5))], rng.choice(R0S))
    lags = {"L": {"vals": [fr(x) for x in r], "kind": "list", "elt": "q"}}
    blocks = [[["stab", "q0"], ["mut", "filters", "q0"] + _mutspec(rng), ["stab", "q0"]],
              [["pc2", "P", None], ["mut", "pcs", "P"] + _mutspec(rng), ["pc2", "P", _mutspec(rng)]],
              [["levpc", "L", rng.choice([None, len(r)]), _mutspec(rng)], ["lev", "L", None]]]
    rng.shuffle(blocks)
    steps = [st for b in blocks[:rng.randrange(1, 4)] for st in b]
    yield {"filters": filters, "lags": lags, "pcs": pcs, "steps": steps, "tags": ["mutate-returned", "blocks=%d" % (len(steps) // 2)]}


FAMILIES["hist"] = Family("hist", IMPORTS, "hcase", "corr_hist", "holds_hist", gen_hist2, run_hist, lit_hist,
                          nontrivial_hist, timeout=30)


# ------------------------------------------------------------------ round 5, class (l): a hair from the critical value
# Reflection coefficients / poles within 1e-12 or 2**-40 of magnitude one (exact Fractions), never equal to it: the
# recursion, the step-down and the verdict are all defined there (no ParCorError, stable iff strictly inside), and
# the same vectors with the entry exactly +-1 in last / middle position for contrast; lags scaled by 1e-15 .. 1e12.
HAIR_IN = [1 - F(1, 10 ** 12), -(1 - F(1, 10 ** 12)), 1 - F(1, 2 ** 40), -(1 - F(1, 2 ** 40)), 1 - F(1, 2 ** 52)]
HAIR_OUT = [1 + F(1, 10 ** 12), -(1 + F(1, 2 ** 40))]
SCALES = [F(1), F(1, 10 ** 15), F(10 ** 12), F(-1, 10 ** 7), F(5, 3)]


def _hair_ks(rng, p):
  ks = [rng.choice(KS_IN) for _ in range(p)]
  pos = rng.choice([p - 1, p - 1, rng.randrange(p)])
  what = rng.random()
  if what < 0.6: ks[pos] = rng.choice(HAIR_IN); tag = "hair-in"
  elif what < 0.8: ks[pos] = rng.choice(HAIR_OUT); tag = "hair-out"
  else: ks[pos] = rng.choice([F(1), F(-1)]); tag = "unit"
  return ks, tag + ("-last" if pos == p - 1 else "-mid")


def gen_lev2(tier, rng):
  for c in gen_lev(tier, rng):
    yield c
  for hk in HAIR_IN + HAIR_OUT + [F(1), F(-1)]:              # order 1 .. 3 with the entry last, every scale
    for pre in ([], [F(1, 2)], [F(1, 2), F(-1, 3)]):
      for sc in SCALES:
        r = lags_from_ks(pre + [hk], sc)
        yield {"r": [fr(x) for x in r], "order": None, "tags": ["hair", "exh", "order=%d" % (len(pre) + 1)]}
  for _ in range(60 if tier == "quick" else 700):
    p = rng.randrange(1, 6)
    ks, tag = _hair_ks(rng, p)
    sc = rng.choice(SCALES)
    r = lags_from_ks(ks, sc)
    if r is None:                                            # unit in the middle: Durbin breaks down right after it
      j = next(i for i, k in enumerate(ks) if k * k == 1)
      r = lags_from_ks(ks[:j + 1], sc) + [F(rng.randrange(-3, 4), 2) * sc for _ in range(p - j - 1)]
    yield {"r": [fr(x) for x in r], "order": None if rng.random() < 0.8 else len(r) - 1 + rng.randrange(0, 2),
           "tags": ["hair", tag, "order=%d" % p]}


def gen_pc3(tier, rng):
  for c in gen_pc2(tier, rng):
    yield c
  for _ in range(50 if tier == "quick" else 600):
    p = rng.randrange(1, 6)
    ks, tag = _hair_ks(rng, p)
    d = rng.choice([F(1), F(1), F(2), F(-1, 3)])
    yield {"num": [fr(a * d) for a in rebuild_first_to_last(ks)], "den": [fr(d)], "tags": ["hair", tag, "order=%d" % p]}


def gen_stab4(tier, rng):
  for c in gen_stab3(tier, rng):
    yield c
  def case(roots, g, build, tags):
    return {"roots": [[fr(x), fr(y)] for x, y in roots], "gain": fr(g), "den": [fr(x) for x in den_from_roots(g, roots)],
            "build": build, "tags": tags}
  hair = [(x, F(0)) for x in HAIR_IN + HAIR_OUT] + [(F(0), 1 - F(1, 2 ** 40)), (F(0), 1 + F(1, 2 ** 40))]
  for i, rt in enumerate(hair):
    for g in (GAINS[i % 5], GAINS[(i + 3) % 5]):
      yield case([rt], g, "list", ["hair", "exh", "n=1"])
      yield case([rt, ROOTS_IN[(i * 3) % len(ROOTS_IN)]], g, "list", ["hair", "exh", "n=2"])
    if rt[1] == 0 and rt[0].denominator & (rt[0].denominator - 1) == 0:
      # dyadic pole, power-of-two gain, order 1: the float computation decides exactly (|k| < 1 is a comparison of
      # exactly represented numbers and no later coefficient exists)
      for g in (F(1), F(-4), F(1, 2)):
        yield case([rt], g, "fl", ["hair", "float-exact", "n=1"])
  for _ in range(40 if tier == "quick" else 500):
    roots = [rng.choice(hair)] + [rng.choice(ROOTS_IN) for _ in range(rng.randrange(0, 4))]
    rng.shuffle(roots)
    yield case(roots, rng.choice(GAINS), "list", ["hair", "random", "n=%d" % len(roots)])


FAMILIES["lev"] = Family("lev", IMPORTS, "lcase", "corr_lev", "holds_lev", gen_lev2, run_lev, lit_lev, nontrivial_lev, timeout=30)
FAMILIES["pc"] = Family("pc", IMPORTS, "pcase", "corr_pc", "holds_pc", gen_pc3, run_pc2, lit_pc, nontrivial_pc, timeout=30)
FAMILIES["stab"] = Family("stab", IMPORTS, "scase", "corr_stab", "holds_stab", gen_stab4, run_stab, lit_stab,
                          nontrivial_stab, timeout=30)
