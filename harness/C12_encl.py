# -*- coding: utf-8 -*-
"""C12 - checked enclosures: the library's float results against the real-number specification.

For every sampled float run one Coq goal per real / imaginary part

    Lemma g : Rabs (spec - v) <= tol.  Proof. c12_enclose. Qed.

is generated into build/C12/encl_*.v (about 25 goals per file) and compiled by coqc in parallel;
`spec` is a closed real expression over ModelR.spec_re / spec_im / spec_cascade / spec_parallel /
spec_steady / spec_dft (tied to the complex specification by Prop.C12_enclosure_formulas), the
frequency w, the coefficients and v are exact literals of the floats the library saw / returned,
and the goal is closed by the Interval tactic at 80 bits (240 bits for frequencies k*fl(pi)/m, next to zeros of sin / cos).  A goal that does not check is a
violation with the concrete filter and frequency."""
import os, cmath, math, time, operator
from fractions import Fraction
from functools import reduce

RULE = ("enclosure families (float runs): filters of order <= 6 with dyadic coefficients k/16, |c| <= 4, some zero "
        "coefficients, denominators with |A(e^-jw)| >= 2^-10 at the probed frequency; frequencies k*pi/m "
        "(m in 1,2,3,4,6,8,12,16, incl. 0 and pi) and dyadic rationals in [0, 2 pi); cascades / parallel banks of "
        "1-3 sections of order <= 2, nested cascades / banks of depth <= 3 (mostly mixed nesting, <= 5 leaves) (all also compared bit for bit with the product / sum of the library's own "
        "section responses); dft(impulse response, [w], normalize=False) of FIR filters; normalised dft of "
        "random real blocks; output sample n >= order of a FIR filter fed with exp(1j*w*n)")
TRUSTED = [
  "enclosure tolerances are ASSUMED rounding bounds, not proved: freq_response 2^-44*(sum|b_k| + |H| sum|a_k|)/|A(e^-jw)| "
  "(cascade: relative sum over the sections, parallel: absolute sum), dft 2^-44*sum|x_k|, FIR steady state "
  "2^-43*sum|b_k|/|a_0|; a float result within that distance of the real specification counts as equal to it",
  "Interval tactic (Coq library, reflexive interval arithmetic at 80 bits, 240 bits as fallback) decides the enclosure goals; its proofs "
  "are kernel-checked at Qed",
  "floats (frequency, coefficients, results) are transferred as exact rationals; cmath.exp / complex arithmetic of "
  "CPython are only observed through these results",
]
GOALS_PER_FILE = 25
TOL = Fraction(1, 1 << 44)


# ------------------------------------------------------------------ literals
def rlit(x):
  """exact real literal of a float / Fraction"""
  f = Fraction(x)
  if f.denominator == 1:
    return "%d" % f.numerator if f >= 0 else "(%d)" % f.numerator
  return "(%d / %d)" % (f.numerator, f.denominator)


def rlist(xs):
  return "[" + "; ".join(rlit(x) for x in xs) + "]"


def up(fr_):
  """a dyadic upper bound of a positive Fraction (keeps literals short)"""
  e = 80
  return Fraction(-((-fr_.numerator << e) // fr_.denominator), 1 << e)


# ------------------------------------------------------------------ generators
def coeff(rng, p_zero=0.2):
  if rng.random() < p_zero:
    return 0.0
  return rng.randrange(-64, 65) / 16.0


def coeffs(rng, n, lead_nonzero=False):
  l = [coeff(rng) for _ in range(n)]
  if lead_nonzero and l[0] == 0.0:
    l[0] = 1.0
  return l


def freq(rng):
  x = rng.random()
  if x < 0.1:
    return 0.0
  if x < 0.2:
    return math.pi
  if x < 0.6:
    m = rng.choice([1, 2, 3, 4, 6, 8, 12, 16])
    return rng.randrange(0, 2 * m) * math.pi / m
  return rng.randrange(0, 6434) / 1024.0        # < 2 pi


def section(rng, maxord):
  b = coeffs(rng, rng.randrange(1, maxord + 2))
  if rng.random() < 0.25:
    a = [rng.choice([1.0, 1.0, -1.0, 2.0, 0.5])]
  else:
    a = [rng.choice([1.0, 1.0, 1.0, 2.0, -1.0, 0.5])] + coeffs(rng, rng.randrange(1, maxord + 1))
  if not any(b):
    b[0] = 1.0
  return b, a


def nested(rng, depth, parent=None, budget=None):
  """nested cascade / bank of depth <= 3 with at most 5 first-order or biquad leaves; mostly mixed nesting"""
  budget = budget if budget is not None else [5]
  if depth == 0 or budget[0] <= 1 or (parent is not None and rng.random() < 0.4):
    budget[0] -= 1
    b, a = section(rng, 2)
    return ["lin", b, a]
  k = rng.choice(["cas", "par"])
  if parent is not None and rng.random() < 0.75:
    k = "par" if parent == "cas" else "cas"
  return [k, [nested(rng, depth - 1, k, budget) for _ in range(rng.choice([2, 2, 3]))]]


def tree_rlit(t):
  import C12
  t = C12.tree_norm(t, 1.0)
  if t[0] == "lin":
    return "(RLin %s %s)" % (rlist(t[1]), rlist(t[2]))
  return "(%s [%s])" % ("RCas" if t[0] == "cas" else "RPar", "; ".join(tree_rlit(c) for c in t[1]))


def kind_of(x, rng_bits):
  """the same number as another Python kind: int / bool for integral values, real-valued complex"""
  if rng_bits % 7 == 0 and x == int(x):
    return bool(x) if x in (0.0, 1.0) and rng_bits % 2 else int(x)
  if rng_bits % 11 == 0:
    return complex(x, 0.0)
  return x


def tree_build(t):
  import C12
  return C12.build_tree(t, float)


def tree_tol(t, w):
  """(|H|, tolerance) of a nested filter, None if a denominator or a factor is too small"""
  import C12
  t = C12.tree_norm(t, 1.0)
  if t[0] == "lin":
    r = fr_tol(t[1], t[2], w)
    return None if r is None else (abs(r[1]), TOL * r[0], r[1])
  subs = [tree_tol(c, w) for c in t[1]]
  if any(x is None for x in subs):
    return None
  if t[0] == "cas":
    if min(x[0] for x in subs) < 2.0 ** -20:
      return None
    val = reduce(operator.mul, [x[2] for x in subs])
    prod = reduce(operator.mul, [x[0] for x in subs])
    tol = Fraction(prod) * sum(x[1] / Fraction(x[0]) for x in subs) * Fraction(9, 8) + TOL * Fraction(prod) / 16
  else:
    val = sum(x[2] for x in subs)
    tol = sum(x[1] for x in subs) + TOL * Fraction(sum(x[0] for x in subs)) / 16
  return abs(val), tol, val


def poly_at(l, w):
  return sum(c * cmath.exp(-1j * w * k) for k, c in enumerate(l))


def fr_tol(b, a, w):
  A = poly_at(a, w)
  if abs(A) < 2.0 ** -10:
    return None
  H = poly_at(b, w) / A
  K = (sum(abs(c) for c in b) + abs(H) * sum(abs(c) for c in a)) / abs(A)
  return Fraction(K) * Fraction(1 + 2.0 ** -20), H


def gen(tier, rng):
  quick = tier == "quick"
  # samples per family: (single, cascade, parallel, impulse-dft, dft-normalised, steady)
  n1, n2, n3, n4, n5, n6, n7 = (44, 7, 8, 4, 10, 8, 10) if quick else (600, 120, 200, 100, 200, 150, 150)
  cases = []
  for _ in range(n1):
    b, a = section(rng, 8 if rng.random() < 0.1 else 6)
    if rng.random() < 0.12:           # leading zeros: the constructor shifts both polynomials (Laurent numerator)
      a = [0.0] * rng.randrange(1, 3) + a[:5]
    cases.append({"fam": "single", "secs": [[b, a]], "w": freq(rng)})
    if rng.random() < 0.3:            # the same numbers as int / bool / real-valued complex coefficients
      cases[-1]["kb"] = [rng.randrange(0, 1000) for _ in range(len(b) + len(a))]
  for fam in ("cascade", "parallel"):
    for _ in range(n2):
      secs = [list(section(rng, 2)) for _ in range(rng.choice([1, 2, 2] if quick else [1, 2, 2, 2, 3]))]
      cases.append({"fam": fam, "secs": secs, "w": freq(rng)})
  for _ in range(n6):
    cases.append({"fam": "nested", "tree": nested(rng, 3), "w": freq(rng)})
  import C12
  for _ in range(n7):
    t, mode = C12.coincide_tree(rng, lambda: list(section(rng, 2)), lambda: rng.choice([2.0, -1.0, 0.5, 1.0, 3.0]))
    cases.append({"fam": "nested", "tree": t, "w": freq(rng), "mode": mode})
  for _ in range(n3):
    b = coeffs(rng, rng.randrange(1, 8))
    a0 = rng.choice([1.0, 1.0, -1.0, 2.0, 0.5, -4.0])
    cases.append({"fam": "impulse-dft", "secs": [[b, [a0]]], "w": freq(rng), "len": len(b) + rng.randrange(0, 4)})
  # the two frequencies where exp(-1j*n*w) is (nearly) real, on blocks of odd and even length
  for w in (0.0, math.pi):
    for ln in (1, 2, 3, 5):
      x = coeffs(rng, ln)
      x[-1] = x[-1] or 1.5
      cases.append({"fam": "dft-normalised", "blk": x, "w": w})
    for ln in (1, 3, 4):
      b = coeffs(rng, ln)
      b[-1] = b[-1] or -0.75
      cases.append({"fam": "impulse-dft", "secs": [[b, [rng.choice([1.0, 2.0, -1.0])]]], "w": w, "len": ln})
  for _ in range(n4):
    x = coeffs(rng, rng.randrange(1, 9))
    cases.append({"fam": "dft-normalised", "blk": x, "w": freq(rng)})
  for _ in range(n5):
    b = coeffs(rng, rng.randrange(1, 8))
    a0 = rng.choice([1.0, 1.0, -1.0, 2.0, 0.5])
    order = max([k for k, c in enumerate(b) if c] + [0])
    n = order + rng.randrange(0, 6)
    cases.append({"fam": "steady", "secs": [[b, [a0]]], "w": freq(rng), "n": n})
  return cases


# ------------------------------------------------------------------ implementation runs
def secs_lit(secs):
  return "[" + "; ".join("(%s, %s)" % (rlist(b), rlist(a)) for b, a in secs) + "]"


def observe(c):
  """runs the library; returns (value, spec expression of type C, tolerance) or a skip / exact verdict"""
  from audiolazy import ZFilter, CascadeFilter, ParallelFilter, LinearFilter, dft
  w = c["w"]
  fam = c["fam"]
  if fam in ("single", "cascade", "parallel"):
    tols = [fr_tol(b, a, w) for b, a in c["secs"]]
    if any(t is None for t in tols):
      return {"skip": "denominator too close to zero"}
    fs = [ZFilter(list(b), list(a)) for b, a in c["secs"]]
    if c.get("kb"):
      b, a = c["secs"][0]
      kb = c["kb"]
      fs = [ZFilter([kind_of(x, k) for x, k in zip(b, kb)], [kind_of(x, k) for x, k in zip(a, kb[len(b):])])]
    if fam == "single":
      v = fs[0].freq_response(w)
      b, a = c["secs"][0]
      return {"v": v, "spec": "(spec_c (%s, %s) %s)" % (rlist(b), rlist(a), rlit(w)), "tol": TOL * tols[0][0]}
    filt = (CascadeFilter if fam == "cascade" else ParallelFilter)(*fs)
    v = filt.freq_response(w)
    own = [f.freq_response(w) for f in fs]
    same = reduce(operator.mul if fam == "cascade" else operator.add, own)
    exact_ok = (v == same) or (v != v and same != same)
    hs = [abs(t[1]) for t in tols]
    if fam == "cascade":
      if min(hs) == 0.0:
        return {"skip": "zero section response"}
      prod = reduce(operator.mul, hs)
      tol = Fraction(prod) * sum(TOL * t[0] / Fraction(h) for t, h in zip(tols, hs)) * Fraction(9, 8) \
            + TOL * Fraction(prod) / 16
    else:
      tol = sum(TOL * t[0] for t in tols) + TOL * Fraction(sum(hs)) / 16
    return {"v": v, "spec": "(spec_%s %s %s)" % (fam, secs_lit(c["secs"]), rlit(w)), "tol": tol,
            "exact_ok": exact_ok, "own": [repr(x) for x in own]}
  if fam == "nested":
    t = c["tree"]
    tt = tree_tol(t, w)
    if tt is None:
      return {"skip": "denominator or factor too close to zero"}
    filt = tree_build(t)
    v = filt.freq_response(w)
    own = [(x if callable(x) else LinearFilter(x)).freq_response(w) for x in filt] if t[0] != "lin" else [v]
    same = reduce(operator.mul if t[0] == "cas" else operator.add, own) if t[0] != "lin" else v
    return {"v": v, "spec": "(spec_tree %s %s)" % (tree_rlit(t), rlit(w)), "tol": tt[1],
            "exact_ok": (v == same) or (v != v and same != same), "own": [repr(x) for x in own]}
  if fam == "impulse-dft":
    b, a = c["secs"][0]
    filt = ZFilter(list(b), list(a))
    ir = list(filt([1.0] + [0.0] * (c["len"] - 1)))
    v = dft(ir, [w], normalize=False)[0]
    return {"v": v, "spec": "(spec_c (%s, %s) %s)" % (rlist(b), rlist(a), rlit(w)),
            "tol": TOL * Fraction(sum(abs(x) for x in b)) / Fraction(abs(a[0])) + TOL / 1024, "ir": [repr(x) for x in ir]}
  if fam == "dft-normalised":
    x = c["blk"]
    v = dft(list(x), [w], normalize=True)[0]
    return {"v": v, "spec": "(Cdiv (spec_dft %s %s) (RtoC %d))" % (rlist(x), rlit(w), len(x)),
            "tol": TOL * Fraction(sum(abs(t) for t in x)) + TOL / 1024}
  if fam == "steady":
    b, a = c["secs"][0]
    filt = ZFilter(list(b), list(a))
    xs = [cmath.exp(1j * w * k) for k in range(c["n"] + 1)]
    v = list(filt(xs))[c["n"]]
    return {"v": v, "spec": "(spec_steady %s %s %s %d)" % (rlist(b), rlist(a), rlit(w), c["n"]),
            "tol": 2 * TOL * Fraction(sum(abs(x) for x in b)) / Fraction(abs(a[0])) + TOL / 1024}
  raise ValueError(fam)


def goals_of(idx, c, o):
  """two lemmas (real and imaginary part) for one observation"""
  v = complex(o["v"])
  tol = rlit(up(o["tol"]))
  spec = o["spec"]
  if spec.startswith("(Cdiv"):
    # real division of both parts: (re / N, im / N)
    inner, n = spec[len("(Cdiv "):-1].rsplit(" (RtoC ", 1)
    n = n.rstrip(")")
    parts = [("re", "fst %s / %s" % (inner, n), v.real), ("im", "snd %s / %s" % (inner, n), v.imag)]
  else:
    parts = [("re", "fst %s" % spec, v.real), ("im", "snd %s" % spec, v.imag)]
  # multiples of fl(pi)/m sit next to zeros of sin / cos, where Interval needs more precision
  k = c["w"] / (math.pi / 48)
  tac = "c12_enclose_hi" if c["w"] != 0.0 and abs(k - round(k)) < 1e-9 else "c12_enclose"
  out = []
  for nm, e, val in parts:
    out.append(("g%d_%s" % (idx, nm),
                "Lemma g%d_%s : Rabs (%s - %s) <= %s.\nProof. %s. Qed.\n" % (idx, nm, e, rlit(val), tol, tac)))
  return out


HEADER = "From AL Require Import C12.Encl.\nOpen Scope R_scope.\n"


def run(chk, tier, rng):
  t0 = time.time()
  cases = gen(tier, rng)
  fs = chk.stats["families"].setdefault("encl", {"cases": 0, "goals": 0, "skipped": 0, "corr_bad": 0,
                                                 "holds_bad": 0, "exact_bad": 0})
  goals = []          # (name, text, case index)
  obs = {}
  for i, c in enumerate(cases):
    try:
      o = observe(c)
    except Exception as e:
      chk.violations.append({"family": "encl", "case": c, "observed": {"raise": type(e).__name__, "msg": str(e)[:200]},
                             "model_agrees": False})
      fs["holds_bad"] += 1
      continue
    if "skip" in o:
      fs["skipped"] += 1
      continue
    v = o["v"]
    if not isinstance(v, (complex, float)) or v != v or abs(v) == float("inf"):
      chk.violations.append({"family": "encl", "case": c, "observed": {"value": repr(v), "expected": "a finite number"},
                             "model_agrees": False})
      fs["holds_bad"] += 1
      continue
    if o.get("exact_ok") is False:
      chk.violations.append({"family": "encl", "case": c,
                             "observed": {"value": repr(v), "section_responses": o["own"],
                                          "expected": "bit-equal product / sum of the section responses"},
                             "model_agrees": False})
      fs["exact_bad"] += 1
      fs["holds_bad"] += 1
      continue
    obs[i] = o
    fs["cases"] += 1
    chk.stats["tags"]["encl:" + c["fam"]] += 1
    chk.stats["nontrivial_hashes"].add("encl-%d-%s" % (i, c["fam"]))
    for name, text in goals_of(i, c, o):
      goals.append((name, text, i))
  fs["goals"] = len(goals)
  chk.stats["evaluations"] += fs["cases"]
  os.makedirs(chk.bdir, exist_ok=True)
  for p in [p for p in os.listdir(chk.bdir) if p.startswith("encl_")]:
    os.remove(os.path.join(chk.bdir, p))
  files = []
  # goals are dealt round-robin so that the expensive ones (cascades) spread over all files
  nfiles = max(16, -(-len(goals) // GOALS_PER_FILE)) if goals else 0
  for k in range(nfiles):
    part = goals[k::nfiles]
    if not part:
      continue
    path = os.path.join(chk.bdir, "encl_%d.v" % k)
    with open(path, "w") as f:
      f.write(HEADER + "\n".join(t for _, t, _ in part))
    files.append((path, part))
  results = chk._coqc_many([p for p, _ in files])
  chk.cmds.append("coqc build/C12/encl_*.v   (%d files, %d enclosure goals closed by `interval with (i_prec 80)`)"
                  % (len(files), len(goals)))
  # a file that does not compile: locate every failing goal by compiling its goals one by one
  singles = []
  for (path, gl), (rc, out) in zip(files, results):
    if rc == 0:
      continue
    for name, text, i in gl:
      p1 = os.path.join(chk.bdir, "encl_one_%s.v" % name)
      with open(p1, "w") as f:
        f.write(HEADER + text)
      singles.append((p1, name, i))
  if singles:
    res1 = chk._coqc_many([p for p, _, _ in singles])
    bad_cases = {}
    for (p1, name, i), (rc, out) in zip(singles, res1):
      if rc == 0:
        continue
      if rc == 124 or "Numerical evaluation failed" not in out:
        chk.broken.append(("tie", "enclosure goal %s" % name, out[-600:]))
        fs["corr_bad"] += 1
        continue
      bad_cases.setdefault(i, []).append(name)
    for i, names in sorted(bad_cases.items()):
      o = obs[i]
      fs["holds_bad"] += 1
      chk.violations.append({"family": "encl", "case": cases[i],
                             "observed": {"value": repr(o["v"]), "spec": o["spec"], "tolerance": float(o["tol"]),
                                          "failing_goals": names},
                             "model_agrees": False})
  if len(chk.stats["samples"]) < 8 and obs:
    i = sorted(obs)[0]
    chk.stats["samples"].append({"family": "encl", "case": cases[i],
                                 "observed": {"value": repr(obs[i]["v"]), "spec": obs[i]["spec"],
                                              "tolerance": float(obs[i]["tol"])}})
  fs["wall_s"] = round(time.time() - t0, 1)
