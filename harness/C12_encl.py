# -*- coding: utf-8 -*-
TRUSTED = []
RULE = ""
def run(chk, tier, rng):
  pass
