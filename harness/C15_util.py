# -*- coding: utf-8 -*-
"""C15 helpers: value kinds (equal-but-distinct objects, callables, unhashables) and history generators."""
import itertools
from fractions import Fraction
from decimal import Decimal

NAMES = "abcdefg"

MKD_KINDS = ["int", "mix", "tuple", "str", "fz", "bound", "fneq", "falsy"]
SD_KINDS = ["fn", "bound", "fneq"]
BAD_KINDS = ["list", "dict", "set", "bytearray", "ueq"]
OBS_KINDS = ["get", "gett", "k2k", "v2k", "in", "iter", "misc", "hasattr", "call", "bad", "tup", "tup", "no"]


class Fn(object):
  """Strategy with identity equality (one object per value class); calling returns the class."""
  def __init__(self, i): self.i = i
  def __call__(self): return self.i
  def __repr__(self): return "f%d" % self.i


class FnEq(object):
  """Callable compared by content: two instances of one class are equal, never identical."""
  def __init__(self, i): self.i = i
  def __call__(self): return self.i
  def __eq__(self, other): return isinstance(other, FnEq) and other.i == self.i
  def __ne__(self, other): return not self == other
  def __hash__(self): return hash(("FnEq", self.i))
  def __repr__(self): return "g%d" % self.i


class Holder(object):
  """holder.run is a NEW bound method object at every attribute access; all of them are equal."""
  def __init__(self, i): self.i = i
  def run(self): return self.i


class UnhashableEq(object):
  """Callable that defines __eq__ and therefore has no __hash__."""
  __hash__ = None
  def __eq__(self, other): return self is other
  def __call__(self): return -1


class Values(object):
  """Value factory of one case: make(v, variant) gives an object of equality class v."""
  def __init__(self, kind, nv):
    self.kind = kind
    self.fn = {v: Fn(v) for v in range(1, nv + 2)}
    self.holder = {v: Holder(v) for v in range(1, nv + 2)}

  def make(self, v, var=0):
    k = self.kind
    if k == "int": return v
    if k == "mix":
      alts = [v, float(v), Fraction(v), Decimal(v), complex(v, 0)] + ([True] if v == 1 else [])
      return alts[var % len(alts)]
    if k == "tuple": return tuple([v, "x"]) if var % 2 else (v,) + ("x",)
    if k == "str": return "".join(["s", str(v)]) if var % 2 else "s%d" % v
    if k == "fz": return frozenset([v])
    if k == "falsy":   # None, zeros of several types, empty containers: one class each
      if v == 2: return [0, 0.0, False, Fraction(0), Decimal(0), 0j, -0.0][var % 7]
      return FALSY[(v - 1) % len(FALSY)]
    if k == "fn": return self.fn[v]
    if k == "bound": return self.holder[v].run
    if k == "fneq": return FnEq(v)
    raise ValueError(k)

  def cls(self, x):
    k = self.kind
    if k == "int": return x
    if k == "mix": return int(x.real) if isinstance(x, complex) else int(x)
    if k == "tuple": return x[0]
    if k == "str": return int(x[1:])
    if k == "fz": return list(x)[0]
    if k == "bound": return x.__self__.i
    if k == "falsy":
      for i, f in enumerate(FALSY):
        if (x is None) == (f is None) and isinstance(x, (str, tuple, frozenset, bytes)) == isinstance(f, (str, tuple, frozenset, bytes)) and x == f:
          return i + 1
      raise ValueError(x)
    return x.i


def key_variant(k, n, isstr):
  """an object equal to key k: a separately built string, or the same number in another type"""
  if isstr:
    return "".join(list(k)) if n % 2 else k
  alts = [k, float(k), Fraction(k), Decimal(k)] + ([bool(k)] if k in (0, 1) else [])
  return alts[n % len(alts)]


# names a strategy may be registered under although the class has an attribute spelled like that: the instance
# attribute set by StrategyDict.__setitem__ shadows methods and non-data descriptors.  NOT in the pool (the unchanged
# code itself breaks, see the report in harness/C15.py FINDINGS): values, keys, key2keys, default, _keys_dict,
# _inv_dict, __name__ (instance attributes), __doc__, __class__, __dict__ (data descriptors)
COLLIDING = ["copy", "get", "pop", "update", "clear", "setdefault", "popitem", "fromkeys", "strategy", "items",
             "value2keys", "__len__", "__iter__", "__call__", "__getitem__", "__setitem__", "__delitem__", "__delattr__",
             "__init__", "__new__", "__eq__", "__hash__", "__contains__", "__repr__", "mro", "__slots__"]


def pick_names(rng, n):
  """n distinct names: plain ones mixed with names colliding with class attributes and dunder-like names"""
  plain = [x * 2 for x in NAMES] + ["_x", "__y", "z__", "__w__", "Default", "default_"]
  pool = rng.sample(COLLIDING, min(n, len(COLLIDING)))
  return [pool[i] if rng.random() < 0.6 else plain[i] for i in range(n)]


FALSY = [None, 0, "", (), frozenset(), b""]


def make_bad(kind):
  if kind == "list": return [1]
  if kind == "dict": return {1: 2}
  if kind == "set": return set([1])
  if kind == "bytearray": return bytearray(b"x")
  return UnhashableEq()


# ------------------------------------------------------------------ generators
def ops_universe(nk, nv, strategy, tuples=True):
  ops = []
  for k in range(nk):
    for v in range(1, nv + 1):
      ops.append(["set", [k], v])
  for k, k2 in itertools.permutations(range(nk), 2):
    for v in range(1, nv + 1):
      ops.append(["set", [k, k2], v])
  for k in range(nk):
    ops.append(["del", k])
  if nk <= 3 and tuples:   # tuple keys of a deletion: (), (k,), (k, k')
    ops.append(["delt", []])
    for k in range(nk):
      ops.append(["delt", [k]])
    for k, k2 in itertools.permutations(range(nk), 2):
      ops.append(["delt", [k, k2]])
  if strategy:
    for k in range(nk):
      ops.append(["delattr", k])
  return ops


def rand_op(rng, nk, nv, strategy, p_bad=0.1, p_obs=0.2):
  r = rng.random()
  if r < p_obs:
    qk = rng.choice(OBS_KINDS)
    if qk == "tup":
      return ["obs", qk, [rng.randrange(nk) for _ in range(rng.choice([0, 1, 1, 2, 2, 3]))], 0]
    if qk == "v2k":
      return ["obs", qk, rng.randrange(1, nv + 2), rng.randrange(6)]
    return ["obs", qk, rng.randrange(nk + 1) if qk in ("get", "k2k", "gett", "in") else rng.randrange(nk), rng.randrange(6)]
  r = rng.random()
  if strategy and r < 0.09:      # the user chooses / removes the default (a stored strategy or one never stored)
    return ["setdef", rng.randrange(1, nv + 2), rng.randrange(6)] if r < 0.055 else ["deldef"]
  r = rng.random()
  if r < 0.07:                   # deletion through a tuple key (never a key): must be refused
    return ["delt", [rng.randrange(nk) for _ in range(rng.choice([0, 1, 1, 2, 2, 3]))]]
  r = rng.random()
  n = rng.choice([1, 1, 1, 2, 2, 3])
  if nk >= 5 and rng.random() < 0.15:
    n = rng.randrange(4, 9)      # long key tuples, with repetitions
  ks = [rng.randrange(nk) for _ in range(n)]
  if r < p_bad:
    return ["setbad", ks, rng.choice(BAD_KINDS)]
  if r < p_bad + 0.55:
    op = ["set", ks, rng.randrange(1, nv + 1), rng.randrange(6)]
    if strategy and rng.random() < 0.2:
      op.append("dec")
    return op
  if strategy and rng.random() < 0.4:
    return ["delattr", rng.randrange(nk)]
  return ["del", rng.randrange(nk)]


def rand_case(rng, strategy, nk, nv, kind, nmin, nmax, tag, init_p=0.25):
  init = []
  if not strategy and rng.random() < init_p:
    keys = list(range(nk)); rng.shuffle(keys)
    init = [[k, rng.randrange(1, nv + 1), rng.randrange(6)] for k in keys[:rng.randrange(1, nk + 1)]]
  ops = [rand_op(rng, nk, nv, strategy) for _ in range(rng.randrange(nmin, nmax + 1))]
  c = {"strategy": strategy, "nk": nk, "nv": nv, "vk": kind, "init": init, "ops": ops, "kvar": rng.random() < 0.5,
          "tags": [tag, "sd" if strategy else "mkd", "vk:" + kind]}
  if strategy and rng.random() < 0.5:
    c["names"] = pick_names(rng, nk + 1); c["tags"].append("colliding-names")
  elif not strategy and rng.random() < 0.3:
    c["keys"] = "str"
  return c


def rand_multi(rng, nk, nv, nmin, nmax, tag):
  """several objects: fresh ones, MultiKeyDicts built from existing objects (4 spellings), operations on any of them"""
  has_sd = rng.random() < 0.4
  kind = rng.choice(SD_KINDS if has_sd else MKD_KINDS)
  kinds, ops = [], []
  def new():
    st = has_sd and (not kinds or rng.random() < 0.5)
    kinds.append(st); ops.append(["new", st])
  new()
  for _ in range(rng.randrange(nmin, nmax + 1)):
    r = rng.random()
    if r < 0.06 and len(kinds) < 4:
      new()
    elif r < 0.24 and len(kinds) < 4:
      ops.append(["cast", rng.randrange(len(kinds)), rng.randrange(4)]); kinds.append(False)
    else:
      i = rng.randrange(len(kinds))
      ops.append(["on", i, rand_op(rng, nk, nv, kinds[i], p_obs=0.12)])
  c = {"nk": nk, "nv": nv, "vk": kind, "ops": ops, "kvar": rng.random() < 0.5,
       "keys": "names" if has_sd else rng.choice(["ints", "ints", "str"]), "tags": [tag, "vk:" + kind, "objs:%d" % len(kinds)]}
  if has_sd and rng.random() < 0.5:
    c["names"] = pick_names(rng, nk + 1); c["tags"].append("colliding-names")
  return c


def targeted(strategy, kind):
  """One value stored through two equal-but-distinct objects under two names, both names then lose it (delete,
  attribute delete, overwrite by another value, rejected assignment), a lookup in between, then a new value is
  stored: default / attributes / tuples must follow the equality class, not the object."""
  removers = [lambda k: ["del", k], lambda k: ["set", [k], 2, 3], lambda k: ["setbad", [k], "ueq" if strategy else "list"]]
  if strategy:
    removers.append(lambda k: ["delattr", k])
  lookups = [None, ["obs", "v2k", 3, 1], ["obs", "get", 2, 0], ["obs", "iter", 0, 0], ["obs", "bad", 1, 0]]
  for first in ([["set", [0], 1, 0], ["set", [1], 1, 1]], [["set", [0, 1], 1, 0], ["set", [1], 1, 2]],
                [["set", [0], 1, 1], ["set", [1, 0], 1, 5]]):
    for (i, r1), (j, r2) in itertools.product(enumerate(removers), repeat=2):
      for a, b in ((0, 1), (1, 0)):
        lk = lookups[(i + 2 * j + a) % len(lookups)]
        ops = first + [r1(a)] + ([lk] if lk else []) + [r2(b), ["set", [2], 2, 4], ["set", [0], 1, 3]]
        yield {"strategy": strategy, "nk": 3, "nv": 2, "vk": kind, "init": [], "ops": ops, "kvar": (i + j) % 2 == 0,
               "tags": ["targeted", "sd" if strategy else "mkd", "vk:" + kind]}
