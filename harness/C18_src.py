# -*- coding: utf-8 -*-
"""C18 - the KIND of the wave_file argument of WavStream (family wavsrc): a file name, an open file on disk, a BytesIO,
a pipe, an object with only read(); for the objects the wave data starts at the object's CURRENT position (junk or
another wave file stored before it, anything after it)."""
import io
from fractions import Fraction
from vlib import coqlit as L
from C18_hist import _wav_samples, _zl, wav_rate, max_rate

SKINDS = {"name": "SName", "file": "SFile", "bytesio": "SBytesIO", "pipe": "SPipe", "readonly": "SReadOnly"}


def _wav_bytes(fd):
  import wave
  w = fd["bits"] // 8
  raw = b"".join((v % (1 << fd["bits"])).to_bytes(w, "little") for v in fd["samples"])
  buf = io.BytesIO()
  wf = wave.open(buf, "wb")
  wf.setnchannels(fd["channels"]); wf.setsampwidth(w); wf.setframerate(fd["rate"])
  wf.writeframes(raw); wf.close()
  return buf.getvalue()


def _file(rng, nfr=None):
  bits = rng.choice([8, 16, 24, 32]); ch = rng.choice([1, 2])
  n = ch * (rng.choice([0, 1, 2, 3, 5, 8]) if nfr is None else nfr)
  return {"bits": bits, "channels": ch, "rate": wav_rate(rng, bits, ch),
          "samples": _wav_samples(bits, n, rng)}


def gen_wavsrc(tier, rng):
  reps = 2 if tier == "quick" else 16
  for _ in range(reps):
    for kind in ("name", "file", "bytesio", "pipe", "readonly"):
      for bits in (8, 16, 24, 32):
        for ch in (1, 2):
          # what is stored before the file: nothing, another (different) wave file, junk bytes
          for pre in (("none",) if kind == "name" else ("none", "wave", "junk")):
            main = _file(rng); main["bits"] = bits; main["channels"] = ch; main["rate"] = wav_rate(rng, bits, ch)
            main["samples"] = _wav_samples(bits, ch * rng.choice([0, 1, 2, 3, 5, 8]), rng)
            prefix = {"none": None, "wave": _file(rng), "junk": [rng.randrange(256) for _ in range(rng.choice([1, 3, 44, 50]))]}[pre]
            if pre == "wave" and prefix["rate"] == main["rate"]:
              prefix["rate"] += 1 if prefix["rate"] < max_rate(prefix["bits"], prefix["channels"]) else -1
            suffix = None if kind == "name" else rng.choice([None, _file(rng), [rng.randrange(256) for _ in range(5)]])
            yield {"kind": kind, "keep": rng.random() < 0.6, "main": main, "prefix": prefix, "suffix": suffix,
                   "tags": ["kind=" + kind, "bits=%d" % bits, "ch=%d" % ch, "prefix=" + pre]}


def _blob(x):
  return b"" if x is None else bytes(x) if isinstance(x, list) else _wav_bytes(x)


def run_wavsrc(c):
  import builtins, os, shutil, tempfile
  import audiolazy
  from audiolazy.lazy_wav import WavStream
  pre, mid, suf = _blob(c["prefix"]), _wav_bytes(c["main"]), _blob(c["suffix"])
  content = pre + mid + suf
  res = {"content": list(content), "pos": len(pre), "prefix": list(pre), "suffix": list(suf), "lib_closed": False,
         "caller_closed": False}
  tmp = tempfile.mkdtemp(prefix="c18s_")
  real_open = builtins.open
  opened = []

  def tracking_open(file, *a, **k):
    f = real_open(file, *a, **k)
    if isinstance(file, str) and file.startswith(tmp):
      opened.append(f)
    return f
  obj = wfd = None
  try:
    path = os.path.join(tmp, "a.wav")
    with real_open(path, "wb") as f:
      f.write(content)
    k = c["kind"]
    if k == "name":
      obj = path
    elif k == "file":
      obj = real_open(path, "rb"); obj.seek(len(pre))
    elif k == "bytesio":
      obj = io.BytesIO(content); obj.seek(len(pre))
    elif k == "pipe":                                # not seekable: the prefix has been read by the caller
      rfd, wfd = os.pipe()
      os.write(wfd, content); os.close(wfd); wfd = None
      obj = os.fdopen(rfd, "rb"); obj.read(len(pre))
    else:
      class ReadOnly(object):
        def __init__(self, b): self._b = io.BytesIO(b)
        def read(self, n=-1): return self._b.read(n)
      obj = ReadOnly(content); obj.read(len(pre))
    builtins.open = tracking_open
    try:
      ws = WavStream(obj, keep=c["keep"])
      res["attrs"] = [ws.rate, ws.channels, ws.bits]
      outs = []
      for v in ws:
        if isinstance(v, bool) or not isinstance(v, (int, float)):
          res["raise"] = "BadType_" + type(v).__name__; break
        outs.append(["i", v] if isinstance(v, int) else ["f", [Fraction(v).numerator, Fraction(v).denominator]])
        if len(outs) > len(content):
          res["raise"] = "TooManySamples"; break
      res["outs"] = outs
      res["lib_closed"] = bool(opened) and all(f.closed for f in opened)
      res["caller_closed"] = bool(getattr(obj, "closed", False))
    except Exception as e:
      res["raise"] = type(e).__name__
    return res
  finally:
    builtins.open = real_open
    if obj is not None and hasattr(obj, "close"):
      try: obj.close()
      except Exception: pass
    shutil.rmtree(tmp, ignore_errors=True)


def lit_wavsrc(c, o):
  m = c["main"]
  if "raise" in o or "outs" not in o:
    ob = "(WRaise %s)" % L.string(o.get("raise", "?")); attrs = o.get("attrs", [0, 0, 0])
  else:
    ob = "(WO %s)" % L.lst(["(WInt %s)" % L.z(v[1]) if v[0] == "i" else "(WFlt (qc (%d) %d))" % (v[1][0], v[1][1]) for v in o["outs"]])
    attrs = o["attrs"]
  g = lambda k, d: o.get(k, d)
  return "(SC %s %s %s %s %s %s %s %s %s %s %s (%s, %s, %s) %s %s)" % (
    SKINDS[c["kind"]], L.boolean(c["keep"]), _zl(g("content", [])), L.nat(g("pos", 0)), _zl(g("prefix", [])), L.z(m["rate"]),
    L.nat(m["channels"]), L.z(m["bits"]), L.lst([L.z(v) for v in m["samples"]]), _zl(g("suffix", [])), ob,
    L.z(attrs[0]), L.z(attrs[1]), L.z(attrs[2]), L.boolean(g("lib_closed", False)), L.boolean(g("caller_closed", False)))


def nontrivial_wavsrc(c, o):
  return c["kind"] != "name" and c["prefix"] is not None and len(c["main"]["samples"]) >= 2
