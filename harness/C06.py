# -*- coding: utf-8 -*-
"""C06 - filters whose coefficients are Stream objects (time-varying filters), against C06.Model
(Poly / ZFilter algebra with tee hubs, code generator, generated generator as an event machine) and the
frozen-coefficient difference-equation spec.

Every user Stream (the input = source 0, every coefficient source) is a generator that logs each next()
into one shared event list; the consumer logs every item it receives.  The observation is that event
trace plus the generated program text (captured from _exec_eval, parsed fail-closed by C06_parse)."""
import itertools
from fractions import Fraction
from vlib.framework import Family
from vlib import coqlit as L
from vlib.exactq import ExactQ, to_frac
from C06_parse import parse_program

PID = "C06"
PROP_FILES = ["Prop"]
ALLOWED_AXIOMS = []
EXTRA_COQ_DIRS = ["C04"]
EXHAUSTIVE = {"quick": False, "thorough": False}


def fr(x):
  x = Fraction(x)
  return [x.numerator, x.denominator]


def unfr(p):
  return Fraction(p[0], p[1])


# ----------------------------------------------------------------------------- running one case
def _source(i, spec, log):
  vals = [unfr(v) for v in spec["vals"]]
  cyc = spec["cyc"]

  def g():
    k = 0
    while True:
      if k >= len(vals):
        if cyc and vals:
          k = 0
        else:
          log.append(["R", i, None])
          return
      log.append(["R", i, fr(vals[k])])
      yield ExactQ(vals[k])
      k += 1
  return g()


def _mk_stream(i, spec, log):
  """the coefficient Stream number i; kind "gen": a generator logging every next(); the other kinds put a raw
  itertools object / list / ControlStream behind the Stream (no log: the source is 'silent')"""
  import audiolazy
  kind = spec.get("kind", "gen")
  vals = [ExactQ(unfr(v)) for v in spec["vals"]]
  if kind == "gen":
    return audiolazy.Stream(_source(i, spec, log))
  if kind == "repeat_n":
    return audiolazy.Stream(itertools.repeat(vals[0], len(vals)))
  if kind == "repeat":
    return audiolazy.Stream(itertools.repeat(vals[0]))
  if kind == "lz_repeat":
    import audiolazy.lazy_itertools as lz
    return lz.repeat(vals[0], len(vals))
  if kind == "islice_count":
    step = vals[1] - vals[0] if len(vals) > 1 else ExactQ(1)
    return audiolazy.Stream(itertools.islice(itertools.count(vals[0], step), len(vals)))
  if kind == "iter_list":
    return audiolazy.Stream(iter(vals))
  if kind == "list":
    return audiolazy.Stream(vals)
  if kind == "cycle":
    return audiolazy.Stream(*vals)
  if kind == "control":
    return audiolazy.ControlStream(vals[0])
  raise ValueError(kind)


def silent_ids(c):
  return [i for i, sp in enumerate(c["srcs"]) if i > 0 and sp.get("kind", "gen") != "gen"]


def _coef(c, env):
  if c[0] == "c":
    return ExactQ(Fraction(c[1], c[2]))
  return env["stream"](c[1])


def _items(items, env):
  from collections import OrderedDict
  return OrderedDict((int(k), _coef(c, env)) for k, c in items)


def _build(t, env):
  import audiolazy
  op = t[0]
  if op == "base":
    return audiolazy.ZFilter(_items(t[1], env), _items(t[2], env))
  if op in ("add", "sub", "mul"):
    a = _build(t[1], env)
    b = _build(t[2], env)
    return a + b if op == "add" else a - b if op == "sub" else a * b
  if op == "neg":
    return -_build(t[1], env)
  if op in ("mulr", "addr", "divr"):
    a = _build(t[1], env)
    c = _coef(t[2], env)
    return a * c if op == "mulr" else a + c if op == "addr" else a / c
  if op in ("mull", "addl"):
    a = _build(t[2], env)
    c = _coef(t[1], env)
    return c * a if op == "mull" else c + a
  raise ValueError(op)


def run_tv(c):
  import audiolazy
  import audiolazy.lazy_filters as lf
  log = []
  made = {}

  def stream(i):
    assert i not in made and i != 0
    made[i] = True
    return _mk_stream(i, c["srcs"][i], log)

  env = {"stream": stream}
  try:
    flt = _build(c["expr"], env)
  except Exception as e:
    return {"stage": "build", "exc": type(e).__name__}
  captured = []
  orig = lf._exec_eval

  def recorder(data, expr):
    captured.append([data, expr])
    return orig(data, expr)

  lf._exec_eval = recorder
  try:
    mem = None if c["mem"] is None else [ExactQ(unfr(v)) for v in c["mem"]]
    try:
      out = flt(_source(0, c["srcs"][0], log), memory=mem, zero=ExactQ(unfr(c["zero"])))
    except Exception as e:
      return {"stage": "call", "exc": type(e).__name__}
    n = 0
    try:
      it = iter(out)
      while n < c["limit"]:
        try:
          v = next(it)
        except StopIteration:
          log.append(["S"])
          break
        log.append(["Y", fr(to_frac(v))])
        n += 1
    except Exception as e:
      log.append(["E", type(e).__name__])
  finally:
    lf._exec_eval = orig
  if len(captured) == 1 and captured[0][1] == "gen":
    prog = parse_program(captured[0][0])
    text = captured[0][0]
  else:
    prog, text = {"error": "%d programs" % len(captured)}, None
  return {"stage": "run", "prog": prog, "text": text, "trace": log}


# ----------------------------------------------------------------------------- Coq literals
def q(p):
  return "(qc (%d) %d)" % (p[0], p[1])


def coef_lit(c):
  if c[0] == "c":
    return "(CNum %s)" % q([c[1], c[2]])
  return "(CStr (XSrc %s))" % L.nat(c[1])


def items_lit(items):
  return L.lst(["(%s, %s)" % (L.z(k), coef_lit(c)) for k, c in items])


_OPS = {"add": "FAdd", "sub": "FSub", "mul": "FMul", "mulr": "FMulR", "addr": "FAddR", "divr": "FDivR",
        "mull": "FMulL", "addl": "FAddL"}


def expr_lit(t):
  op = t[0]
  if op == "base":
    return "(FBase %s %s)" % (items_lit(t[1]), items_lit(t[2]))
  if op in ("add", "sub", "mul"):
    return "(%s %s %s)" % (_OPS[op], expr_lit(t[1]), expr_lit(t[2]))
  if op == "neg":
    return "(FNeg %s)" % expr_lit(t[1])
  if op in ("mulr", "addr", "divr"):
    return "(%s %s %s)" % (_OPS[op], expr_lit(t[1]), coef_lit(t[2]))
  if op in ("mull", "addl"):
    return "(%s %s %s)" % (_OPS[op], coef_lit(t[1]), expr_lit(t[2]))
  raise ValueError(op)


def prog_lit(p):
  if p is None or "error" in p:
    return "TUnparsed"
  if "zero" in p:
    return "(TCaptured (TZero %s))" % q(p["zero"])
  terms = []
  for t in p["terms"]:
    if t[0] == "NextB":
      terms.append("TNextB %s" % L.nat(t[1]))
    elif t[0] == "NextA":
      terms.append("TNextA %s" % L.nat(t[1]))
    elif t[0] in ("D", "NegD", "M", "NegM"):
      terms.append("TConst (%s %s)" % (t[0], L.nat(t[1])))
    else:
      terms.append("TConst (%s %s %s)" % (t[0], q(t[2]), L.nat(t[1])))
  g = p["gain"]
  gain = {"one": "GOne", "neg": "GNeg"}.get(g[0]) or "(GDiv %s)" % q(g[1])
  pairs = lambda l: L.lst(["(%s, %s)" % (L.nat(i), L.nat(j)) for i, j in l])
  nats = lambda l: L.lst([L.nat(i) for i in l])
  return "(TCaptured (TGen (TProg (Prog %s %s %s %s %s %s) %s %s %s)))" % (
    nats(p["mvars"]), nats(p["dvars"]), L.lst(terms), gain, pairs(p["mshift"]), pairs(p["dshift"]),
    nats(p["bargs"]), nats(p["aargs"]), L.boolean(p["try"]))


_EXN = {"ZeroDivisionError": "XZeroDiv", "RuntimeError": "XRuntime"}


def event_lit(e):
  if e[0] == "R":
    return "EvRead %s %s" % (L.nat(e[1]), "None" if e[2] is None else "(Some %s)" % q(e[2]))
  if e[0] == "Y":
    return "EvYield %s" % q(e[1])
  if e[0] == "S":
    return "EvStop"
  return "EvRaise %s" % _EXN.get(e[1], "XOther")


def src_lit(s):
  return "(%s %s)" % ("SCyc" if s["cyc"] else "SFin", L.lst([q(v) for v in s["vals"]]))


def lit_tv(c, o):
  st = o.get("stage")
  if st == "build":
    obs = "(OBuild %s)" % L.string(o["exc"])
  elif st == "call":
    obs = "(OCall %s)" % L.string(o["exc"])
  elif st == "run":
    obs = "(ORun %s %s)" % (prog_lit(o["prog"]), L.lst([event_lit(e) for e in o["trace"]]))
  else:
    obs = "OOther"
  mem = "MNone" if c["mem"] is None else "(MIter %s)" % L.lst([q(v) for v in c["mem"]])
  return "(TCase %s %s %s %s %s %s %s)" % (expr_lit(c["expr"]), L.lst([src_lit(s) for s in c["srcs"]]), mem,
                                           q(c["zero"]), L.nat(c["limit"]), L.lst([L.nat(i) for i in silent_ids(c)]), obs)


# ----------------------------------------------------------------------------- generators
CONSTS = [Fraction(1), Fraction(-1), Fraction(2), Fraction(-1, 2), Fraction(3, 2)]


def src_vals(i, n, rng=None, zero_at=None):
  """counting values: source i delivers (10 i + k + 1) / (i % 3 + 1), so a value tells who was read and when"""
  vals = [Fraction(10 * i + k + 1, (i % 3) + 1) * (-1 if (i + k) % 4 == 3 else 1) for k in range(n)]
  if zero_at is not None and zero_at < n:
    vals[zero_at] = Fraction(0)
  return [fr(v) for v in vals]


class Srcs(object):
  """allocates the sources of one case; source 0 is the input"""
  KINDS_FIN = ["repeat_n", "lz_repeat", "islice_count", "iter_list", "list"]
  KINDS_INF = ["repeat", "cycle", "control"]

  def __init__(self, rng, nin, in_cyc=False, short=0.35, zero_p=0.0, kinds_p=0.12):
    self.kinds_p = kinds_p
    self.rng = rng
    self.short = short
    self.zero_p = zero_p
    self.nin = nin
    self.list = [{"vals": [fr(Fraction(3 * k + 2, (k % 2) + 1) * (-1 if k % 3 == 2 else 1)) for k in range(nin)],
                  "cyc": in_cyc}]

  def new(self):
    rng = self.rng
    i = len(self.list)
    r = rng.random()
    if r < self.short:
      n, cyc = rng.randrange(0, max(1, self.nin + 1)), False       # ends before / with the input
    elif r < self.short + 0.3:
      n, cyc = rng.randrange(1, 4), True                            # periodic
    else:
      n, cyc = self.nin + rng.randrange(0, 3), False                # long enough
    z = rng.randrange(0, max(1, n)) if rng.random() < self.zero_p else None
    spec = {"vals": src_vals(i, n, zero_at=z), "cyc": cyc}
    if rng.random() < self.kinds_p and n >= 1:
      self.silent_kind(spec, i, n, cyc)
    self.list.append(spec)
    return ["s", i]

  def new_kind(self, kind, n):
    """a coefficient Stream of the given kind with n items (endless for the periodic kinds)"""
    i = len(self.list)
    cyc = kind in self.KINDS_INF
    spec = {"vals": src_vals(i, max(n, 1)), "cyc": cyc}
    self.silent_kind(spec, i, max(n, 1), cyc, kind=kind)
    self.list.append(spec)
    return ["s", i]

  def silent_kind(self, spec, i, n, cyc, kind=None):
    """the same source as a raw object behind the Stream (values adapted to what the object can deliver)"""
    rng = self.rng
    kind = kind or rng.choice(self.KINDS_INF if cyc else self.KINDS_FIN)
    v0 = Fraction(10 * i + 1, (i % 3) + 1)
    if kind in ("repeat_n", "lz_repeat"):
      spec["vals"] = [fr(v0)] * n
    elif kind in ("repeat", "control"):
      spec["vals"], spec["cyc"] = [fr(v0)], True
    elif kind == "islice_count":
      spec["vals"] = [fr(v0 + k * Fraction(1, 2)) for k in range(n)]
    elif kind == "cycle":
      if len(spec["vals"]) < 2:
        spec["vals"] = spec["vals"] + [fr(v0)]
      spec["cyc"] = True
    spec["kind"] = kind


def cst(v):
  v = Fraction(v)
  return ["c", v.numerator, v.denominator]


def base_filter(rng, S, nkeys, dkeys, mask, consts=None):
  """mask: for each coefficient position (num keys then den keys) True = a Stream"""
  items = []
  pos = 0
  for keys in (nkeys, dkeys):
    cur = []
    for k in keys:
      if mask[pos]:
        cur.append([k, S.new()])
      else:
        v = rng.choice(CONSTS) if consts is None else consts[pos]
        cur.append([k, cst(v)])
      pos += 1
    items.append(cur)
  return ["base", items[0], items[1]]


def count_streams(t):
  if t[0] == "base":
    return sum(1 for k, c in t[1] + t[2] if c[0] == "s")
  n = 0
  for x in t[1:]:
    if isinstance(x, list) and x and isinstance(x[0], str):
      if x[0] == "s":
        n += 1
      elif x[0] != "c":
        n += count_streams(x)
  return n


def mk_case(expr, S, rng, tags, limit=None, mem=None, zero=None):
  nin = S.nin
  if limit is None:
    limit = nin + 2 if not S.list[0]["cyc"] else rng.randrange(3, 8)
  return {"expr": expr, "srcs": S.list, "mem": mem, "zero": fr(zero if zero is not None else 0),
          "limit": limit, "tags": tags}


def rand_keys(rng, maxorder, need0=True):
  ks = [k for k in range(0, maxorder + 1) if rng.random() < 0.7]
  if need0 and 0 not in ks:
    ks = [0] + ks
  return ks


def gen_shape(tier, rng):
  # the registered finding C06-zero-filter-gain-unread: ZFilter({}, {0: Stream([11/2, 6])}) on 4 input items
  S = Srcs(rng, 4)
  S.list.append({"vals": src_vals(1, 2), "cyc": False})
  yield mk_case(["base", [], [[0, ["s", 1]]]], S, rng, ["finding-witness"])
  # (1) every subset of coefficients replaced by streams, orders <= 2 (thorough: all; quick: a sample)
  for nb in range(0, 3):
    for na in range(0, 3):
      ncoef = nb + 1 + na + 1
      for bits in itertools.product([False, True], repeat=ncoef):
        if tier == "quick" and rng.random() > 0.22:
          continue
        nin = rng.randrange(3, 7)
        S = Srcs(rng, nin, short=0.25)
        e = base_filter(rng, S, list(range(nb + 1)), list(range(na + 1)), bits)
        yield mk_case(e, S, rng, ["subset", "nb=%d" % nb, "na=%d" % na, "a0str" if bits[nb + 1] else "a0const"])
  # (2) order 3, sparse keys, random subsets, memory / zero / periodic input
  n = 260 if tier == "quick" else 3000
  for _ in range(n):
    nk = rand_keys(rng, 3, need0=False)
    dk = rand_keys(rng, 3, need0=rng.random() < 0.9)
    if not dk:
      dk = [0]
    bits = [rng.random() < 0.5 for _ in nk + dk]
    in_cyc = rng.random() < 0.15
    nin = rng.randrange(0, 8) if not in_cyc else rng.randrange(1, 4)
    S = Srcs(rng, nin, in_cyc=in_cyc, zero_p=0.08)
    e = base_filter(rng, S, nk, dk, bits)
    mem = None
    if rng.random() < 0.4:
      mem = [fr(Fraction(rng.randrange(-5, 6), rng.choice([1, 2, 3]))) for _ in range(rng.randrange(0, 5))]
    zero = Fraction(0) if rng.random() < 0.6 else Fraction(rng.randrange(-3, 4), rng.choice([1, 3]))
    yield mk_case(e, S, rng, ["random", "order3", "cyc-in" if in_cyc else "fin-in",
                              "mem" if mem is not None else "nomem"], mem=mem, zero=zero)
  # (3) edge stream: negative powers, zero constants, shifted denominators, empty polys
  edge = [
    ([-1, 0], [0], None), ([0, 1], [1, 2], None), ([0], [2], None), ([], [0, 1], None), ([0, 2], [], None),
    ([1], [0, -1], None), ([0], [0], None), ([3], [0, 3], None),
  ]
  reps = 4 if tier == "quick" else 30
  for nk, dk, _ in edge:
    for _ in range(reps):
      bits = [rng.random() < 0.6 for _ in nk + dk]
      S = Srcs(rng, rng.randrange(2, 6))
      consts = [rng.choice(CONSTS + [Fraction(0)]) for _ in nk + dk]
      e = base_filter(rng, S, nk, dk, bits, consts=consts)
      yield mk_case(e, S, rng, ["edge"])


def nontrivial_shape(c, o):
  if o.get("stage") != "run":
    return False
  ny = sum(1 for e in o["trace"] if e[0] == "Y")
  return ny >= 3 and count_streams(c["expr"]) >= 1


def small_filter(rng, S, maxorder=2, pstream=0.5, den_p=0.6):
  nk = rand_keys(rng, maxorder, need0=False) or [0]
  dk = rand_keys(rng, maxorder) if rng.random() < den_p else [0]
  bits = [rng.random() < pstream for _ in nk + dk]
  return base_filter(rng, S, nk, dk, bits)


def rand_scalar(rng, S, pstream=0.6):
  if rng.random() < pstream:
    return S.new()
  return cst(rng.choice(CONSTS + [Fraction(0)] if rng.random() < 0.1 else CONSTS))


def rand_expr(rng, S, depth):
  if depth == 0:
    return small_filter(rng, S)
  r = rng.random()
  if r < 0.3:
    return ["add", rand_expr(rng, S, depth - 1), rand_expr(rng, S, depth - 1)]
  if r < 0.55:
    return ["mul", rand_expr(rng, S, depth - 1), rand_expr(rng, S, depth - 1)]
  if r < 0.65:
    return ["sub", rand_expr(rng, S, depth - 1), rand_expr(rng, S, depth - 1)]
  if r < 0.70:
    return ["neg", rand_expr(rng, S, depth - 1)]
  if r < 0.78:
    return ["mulr", rand_expr(rng, S, depth - 1), rand_scalar(rng, S)]
  if r < 0.86:
    return ["mull", rand_scalar(rng, S), rand_expr(rng, S, depth - 1)]
  if r < 0.90:
    return ["addr", rand_expr(rng, S, depth - 1), rand_scalar(rng, S)]
  if r < 0.94:
    return ["addl", rand_scalar(rng, S), rand_expr(rng, S, depth - 1)]
  return ["divr", rand_expr(rng, S, depth - 1), rand_scalar(rng, S)]


def gen_alg(tier, rng):
  # (1) every operator on two filters of order <= 1 with every subset of streams (thorough), sample (quick)
  for op in ("add", "mul", "sub"):
    for nb1, na1, nb2, na2 in itertools.product((0, 1), repeat=4):
      n1, n2 = nb1 + 1 + na1 + 1, nb2 + 1 + na2 + 1
      for bits in itertools.product([False, True], repeat=n1 + n2):
        if rng.random() > (0.05 if tier == "quick" else 0.6):
          continue
        S = Srcs(rng, rng.randrange(3, 6), short=0.2)
        f = base_filter(rng, S, list(range(nb1 + 1)), list(range(na1 + 1)), bits[:n1])
        g = base_filter(rng, S, list(range(nb2 + 1)), list(range(na2 + 1)), bits[n1:])
        yield mk_case([op, f, g], S, rng, ["pair", op])
  # (1b) coincidences: operands sharing equal CONSTANT sub-polynomials (numerator of one = denominator of the
  # other, equal denominators with Stream numerators, equal numerators, the trivial common factor 1), Streams elsewhere
  POLYS = [[Fraction(1), Fraction(-1, 2)], [Fraction(2), Fraction(1)], [Fraction(1), Fraction(0), Fraction(-1)],
           [Fraction(1)], [Fraction(-1, 2), Fraction(3, 2), Fraction(1)], [Fraction(3, 2)]]

  def cpoly(P):
    return [[k, cst(v)] for k, v in enumerate(P) if v != 0]

  def spoly(S, n, first_const=None, pstream=0.8):
    items = []
    for k in range(n):
      if k == 0 and first_const is not None:
        items.append([0, cst(first_const)])
      elif rng.random() < pstream:
        items.append([k, S.new()])
      else:
        items.append([k, cst(rng.choice(CONSTS))])
    return items

  reps = 3 if tier == "quick" else 25
  for P in POLYS:
    for shape in ("num=den", "den=num", "den=den", "num=num", "num=den-const-rest"):
      for op in ("mul", "add", "sub"):
        for _ in range(reps if op == "mul" or shape == "den=den" else 1):
          S = Srcs(rng, rng.randrange(3, 6), short=0.15)
          other = lambda: spoly(S, rng.randrange(1, 3))
          gain1 = lambda: spoly(S, rng.randrange(1, 3), first_const=rng.choice([Fraction(1), Fraction(2), Fraction(-1)]),
                                pstream=0.7)
          if shape == "num=den":
            f, g = ["base", cpoly(P), gain1()], ["base", other(), cpoly(P)]
          elif shape == "den=num":
            f, g = ["base", other(), cpoly(P)], ["base", cpoly(P), gain1()]
          elif shape == "den=den":
            f, g = ["base", other(), cpoly(P)], ["base", other(), cpoly(P)]
          elif shape == "num=num":
            f, g = ["base", cpoly(P), gain1()], ["base", cpoly(P), gain1()]
          else:
            f = ["base", cpoly(P), [[0, cst(1)], [1, cst(Fraction(1, 2))]]]
            g = ["base", other(), cpoly(P)]
          yield mk_case([op, f, g], S, rng, ["coincide", shape, op])
  # (1c) coefficient Stream KINDS: a raw itertools.repeat(v, n) / repeat(v) / lazy_itertools.repeat / islice(count) /
  # iter(list) / list / cycle / ControlStream behind the Stream, in every position of an operand of + - * with a
  # different denominator; finite kinds shorter than the input, so that the end of the output speaks for the reads
  reps = 1 if tier == "quick" else 6
  for kind in Srcs.KINDS_FIN + Srcs.KINDS_INF:
    for pos in ("den1", "den0", "num", "scalar"):
      for op in ("add", "sub", "mul"):
        for _ in range(reps):
          nin = rng.randrange(6, 9)
          S = Srcs(rng, nin, short=0.0, kinds_p=0.0)
          ks = S.new_kind(kind, rng.randrange(2, nin - 1))
          logged = lambda: S.new() if rng.random() < 0.5 else cst(rng.choice(CONSTS))
          if pos == "den1":
            f = ["base", [[0, logged()]], [[0, cst(1)], [1, ks]]]
          elif pos == "den0":
            f = ["base", [[0, logged()], [1, cst(1)]], [[0, ks], [1, cst(Fraction(1, 2))]]]
          elif pos == "num":
            f = ["base", [[0, ks], [1, logged()]], [[0, cst(1)], [1, cst(Fraction(-1, 2))]]]
          else:
            f = ["mull", ks, ["base", [[0, cst(1)], [1, logged()]], [[0, cst(1)]]]]
          g = ["base", [[0, logged()]], [[0, cst(2)], [1, logged()]]]
          e = [op, f, g] if rng.random() < 0.5 else [op, g, f]
          yield mk_case(e, S, rng, ["kinds", kind, pos, op])
  # (2) Stream * z**-k sums: the way the documentation builds time-varying filters
  n = 60 if tier == "quick" else 600
  for _ in range(n):
    S = Srcs(rng, rng.randrange(3, 7), short=0.2)
    e = None
    for k in sorted(rng.sample(range(0, 4), rng.randrange(1, 4))):
      t = ["mull", rand_scalar(rng, S, 0.8), ["base", [[k, cst(1)]], [[0, cst(1)]]]]
      e = t if e is None else ["add", e, t]
    if rng.random() < 0.5:
      e = ["mul", e, ["base", [[0, cst(1)]], [[0, cst(1)], [rng.randrange(1, 3), rand_scalar(rng, S, 0.8)]]]]
    yield mk_case(e, S, rng, ["zexpr"])
  # (3) random expression trees of depth <= 2 (scalings by numbers and by streams included)
  n = 250 if tier == "quick" else 3500
  for _ in range(n):
    in_cyc = rng.random() < 0.1
    S = Srcs(rng, rng.randrange(2, 6) if not in_cyc else 2, in_cyc=in_cyc, short=0.2, zero_p=0.04)
    d = 1 if rng.random() < 0.6 else 2
    e = rand_expr(rng, S, d)
    if len(S.list) > 14:
      continue
    mem = None
    if rng.random() < 0.2:
      mem = [fr(Fraction(rng.randrange(-5, 6), rng.choice([1, 2]))) for _ in range(rng.randrange(0, 4))]
    yield mk_case(e, S, rng, ["tree", "depth=%d" % d], mem=mem,
                  zero=Fraction(0) if rng.random() < 0.7 else Fraction(1, 3))


def nontrivial_alg(c, o):
  if o.get("stage") != "run":
    return False
  ny = sum(1 for e in o["trace"] if e[0] == "Y")
  return ny >= 2 and count_streams(c["expr"]) >= 2


RULE = ("shape: ZFilter(dict, dict) with every subset of the coefficients b0..b_nb, a0..a_na (orders <= 2: all subsets "
        "in the thorough tier, a seeded sample in quick; order 3 / sparse keys / shifted or empty denominators / "
        "negative powers: seeded random) replaced by logging Streams that are finite (shorter than, equal to or longer "
        "than the input), or periodic; counting values (source i delivers +-(10 i + k + 1)/(i mod 3 + 1)), some with a "
        "zero item (division by a zero gain); input finite 0..7 or periodic with a consumer limit; memory None / list, "
        "zero 0 or a fraction.  alg: +, -, * on two such filters (all stream subsets for orders <= 1), "
        "Stream * z**-k sums, and random trees of depth <= 2 over + - * neg, number/Stream scalings from both sides, "
        "number/Stream offsets and division by a number/Stream.  Non-trivial = >= 3 (alg: >= 2) outputs with "
        ">= 1 (alg: >= 2) Stream coefficients.  ses / pow: sessions on ONE filter object (look, call, refused call, "
        "shift-and-call, filt ** n for n in -4..4).  Never generated: one Stream object or one filter object handed to "
        "the library twice in one expression (f*f, f+f, f-f, f/f without copy()): excluded by the Stream contract.")
trusted_base = [
  "the generated program text is parsed by harness/C06_parse.py (fail-closed extension of C04_parse with the "
  "next(b{k}) / -next(a{k}) terms, the extra def arguments and the try/except block)",
  "sources are Python generators logging each next(); itertools.tee and map (Python 3) are modelled by "
  "C06.Model.pull (tee: a shared hub with one buffer per copy; map: operands pulled left to right)",
  "values are exact rationals (ExactQ); the operands of one filter expression use pairwise distinct Stream objects",
]
ASSUMPTIONS = ["CPython semantics of exec / generators / itertools.tee / map as documented",
               "str.format of ExactQ ('_Q(n,d)', injected in builtins by vlib.exactq)"]

# ----------------------------------------------------------------------------- sessions on one filter object
def run_ses(c):
  """steps on ONE filter object: ["call", fuel] | ["shift", k, fuel] (g = filt * z**-k; call g) | ["look"];
  every call reads the same input generator (source 0) and the same coefficient Streams"""
  import audiolazy
  import audiolazy.lazy_filters as lf
  log = []
  made = {}

  def stream(i):
    assert i not in made and i != 0
    made[i] = True
    return _mk_stream(i, c["srcs"][i], log)

  try:
    flt = _build(c["expr"], {"stream": stream})
  except Exception as e:
    return {"stage": "build", "exc": type(e).__name__}
  seq = _source(0, c["srcs"][0], log)
  zero = ExactQ(unfr(c["zero"]))
  captured = []
  orig = lf._exec_eval

  def recorder(data, expr):
    captured.append([data, expr])
    return orig(data, expr)

  obs = []
  lf._exec_eval = recorder
  try:
    for st in c["steps"]:
      if st[0] == "look":
        obs.append({"seen": [[[int(k), isinstance(v, audiolazy.Stream)] for k, v in poly._data.items()]
                             for poly in (flt.numpoly, flt.denpoly)]})
        continue
      del captured[:]
      start = len(log)
      fuel = st[-1]
      try:
        if st[0] == "call":
          target = flt
        elif st[0] == "shift":
          target = flt * audiolazy.z ** -st[1]
        elif st[0] == "pow":
          target = flt ** st[1]
        else:
          target = {"mul": lambda f: f * f, "add": lambda f: f + f, "sub": lambda f: f - f,
                    "div": lambda f: f / f}[st[1]](flt)
        out = target(seq, zero=zero)
      except Exception as e:
        obs.append({"err": type(e).__name__})
        continue
      n = 0
      try:
        it = iter(out)
        while n < fuel:
          try:
            v = next(it)
          except StopIteration:
            log.append(["S"])
            break
          log.append(["Y", fr(to_frac(v))])
          n += 1
      except Exception as e:
        log.append(["E", type(e).__name__])
      if len(captured) == 1 and captured[0][1] == "gen":
        prog = parse_program(captured[0][0])
      else:
        prog = {"error": "%d programs" % len(captured)}
      obs.append({"prog": prog, "trace": log[start:]})
  finally:
    lf._exec_eval = orig
  return {"stage": "steps", "obs": obs}


def lit_ses(c, o):
  steps = []
  for st in c["steps"]:
    if st[0] == "call":
      steps.append("SCall %s" % L.nat(st[1]))
    elif st[0] == "shift":
      steps.append("SShiftCall %s %s" % (L.nat(st[1]), L.nat(st[2])))
    elif st[0] == "pow":
      steps.append("SPowCall %s %s" % (L.z(st[1]), L.nat(st[2])))
    elif st[0] == "self":
      steps.append("SSelfCall %s %s" % ({"mul": "SelfMul", "add": "SelfAdd", "sub": "SelfSub", "div": "SelfDiv"}[st[1]],
                                        L.nat(st[2])))
    else:
      steps.append("SLook")
  obs = []
  for x in (o.get("obs") or []):
    if "err" in x:
      obs.append("SOErr %s" % L.string(x["err"]))
    elif "seen" in x:
      shp = lambda l: L.lst(["(%s, %s)" % (L.z(k), L.boolean(b)) for k, b in l])
      obs.append("SOSeen %s %s" % (shp(x["seen"][0]), shp(x["seen"][1])))
    else:
      obs.append("SORun %s %s" % (prog_lit(x["prog"]), L.lst([event_lit(e) for e in x["trace"]])))
  if o.get("stage") != "steps":
    obs = ["SOOther"]
  return "(SCase %s %s %s %s %s %s)" % (expr_lit(c["expr"]), L.lst([src_lit(x) for x in c["srcs"]]), q(c["zero"]),
                                        L.lst([L.nat(i) for i in silent_ids(c)]), L.lst(steps), L.lst(obs))


def long_srcs(rng, nin=14):
  """sources long enough for several calls: the input has nin items, coefficient sources are longer or periodic"""
  S = Srcs(rng, nin, short=0.0)
  return S


def noncausal_base(rng, S, a0_stream):
  nk = sorted(set([-rng.randrange(1, 3)] + [k for k in range(0, 2) if rng.random() < 0.6]))
  dk = [0] + [k for k in range(1, 3) if rng.random() < 0.6]
  bits = [rng.random() < 0.6 for _ in nk] + [a0_stream] + [rng.random() < 0.6 for _ in dk[1:]]
  return base_filter(rng, S, nk, dk, bits), -min(nk)


def gen_ses(tier, rng):
  reps = 1 if tier == "quick" else 8
  # (g) a REFUSED call (non-causal) must leave the object as it was: look, call (refused), look, then the same
  # object made causal by * z**-k and run; with a Stream gain and with a number as gain
  for _ in range(30 * reps):
    S = long_srcs(rng, rng.randrange(4, 8))
    a0s = rng.random() < 0.7
    e, need = noncausal_base(rng, S, a0s)
    k = need + rng.randrange(0, 2)
    steps = [["look"], ["call", 3], ["look"]]
    if rng.random() < 0.3:
      steps += [["call", 2], ["look"]]
    steps += [["shift", k, rng.randrange(2, 6)]]
    yield {"expr": e, "srcs": S.list, "zero": fr(0), "steps": steps,
           "tags": ["refused-then-used", "a0str" if a0s else "a0const"]}
  # (a)/(d) block by block: two or three calls of one filter (a number as gain) go on reading the same
  # coefficient Streams; the object keeps its shape
  for _ in range(30 * reps):
    S = long_srcs(rng, 14)
    def number_gain(t):
      if t[2] and t[2][0][0] == 0 and t[2][0][1][0] == "s":
        t[2][0][1] = cst(rng.choice(CONSTS))          # a0: a number
      return t
    e = number_gain(small_filter(rng, S, maxorder=2, pstream=0.7))
    if rng.random() < 0.4:
      e = [rng.choice(["mul", "add"]), e, number_gain(small_filter(rng, S, maxorder=1, pstream=0.5, den_p=0.0))]
    f1, f2 = rng.randrange(1, 5), rng.randrange(1, 5)
    steps = [["look"], ["call", f1], ["look"], ["call", f2]]
    if rng.random() < 0.4:
      steps += [["call", rng.randrange(1, 4)]]
    steps += [["look"]]
    yield {"expr": e, "srcs": S.list, "zero": fr(0 if rng.random() < 0.7 else Fraction(1, 2)), "steps": steps,
           "tags": ["blocks"]}
  # the same with a Stream as gain (the repaired finding C06-gain-call-deletes-a0: the object keeps its a0)
  for _ in range(12 * reps):
    S = long_srcs(rng, 12)
    e = base_filter(rng, S, [0, 1], [0, 1], [rng.random() < 0.5, rng.random() < 0.5, True, rng.random() < 0.5])
    steps = [["look"], ["call", rng.randrange(1, 4)], ["look"], rng.choice([["call", 2], ["shift", 1, 2], ["call", 3]]), ["look"]]
    yield {"expr": e, "srcs": S.list, "zero": fr(0), "steps": steps, "tags": ["blocks-stream-gain"]}


def pow_filter(rng, S):
  """a filter for powers: a Poly that carries a Stream has at least two terms (Stream ** n on a one-term Poly is
  not modelled); one-term Polys are numbers (1 and others)"""
  def poly(allow_single):
    if allow_single and rng.random() < 0.4:
      return [[rng.choice([0, 0, 1]), cst(rng.choice([Fraction(1), Fraction(2), Fraction(-1, 2)]))]]
    n = rng.randrange(2, 4)
    items = [[k, S.new() if rng.random() < 0.6 else cst(rng.choice(CONSTS))] for k in range(n)]
    return items
  num = poly(True)
  den = poly(True)
  if den[0][0] != 0:
    den = [[0, cst(1)]]
  if den[0][1][0] == "s":
    den[0][1] = cst(rng.choice([Fraction(1), Fraction(2)]))      # a number as gain keeps the cases small
  return ["base", num, den]


def gen_pow(tier, rng):
  """(k) the same Stream-carrying operand on both sides of a product: filt ** n for n in -4..4 (the library takes
  a tee copy per factor; repair f1b3095 of finding C06-pow3-shared-copy: one copy object used to be repeated for
  |n| >= 3).  NOT generated: filt op filt (* + - /) with the very same filter OBJECT on both sides - the user then
  hands the same Stream objects to the library twice, which the Stream contract (single-use iterators, copy()
  before a second use) excludes; "however many times the algebra used it" is about the library's own algebra
  replicating a stream the user supplied once."""
  reps = 4 if tier == "quick" else 30
  for nk, dk, _ in edge:
    for _ in range(reps):
      bits = [rng.random() < 0.6 for _ in nk + dk]
      S = Srcs(rng, rng.randrange(2, 6))
      consts = [rng.choice(CONSTS + [Fraction(0)]) for _ in nk + dk]
      e = base_filter(rng, S, nk, dk, bits, consts=consts)
      yield mk_case(e, S, rng, ["edge"])


def nontrivial_shape(c, o):
  if o.get("stage") != "run":
    return False
  ny = sum(1 for e in o["trace"] if e[0] == "Y")
  return ny >= 3 and count_streams(c["expr"]) >= 1


def small_filter(rng, S, maxorder=2, pstream=0.5, den_p=0.6):
  nk = rand_keys(rng, maxorder, need0=False) or [0]
  dk = rand_keys(rng, maxorder) if rng.random() < den_p else [0]
  bits = [rng.random() < pstream for _ in nk + dk]
  return base_filter(rng, S, nk, dk, bits)


def rand_scalar(rng, S, pstream=0.6):
  if rng.random() < pstream:
    return S.new()
  return cst(rng.choice(CONSTS + [Fraction(0)] if rng.random() < 0.1 else CONSTS))


def rand_expr(rng, S, depth):
  if depth == 0:
    return small_filter(rng, S)
  r = rng.random()
  if r < 0.3:
    return ["add", rand_expr(rng, S, depth - 1), rand_expr(rng, S, depth - 1)]
  if r < 0.55:
    return ["mul", rand_expr(rng, S, depth - 1), rand_expr(rng, S, depth - 1)]
  if r < 0.65:
    return ["sub", rand_expr(rng, S, depth - 1), rand_expr(rng, S, depth - 1)]
  if r < 0.70:
    return ["neg", rand_expr(rng, S, depth - 1)]
  if r < 0.78:
    return ["mulr", rand_expr(rng, S, depth - 1), rand_scalar(rng, S)]
  if r < 0.86:
    return ["mull", rand_scalar(rng, S), rand_expr(rng, S, depth - 1)]
  if r < 0.90:
    return ["addr", rand_expr(rng, S, depth - 1), rand_scalar(rng, S)]
  if r < 0.94:
    return ["addl", rand_scalar(rng, S), rand_expr(rng, S, depth - 1)]
  return ["divr", rand_expr(rng, S, depth - 1), rand_scalar(rng, S)]


def gen_alg(tier, rng):
  # (1) every operator on two filters of order <= 1 with every subset of streams (thorough), sample (quick)
  for op in ("add", "mul", "sub"):
    for nb1, na1, nb2, na2 in itertools.product((0, 1), repeat=4):
      n1, n2 = nb1 + 1 + na1 + 1, nb2 + 1 + na2 + 1
      for bits in itertools.product([False, True], repeat=n1 + n2):
        if rng.random() > (0.05 if tier == "quick" else 0.6):
          continue
        S = Srcs(rng, rng.randrange(3, 6), short=0.2)
        f = base_filter(rng, S, list(range(nb1 + 1)), list(range(na1 + 1)), bits[:n1])
        g = base_filter(rng, S, list(range(nb2 + 1)), list(range(na2 + 1)), bits[n1:])
        yield mk_case([op, f, g], S, rng, ["pair", op])
  # (1b) coincidences: operands sharing equal CONSTANT sub-polynomials (numerator of one = denominator of the
  # other, equal denominators with Stream numerators, equal numerators, the trivial common factor 1), Streams elsewhere
  POLYS = [[Fraction(1), Fraction(-1, 2)], [Fraction(2), Fraction(1)], [Fraction(1), Fraction(0), Fraction(-1)],
           [Fraction(1)], [Fraction(-1, 2), Fraction(3, 2), Fraction(1)], [Fraction(3, 2)]]

  def cpoly(P):
    return [[k, cst(v)] for k, v in enumerate(P) if v != 0]

  def spoly(S, n, first_const=None, pstream=0.8):
    items = []
    for k in range(n):
      if k == 0 and first_const is not None:
        items.append([0, cst(first_const)])
      elif rng.random() < pstream:
        items.append([k, S.new()])
      else:
        items.append([k, cst(rng.choice(CONSTS))])
    return items

  reps = 3 if tier == "quick" else 25
  for P in POLYS:
    for shape in ("num=den", "den=num", "den=den", "num=num", "num=den-const-rest"):
      for op in ("mul", "add", "sub"):
        for _ in range(reps if op == "mul" or shape == "den=den" else 1):
          S = Srcs(rng, rng.randrange(3, 6), short=0.15)
          other = lambda: spoly(S, rng.randrange(1, 3))
          gain1 = lambda: spoly(S, rng.randrange(1, 3), first_const=rng.choice([Fraction(1), Fraction(2), Fraction(-1)]),
                                pstream=0.7)
          if shape == "num=den":
            f, g = ["base", cpoly(P), gain1()], ["base", other(), cpoly(P)]
          elif shape == "den=num":
            f, g = ["base", other(), cpoly(P)], ["base", cpoly(P), gain1()]
          elif shape == "den=den":
            f, g = ["base", other(), cpoly(P)], ["base", other(), cpoly(P)]
          elif shape == "num=num":
            f, g = ["base", cpoly(P), gain1()], ["base", cpoly(P), gain1()]
          else:
            f = ["base", cpoly(P), [[0, cst(1)], [1, cst(Fraction(1, 2))]]]
            g = ["base", other(), cpoly(P)]
          yield mk_case([op, f, g], S, rng, ["coincide", shape, op])
  # (1c) coefficient Stream KINDS: a raw itertools.repeat(v, n) / repeat(v) / lazy_itertools.repeat / islice(count) /
  # iter(list) / list / cycle / ControlStream behind the Stream, in every position of an operand of + - * with a
  # different denominator; finite kinds shorter than the input, so that the end of the output speaks for the reads
  reps = 1 if tier == "quick" else 6
  for kind in Srcs.KINDS_FIN + Srcs.KINDS_INF:
    for pos in ("den1", "den0", "num", "scalar"):
      for op in ("add", "sub", "mul"):
        for _ in range(reps):
          nin = rng.randrange(6, 9)
          S = Srcs(rng, nin, short=0.0, kinds_p=0.0)
          ks = S.new_kind(kind, rng.randrange(2, nin - 1))
          logged = lambda: S.new() if rng.random() < 0.5 else cst(rng.choice(CONSTS))
          if pos == "den1":
            f = ["base", [[0, logged()]], [[0, cst(1)], [1, ks]]]
          elif pos == "den0":
            f = ["base", [[0, logged()], [1, cst(1)]], [[0, ks], [1, cst(Fraction(1, 2))]]]
          elif pos == "num":
            f = ["base", [[0, ks], [1, logged()]], [[0, cst(1)], [1, cst(Fraction(-1, 2))]]]
          else:
            f = ["mull", ks, ["base", [[0, cst(1)], [1, logged()]], [[0, cst(1)]]]]
          g = ["base", [[0, logged()]], [[0, cst(2)], [1, logged()]]]
          e = [op, f, g] if rng.random() < 0.5 else [op, g, f]
          yield mk_case(e, S, rng, ["kinds", kind, pos, op])
  # (2) Stream * z**-k sums: the way the documentation builds time-varying filters
  n = 60 if tier == "quick" else 600
  for _ in range(n):
    S = Srcs(rng, rng.randrange(3, 7), short=0.2)
    e = None
    for k in sorted(rng.sample(range(0, 4), rng.randrange(1, 4))):
      t = ["mull", rand_scalar(rng, S, 0.8), ["base", [[k, cst(1)]], [[0, cst(1)]]]]
      e = t if e is None else ["add", e, t]
    if rng.random() < 0.5:
      e = ["mul", e, ["base", [[0, cst(1)]], [[0, cst(1)], [rng.randrange(1, 3), rand_scalar(rng, S, 0.8)]]]]
    yield mk_case(e, S, rng, ["zexpr"])
  # (3) random expression trees of depth <= 2 (scalings by numbers and by streams included)
  n = 250 if tier == "quick" else 3500
  for _ in range(n):
    in_cyc = rng.random() < 0.1
    S = Srcs(rng, rng.randrange(2, 6) if not in_cyc else 2, in_cyc=in_cyc, short=0.2, zero_p=0.04)
    d = 1 if rng.random() < 0.6 else 2
    e = rand_expr(rng, S, d)
    if len(S.list) > 14:
      continue
    mem = None
    if rng.random() < 0.2:
      mem = [fr(Fraction(rng.randrange(-5, 6), rng.choice([1, 2]))) for _ in range(rng.randrange(0, 4))]
    yield mk_case(e, S, rng, ["tree", "depth=%d" % d], mem=mem,
                  zero=Fraction(0) if rng.random() < 0.7 else Fraction(1, 3))


def nontrivial_alg(c, o):
  if o.get("stage") != "run":
    return False
  ny = sum(1 for e in o["trace"] if e[0] == "Y")
  return ny >= 2 and count_streams(c["expr"]) >= 2


RULE = ("shape: ZFilter(dict, dict) with every subset of the coefficients b0..b_nb, a0..a_na (orders <= 2: all subsets "
        "in the thorough tier, a seeded sample in quick; order 3 / sparse keys / shifted or empty denominators / "
        "negative powers: seeded random) replaced by logging Streams that are finite (shorter than, equal to or longer "
        "than the input), or periodic; counting values (source i delivers +-(10 i + k + 1)/(i mod 3 + 1)), some with a "
        "zero item (division by a zero gain); input finite 0..7 or periodic with a consumer limit; memory None / list, "
        "zero 0 or a fraction.  alg: +, -, * on two such filters (all stream subsets for orders <= 1), "
        "Stream * z**-k sums, and random trees of depth <= 2 over + - * neg, number/Stream scalings from both sides, "
        "number/Stream offsets and division by a number/Stream.  Non-trivial = >= 3 (alg: >= 2) outputs with "
        ">= 1 (alg: >= 2) Stream coefficients.  ses / pow: sessions on ONE filter object (look, call, refused call, "
        "shift-and-call, filt ** n for n in -4..4).  Never generated: one Stream object or one filter object handed to "
        "the library twice in one expression (f*f, f+f, f-f, f/f without copy()): excluded by the Stream contract.")
trusted_base = [
  "the generated program text is parsed by harness/C06_parse.py (fail-closed extension of C04_parse with the "
  "next(b{k}) / -next(a{k}) terms, the extra def arguments and the try/except block)",
  "sources are Python generators logging each next(); itertools.tee and map (Python 3) are modelled by "
  "C06.Model.pull (tee: a shared hub with one buffer per copy; map: operands pulled left to right)",
  "values are exact rationals (ExactQ); the operands of one filter expression use pairwise distinct Stream objects",
]
ASSUMPTIONS = ["CPython semantics of exec / generators / itertools.tee / map as documented",
               "str.format of ExactQ ('_Q(n,d)', injected in builtins by vlib.exactq)"]

# ----------------------------------------------------------------------------- sessions on one filter object
def run_ses(c):
  """steps on ONE filter object: ["call", fuel] | ["shift", k, fuel] (g = filt * z**-k; call g) | ["look"];
  every call reads the same input generator (source 0) and the same coefficient Streams"""
  import audiolazy
  import audiolazy.lazy_filters as lf
  log = []
  made = {}

  def stream(i):
    assert i not in made and i != 0
    made[i] = True
    return _mk_stream(i, c["srcs"][i], log)

  try:
    flt = _build(c["expr"], {"stream": stream})
  except Exception as e:
    return {"stage": "build", "exc": type(e).__name__}
  seq = _source(0, c["srcs"][0], log)
  zero = ExactQ(unfr(c["zero"]))
  captured = []
  orig = lf._exec_eval

  def recorder(data, expr):
    captured.append([data, expr])
    return orig(data, expr)

  obs = []
  lf._exec_eval = recorder
  try:
    for st in c["steps"]:
      if st[0] == "look":
        obs.append({"seen": [[[int(k), isinstance(v, audiolazy.Stream)] for k, v in poly._data.items()]
                             for poly in (flt.numpoly, flt.denpoly)]})
        continue
      del captured[:]
      start = len(log)
      fuel = st[-1]
      try:
        if st[0] == "call":
          target = flt
        elif st[0] == "shift":
          target = flt * audiolazy.z ** -st[1]
        elif st[0] == "pow":
          target = flt ** st[1]
        else:
          target = {"mul": lambda f: f * f, "add": lambda f: f + f, "sub": lambda f: f - f,
                    "div": lambda f: f / f}[st[1]](flt)
        out = target(seq, zero=zero)
      except Exception as e:
        obs.append({"err": type(e).__name__})
        continue
      n = 0
      try:
        it = iter(out)
        while n < fuel:
          try:
            v = next(it)
          except StopIteration:
            log.append(["S"])
            break
          log.append(["Y", fr(to_frac(v))])
          n += 1
      except Exception as e:
        log.append(["E", type(e).__name__])
      if len(captured) == 1 and captured[0][1] == "gen":
        prog = parse_program(captured[0][0])
      else:
        prog = {"error": "%d programs" % len(captured)}
      obs.append({"prog": prog, "trace": log[start:]})
  finally:
    lf._exec_eval = orig
  return {"stage": "steps", "obs": obs}


def lit_ses(c, o):
  steps = []
  for st in c["steps"]:
    if st[0] == "call":
      steps.append("SCall %s" % L.nat(st[1]))
    elif st[0] == "shift":
      steps.append("SShiftCall %s %s" % (L.nat(st[1]), L.nat(st[2])))
    elif st[0] == "pow":
      steps.append("SPowCall %s %s" % (L.z(st[1]), L.nat(st[2])))
    elif st[0] == "self":
      steps.append("SSelfCall %s %s" % ({"mul": "SelfMul", "add": "SelfAdd", "sub": "SelfSub", "div": "SelfDiv"}[st[1]],
                                        L.nat(st[2])))
    else:
      steps.append("SLook")
  obs = []
  for x in (o.get("obs") or []):
    if "err" in x:
      obs.append("SOErr %s" % L.string(x["err"]))
    elif "seen" in x:
      shp = lambda l: L.lst(["(%s, %s)" % (L.z(k), L.boolean(b)) for k, b in l])
      obs.append("SOSeen %s %s" % (shp(x["seen"][0]), shp(x["seen"][1])))
    else:
      obs.append("SORun %s %s" % (prog_lit(x["prog"]), L.lst([event_lit(e) for e in x["trace"]])))
  if o.get("stage") != "steps":
    obs = ["SOOther"]
  return "(SCase %s %s %s %s %s %s)" % (expr_lit(c["expr"]), L.lst([src_lit(x) for x in c["srcs"]]), q(c["zero"]),
                                        L.lst([L.nat(i) for i in silent_ids(c)]), L.lst(steps), L.lst(obs))


def long_srcs(rng, nin=14):
  """sources long enough for several calls: the input has nin items, coefficient sources are longer or periodic"""
  S = Srcs(rng, nin, short=0.0)
  return S


def noncausal_base(rng, S, a0_stream):
  nk = sorted(set([-rng.randrange(1, 3)] + [k for k in range(0, 2) if rng.random() < 0.6]))
  dk = [0] + [k for k in range(1, 3) if rng.random() < 0.6]
  bits = [rng.random() < 0.6 for _ in nk] + [a0_stream] + [rng.random() < 0.6 for _ in dk[1:]]
  return base_filter(rng, S, nk, dk, bits), -min(nk)


def gen_ses(tier, rng):
  reps = 1 if tier == "quick" else 8
  # (g) a REFUSED call (non-causal) must leave the object as it was: look, call (refused), look, then the same
  # object made causal by * z**-k and run; with a Stream gain and with a number as gain
  for _ in range(30 * reps):
    S = long_srcs(rng, rng.randrange(4, 8))
    a0s = rng.random() < 0.7
    e, need = noncausal_base(rng, S, a0s)
    k = need + rng.randrange(0, 2)
    steps = [["look"], ["call", 3], ["look"]]
    if rng.random() < 0.3:
      steps += [["call", 2], ["look"]]
    steps += [["shift", k, rng.randrange(2, 6)]]
    yield {"expr": e, "srcs": S.list, "zero": fr(0), "steps": steps,
           "tags": ["refused-then-used", "a0str" if a0s else "a0const"]}
  # (a)/(d) block by block: two or three calls of one filter (a number as gain) go on reading the same
  # coefficient Streams; the object keeps its shape
  for _ in range(30 * reps):
    S = long_srcs(rng, 14)
    def number_gain(t):
      if t[2] and t[2][0][0] == 0 and t[2][0][1][0] == "s":
        t[2][0][1] = cst(rng.choice(CONSTS))          # a0: a number
      return t
    e = number_gain(small_filter(rng, S, maxorder=2, pstream=0.7))
    if rng.random() < 0.4:
      e = [rng.choice(["mul", "add"]), e, number_gain(small_filter(rng, S, maxorder=1, pstream=0.5, den_p=0.0))]
    f1, f2 = rng.randrange(1, 5), rng.randrange(1, 5)
    steps = [["look"], ["call", f1], ["look"], ["call", f2]]
    if rng.random() < 0.4:
      steps += [["call", rng.randrange(1, 4)]]
    steps += [["look"]]
    yield {"expr": e, "srcs": S.list, "zero": fr(0 if rng.random() < 0.7 else Fraction(1, 2)), "steps": steps,
           "tags": ["blocks"]}
  # the same with a Stream as gain (the repaired finding C06-gain-call-deletes-a0: the object keeps its a0)
  for _ in range(12 * reps):
    S = long_srcs(rng, 12)
    e = base_filter(rng, S, [0, 1], [0, 1], [rng.random() < 0.5, rng.random() < 0.5, True, rng.random() < 0.5])
    steps = [["look"], ["call", rng.randrange(1, 4)], ["look"], rng.choice([["call", 2], ["shift", 1, 2], ["call", 3]]), ["look"]]
    yield {"expr": e, "srcs": S.list, "zero": fr(0), "steps": steps, "tags": ["blocks-stream-gain"]}


def pow_filter(rng, S):
  """a filter for powers: a Poly that carries a Stream has at least two terms (Stream ** n on a one-term Poly is
  not modelled); one-term Polys are numbers (1 and others)"""
  def poly(allow_single):
    if allow_single and rng.random() < 0.4:
      return [[rng.choice([0, 0, 1]), cst(rng.choice([Fraction(1), Fraction(2), Fraction(-1, 2)]))]]
    n = rng.randrange(2, 4)
    items = [[k, S.new() if rng.random() < 0.6 else cst(rng.choice(CONSTS))] for k in range(n)]
    return items
  num = poly(True)
  den = poly(True)
  if den[0][0] != 0:
    den = [[0, cst(1)]]
  if den[0][1][0] == "s":
    den[0][1] = cst(rng.choice([Fraction(1), Fraction(2)]))      # a number as gain keeps the cases small
  return ["base", num, den]


def gen_pow(tier, rng):
  """(k) the same Stream-carrying operand on both sides of a product: filt ** n, n in -2..2, the exponents the
  library computes with one tee copy per side.  Not generated: |n| >= 3 ([self.copy()] * (n-1) repeats ONE copy
  object) and filt op filt with one object on both sides: on the unchanged tree these read every Stream twice per
  sample (reported as findings C06-pow-reuses-copy / C06-same-object-both-sides), and itertools.tee of a tee object
  aliases it, which the model's hubs do not reproduce."""
  reps = 4 if tier == "quick" else 30
  for n in range(-4, 5):
    for _ in range(reps):
      S = long_srcs(rng, rng.randrange(5, 9))
      e = pow_filter(rng, S)
      yield {"expr": e, "srcs": S.list, "zero": fr(0), "steps": [["look"], ["pow", n, rng.randrange(2, 6)], ["look"]],
             "tags": ["pow", "n=%d" % n]}


def nontrivial_ses(c, o):
  return o.get("stage") == "steps" and sum(1 for x in o["obs"] if "trace" in x and len(x["trace"]) > 3) >= 1


def _zero_filter_signature(c, progs):
  """FINDING C06-zero-filter-gain-unread (generalised): an identically-zero filter - empty numerator after
  compaction - built from operands that carry coefficient Streams: the all-zero program is generated, the Streams
  are never read, the output is `zero` once per input item."""
  if not progs or not all(isinstance(p, dict) and "zero" in p for p in progs):
    return None
  if count_streams(c["expr"]) == 0:
    return None
  import audiolazy
  try:
    flt = _build(c["expr"], {"stream": lambda i: audiolazy.Stream(iter(()))})
    if len(flt.numpoly._data) == 0:
      return "C06-zero-filter-gain-unread"
  except Exception:
    pass
  return None


def known_tv(c, o):
  if o.get("stage") != "run":
    return None
  return _zero_filter_signature(c, [o.get("prog")])


def known_ses(c, o):
  if o.get("stage") != "steps":
    return None
  progs = [x["prog"] for x in o["obs"] if "prog" in x]
  return _zero_filter_signature(c, progs)


IMPORTS = "From AL Require Import C04.Model C06.Model C06.Spec C06.Check."
FAMILIES = {
  "shape": Family("shape", IMPORTS, "tcase", "corr_tv", "holds_tv", gen_shape, run_tv, lit_tv, nontrivial_shape, known_tv),
  "alg": Family("alg", IMPORTS, "tcase", "corr_tv", "holds_tv", gen_alg, run_tv, lit_tv, nontrivial_alg, known_tv),
  "ses": Family("ses", IMPORTS, "scase", "corr_ses", "holds_ses", gen_ses, run_ses, lit_ses, nontrivial_ses, known_ses),
  "pow": Family("pow", IMPORTS, "scase", "corr_ses", "holds_ses", gen_pow, run_ses, lit_ses, nontrivial_ses, known_ses),
}
