# -*- coding: utf-8 -*-
"""C20 - sample-wise analysis tools (maverage.*, accumulate.*, amdf, envelope.*, clip, zcross, unwrap)
against coq/theories/C20 (Model.v = the code line by line, Spec.v = the defining formulas)."""
import itertools, math, json, os
from fractions import Fraction
from vlib.framework import Family
from vlib import coqlit as L
from vlib.exactq import ExactQ, LinForm, SymSqrt, to_frac

PID = "C20"
PROP_FILES = ["Prop"]
ALLOWED_AXIOMS = []
EXTRA_COQ_DIRS = ["C04"]   # ProofsC04.v: the filter-based tools are C04.Model.run_filter on their coefficient lists
RULE = ("real calls of maverage.deque/recursive/fir, accumulate.accumulate/func/z, amdf, envelope.rms/abs/squared, "
        "clip, zcross, unwrap on exact rational samples (ExactQ; LinForm symbolic samples for maverage/accumulate: "
        "one run per (strategy, size, length) covers every sample value and every `zero`); inputs of length 0..12 from a "
        "rational pool that contains the thresholds (clip limits, +-hysteresis, multiples of step/2); sizes 0..6, lags "
        "0..5 and dyadic fractional lags, all clip limit combinations incl. None and high<low, hysteresis {0,1/2,2}, "
        "first_sign {-1,0,1,...}, (max_delta, step) grid with step>0 plus step<=0 as malformed stream; multi-use histories: ONE "
        "tool object (maverage(size) callable, amdf callable, filter object, function) applied to 2-3 inputs with the lazy outputs "
        "pulled in exhaustive (short inputs) / seeded interleavings, every stream checked against the formula on its own input; exhaustive small "
        "domains for clip/zcross/unwrap/accumulate; non-trivial = input longer than the window with zero != 0 / a "
        "detected crossing with hysteresis / an unwrapped jump / a clipped sample")
EXHAUSTIVE = {"quick": False, "thorough": False}
trusted_base = [
  "samples, zero, limits, thresholds are exact rationals (ExactQ absorbs the library's float constants exactly)",
  "filter-based tools (maverage.recursive/fir, envelope.*, amdf, accumulate.z): C20's difference-equation models are proved equal "
  "to C04.Model.run_filter on the tools' coefficient lists (ProofsC04.v, from C04_lists_diffeq); that the tools build exactly "
  "those coefficient lists is checked by the correspondence",
  "maverage: the model takes c = fl(1/size) as a parameter; the harness supplies Fraction(1.0/size) and holds checks |1-size*c| <= 2^-53",
  "amdf: fractional lags are dyadic floats for which the library's float operations lag-int(lag) and 1.-wr are exact (asserted by the harness)",
  "envelope: the coefficients g, a1 of lowpass(cutoff) are read from the filter object lowpass(cutoff) (numpoly[0], denpoly[1]); "
  "their float design formula (cos/sqrt) belongs to C13; envelope.rms is observed through the symbolic square root SymSqrt(q) of ExactQ",
]
ASSUMPTIONS = ["CPython deque / generator / itertools.accumulate semantics as documented",
               "window sizes are Python ints; lags are ints or floats"]

HAIR = Fraction(1, 2 ** 40)
SCALES = [Fraction(1, 10 ** 7), Fraction(1, 10 ** 15), Fraction(10 ** 12)]
POOL = [Fraction(a, b) for a, b in [(0, 1), (1, 1), (-1, 1), (1, 2), (-1, 2), (2, 1), (-2, 1), (1, 3), (-2, 3), (3, 2),
                                    (5, 2), (-7, 3), (3, 1), (-3, 1), (1, 4), (7, 1), (-5, 4), (9, 4)]]
MAVS = ["deque", "recursive", "fir"]
MAV_COQ = {"deque": "MDeque", "recursive": "MRecursive", "fir": "MFir"}
ACCS = ["accumulate", "func", "z"]
ACC_COQ = {"accumulate": "AItertools", "func": "AFunc", "z": "AZ"}
ENVS = ["rms", "abs", "squared"]
ENV_COQ = {"rms": "ERms", "abs": "EAbs", "squared": "ESquared"}


def fr(x):
  x = Fraction(x)
  return [x.numerator, x.denominator]


def F(p):
  return Fraction(p[0], p[1])


def Qs(ps):
  return [ExactQ(F(p)) for p in ps]


def dyadic(p):
  return p[1] & (p[1] - 1) == 0


def as_kind(p, kind):
  """the exact rational p = [n, d] as a Python number of the given kind (exactly representable by construction)"""
  if kind == "mixed":
    kind = "int" if p[1] == 1 else ("float" if dyadic(p) else "frac")
  if kind == "q":
    return ExactQ(F(p))
  if kind == "frac":
    return F(p)
  if kind == "int":
    assert p[1] == 1
    return int(p[0])
  if kind == "bool":
    assert p[1] == 1 and p[0] in (0, 1)
    return bool(p[0])
  assert kind == "float" and dyadic(p) and abs(p[0]) < 2 ** 50
  return float(F(p))


def Ks(ps, kind):
  return [as_kind(p, kind) for p in ps]


def kind_xs(rng, kind, n):
  """n exact rationals representable in the sample kind"""
  if kind == "bool":
    return [[rng.randrange(0, 2), 1] for _ in range(n)]
  if kind == "int":
    return [[rng.randrange(-6, 7), 1] for _ in range(n)]
  if kind == "float":
    return [fr(Fraction(rng.randrange(-24, 25), rng.choice([1, 2, 4, 8]))) for _ in range(n)]
  if kind == "mixed":
    return [fr(Fraction(rng.randrange(-12, 13), rng.choice([1, 1, 2, 3, 4]))) for _ in range(n)]
  return [fr(Fraction(rng.randrange(-12, 13), rng.choice([1, 2, 3, 5]))) for _ in range(n)]


def q(p):
  return "(qc (%d) %d)" % (p[0], p[1])


def qlist(ps):
  if len(ps) > 50:   # long lists: numerators over a common denominator (Check.dl), much faster to elaborate
    d = 1
    for p in ps:
      d = d * p[1] // math.gcd(d, p[1])
      if d > 10 ** 40:
        break
    else:
      return "(dl %d [%s]%%Z)" % (d, "; ".join(str(p[0] * (d // p[1])) for p in ps))
  return L.lst([q(p) for p in ps])


def rand_xs(rng, n=None, pool=POOL):
  if n is None:
    n = rng.choice([0, 1, 2, 3, 3, 4, 5, 6, 7, 8, 10, 12])
  return [fr(rng.choice(pool)) if rng.random() < 0.85 else fr(Fraction(rng.randrange(-20, 21), rng.choice([1, 2, 3, 5, 8])))
          for _ in range(n)]


def feed(c, xs):
  k = c.get("feed", "list")
  if k == "iter":
    return iter(xs)
  if k == "stream":
    import audiolazy
    return audiolazy.Stream(xs)
  return xs


def res_lit(o, f):
  """Coq literal of type res _ for an observation {"ok": v} / {"raise": name}."""
  if "ok" in o:
    return "(Ok %s)" % f(o["ok"])
  return "(Err %s)" % L.string(str(o.get("raise", "Unknown"))[:60].replace('"', "'"))


def cinv(size):
  return fr(Fraction(1.0 / size)) if size > 0 else [0, 1]


# ------------------------------------------------------------------ maverage (concrete values)
def gen_mav(tier, rng):
  n = 70 if tier == "quick" else 900
  zeros = [None, [0, 1], [1, 1], [-1, 2], [7, 3]]
  for size in range(0, 7):
    for k in range(n // 7 + 1):
      xs = rand_xs(rng) if k else rand_xs(rng, size + 3)
      zero = zeros[k % len(zeros)] if k < 2 * len(zeros) else rng.choice(zeros)
      sc = rng.choice([1] * 7 + SCALES) if k > 3 else 1   # the mean is scale free
      xs, zero = [fr(F(x) * sc) for x in xs], zero and fr(F(zero) * sc)
      for s in MAVS:
        via = MAV_VIA[s][k % len(MAV_VIA[s])]
        yield {"s": s, "via": via, "size": size, "zero": zero, "xs": xs,
               "feed": rng.choice(["list", "list", "iter", "stream"]),
               "tags": ["mav", s, "via=" + via, "size=%d" % size, "zero" if zero and zero[0] else "zero0"]}


MAV_VIA = {"deque": ["deque", "default"], "recursive": ["recursive", "feedback"], "fir": ["fir"]}
ACC_VIA = {"accumulate": ["accumulate", "itertools", "default"], "func": ["func", "pure_python"], "z": ["z"]}


def _strategy(sd, via):
  """the strategy reached through its name, an alias, attribute access or the StrategyDict's default call"""
  if via == "default":
    return sd
  return sd[via] if len(via) % 2 else getattr(sd, via)


BIG = [15, 16, 17, 31, 32, 33, 63, 64, 65, 70]   # beyond the first few: powers of two and their neighbours


def gen_mav_big(tier, rng):
  for size in (BIG if tier != "quick" else [16, 17, 32, 33, 64, 65]):
    for k in range(1 if tier == "quick" else 4):
      xs = [fr(Fraction(rng.randrange(-9, 10), rng.choice([1, 1, 2]))) for _ in range(size + 5)]
      zero = [[2, 1], [0, 1], [-1, 3]][(size + k) % 3]
      for s in MAVS:
        yield {"s": s, "size": size, "zero": zero, "xs": xs, "tags": ["mav", s, "big", "size=%d" % size]}


def gen_mav_kinds(tier, rng):
  # raw Python ints / dyadic floats as samples (window size a power of two: the float arithmetic is exact)
  for size in (1, 2, 4, 8):
    for kind in ("int", "float", "bool"):
      for k in range(1 if tier == "quick" else 8):
        for s in MAVS:
          yield {"s": s, "size": size, "kind": kind, "zero": [[0, 1], [1, 1], None][(k + size) % 3],
                 "xs": kind_xs(rng, kind, rng.randrange(size + 2, size + 9)), "tags": ["mav", s, "kind=" + kind]}


def run_mav(c):
  import audiolazy
  try:
    f = _strategy(audiolazy.maverage, c.get("via", c["s"]))(c["size"])
    kind = c.get("kind", "q")
    xs = feed(c, Ks(c["xs"], kind))
    out = f(xs) if c["zero"] is None else f(xs, zero=as_kind(c["zero"], "float" if kind == "bool" else kind))
    return {"ok": [fr(to_frac(v)) for v in out]}
  except Exception as e:
    return {"raise": type(e).__name__}


def lit_mav(c, o):
  zero = c["zero"] or [0, 1]
  return "(MV %s %s %s %s %s %s)" % (MAV_COQ[c["s"]], q(cinv(c["size"])), L.nat(c["size"]), q(zero),
                                      qlist(c["xs"]), res_lit(o, qlist))


def nt_mav(c, o):
  return c["size"] >= 2 and len(c["xs"]) > c["size"] and bool(c["zero"]) and c["zero"][0] != 0


# ------------------------------------------------------------------ linear tools on symbolic samples
def gen_lin(tier, rng):
  maxlen = 8 if tier == "quick" else 13
  for size in range(0, 7 if tier == "quick" else 10):
    for n in range(0, maxlen):
      for s in MAVS:
        yield {"tool": "mav", "s": s, "size": size, "n": n, "tags": ["lin", "mav", s, "size=%d" % size]}
  if tier != "quick":   # symbolic samples at sizes around powers of two
    for size in (16, 17, 32):
      for s in MAVS:
        yield {"tool": "mav", "s": s, "size": size, "n": size + 3, "tags": ["lin", "mav", s, "big"]}
  for n in range(0, maxlen + 3):
    for s in ACCS:
      yield {"tool": "acc", "s": s, "n": n, "tags": ["lin", "acc", s]}


def run_lin(c):
  import audiolazy
  n = c["n"]
  xs = [LinForm.var("x%d" % i) for i in range(n)]
  names = ["", "z"] + ["x%d" % i for i in range(n)]
  try:
    if c["tool"] == "mav":
      out = audiolazy.maverage[c["s"]](c["size"])(xs, zero=LinForm.var("z"))
    else:
      out = audiolazy.accumulate[c["s"]](xs)
    rows = []
    for v in out:
      lf = LinForm.lift(v)
      if lf is None or any(k not in names for k in lf.co):
        return {"raise": "NotLinear"}
      rows.append([fr(lf.co.get(k, 0)) for k in names])
    return {"ok": rows}
  except Exception as e:
    return {"raise": type(e).__name__}


def lit_lin(c, o):
  if c["tool"] == "mav":
    tool = "(LMav %s %s %s)" % (MAV_COQ[c["s"]], q(cinv(c["size"])), L.nat(c["size"]))
  else:
    tool = "(LAcc %s)" % ACC_COQ[c["s"]]
  return "(LC %s %s %s)" % (tool, L.nat(c["n"]), res_lit(o, lambda rows: L.lst([qlist(r) for r in rows])))


def nt_lin(c, o):
  return c["n"] > c.get("size", 1) >= 1 and (c["tool"] == "acc" or c["size"] >= 2)


# ------------------------------------------------------------------ accumulate (concrete values)
def gen_acc(tier, rng):
  small = [Fraction(0), Fraction(1), Fraction(-3, 2)]
  for n in range(0, 4 if tier == "quick" else 5):
    for xs in itertools.product(small, repeat=n):
      for s in ACCS:
        yield {"s": s, "xs": [fr(x) for x in xs], "tags": ["acc", s, "exh"]}
  for _ in range(60 if tier == "quick" else 1200):
    xs = rand_xs(rng)
    for s in ACCS:
      via = rng.choice(ACC_VIA[s])
      yield {"s": s, "via": via, "xs": xs, "feed": rng.choice(["list", "iter", "stream"]),
             "tags": ["acc", s, "via=" + via, "random"]}


def run_acc(c):
  import audiolazy
  try:
    f = _strategy(audiolazy.accumulate, c.get("via", c["s"]))
    return {"ok": [fr(to_frac(v)) for v in f(feed(c, Qs(c["xs"])))]}
  except Exception as e:
    return {"raise": type(e).__name__}


def lit_acc(c, o):
  return "(AC %s %s %s)" % (ACC_COQ[c["s"]], qlist(c["xs"]), res_lit(o, qlist))


# ------------------------------------------------------------------ amdf
LAGS = [0, 1, 2, 3, 4, 5, 0.5, 1.5, 2.5, 0.25, 2.25, 3.75, 2.0, 1.125]
BAD_LAGS = [-1, -2, -1.5, -0.5]


def lag_exact(lag):
  """the library's float operations on this lag are exact (so the model's exact arithmetic applies)"""
  if isinstance(lag, int) or float(lag).is_integer():
    return True
  left = int(lag)
  wr = lag - left
  wl = 1. - wr
  return Fraction(wr) == Fraction(lag) - left and Fraction(wl) == 1 - Fraction(wr)


LAG0_WITNESS = True   # lag == 0 with zero != 0: recorded finding C20-amdf-lag0-zero


def gen_amdf(tier, rng):
  zeros = [None, [0, 1], [1, 3], [-1, 1], [5, 2]]
  n = 2 if tier == "quick" else 22
  for lag in LAGS + BAD_LAGS:
    assert lag_exact(lag)
    for size in range(0, 5):
      for k in range(n if size else 1):
        zero = zeros[(k + size) % len(zeros)] if k < 5 else rng.choice(zeros)
        if lag == 0 and zero and zero[0] != 0 and not LAG0_WITNESS:
          zero = None
        xs = rand_xs(rng) if k else rand_xs(rng, int(abs(lag)) + size + 3)
        yield {"lag": float(lag).hex() if isinstance(lag, float) else lag, "size": size, "zero": zero, "xs": xs,
               "tags": ["amdf", "lag=%s" % lag, "size=%d" % size, "zero" if zero and zero[0] else "zero0"]}
  # (the recorded witness itself is corpus/C20/amdf_lag0_zero.json, which runs first)


def gen_amdf_big(tier, rng):
  for lag in BIG[:-1] + [16.5, 32.25, 63.75]:
    assert lag_exact(lag)
    for size in ((2,) if tier == "quick" else (1, 2, 3)):
      xs = [fr(Fraction(rng.randrange(-9, 10), rng.choice([1, 1, 2]))) for _ in range(int(lag) + 6)]
      yield {"lag": float(lag).hex() if isinstance(lag, float) else lag, "size": size, "zero": rng.choice([None, [1, 3], [-1, 1]]),
             "xs": xs, "tags": ["amdf", "big", "lag=%s" % lag]}


def _lag(c):
  return float.fromhex(c["lag"]) if isinstance(c["lag"], str) else int(c["lag"])


def run_amdf(c):
  import audiolazy
  try:
    f = audiolazy.amdf(_lag(c), c["size"])
    xs = Qs(c["xs"])
    out = f(xs) if c["zero"] is None else f(xs, zero=ExactQ(F(c["zero"])))
    return {"ok": [fr(to_frac(v)) for v in out]}
  except Exception as e:
    return {"raise": type(e).__name__}


def lit_amdf(c, o):
  zero = c["zero"] or [0, 1]
  return "(AM %s %s %s %s %s %s)" % (q(cinv(c["size"])), L.nat(c["size"]), q(zero), q(fr(Fraction(_lag(c)))),
                                      qlist(c["xs"]), res_lit(o, qlist))


def nt_amdf(c, o):
  return _lag(c) > 0 and c["size"] >= 2 and len(c["xs"]) > _lag(c) + c["size"]


def known_amdf(c, o):
  if _lag(c) == 0 and c["zero"] and c["zero"][0] != 0 and c["size"] >= 1:
    return "C20-amdf-lag0-zero"
  return None


# ------------------------------------------------------------------ envelope
CUTOFFS = [None, 0.3, 1.0, math.pi, math.pi / 2, 0.01, 0.0, math.pi - 1e-9, 1e-9, 3.0]   # incl. both ends of [0, pi]


def gen_env_of(s):
  def gen_env(tier, rng):
    n = 2 if tier == "quick" else 30
    for ci, cutoff in enumerate(CUTOFFS):
      if cutoff is not None and cutoff < 1e-6 and s == "rms":
        continue  # the all-zero float output 0.0 ** .5 is a float, not a symbolic root
      for k in range(n):
        # short inputs: every output multiplies the denominators by 2^53 or more
        xs = rand_xs(rng, rng.choice([0, 1, 2, 3, 4, 5, 6, 7]) if k else 6)
        yield {"s": s, "cutoff": None if cutoff is None else float(cutoff).hex(), "xs": xs,
               "tags": ["env", s, "cutoff%d" % ci]}
  return gen_env


def _lowpass_coeffs(filt):
  nd, dd = dict(filt.numdict), dict(filt.dendict)
  if not (set(nd) <= {0} and set(dd) <= {0, 1} and dd.get(0) == 1):
    raise AssertionError("lowpass(cutoff) is not g / (1 + a1 z^-1)")
  return fr(to_frac(nd.get(0, 0))), fr(to_frac(dd.get(1, 0)))


def run_env(c):
  import audiolazy
  cutoff = math.pi / 512 if c["cutoff"] is None else float.fromhex(c["cutoff"])
  xs = Qs(c["xs"])
  try:
    filt = audiolazy.lowpass(cutoff)
    g, a1 = _lowpass_coeffs(filt)
    rect = [abs(x) for x in xs] if c["s"] == "abs" else [x * x for x in xs]
    direct = [fr(to_frac(v)) for v in filt(rect)]
  except Exception as e:
    return {"raise": "Harness" + type(e).__name__, "g": [0, 1], "a1": [0, 1], "cw": [1, 1], "direct": []}
  try:
    env = audiolazy.envelope if (c["s"] == "rms" and len(c["xs"]) % 2) else audiolazy.envelope[c["s"]]  # rms = the default call
    out = env(xs) if c["cutoff"] is None else env(xs, cutoff=cutoff)
    vals = []
    for v in out:
      if isinstance(v, SymSqrt):
        vals.append(["sqrt", fr(to_frac(v.arg))])
      else:
        vals.append(["plain", fr(to_frac(v))])
    return {"ok": vals, "g": g, "a1": a1, "cw": fr(Fraction(math.cos(cutoff))), "direct": direct}
  except Exception as e:
    return {"raise": type(e).__name__, "g": g, "a1": a1, "cw": fr(Fraction(math.cos(cutoff))), "direct": direct}


def lit_env(c, o):
  f = lambda vals: L.lst([("Sqrt %s" if k == "sqrt" else "Plain %s") % q(v) for k, v in vals])
  return "(EV %s %s %s %s %s %s %s)" % (ENV_COQ[c["s"]], q(o["g"]), q(o["a1"]), q(o["cw"]), qlist(c["xs"]),
                                         qlist(o["direct"]), res_lit(o, f))


def nt_env(c, o):
  return len(c["xs"]) >= 3 and any(x[0] < 0 for x in c["xs"]) and c["cutoff"] != float(0).hex()


# ------------------------------------------------------------------ envelope with a Stream of cut-off values
def gen_envtv(tier, rng):
  ends = [0.0, math.pi, math.pi - 1e-9, 1e-9, math.pi / 512, 0.3, 1.0, 2.5]
  for s in ENVS:
    for rep in range(4 if tier == "quick" else 30):
      n = rng.randrange(1, 6)
      cut = [rng.choice(ends) for _ in range(n + rng.choice([0, 0, 1, -1]))]
      if s == "rms":
        cut = [c if c > 1e-6 else 0.3 for c in cut]   # g = 0: the output 0.0 ** .5 is a float, not a symbolic root
      yield {"s": s, "cutoffs": [float(c).hex() for c in cut], "xs": rand_xs(rng, n),
             "tags": ["envtv", s, "len=%d" % n]}


def run_envtv(c):
  import audiolazy
  cut = [float.fromhex(h) for h in c["cutoffs"]]
  coefs = []
  try:
    for w in cut:   # scalar design calls: one filter per element of the cutoff stream
      g, a1 = _lowpass_coeffs(audiolazy.lowpass(w))
      coefs.append([g, a1, fr(Fraction(math.cos(w)))])
  except Exception as e:
    return {"raise": "Harness" + type(e).__name__, "coefs": []}
  try:
    out = audiolazy.envelope[c["s"]](Qs(c["xs"]), cutoff=audiolazy.Stream(cut))
    vals = [["sqrt", fr(to_frac(v.arg))] if isinstance(v, SymSqrt) else ["plain", fr(to_frac(v))] for v in out]
    return {"ok": vals, "coefs": coefs}
  except Exception as e:
    return {"raise": type(e).__name__, "coefs": coefs}


def lit_envtv(c, o):
  f = lambda vals: L.lst([("Sqrt %s" if k == "sqrt" else "Plain %s") % q(v) for k, v in vals])
  return "(TV %s %s %s %s)" % (ENV_COQ[c["s"]], L.lst(["(%s, %s, %s)" % (q(g), q(a), q(w)) for g, a, w in o["coefs"]]),
                               qlist(c["xs"]), res_lit(o, f))


# ------------------------------------------------------------------ clip
def gen_clip(tier, rng):
  lims = [None, [-1, 1], [1, 1], [0, 1], [1, 2], [-3, 2], [2, 1]]
  small = [Fraction(-2), Fraction(-1), Fraction(-1, 2), Fraction(0), Fraction(1, 2), Fraction(1), Fraction(3)]
  for lo in lims:
    for hi in lims:
      yield {"low": lo, "high": hi, "xs": [fr(x) for x in small], "tags": ["clip", "grid"]}
      for _ in range(1 if tier == "quick" else 12):
        yield {"low": lo, "high": hi, "xs": rand_xs(rng), "feed": rng.choice(["list", "iter", "stream"]),
               "tags": ["clip", "random", "none" if lo is None or hi is None else "both"]}
  for _ in range(4 if tier == "quick" else 40):
    yield {"default": True, "low": [-1, 1], "high": [1, 1], "xs": rand_xs(rng), "tags": ["clip", "default"]}
  # sample number kinds x limit kinds (non-integer and negative limits with int / bool / Fraction / float samples)
  klims = [None, [5, 2], [-5, 2], [1, 2], [-1, 2], [7, 4], [-2, 1], [3, 1], [1, 3], [-7, 3]]
  for sk in ("int", "bool", "float", "frac", "mixed", "q"):
    for lk in ("float", "frac", "q", "int"):
      ok = [l for l in klims if l is None or (lk == "float" and dyadic(l)) or (lk == "int" and l[1] == 1) or lk in ("frac", "q")]
      for lo in ok:
        for hi in ok:
          if (tier == "quick" and rng.random() > 0.2) or (lo and hi and F(hi) < F(lo) and rng.random() > 0.15):
            continue
          yield {"low": lo, "high": hi, "kind": sk, "lkind": lk, "xs": kind_xs(rng, sk, rng.randrange(3, 9)),
                 "tags": ["clip", "kinds", "samples=" + sk, "limits=" + lk]}
  for _ in range(30 if tier == "quick" else 600):
    lo = rng.choice([None, fr(rng.choice(POOL))])
    hi = rng.choice([None, fr(rng.choice(POOL))])
    xs = rand_xs(rng)
    if lo: xs += [lo, fr(F(lo) + HAIR), fr(F(lo) - HAIR)]
    if hi: xs = [hi, fr(F(hi) + HAIR), fr(F(hi) - HAIR)] + xs
    sc = rng.choice([1] * 6 + SCALES)
    yield {"low": lo and fr(F(lo) * sc), "high": hi and fr(F(hi) * sc), "xs": [fr(F(x) * sc) for x in xs],
           "tags": ["clip", "random2", "scaled" if sc != 1 else "unscaled"]}


def run_clip(c):
  import audiolazy
  try:
    xs = feed(c, Ks(c["xs"], c.get("kind", "q")))
    if c.get("default"):
      out = audiolazy.clip(xs)
    else:
      lk = c.get("lkind", "q")
      out = audiolazy.clip(xs, low=None if c["low"] is None else as_kind(c["low"], lk),
                           high=None if c["high"] is None else as_kind(c["high"], lk))
    return {"ok": [fr(to_frac(v)) for v in out]}
  except Exception as e:
    return {"raise": type(e).__name__}


def lit_clip(c, o):
  return "(CL %s %s %s %s)" % (L.option(c["low"], q), L.option(c["high"], q), qlist(c["xs"]), res_lit(o, qlist))


def nt_clip(c, o):
  return "ok" in o and o["ok"] != c["xs"] and len(c["xs"]) >= 2


# ------------------------------------------------------------------ zcross
def gen_zc(tier, rng):
  small = [Fraction(-1), Fraction(-1, 2), Fraction(0), Fraction(1, 2), Fraction(1)]
  maxn = 3 if tier == "quick" else 5
  for h in ([0, 1], [1, 2]):
    for fs in ([-1, 1], [0, 1], [1, 1]):
      for n in range(0, maxn + 1):
        for xs in itertools.product(small, repeat=n):
          yield {"h": h, "fs": fs, "xs": [fr(x) for x in xs], "tags": ["zc", "exh", "n=%d" % n]}
  hs = [[0, 1], [1, 2], [2, 1], [1, 3]]
  fss = [[-1, 1], [0, 1], [1, 1], [-3, 2], [5, 1], [1, 7]]
  for _ in range(200 if tier == "quick" else 4000):
    h = rng.choice(hs)
    pool = POOL + [F(h), -F(h), F(h) + Fraction(1, 8), -F(h) - Fraction(1, 8), Fraction(0)] * 2
    pool += [F(h) + HAIR, F(h) - HAIR, -F(h) + HAIR, -F(h) - HAIR, HAIR, -HAIR]   # a hair from the thresholds
    xs = rand_xs(rng, None, pool)
    sc = rng.choice([1] * 8 + SCALES)   # the definition is scale free: scale samples and hysteresis together
    yield {"h": fr(F(h) * sc), "fs": rng.choice(fss), "xs": [fr(F(x) * sc) for x in xs],
           "feed": rng.choice(["list", "iter", "stream"]),
           "tags": ["zc", "random", "h=%s" % F(h), "scaled" if sc != 1 else "unscaled"]}
  for _ in range(5 if tier == "quick" else 50):
    yield {"default": True, "h": [0, 1], "fs": [0, 1], "xs": rand_xs(rng), "tags": ["zc", "default"]}
  for _ in range(10 if tier == "quick" else 100):   # malformed: negative hysteresis (text silent; holds = recursive definition)
    yield {"h": [-1, 2], "fs": rng.choice(fss), "xs": rand_xs(rng), "tags": ["zc", "neg-hyst"]}


def run_zc(c):
  import audiolazy
  try:
    xs = feed(c, Qs(c["xs"]))
    if c.get("default"):
      out = audiolazy.zcross(xs)
    else:
      out = audiolazy.zcross(xs, hysteresis=ExactQ(F(c["h"])), first_sign=ExactQ(F(c["fs"])))
    res = []
    for v in out:
      if not (isinstance(v, int) and not isinstance(v, bool)):
        return {"raise": "NonIntOutput"}
      res.append(v)
    return {"ok": res}
  except Exception as e:
    return {"raise": type(e).__name__}


def lit_zc(c, o):
  return "(ZC %s %s %s %s)" % (q(c["h"]), q(c["fs"]), qlist(c["xs"]), res_lit(o, lambda v: L.lst([L.z(x) for x in v])))


def nt_zc(c, o):
  return "ok" in o and sum(o["ok"]) >= 1 and c["h"][0] > 0


# ------------------------------------------------------------------ unwrap
def gen_uw(tier, rng):
  mds = [[0, 1], [1, 2], [1, 1], [3, 2], [3, 1], [-1, 1]]
  steps = [[1, 1], [2, 1], [1, 2], [3, 1], [2, 3]]
  bad_steps = [[0, 1], [-2, 1], [-1, 2]]
  small = [Fraction(0), Fraction(1), Fraction(-1), Fraction(5, 2)]
  maxn = 3 if tier == "quick" else 4
  for md in ([1, 2], [1, 1]):
    for st in ([1, 1], [2, 1]):
      for n in range(0, maxn + 1):
        for xs in itertools.product(small, repeat=n):
          yield {"md": md, "step": st, "xs": [fr(x) for x in xs], "tags": ["uw", "exh"]}
  for _ in range(300 if tier == "quick" else 5000):
    md, st = rng.choice(mds), rng.choice(steps if rng.random() < 0.9 else bad_steps)
    # a walk on the grid of multiples of step/4 (ties at step/2 are frequent), with occasional big jumps
    x = Fraction(rng.randrange(-4, 5), 2)
    xs = []
    for _i in range(rng.choice([0, 1, 2, 3, 5, 8, 12])):
      r = rng.random()
      if r < 0.5:
        x += Fraction(rng.randrange(-3, 4)) * abs(F(st)) / 4
      elif r < 0.8:
        x += Fraction(rng.randrange(-9, 10)) * abs(F(st)) / 2 + rng.choice([0, 0, Fraction(1, 7)])
      elif r < 0.9:
        x += rng.choice(POOL)
      else:   # a jump a hair from max_delta, or from an odd multiple of step/2 (the tie of the two remainders)
        x += rng.choice([1, -1]) * (rng.choice([abs(F(md)), abs(F(st)) / 2 * rng.choice([1, 3])]) + rng.choice([HAIR, -HAIR, 0]))
      xs.append(fr(x))
    yield {"md": md, "step": st, "xs": xs, "feed": rng.choice(["list", "iter", "stream"]),
           "tags": ["uw", "random", "step>0" if F(st) > 0 else "step<=0"]}
  for _ in range(20 if tier == "quick" else 300):   # default max_delta=pi, step=2*pi (floats, absorbed exactly)
    x, xs = Fraction(0), []
    for _i in range(rng.randrange(0, 10)):
      x += Fraction(rng.randrange(-40, 41), 4)
      xs.append(fr(x))
    yield {"default": True, "md": fr(Fraction(math.pi)), "step": fr(Fraction(2 * math.pi)), "xs": xs,
           "tags": ["uw", "default"]}


def run_uw(c):
  import audiolazy
  outs = []
  try:
    xs = feed(c, Qs(c["xs"]))
    if c.get("default"):
      it = audiolazy.unwrap(xs)
    else:
      it = audiolazy.unwrap(xs, max_delta=ExactQ(F(c["md"])), step=ExactQ(F(c["step"])))
    for v in it:
      outs.append(fr(to_frac(v)))
    return {"outs": outs, "err": None}
  except Exception as e:
    return {"outs": outs, "err": type(e).__name__}


def lit_uw(c, o):
  if "outs" not in o:
    o = {"outs": [], "err": o.get("raise", "Unknown")}
  return "(UW %s %s %s %s %s)" % (q(c["md"]), q(c["step"]), qlist(c["xs"]), qlist(o["outs"]),
                                   L.option(o["err"], L.string))


def nt_uw(c, o):
  return F(c["step"]) > 0 and o.get("err") is None and o.get("outs") != c["xs"] and len(c["xs"]) >= 3


# ------------------------------------------------------------------ multi-use histories
# one tool object applied to 2-3 inputs; ops = ["new", i] (apply the object to input i) / ["pull", i] (next() on
# stream i); every stream is pulled exactly len(input i) times, then once more (must be StopIteration)
def merges(counts):
  """all interleavings of k sequences with the given lengths (as lists of stream indices)"""
  if not any(counts):
    yield []
    return
  for i, n in enumerate(counts):
    if n:
      rest = list(counts); rest[i] -= 1
      for m in merges(rest):
        yield [i] + m


def with_news(order, k, eager):
  ops, seen = ([["new", i] for i in range(k)] if eager else []), set(range(k)) if eager else set()
  for i in order:
    if i not in seen:
      ops.append(["new", i]); seen.add(i)
    ops.append(["pull", i])
  for i in range(k):
    if i not in seen:
      ops.append(["new", i])
  return ops


def rand_order(rng, counts):
  order = [i for i, n in enumerate(counts) for _ in range(n)]
  rng.shuffle(order)
  return order


MU_TOOLS = ([{"t": "mav", "s": s, "size": size} for s in MAVS for size in (1, 2, 3, 4)] +
            [{"t": "amdf", "lag": lag, "size": 2} for lag in (1, 2, float(1.5).hex())] +
            [{"t": "env", "s": s, "cutoff": float(0.3).hex()} for s in ENVS] +
            [{"t": "clip", "low": [-1, 1], "high": [1, 2]}, {"t": "clip", "low": None, "high": [0, 1]},
             {"t": "zc", "h": [1, 2], "fs": [0, 1]}, {"t": "zc", "h": [0, 1], "fs": [-1, 1]},
             {"t": "uw", "md": [1, 1], "step": [2, 1]}, {"t": "uw", "md": [1, 2], "step": [1, 1]}] +
            [{"t": "acc", "s": s} for s in ACCS])


def gen_multi(tier, rng):
  a, b = [[3, 1], [-1, 1], [4, 1]], [[10, 1], [-5, 2]]
  # exhaustive interleavings of two short inputs, both creation disciplines, every maverage strategy
  for s in MAVS:
    for size in (1, 2, 3):
      for order in merges([len(a), len(b)]):
        for eager in (True, False):
          yield {"tool": {"t": "mav", "s": s, "size": size}, "ins": [[[0, 1], a], [[2, 1], b]],
                 "ops": with_news(order, 2, eager), "tags": ["multi", "mav", s, "exh"]}
  for tool in MU_TOOLS:
    for rep in range(3 if tier == "quick" else 30):
      k = 2 if rep % 3 else 3
      short = tool["t"] == "env"
      ins = [[rng.choice([[0, 1], [0, 1], [2, 1], [-1, 3]]) if tool["t"] in ("mav", "amdf") else [0, 1],
              rand_xs(rng, rng.randrange(2, 5 if short else 8))] for _ in range(k)]
      order = rand_order(rng, [len(x[1]) for x in ins]) if rep else [j % k for j in range(k * 8)]
      if not rep:   # lockstep (zip) on equal lengths
        n = min(len(x[1]) for x in ins)
        ins = [[z, xs[:n]] for z, xs in ins]
        order = [i for _ in range(n) for i in range(k)]
      yield {"tool": tool, "ins": ins, "ops": with_news(order, k, rng.random() < 0.5),
             "tags": ["multi", tool["t"], "k=%d" % k, "lockstep" if not rep else "random"]}


def _mu_build(tool):
  import audiolazy
  t = tool["t"]
  if t == "mav":
    f = audiolazy.maverage[tool["s"]](tool["size"])
    return lambda xs, zero: f(xs, zero=zero)
  if t == "amdf":
    lag = float.fromhex(tool["lag"]) if isinstance(tool["lag"], str) else tool["lag"]
    f = audiolazy.amdf(lag, tool["size"])
    return lambda xs, zero: f(xs, zero=zero)
  if t == "env":
    f, cutoff = audiolazy.envelope[tool["s"]], float.fromhex(tool["cutoff"])
    return lambda xs, zero: f(xs, cutoff=cutoff)
  if t == "clip":
    lo = None if tool["low"] is None else ExactQ(F(tool["low"]))
    hi = None if tool["high"] is None else ExactQ(F(tool["high"]))
    return lambda xs, zero: audiolazy.clip(xs, low=lo, high=hi)
  if t == "zc":
    return lambda xs, zero: audiolazy.zcross(xs, hysteresis=ExactQ(F(tool["h"])), first_sign=ExactQ(F(tool["fs"])))
  if t == "uw":
    return lambda xs, zero: audiolazy.unwrap(xs, max_delta=ExactQ(F(tool["md"])), step=ExactQ(F(tool["step"])))
  f = audiolazy.accumulate[tool["s"]]
  return lambda xs, zero: f(xs)


def run_multi(c):
  k = len(c["ins"])
  outs, err, its = [[] for _ in range(k)], [None] * k, {}
  extra = {}
  try:
    call = _mu_build(c["tool"])
    if c["tool"]["t"] == "env":
      import audiolazy
      extra["coef"] = _lowpass_coeffs(audiolazy.lowpass(float.fromhex(c["tool"]["cutoff"])))
  except Exception as e:
    return {"streams": [{"raise": "Build" + type(e).__name__}] * k}
  def pull(i):
    v = next(its[i])
    outs[i].append(fr(to_frac(v.arg if isinstance(v, SymSqrt) else v)))
  for op, i in c["ops"]:
    if err[i]:
      continue
    try:
      if op == "new":
        its[i] = iter(call(Qs(c["ins"][i][1]), ExactQ(F(c["ins"][i][0]))))
      else:
        pull(i)
    except StopIteration:
      err[i] = "StopIteration"
    except Exception as e:
      err[i] = type(e).__name__
  for i in range(k):
    if not err[i]:
      try:
        pull(i)
        err[i] = "ExtraOutput"
      except StopIteration:
        pass
      except Exception as e:
        err[i] = type(e).__name__
  extra["streams"] = [{"raise": err[i]} if err[i] else {"ok": outs[i]} for i in range(k)]
  return extra


def _mu_tool_lit(tool, o):
  t = tool["t"]
  if t == "mav":
    tl = "(TMav %s %s %s)" % (MAV_COQ[tool["s"]], q(cinv(tool["size"])), L.nat(tool["size"]))
  elif t == "amdf":
    lag = float.fromhex(tool["lag"]) if isinstance(tool["lag"], str) else tool["lag"]
    tl = "(TAmdf %s %s %s)" % (q(cinv(tool["size"])), L.nat(tool["size"]), q(fr(Fraction(lag))))
  elif t == "env":
    g, a1 = o.get("coef", ([0, 1], [0, 1]))
    tl = "(TEnv %s %s %s)" % (ENV_COQ[tool["s"]], q(g), q(a1))
  elif t == "clip":
    tl = "(TClip %s %s)" % (L.option(tool["low"], q), L.option(tool["high"], q))
  elif t == "zc":
    tl = "(TZc %s %s)" % (q(tool["h"]), q(tool["fs"]))
  elif t == "uw":
    tl = "(TUw %s %s)" % (q(tool["md"]), q(tool["step"]))
  else:
    tl = "(TAcc %s)" % ACC_COQ[tool["s"]]
  return tl


def lit_multi(c, o):
  tl = _mu_tool_lit(c["tool"], o)
  streams = o.get("streams") or [{"raise": o.get("raise", "Unknown")}] * len(c["ins"])
  return "(MU %s %s %s)" % (tl, L.lst(["(%s, %s)" % (q(z), qlist(xs)) for z, xs in c["ins"]]),
                            L.lst([res_lit(s, qlist) for s in streams]))


def nt_multi(c, o):
  pulls = [i for op, i in c["ops"] if op == "pull"]
  switches = sum(1 for x, y in zip(pulls, pulls[1:]) if x != y)
  return switches >= 3 and all(len(xs) >= 2 for _, xs in c["ins"])


# ------------------------------------------------------------------ live sources, pulled one output at a time
# mode "cell": a generator that, each time it is asked, yields the CURRENT content of a cell (at most len(xs) times);
# mode "control": a ControlStream (endless) behind a counting generator.  Before pull k the harness assigns xs[k].
def gen_live(tier, rng):
  for tool in MU_TOOLS:
    for mode in ("cell", "control"):
      for rep in range(2 if tier == "quick" else 12):
        short = tool["t"] == "env"
        xs = rand_xs(rng, rng.randrange(2, 5 if short else 9)) if rep else [[3, 1], [-1, 1], [4, 1], [1, 2]]
        zero = rng.choice([[0, 1], [2, 1], [-1, 3]]) if tool["t"] in ("mav", "amdf") else [0, 1]
        yield {"tool": tool, "mode": mode, "zero": zero, "xs": xs, "tags": ["live", tool["t"], mode]}


def run_live(c):
  import audiolazy
  xs = Qs(c["xs"])
  st, cell, extra = {"reads": 0}, [None], {}
  try:
    call = _mu_build(c["tool"])
    if c["tool"]["t"] == "env":
      extra["coef"] = _lowpass_coeffs(audiolazy.lowpass(float.fromhex(c["tool"]["cutoff"])))
    if c["mode"] == "control":
      cs = audiolazy.ControlStream(ExactQ(0))
      def src():
        for v in cs:
          st["reads"] += 1
          yield v
      def assign(v): cs.value = v
    else:
      def src():
        for _ in range(len(xs)):
          st["reads"] += 1
          yield cell[0]
      def assign(v): cell[0] = v
    out = iter(call(src(), ExactQ(F(c["zero"]))))
    obs = []
    for v in xs:
      assign(v)
      y = next(out)
      obs.append([st["reads"], fr(to_frac(y.arg if isinstance(y, SymSqrt) else y))])
    extra["final"] = None
    if c["mode"] == "cell":
      try:
        next(out)
        return dict(extra, **{"raise": "ExtraOutput"})
      except StopIteration:
        extra["final"] = st["reads"]
    extra["ok"] = obs
    return extra
  except StopIteration:
    return dict(extra, **{"raise": "StopIteration"})
  except Exception as e:
    return dict(extra, **{"raise": type(e).__name__})


def lit_live(c, o):
  f = lambda obs: L.lst(["(%s, %s)" % (L.nat(r), q(v)) for r, v in obs])
  return "(LV %s %s %s %s %s)" % (_mu_tool_lit(c["tool"], o), q(c["zero"]), qlist(c["xs"]), res_lit(o, f),
                                   L.option(o.get("final"), L.nat))


def nt_live(c, o):
  return len(c["xs"]) >= 3 and len(set(map(tuple, c["xs"]))) >= 2


# ------------------------------------------------------------------ long runs (one call, far longer than any internal period)
# checked with the multi-use case type (one stream); samples as ExactQ or as raw Python ints / dyadic floats
# (window sizes a power of two there, so that the library's float arithmetic is exact)
LONG_TOOLS = ([({"t": "mav", "s": s, "size": size}, kind) for s in MAVS for size, kind in ((3, "q"), (4, "int"), (8, "float"))] +
              [({"t": "amdf", "lag": 2, "size": 4}, "int"), ({"t": "amdf", "lag": float(1.5).hex(), "size": 3}, "q")] +
              [({"t": "acc", "s": s}, kind) for s, kind in (("accumulate", "int"), ("func", "q"), ("z", "float"))] +
              [({"t": "zc", "h": [1, 2], "fs": [0, 1]}, "float"), ({"t": "uw", "md": [1, 1], "step": [2, 1]}, "float"),
               ({"t": "clip", "low": [-5, 2], "high": [5, 2]}, "int")])


def gen_long(tier, rng):
  for i, (tool, kind) in enumerate(LONG_TOOLS):
    if tier == "quick" and ((tool["t"] == "mav" and tool["s"] != "deque" and (tool["size"], tool["s"]) not in ((4, "recursive"), (3, "fir")))
                            or (tool["t"] == "amdf" and kind == "q")):
      continue
    for rep in range(1 if tier == "quick" else 2):
      n = rng.randrange(1060, 1200) if tier == "quick" else rng.randrange(2000, 2600 if tool["t"] == "acc" else 5000)
      zero = ([2, 1] if rep or kind == "q" else [0, 1]) if tool["t"] in ("mav", "amdf") else [0, 1]
      yield {"tool": tool, "kind": kind, "ins": [[zero, kind_xs(rng, kind, n)]], "tags": ["long", tool["t"], "kind=" + kind]}


def run_long(c):
  zero, xs = c["ins"][0]
  extra = {}
  try:
    call = _mu_build(c["tool"])
    out = call(Ks(xs, c["kind"]), as_kind(zero, c["kind"]))
    extra["streams"] = [{"ok": [fr(to_frac(v)) for v in out]}]
  except Exception as e:
    extra["streams"] = [{"raise": type(e).__name__}]
  return extra


IMPORTS = "From AL Require Import C20.Model C20.Spec C20.Check."
FAMILIES = {
  "long": Family("long", IMPORTS, "mucase", "corr_multi", "holds_long", gen_long, run_long, lit_multi, timeout=60),
  "live": Family("live", IMPORTS, "lvcase", "corr_live", "holds_live", gen_live, run_live, lit_live, nt_live),
  "multi": Family("multi", IMPORTS, "mucase", "corr_multi", "holds_multi", gen_multi, run_multi, lit_multi, nt_multi),
  "lin": Family("lin", IMPORTS, "lincase", "corr_lin", "holds_lin", gen_lin, run_lin, lit_lin, nt_lin),
  "mav": Family("mav", IMPORTS, "mvcase", "corr_mav", "holds_mav", gen_mav, run_mav, lit_mav, nt_mav),
  "mav_big": Family("mav_big", IMPORTS, "mvcase", "corr_mav", "holds_mav", gen_mav_big, run_mav, lit_mav, nt_mav),
  "amdf_big": Family("amdf_big", IMPORTS, "amcase", "corr_amdf", "holds_amdf", gen_amdf_big, run_amdf, lit_amdf, nt_amdf, known_amdf),
  "mav_kinds": Family("mav_kinds", IMPORTS, "mvcase", "corr_mav", "holds_mav", gen_mav_kinds, run_mav, lit_mav, nt_mav),
  "acc": Family("acc", IMPORTS, "accase", "corr_acc", "holds_acc", gen_acc, run_acc, lit_acc),
  "amdf": Family("amdf", IMPORTS, "amcase", "corr_amdf", "holds_amdf", gen_amdf, run_amdf, lit_amdf, nt_amdf, known_amdf),
  "env_rms": Family("env_rms", IMPORTS, "evcase", "corr_env", "holds_env", gen_env_of("rms"), run_env, lit_env, nt_env),
  "env_abs": Family("env_abs", IMPORTS, "evcase", "corr_env", "holds_env", gen_env_of("abs"), run_env, lit_env, nt_env),
  "env_squared": Family("env_squared", IMPORTS, "evcase", "corr_env", "holds_env", gen_env_of("squared"), run_env, lit_env, nt_env),
  "envtv": Family("envtv", IMPORTS, "tvcase", "corr_tv", "holds_tv", gen_envtv, run_envtv, lit_envtv),
  "clip": Family("clip", IMPORTS, "clcase", "corr_clip", "holds_clip", gen_clip, run_clip, lit_clip, nt_clip),
  "zc": Family("zc", IMPORTS, "zccase", "corr_zc", "holds_zc", gen_zc, run_zc, lit_zc, nt_zc),
  "uw": Family("uw", IMPORTS, "uwcase", "corr_uw", "holds_uw", gen_uw, run_uw, lit_uw, nt_uw),
}
