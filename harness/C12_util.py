# -*- coding: utf-8 -*-
"""Helpers of the C12 harness.

CQ        - exact complex rational (Gaussian rational) that absorbs int / float / complex /
            Fraction / ExactQ operands exactly; repr round-trips through the filter code
            generator (``_CQ(n1,d1,n2,d2)`` is injected into builtins).  A float nan operand
            gives float nan (as nan * complex is nan in CPython).
UnitAngle - a frequency w given by the rational point u = e^{jw} = c + js of the unit circle.
            ``-1j * n * w`` becomes ScaledAngle(w, -1j * n); the patched complex exponentials
            (exact_exp) map it to conj(u) ** n exactly.  Everything else in the library runs
            unchanged.
"""
from __future__ import division
import builtins, cmath, contextlib, math
from fractions import Fraction
from vlib.exactq import ExactQ


def _parts(x):
  """(re, im) as Fractions, "nan" for a float nan / inf, None if x is not a number we absorb."""
  if isinstance(x, CQ):
    return x.re, x.im
  if isinstance(x, ExactQ):
    return x.frac, Fraction(0)
  if isinstance(x, bool):
    return Fraction(int(x)), Fraction(0)
  if isinstance(x, (int, Fraction)):
    return Fraction(x), Fraction(0)
  if isinstance(x, float):
    if x != x or x in (float("inf"), float("-inf")):
      return "nan"
    return Fraction(x), Fraction(0)
  if isinstance(x, complex):
    if x != x or abs(x) == float("inf"):
      return "nan"
    return Fraction(x.real), Fraction(x.imag)
  return None


class CQ(object):
  __slots__ = ("re", "im")

  def __init__(self, re=0, im=0):
    self.re, self.im = Fraction(re), Fraction(im)

  def __repr__(self):
    return "_CQ(%d,%d,%d,%d)" % (self.re.numerator, self.re.denominator,
                                 self.im.numerator, self.im.denominator)
  __str__ = __repr__

  def __format__(self, spec):
    return repr(self)

  def __hash__(self):
    return hash((self.re, self.im))

  def __bool__(self):
    return self.re != 0 or self.im != 0

  def _bin(self, other, f, rev=False):
    o = _parts(other)
    if o is None:
      return NotImplemented
    if o == "nan":
      return float("nan")
    a, b = (self.re, self.im), o
    if rev:
      a, b = b, a
    return CQ(*f(a, b))

  @staticmethod
  def _add(a, b): return a[0] + b[0], a[1] + b[1]
  @staticmethod
  def _sub(a, b): return a[0] - b[0], a[1] - b[1]
  @staticmethod
  def _mul(a, b): return a[0] * b[0] - a[1] * b[1], a[0] * b[1] + a[1] * b[0]
  @staticmethod
  def _div(a, b):
    n = b[0] * b[0] + b[1] * b[1]
    if n == 0:
      raise ZeroDivisionError("complex rational division by zero")
    return (a[0] * b[0] + a[1] * b[1]) / n, (a[1] * b[0] - a[0] * b[1]) / n

  def __add__(self, o): return self._bin(o, CQ._add)
  def __radd__(self, o): return self._bin(o, CQ._add, True)
  def __sub__(self, o): return self._bin(o, CQ._sub)
  def __rsub__(self, o): return self._bin(o, CQ._sub, True)
  def __mul__(self, o): return self._bin(o, CQ._mul)
  def __rmul__(self, o): return self._bin(o, CQ._mul, True)
  def __truediv__(self, o): return self._bin(o, CQ._div)
  def __rtruediv__(self, o): return self._bin(o, CQ._div, True)

  def __pow__(self, n):
    if isinstance(n, ExactQ):
      n = n.__index__()
    if isinstance(n, bool) or not isinstance(n, int):
      return NotImplemented
    if n < 0:
      return CQ(1) / (self ** (-n))
    r, base = CQ(1), self
    while n:
      if n & 1:
        r = r * base
      base = base * base
      n >>= 1
    return r

  def __neg__(self): return CQ(-self.re, -self.im)
  def __pos__(self): return self

  def __eq__(self, o):
    p = _parts(o)
    if p is None or p == "nan":
      return False
    return (self.re, self.im) == p

  def __ne__(self, o):
    return not self.__eq__(o)

  @property
  def real(self): return ExactQ(self.re)
  @property
  def imag(self): return ExactQ(self.im)
  def conjugate(self): return CQ(self.re, -self.im)


def _CQ(n1, d1, n2, d2):
  return CQ(Fraction(n1, d1), Fraction(n2, d2))


builtins._CQ = _CQ


class UnitAngle(object):
  """frequency w with e^{jw} = u, u a rational point of the unit circle"""
  def __init__(self, u):
    assert u.re * u.re + u.im * u.im == 1
    self.u = u

  def __rmul__(self, k):
    return ScaledAngle(self, complex(k))
  __mul__ = __rmul__

  # code that special-cases "freq == 0" / "freq == pi" takes the same path for the exact points 1 / -1
  def __eq__(self, other):
    if isinstance(other, UnitAngle):
      return self.u == other.u
    if isinstance(other, (int, float)):
      return (other == 0 and self.u == CQ(1)) or (other == math.pi and self.u == CQ(-1))
    return NotImplemented

  def __ne__(self, other):
    r = self.__eq__(other)
    return r if r is NotImplemented else not r

  # consistent with __eq__, so that a frequency can be a key of a cache the code may keep
  def __hash__(self):
    if self.u == CQ(1):
      return hash(0)
    if self.u == CQ(-1):
      return hash(math.pi)
    return hash(self.u)


class ScaledAngle(object):
  """the product  k * w  for a complex k (the library writes -1j * w and -1j * n * w)"""
  def __init__(self, angle, k):
    self.angle, self.k = angle, k

  def __rmul__(self, k):
    return ScaledAngle(self.angle, complex(k) * self.k)
  __mul__ = __rmul__


def exact_exp(x):
  """exp of  -1j * n * w  for a UnitAngle w and an integer n: conj(u) ** n, exactly"""
  if isinstance(x, ScaledAngle):
    k = x.k
    n = -k.imag
    assert k.real == 0 and n == int(n), "exp of a non-integer multiple of j*w: %r" % (k,)
    return x.angle.u.conjugate() ** int(n)
  return cmath.exp(x)


@contextlib.contextmanager
def exact_exponentials():
  """lazy_filters.complex_exp and lazy_analysis.cexp understand UnitAngle while this is active"""
  import audiolazy.lazy_filters as lf, audiolazy.lazy_analysis as la
  old = lf.complex_exp, la.cexp
  lf.complex_exp = exact_exp
  la.cexp = exact_exp
  try:
    yield
  finally:
    lf.complex_exp, la.cexp = old


# rational points of the unit circle ((1-t^2) + 2tj) / (1+t^2), t = p/q
def unit_point(p, q):
  t = Fraction(p, q)
  d = 1 + t * t
  return CQ((1 - t * t) / d, 2 * t / d)
