# -*- coding: utf-8 -*-
"""C08 - blocks / zero_pad / Stream.blocks against Model_C08 and the closed-form spec."""
import itertools
from vlib.framework import Family
from vlib import coqlit as L

PID = "C08"
PROP_FILES = ["Prop"]
ALLOWED_AXIOMS = []
RULE = ("blocks: every (length, size, hop) in a grid x pad kind x entry point (blocks, Stream.blocks), "
        "heterogeneous items (ints, strings, None), snapshots taken at yield time; non-trivial = at least one "
        "complete block and at least one item left over after it (the tail rule is exercised), or hop > size "
        "with skipped items; zero_pad: non-trivial = both pads > 0 and non-empty input. "
        "kinds: 19 input kinds (list, tuple, deque, bounded deque, range, array, generator, iterator, Stream, hub, "
        "object with only __iter__, list/tuple subclasses incl. one with its own __iter__, chain, map, dict views, "
        "repeat) x 5 entry points (function, Stream.blocks, copy, hub.blocks, two hub copies in lockstep) x "
        "positional / keyword / mixed arguments, hop given / omitted / None, pad given / omitted, 14 typed pads "
        "(0 0.0 -0.0 False ... compared WITH their type); the caller's container must be left as it was; "
        "non-trivial = padded tail after a complete block. calls: 2-4 calls in one process (equal-but-different-type "
        "pads with the same pad count in every order across blocks and zero_pad, results consumed alternately, the "
        "same list object again unchanged / longer / shorter, same arguments again). hist / zhist: the owner changes "
        "the list (extend append += truncate setitem insert del slice-assign, only items not handed over yet) between "
        "two next() calls, 8 script patterns x size 1..4 x hop 1..5 x 6 start lengths through 18 kind/entry "
        "combinations; non-trivial = a change made after a complete block followed by another complete block. "
        "Round 3: pads and items also include objects given and compared BY IDENTITY through an object table "
        "(builtin function, class, lambda, bound method, partial, object with __call__, generator function, Stream, "
        "NaN, list, dict, plain object): a callable pad is data. Round 5: str / str subclass / bytes / bytearray AS the "
        "sequence (items = characters / ints; the same characters also from a list and an iterator) with str (empty, "
        "1 char, several chars) / bytes / tuple / None / int / list pads, left and right 0..3, through every entry "
        "point; runs of 1025..2049 items. Distinct = distinct case hash.")
EXHAUSTIVE = {"quick": True, "thorough": False}
trusted_base = ["item type of the model is the 4-constructor 'item' (ints, strings, None, exact rationals), in the round-2 "
                "families paired with the Python type name (negative zero is its own type tag, tuples travel as repr); "
                "Python equality between items of different types is not modelled",
                "hop omitted / None is resolved to hop = size by the harness (the one-line default of the code)",
                "the items a source hands over (reversed for the list subclass with its own __iter__) are computed by "
                "the harness"]
ASSUMPTIONS = ["collections.deque(maxlen=) and generator semantics of CPython are as documented"]

POOL = [1, "a", None, 2, "b", 3, 4, "c", 5, 6, 7, "d", 8, 9, 10, "e"]


def mkseq(n, shift=0):
  return [POOL[(i + shift) % len(POOL)] if (i + shift) < len(POOL) else i + 100 for i in range(n)]


def gen_blocks(tier, rng):
  if tier == "quick":
    for Ln in range(0, 17):
      for size in range(1, 8):
        for hop in range(1, 10):
          pad = [0., None, "P"][(Ln + size + hop) % 3]
          via = ["blocks", "stream"][(Ln + hop) % 2]
          yield {"xs": mkseq(Ln), "size": size, "hop": hop, "pad": L.jsonable(pad), "via": via,
                 "hopnone": False, "tags": ["hop<size" if hop < size else "hop=size" if hop == size else "hop>size", via]}
    for Ln in range(0, 10):
      for size in range(1, 5):  # hop omitted: defaults to size
        yield {"xs": mkseq(Ln), "size": size, "hop": size, "pad": L.jsonable(0.), "via": "blocks",
               "hopnone": True, "tags": ["hop=None"]}
  else:
    for Ln in range(0, 41):
      for size in range(1, 10):
        for hop in range(1, 13):
          for via in ("blocks", "stream"):
            pad = rng.choice([0., None, "P", 7])
            yield {"xs": mkseq(Ln, rng.randrange(5)), "size": size, "hop": hop, "pad": L.jsonable(pad), "via": via,
                   "hopnone": False, "tags": ["hop<size" if hop < size else "hop=size" if hop == size else "hop>size", via]}
    for _ in range(2000):
      Ln = rng.randrange(0, 120); size = rng.randrange(1, 30); hop = rng.randrange(1, 40)
      yield {"xs": [rng.randrange(-50, 50) for _ in range(Ln)], "size": size, "hop": hop,
             "pad": L.jsonable(rng.choice([0., None, -1])), "via": rng.choice(["blocks", "stream"]),
             "hopnone": False, "tags": ["random"]}


def run_blocks(c):
  import audiolazy
  pad = L.unjson(c["pad"])
  kw = {"size": c["size"], "padval": pad}
  if not c["hopnone"]:
    kw["hop"] = c["hop"]
  try:
    src = iter(list(c["xs"]))
    if c["via"] == "blocks":
      g = audiolazy.blocks(src, **kw)
    else:
      g = audiolazy.Stream(src).blocks(**kw)
    out = []
    for b in g:
      out.append([L.jsonable(v) for v in list(b)])  # snapshot at the moment it is produced
      if len(out) > 10 * (len(c["xs"]) + 5):
        return {"raise": "TooManyBlocks"}
    return {"blocks": out}
  except Exception as e:
    return {"raise": type(e).__name__}


def lit_blocks(c, o):
  if "blocks" in o:
    ob = "(OBlocks %s)" % L.lst([L.lst([L.item(L.unjson(v)) for v in b]) for b in o["blocks"]])
  else:
    ob = "(ORaise %s)" % L.string(o["raise"])
  return "(BC %s %s %s %s %s)" % (L.nat(c["size"]), L.nat(c["hop"]), L.item(L.unjson(c["pad"])),
                                  L.lst([L.item(v) for v in c["xs"]]), ob)


def nontrivial_blocks(c, o):
  Ln, size, hop = len(c["xs"]), c["size"], c["hop"]
  if Ln < size:
    return False
  K = (Ln - size) // hop + 1
  return Ln - K * hop != 0


def gen_zpad(tier, rng):
  rngs = (range(0, 4), range(0, 4), range(0, 5)) if tier == "quick" else (range(0, 8), range(0, 8), range(0, 12))
  for left, right, Ln in itertools.product(*rngs):
    zero = [0., None, "Z", 0][(left + right + Ln) % 4]
    yield {"left": left, "right": right, "zero": L.jsonable(zero), "xs": mkseq(Ln), "tags": ["zpad"]}


def run_zpad(c):
  import audiolazy
  try:
    g = audiolazy.zero_pad(iter(list(c["xs"])), left=c["left"], right=c["right"], zero=L.unjson(c["zero"]))
    out = []
    for v in g:
      out.append(L.jsonable(v))
      if len(out) > 1000:
        return {"raise": "TooManyItems"}
    return {"items": out}
  except Exception as e:
    return {"raise": type(e).__name__}


def lit_zpad(c, o):
  if "items" in o:
    ob = "(OItems %s)" % L.lst([L.item(L.unjson(v)) for v in o["items"]])
  else:
    ob = "(ZRaise %s)" % L.string(o["raise"])
  return "(ZC %s %s %s %s %s)" % (L.nat(c["left"]), L.nat(c["right"]), L.item(L.unjson(c["zero"])),
                                  L.lst([L.item(v) for v in c["xs"]]), ob)


import C08_fam2 as F2
import C08_live as LV

IMPORTS = "From AL Require Import C08.Model C08.Spec C08.Check."
FAMILIES = {
  "blocks": Family("blocks", IMPORTS, "bcase", "corr_blocks", "holds_blocks",
                   gen_blocks, run_blocks, lit_blocks, nontrivial_blocks),
  "zpad": Family("zpad", IMPORTS, "zcase", "corr_zpad", "holds_zpad",
                 gen_zpad, run_zpad, lit_zpad, lambda c, o: c["left"] > 0 and c["right"] > 0 and len(c["xs"]) > 0),
  # round 2: every input kind x entry point (function, Stream.blocks, copy, hub, two hub copies) x argument style,
  # items and pads with their Python type visible
  "kinds": Family("kinds", IMPORTS, "pcall", "corr_call", "holds_call",
                  F2.gen_kinds, F2.run_kinds, F2.lit_call, F2.nontrivial_kinds),
  # 2-4 calls in one process: equal-but-different-type pads with the same pad count, results consumed
  # alternately, the same list object again (unchanged / longer / shorter), the same arguments again
  "calls": Family("calls", IMPORTS, "list pcall", "corr_calls", "holds_calls",
                  F2.gen_calls, F2.run_calls_case, F2.lit_calls, lambda c, o: len(c["calls"]) >= 2),
  # the list is changed by its owner between two next() calls; resumable generator model / spec on the live list
  "hist": Family("hist", IMPORTS, "hcase", "corr_hist", "holds_hist",
                 LV.gen_hist, LV.run_hist, LV.lit_hist, lambda c, o: c["mid"]),
  "zhist": Family("zhist", IMPORTS, "zhcase", "corr_zhist", "holds_zhist",
                  LV.gen_zhist, LV.run_zhist, LV.lit_zhist,
                  lambda c, o: any(op["op"] != "next" for op in c["ops"])),
}
