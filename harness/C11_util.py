# -*- coding: utf-8 -*-
"""ExactC: exact complex rational for the harness (class (f): number kinds).  Like Python's complex it stays
complex-TYPED when its imaginary part is exactly zero, supports + - * / ** == != abs, and refuses ordering
(< <= > >= raise TypeError), so duck-typed library code meets the same protocol as with complex, exactly."""
from fractions import Fraction
import math
from vlib.exactq import ExactQ


def _parts(x):
  if isinstance(x, ExactC):
    return x.re, x.im
  if isinstance(x, ExactQ):
    return x.frac, Fraction(0)
  if isinstance(x, bool):
    return Fraction(int(x)), Fraction(0)
  if isinstance(x, (int, Fraction)):
    return Fraction(x), Fraction(0)
  if isinstance(x, float):
    if x != x or x in (float("inf"), float("-inf")):
      return None
    return Fraction(x), Fraction(0)
  if isinstance(x, complex):
    try:
      return Fraction(x.real), Fraction(x.imag)
    except (ValueError, OverflowError):
      return None
  return None


class ExactC(object):
  __slots__ = ("re", "im")

  def __init__(self, re=0, im=0):
    self.re, self.im = Fraction(re), Fraction(im)

  def __repr__(self):
    return "ExactC(%s, %s)" % (self.re, self.im)

  def __hash__(self):
    return hash(self.re) if self.im == 0 else hash((self.re, self.im))

  def __bool__(self):
    return self.re != 0 or self.im != 0

  @property
  def real(self): return ExactQ(self.re)
  @property
  def imag(self): return ExactQ(self.im)
  def conjugate(self): return ExactC(self.re, -self.im)

  def _op(self, other, f, swap=False):
    p = _parts(other)
    if p is None:
      return NotImplemented
    a, b = (self.re, self.im), p
    if swap:
      a, b = b, a
    return ExactC(*f(a, b))

  @staticmethod
  def _add(a, b): return a[0] + b[0], a[1] + b[1]
  @staticmethod
  def _sub(a, b): return a[0] - b[0], a[1] - b[1]
  @staticmethod
  def _mul(a, b): return a[0] * b[0] - a[1] * b[1], a[0] * b[1] + a[1] * b[0]
  @staticmethod
  def _div(a, b):
    n = b[0] * b[0] + b[1] * b[1]
    if n == 0:
      raise ZeroDivisionError("complex division by zero")
    return (a[0] * b[0] + a[1] * b[1]) / n, (a[1] * b[0] - a[0] * b[1]) / n

  def __add__(self, o): return self._op(o, self._add)
  def __radd__(self, o): return self._op(o, self._add, True)
  def __sub__(self, o): return self._op(o, self._sub)
  def __rsub__(self, o): return self._op(o, self._sub, True)
  def __mul__(self, o): return self._op(o, self._mul)
  def __rmul__(self, o): return self._op(o, self._mul, True)
  def __truediv__(self, o): return self._op(o, self._div)
  def __rtruediv__(self, o): return self._op(o, self._div, True)
  def __neg__(self): return ExactC(-self.re, -self.im)
  def __pos__(self): return self

  def __pow__(self, n):
    p = _parts(n)
    if p is None or p[1] != 0 or p[0].denominator != 1:
      return NotImplemented
    n = int(p[0])
    base = self if n >= 0 else 1 / self
    res = ExactC(1)
    for _ in range(abs(n)):
      res = res * base
    return res

  def __abs__(self):
    if self.im == 0:
      return ExactQ(abs(self.re))
    n = self.re * self.re + self.im * self.im
    rn, rd = math.isqrt(n.numerator), math.isqrt(n.denominator)
    if rn * rn == n.numerator and rd * rd == n.denominator:
      return ExactQ(Fraction(rn, rd))
    return math.sqrt(n)

  def __eq__(self, o):
    p = _parts(o)
    if p is None:
      return NotImplemented
    return (self.re, self.im) == p

  def __ne__(self, o):
    r = self.__eq__(o)
    return r if r is NotImplemented else not r

  # no ordering, exactly like complex: the comparison protocol ends in TypeError
  def __lt__(self, o): return NotImplemented
  __le__ = __gt__ = __ge__ = __lt__


def real_frac(x):
  """Exact value of a yielded / returned number that must be real-valued (ExactC and complex included)."""
  p = _parts(x)
  if p is None:
    raise ValueError("not an exact finite number: %r" % (x,))
  if p[1] != 0:
    raise ValueError("complex value with non-zero imaginary part: %r" % (x,))
  return p[0]
