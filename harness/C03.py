# -*- coding: utf-8 -*-
"""C03 - histories of Stream methods against the list (remaining-sequence) model."""
import itertools
from vlib.framework import Family
from vlib import coqlit as L

PID = "C03"
PROP_FILES = ["Prop"]
ALLOWED_AXIOMS = []
RULE = ("histories of next/take/peek/skip/limit/copy/append/map/filter/thub/Stream(hub)/tee/append(existing object) and "
        "in-place mutation of a returned container, over pools of integer Streams built from every kind of source object "
        "(list, tuple, deque (bounded too), range, generator, iterator, another Stream / its iterator, islice(count), "
        "object with only __iter__, array, dict keys, map / chain objects, itertools.repeat(x, k), audiolazy repeat(x, k); "
        "periodic: Stream(a, b, ..), itertools.cycle, itertools.repeat(x)); counts from None, ints, bools, floats (x.4, "
        "x.5, halves, negative), inf, -inf, nan; list / tuple / deque constructors, positional and keyword call styles; "
        "map/filter functions from {+c, *c, even, >c}. Multi-argument Stream(a, b, ..) / s.append(a, b, ..) with existing "
        "Streams and hubs and fresh iterables among the arguments (every argument gives up its iterator at construction: "
        "each hub is charged exactly one use then). REFUSED calls (mixed iterable / non-iterable arguments with a hub, a "
        "Stream or its iterator among them, Stream(), append(), take/peek with a non-callable constructor or a str count, "
        "limit(str), tee(x, -1)) must raise the stated exception and change nothing. Argument kinds: filter predicate None / bool / lambda / bound method / "
        "predicates returning non-bool values over items that include zeros; thub / tee of non-iterables of every kind "
        "(numbers, None, functions, class objects such as list / dict / Stream that merely HAVE __iter__, an instance with "
        "__iter__ only as an instance attribute) must return that very object. Families: mutcons (exhaustive, every seed: in-place method - k items "
        "consumed directly in every style - in-place method, observed only at the end), argkinds, long (runs of hundreds "
        "of items, copies far apart), reuse (one stream: "
        "in-place methods before and after it ran into its end), refused (hub with n uses, "
        "refused and multi-argument calls interleaved with uses, then all uses requested), alias (every source kind x take/peek x constructor x "
        "mutation of the result x follow-ups with copies), hubappend (single- and multi-argument), all pairs of operations on small pools (quick: a "
        "seeded 25 %; thorough: all, plus all triples over 6 counts), seeded samples of length 3-4, random histories of "
        "length 5-25 over 1-3 random sources; after the history the caller's own containers must be unchanged. "
        "Exclusions (stated, enforced by the generator): a history is cut before an operation that does not terminate "
        "(dry run with a pull budget); an object is never touched again after skip(n) with a non-roundable n nor after "
        "its iterator was handed to thub()/tee()/append(); thub(hub without uses left) is not generated. "
        "Non-trivial = two objects of one family (origin, copies, tee outputs, hub uses) are both consumed after the split")
EXHAUSTIVE = {"quick": False, "thorough": False}
trusted_base = ["stream items are Python ints; counts are ints or exactly representable floats"]
ASSUMPTIONS = ["CPython itertools.tee / islice / chain / cycle and generator semantics as documented"]

BUDGET = 3000
COUNTS = [["none"], ["int", -1], ["int", 0], ["int", 1], ["int", 2], ["int", 3], ["int", 5],
          ["flt", 12, 5], ["flt", 5, 2], ["flt", 3, 2], ["flt", -5, 2], ["inf"], ["ninf"], ["nan"]]
COUNTS3 = [["none"], ["int", 0], ["int", 2], ["int", 5], ["flt", 5, 2], ["inf"]]
POOL = [["fin", [1, 2, 3]], ["fin", []], ["cyc", [1, 2]], ["fin", [7, 7, 7]]]


class _Budget(Exception):
  pass


def pycount(c):
  k = c[0]
  if k == "none": return None
  if k == "int": return c[1]
  if k == "bool": return bool(c[1])
  if k == "flt": return c[1] / c[2]
  return {"inf": float("inf"), "ninf": float("-inf"), "nan": float("nan")}[k]


def _guarded(items, box):
  while True:
    for x in items:
      box[0] -= 1
      if box[0] < 0:
        raise _Budget()
      yield x


class _OnlyIter(object):
  """an object that is iterable only through __iter__"""
  def __init__(self, items):
    self.items = items
  def __iter__(self):
    return iter(self.items)


def fin_kinds(l):
  """the kinds of Python object that can carry the finite sequence l"""
  ks = ["list", "tuple", "deque", "dequeb", "gen", "iter", "streamiter", "stream", "onlyiter", "mapobj",
        "chainobj", "multi", "multi3"]
  if all(-2 ** 63 <= x < 2 ** 63 for x in l):
    ks += ["array"]
  if l == list(range(l[0] if l else 0, (l[0] if l else 0) + len(l))):
    ks += ["range", "islice_count"]
  if len(set(l)) == len(l):
    ks += ["dictkeys"]
  if len(set(l)) <= 1:
    ks += ["it_repeat", "al_repeat"]
  return ks


def cyc_kinds(l):
  return ["args", "it_cycle"] + (["it_repeat_inf"] if len(l) == 1 else [])


def _raw(p, args):
  """the iterable handed to Stream(..) / append(..) for a finite source of kind p[2]"""
  import audiolazy, collections, array
  l, k = list(p[1]), (p[2] if len(p) > 2 else "list")
  if k == "list": args.append((l, list(l))); return l
  if k == "tuple": return tuple(l)
  if k == "deque": d = collections.deque(l); args.append((d, collections.deque(l))); return d
  if k == "dequeb": d = collections.deque(l, maxlen=len(l) + 2); args.append((d, collections.deque(l))); return d
  if k == "gen": return (x for x in l)
  if k == "iter": return iter(l)
  if k == "streamiter": return iter(audiolazy.Stream(l))
  if k == "stream": return audiolazy.Stream(l)
  if k == "onlyiter": return _OnlyIter(l)
  if k == "array": a = array.array("q", l); args.append((a, array.array("q", l))); return a
  if k == "mapobj": return map(int, l)
  if k == "chainobj": return itertools.chain(l[:1], l[1:])
  if k == "range": return range(l[0], l[0] + len(l)) if l else range(0)
  if k == "islice_count": return itertools.islice(itertools.count(l[0] if l else 0), len(l))
  if k == "dictkeys": return dict.fromkeys(l).keys()
  if k == "it_repeat": return itertools.repeat(l[0] if l else 0, len(l))
  if k == "al_repeat": return audiolazy.repeat(l[0] if l else 0, len(l))
  raise ValueError(k)


def _parts(p, args):
  """multi-argument forms Stream(a, b[, c]) / append(a, b[, c]): the sequence split over several iterables"""
  import audiolazy, collections
  l = list(p[1]); h = len(l) // 2
  if p[2] == "multi":
    a = l[:h]; args.append((a, list(a)))
    return (a, (x for x in l[h:]))
  q = (len(l) + 2) // 3
  d = collections.deque(l[2 * q:]); args.append((d, collections.deque(d)))
  return (tuple(l[:q]), audiolazy.Stream(l[q:2 * q]), d)


def _mk(p, guard, box, args):
  import audiolazy
  if p[0] == "fin" and len(p) > 2 and p[2] in ("multi", "multi3"):
    return audiolazy.Stream(*_parts(p, args))
  if p[0] == "fin":
    r = _raw(p, args)
    return r if (len(p) > 2 and p[2] == "al_repeat") else audiolazy.Stream(r)
  if guard:
    return audiolazy.Stream(_guarded(list(p[1]), box))
  k = p[2] if len(p) > 2 else "args"
  if k == "it_cycle": return audiolazy.Stream(itertools.cycle(list(p[1])))
  if k == "it_repeat_inf": return audiolazy.Stream(itertools.repeat(p[1][0]))
  return audiolazy.Stream(*p[1])  # repeat (one value) or cycle (several)


CTORS = ("list", "tuple", "deque")


def _items(v, ctor="list"):
  import collections
  t = {"list": list, "tuple": tuple, "deque": collections.deque}[ctor]
  if type(v) is t and all(type(x) is int for x in v):
    return ["items", list(v)]
  return ["raise", "BadItems"]


FUNS = {"add": lambda c: (lambda x: x + c), "mul": lambda c: (lambda x: x * c)}
class _Pred(object):
  """a predicate given as a bound method"""
  def __init__(self, c): self.c = c
  def gt(self, x): return x > self.c


PREDS = {"even": lambda c: (lambda x: x % 2 == 0), "gt": lambda c: (lambda x: x > c),
         "even_int": lambda c: (lambda x: 1 - x % 2),        # a predicate returning 0 / 1, not a bool
         "gt_method": lambda c: _Pred(c).gt,                 # bound method
         "none": lambda c: None,                             # filter(None): keep the truthy items
         "bool": lambda c: bool,                             # the class bool as the predicate
         "truthy_obj": lambda c: (lambda x: [x] if x else [])}  # returns a (non-)empty list
PRED_LIT = {"even": "PEven", "even_int": "PEven", "gt": None, "gt_method": None,
            "none": "PTruthy", "bool": "PTruthy", "truthy_obj": "PTruthy"}


def _inplace(objs, s, r):
  import audiolazy
  if r is s:
    return ["self"]
  if isinstance(s, audiolazy.StreamTeeHub) and type(r) is audiolazy.Stream:
    objs.append(r)
    return ["new", len(objs) - 1]
  return ["raise", "NotSelf"]


REFUSED = {  # form -> exception the call must be refused with (and change nothing)
  "ctor_mixed": "TypeError", "ctor_mixed_iter": "TypeError", "append_mixed": "TypeError",
  "append_mixed_fresh": "TypeError", "ctor_empty": "TypeError", "append_empty": "TypeError",
  "take_badctor": "TypeError", "peek_badctor": "TypeError", "take_str": "TypeError", "peek_str": "TypeError",
  "limit_str": "TypeError", "tee_neg": "ValueError"}


def _refused(objs, op):
  """op = ["refused", form, i, j, variant]: a call that must raise; i / j are objects among its operands"""
  import audiolazy
  form, i, j, v = op[1], op[2], op[3], op[4]
  if form == "ctor_mixed":
    args = [(objs[j], 0), (None, objs[j]), (objs[j], 0, [1]), ([4], objs[j], 2.5)][v % 4]
    return audiolazy.Stream(*args)
  if form == "ctor_mixed_iter":
    return audiolazy.Stream(iter(objs[j]), 0) if v % 2 == 0 else audiolazy.Stream(0, iter(objs[j]))
  if form == "append_mixed":
    return objs[i].append(objs[j], 0) if v % 2 == 0 else objs[i].append(None, objs[j])
  if form == "append_mixed_fresh":
    return objs[i].append([1, 2], 0)
  if form == "ctor_empty": return audiolazy.Stream()
  if form == "append_empty": return objs[i].append()
  if form == "take_badctor": return objs[i].take(2, constructor=5)
  if form == "peek_badctor": return objs[i].peek(2, constructor=5)
  if form == "take_str": return objs[i].take("x")
  if form == "peek_str": return objs[i].peek("x")
  if form == "limit_str": return objs[i].limit("x")
  if form == "tee_neg": return audiolazy.tee(objs[j], -1)
  raise ValueError(form)


class _UserIterable(object):
  """a user class defining __iter__: its INSTANCES are iterable, the class object is not"""
  def __iter__(self):
    return iter([1, 2])


class _Plain(object):
  pass


NONITER_KINDS = ("int", "bool", "float", "complex", "none", "func", "builtin", "object", "cls_list", "cls_dict",
                 "cls_str", "cls_tuple", "cls_set", "cls_stream", "cls_hub", "cls_user", "cls_int", "inst_attr")


def _noniter(z, kind):
  """a non-iterable datum of the given kind (z is only the token the model carries)"""
  import audiolazy
  if kind == "int": return z
  if kind == "inst_attr":    # __iter__ only as an INSTANCE attribute: not iterable (iter() looks at the type)
    o = _Plain(); o.__iter__ = lambda: iter([1]); return o
  return {"bool": True, "float": z + 0.5, "complex": complex(z, 1), "none": None, "func": (lambda: z),
          "builtin": len, "object": object(), "cls_list": list, "cls_dict": dict, "cls_str": str,
          "cls_tuple": tuple, "cls_set": set, "cls_stream": audiolazy.Stream, "cls_hub": audiolazy.StreamTeeHub,
          "cls_user": _UserIterable, "cls_int": int}[kind]


def _step(objs, op, guard, box, env):
  import audiolazy, collections
  k = op[0]
  if k == "mutate":   # the caller changes, in place, the container the last take / peek returned
    v = env["last"]
    if type(v) in (list, collections.deque):
      if op[1] == 0: v.reverse()
      elif op[1] == 1: v.append(99)
      else: v.clear()
    return ["self"]
  if k == "refused":
    _refused(objs, op)
    return ["raise", "NotRefused"]
  if k == "multi":   # Stream(a, b, ..) / s.append(a, b, ..) with two or more iterables (objects or fresh ones)
    pyargs = [objs[a[1]] if a[0] == "obj" else _raw(["fin", a[1], a[2] if len(a) > 2 else "list"], env["args"])
              for a in op[2]]
    if op[1] < 0:
      r = audiolazy.Stream(*pyargs)
      if type(r) is not audiolazy.Stream: return ["raise", "BadStream"]
      objs.append(r); return ["new", len(objs) - 1]
    s = objs[op[1]]
    return _inplace(objs, s, s.append(*pyargs))
  if k == "thubval":   # thub of a NON-iterable is that very object
    d = _noniter(op[1], op[3] if len(op) > 3 else "int")
    v = audiolazy.thub(d, op[2])
    return ["item", op[1]] if (v is d and type(v) is type(d)) else ["raise", "NotTheObject"]
  if k == "teeval":    # tee of a non-iterable: n times that very object
    d = _noniter(op[1], op[3] if len(op) > 3 else "int")
    v = audiolazy.tee(d, op[2])
    ok = type(v) is tuple and len(v) == op[2] and all(x is d for x in v)
    return ["items", [op[1]] * op[2]] if ok else ["raise", "NotTheObject"]
  s = objs[op[1]]
  if k == "next":
    v = next(iter(s)); return ["item", v] if type(v) is int else ["raise", "BadItem"]
  if k in ("take", "peek"):
    n = pycount(op[2])
    ctor = op[3] if len(op) > 3 else "list"
    env["calls"] = env.get("calls", 0) + 1
    kw = env["calls"] % 2 == 0              # alternate positional / keyword call styles
    if ctor == "list":
      v = getattr(s, k)(n=n) if kw else getattr(s, k)(n)
    else:
      cf = {"tuple": tuple, "deque": collections.deque}[ctor]
      v = getattr(s, k)(n=n, constructor=cf) if kw else getattr(s, k)(n, cf)
    if n is None:
      return ["item", v] if type(v) is int else ["raise", "BadItem"]
    env["last"] = v
    return _items(v, ctor)
  if k in ("skip", "limit"):
    return _inplace(objs, s, getattr(s, k)(pycount(op[2])))
  if k == "append":
    if op[2][0] == "fin" and len(op[2]) > 2 and op[2][2] in ("multi", "multi3"):
      return _inplace(objs, s, s.append(*_parts(op[2], env["args"])))
    if op[2][0] == "fin":
      return _inplace(objs, s, s.append(_raw(op[2], env["args"])))
    if guard:   # dry run of the generator: same values, but a runaway consumer is stopped
      return _inplace(objs, s, s.append(_guarded(list(op[2][1]), box)))
    return _inplace(objs, s, s.append(*op[2][1]))
  if k == "appendobj":
    return _inplace(objs, s, s.append(objs[op[2]]))
  if k == "map":
    return _inplace(objs, s, s.map(FUNS[op[2][0]](op[2][1])))
  if k == "filter":
    return _inplace(objs, s, s.filter(PREDS[op[2][0]](op[2][1])))
  if k == "copy":
    r = s.copy()
    if type(r) is not audiolazy.Stream: return ["raise", "BadCopy"]
    objs.append(r); return ["new", len(objs) - 1]
  if k == "thub":
    r = audiolazy.thub(s, op[2])
    if type(r) is not audiolazy.StreamTeeHub: return ["raise", "BadHub"]
    objs.append(r); return ["new", len(objs) - 1]
  if k == "use":
    objs.append(audiolazy.Stream(s)); return ["new", len(objs) - 1]
  if k == "tee":
    r = audiolazy.tee(s, op[2])
    if type(r) is not tuple or len(r) != op[2] or any(type(x) is not audiolazy.Stream for x in r):
      return ["raise", "BadTee"]
    objs.extend(r); return ["news", len(objs) - len(r), len(r)]
  return ["raise", "BadOp"]


def _exec(case, guard):
  box = [BUDGET]
  env = {"last": None, "args": []}
  objs = [_mk(p, guard, box, env["args"]) for p in case["pool"]]
  out = []
  for op in case["ops"]:
    box[0] = BUDGET
    try:
      o = _step(objs, op, guard, box, env)
    except _Budget:
      o = ["diverge"]
    except Exception as e:
      o = ["raise", type(e).__name__]
    out.append(o)
    if o == ["diverge"]:
      break
  # the caller's own containers (lists / deques / arrays given to Stream or append) still hold what they held
  if any(list(obj) != list(snap) for obj, snap in env["args"]):
    out.append(["raise", "ArgumentMutated"])
  return out


BADROUND = ("none", "inf", "ninf", "nan")
APPENDS = [["fin", [7, 8]], ["fin", []], ["cyc", [9]], ["cyc", [5, 6]]]
MAPS = [["add", 10], ["mul", -2]]
FILTERS = [["even", 0], ["gt", 1], ["gt", 100], ["none", 0], ["bool", 0], ["even_int", 0], ["gt_method", 0],
           ["truthy_obj", 0]]
COUNTED = ("take", "peek", "skip", "limit")


def alphabet(kinds, counts, rich=True):
  """every operation applicable to the objects alive (kinds: ("s",) stream, ("h", uses) hub, ("d",) dead)"""
  for i, kd in enumerate(kinds):
    if kd[0] == "d":
      continue
    if kd[0] == "s":
      yield ["next", i]
    else:
      yield ["use", i]
    yield ["copy", i]
    for c in counts:
      for k in COUNTED:
        yield [k, i, c]
    if rich:
      for a in APPENDS: yield ["append", i, a]
      for f in MAPS: yield ["map", i, f]
      for q in FILTERS: yield ["filter", i, q]
      if kd != ("h", 0):   # thub(exhausted hub) raises IndexError inside __init__ and then recurses in __del__ (slow)
        for n in (0, 1, 2): yield ["thub", i, n]
      for n in (0, 2): yield ["tee", i, n]
      if kd[0] == "s":
        for j, kj in enumerate(kinds):
          if j != i and kj[0] != "d":
            yield ["appendobj", i, j]
  if rich:
    for i, kd in enumerate(kinds):
      if kd[0] == "d":
        continue
      yield ["refused", "ctor_mixed", i, i, i]
      yield ["multi", -1, [["obj", i], ["fresh", [8, 9]]]]
      for j, kj in enumerate(kinds):
        if j != i and kj[0] != "d":
          if kd[0] == "s":
            yield ["multi", i, [["fresh", [7]], ["obj", j]]]
          if j > i:
            yield ["multi", -1, [["obj", i], ["obj", j]]]
      if kd[0] == "s":
        yield ["refused", ("take_badctor", "peek_str", "append_mixed_fresh", "limit_str")[i % 4], i, i, 0]
    yield ["thubval", 5, 2]
    yield ["teeval", 5, 3]


def advance(op, kinds):
  """object kinds after op, mirroring which calls create / use up / kill objects"""
  k = op[0]
  if k in ("thubval", "teeval", "next", "mutate", "refused"):
    return kinds
  if k == "multi":                                 # iter(arg) for every argument, left to right
    kinds = list(kinds)
    for a in op[2]:
      if a[0] != "obj":
        continue
      kj = kinds[a[1]]
      if kj[0] == "s":
        kinds[a[1]] = ("d",)
      elif kj[0] == "h" and kj[1] > 0:
        kinds[a[1]] = ("h", kj[1] - 1)
      else:
        return kinds                               # IndexError: the earlier arguments stay charged
    return kinds + [("s",)] if op[1] < 0 else kinds
  i = op[1]; kd = kinds[i]; kinds = list(kinds)
  if k == "appendobj":                             # Stream(obj_j): a hub loses a use, a Stream is handed over
    kj = kinds[op[2]]
    if kj[0] == "s":
      kinds[op[2]] = ("d",)
    elif kj[0] == "h" and kj[1] > 0:
      kinds[op[2]] = ("h", kj[1] - 1)
    return kinds
  if k == "tee" and op[2] == 0:
    return kinds                                   # itertools.tee(x, 0) does not even call iter(x)
  hub = kd[0] == "h"
  if hub and kd[1] == 0:
    return kinds                                   # IndexError, nothing changes
  if k == "take" or k == "peek":
    return kinds
  if k == "copy":
    return kinds + [("s",)]
  if hub:
    kinds[i] = ("h", kd[1] - 1)
  if k == "use":
    return kinds + [("s",)]
  if k == "thub":
    if not hub: kinds[i] = ("d",)
    return kinds + [("h", op[2])]
  if k == "tee":
    if not hub: kinds[i] = ("d",)
    return kinds + [("s",)] * op[2]
  bad = k in ("skip", "limit") and op[2][0] in BADROUND
  if hub:
    if bad and k == "limit": return kinds           # error after the use
    return kinds + [("d",) if bad else ("s",)]
  if bad and k == "skip":
    kinds[i] = ("d",)
  return kinds


def histories(n, kinds, counts):
  if n == 0:
    yield []
    return
  for op in alphabet(kinds, counts):
    for rest in histories(n - 1, advance(op, kinds), counts):
      yield [op] + rest


def finish(pool, ops, tags):
  """cut the history before the first operation that does not terminate"""
  c = {"pool": pool, "ops": ops, "tags": tags}
  out = _exec(c, True)
  if out and out[-1] == ["diverge"]:
    c["ops"] = ops[:len(out) - 1]
    c["tags"] = tags + ["cut"]
  return c


def random_op(rng, kinds, counts):
  ops = list(alphabet(kinds, [rng.choice(counts), ["int", rng.randrange(-2, 9)],
                              ["flt", rng.randrange(-3, 19), rng.choice([2, 4])], ["bool", rng.randrange(0, 2)]]))
  plain = [o for o in ops if o[0] in ("next", "take", "peek", "copy", "use", "appendobj")]
  return rng.choice(plain if plain and rng.random() < 0.5 else ops)


def gen_hubappend(tier):
  """a hub is appended to a stream; its remaining uses are requested before / after the
  appended stream reaches the appended part (the append itself is one of the n uses)"""
  mid = [["appendobj", 0, 2], ["use", 2], ["take", 0, ["int", 1]], ["take", 0, ["int", 2]],
         ["peek", 2, ["int", 2]], ["copy", 2], ["peek", 0, ["int", 3]],
         ["multi", 0, [["fresh", [9]], ["obj", 2]]], ["multi", -1, [["obj", 2], ["fresh", [9]], ["obj", 2]]]]
  maxlen = 2 if tier == "quick" else 3
  for own in ([0], []):
    for tail in (["fin", [1, 2, 3]], ["cyc", [4, 5]]):
      for n in (0, 1, 2):
        for ln in range(1, maxlen + 1):
          for seq in itertools.product(mid, repeat=ln):
            if not any(op[0] in ("appendobj", "multi") for op in seq):
              continue
            ops, kinds = [["thub", 1, n]], advance(["thub", 1, n], [("s",), ("s",)])
            for op in seq:
              ops.append(op); kinds = advance(op, kinds)
            ops.append(["use", 2]); kinds = advance(ops[-1], kinds)
            ops.append(["take", 0, ["int", 6]])
            for i, kd in enumerate(kinds):
              if kd[0] == "s" and i != 0:
                ops.append(["take", i, ["int", 4]])
            ops.append(["use", 2])
            yield finish([["fin", own], tail], ops, ["hubappend", "n=%d" % n])


def is_container_op(op):
  return op[0] in ("take", "peek") and op[2][0] != "none"


class _Rot(object):
  """deterministic round-robin choices (kinds of source object, constructors, mutations)"""
  def __init__(self):
    self.k = 0
  def pick(self, seq):
    self.k += 1
    return seq[self.k % len(seq)]


_SINGLE_KINDS = ("list", "tuple", "deque", "gen", "iter", "onlyiter", "mapobj")


def kinded(p, rot):
  return [p[0], p[1], rot.pick(fin_kinds(p[1]) if p[0] == "fin" else cyc_kinds(p[1]))]


def decorate(ops, rot, always=False):
  """constructor variants for take / peek and an in-place mutation of the returned container right after"""
  out = []
  for op in ops:
    if is_container_op(op):
      op = op[:3] + [rot.pick(CTORS)]
      out.append(op)
      if always or rot.pick((0, 1)) == 1:
        out.append(["mutate", rot.pick((0, 1, 2))])
    else:
      if op[0] == "append" and op[2][0] == "fin":
        op = [op[0], op[1], kinded(op[2], rot)]
      if op[0] in ("thubval", "teeval"):
        op = [op[0], op[1], op[2], rot.pick(NONITER_KINDS)]
      if op[0] == "multi":
        op = [op[0], op[1], [a if a[0] == "obj" else ["fresh", a[1], rot.pick(_SINGLE_KINDS)] for a in op[2]]]
      out.append(op)
  return out


def gen_alias(tier, rng):
  """every kind of source object; take / peek with each constructor; the returned container is then
  mutated in place; the stream, a copy made before and one made after must be unaffected"""
  rot = _Rot()
  tails = [[["take", 0, ["int", 5]]],
           [["copy", 0], ["take", 1, ["int", 5]], ["take", 0, ["int", 5]]],
           [["peek", 0, ["int", 2]], ["mutate", 0], ["skip", 0, ["int", 1]], ["take", 0, ["inf"]]]]
  for l in ([1, 2, 3], [7, 7, 7], [4], []):
    for kind in fin_kinds(l):
      for first in ("peek", "take"):
        for n in (["int", 2], ["int", 5], ["flt", 3, 2]):
          for ctor in CTORS:
            for mut in (None, 0, 1, 2):
              for ti, tail in enumerate(tails):
                if tier == "quick" and rng.random() > 0.18:
                  continue
                ops = [[first, 0, n, ctor]] + ([["mutate", mut]] if mut is not None else []) + tail
                yield finish([["fin", l, kind]], ops, ["alias", kind, first, "mut" if mut is not None else "nomut"])
  for l in ([1, 2], [5]):
    for kind in cyc_kinds(l):
      for first in ("peek", "take"):
        for ctor in CTORS:
          for mut in (0, 1, 2):
            for tail in tails[:2]:
              yield finish([["cyc", l, kind]], [[first, 0, ["int", 3], ctor], ["mutate", mut]] + tail,
                           ["alias", kind, first, "mut"])


def gen_refused(tier, rng):
  """error paths: calls that are refused (mixed iterable / non-iterable arguments with a hub, a Stream or its
  iterator among them, bad constructor, bad count type, negative tee) must change nothing: afterwards the hub
  still hands out exactly its remaining uses and every stream yields what it would have yielded"""
  mid = [["refused", "ctor_mixed", 2, 2, v] for v in range(4)]
  mid += [["refused", "append_mixed", 0, 2, v] for v in range(2)]
  mid += [["refused", "ctor_mixed", 0, 0, 1], ["refused", "ctor_mixed_iter", 0, 0, 0], ["refused", "ctor_mixed_iter", 0, 0, 1]]
  mid += [["refused", f, 0, 0, 0] for f in ("take_badctor", "peek_badctor", "take_str", "peek_str", "limit_str",
                                            "append_mixed_fresh", "append_empty", "ctor_empty")]
  mid += [["refused", "tee_neg", 0, 0, 0], ["refused", "tee_neg", 2, 2, 0]]
  mid += [["use", 2], ["peek", 2, ["int", 2]], ["take", 0, ["int", 1]], ["appendobj", 0, 2]]
  mid += [["multi", 0, [["fresh", [8]], ["obj", 2]]], ["multi", -1, [["obj", 2], ["fresh", [8]]]],
          ["multi", -1, [["obj", 2], ["obj", 2]]]]
  maxlen = 2 if tier == "quick" else 3
  for tail in (["fin", [1, 2, 3]], ["cyc", [4, 5]]):
    for n in (0, 1, 2):
      for ln in range(1, maxlen + 1):
        for seq in itertools.product(mid, repeat=ln):
          if not any(op[0] == "refused" for op in seq):
            continue
          if tier != "quick" and ln == 3 and rng.random() > 0.5:
            continue
          ops, kinds = [["thub", 1, n]], advance(["thub", 1, n], [("s",), ("s",)])
          for op in seq:
            ops.append(op); kinds = advance(op, kinds)
          for _k in range(n + 1):
            ops.append(["use", 2]); kinds = advance(ops[-1], kinds)
          ops.append(["take", 0, ["int", 9]])
          for i, kd in enumerate(kinds):
            if kd[0] == "s" and i != 0:
              ops.append(["take", i, ["int", 4]])
          yield finish([["fin", [0, 5]], tail], ops, ["refused", "n=%d" % n])


def gen_reuse(tier, rng):
  """one stream object used again and again: the same in-place method applied before and after the stream ran
  into its end (append - exhaust - append - observe and the like): nothing may survive from the earlier calls"""
  mid = [["append", 0, ["fin", [7, 8]]], ["append", 0, ["fin", []]], ["multi", 0, [["fresh", [3]], ["fresh", [4]]]],
         ["take", 0, ["inf"]], ["take", 0, ["int", 5]], ["take", 0, ["int", 2]], ["peek", 0, ["int", 5]],
         ["skip", 0, ["int", 9]], ["limit", 0, ["int", 3]], ["map", 0, ["add", 10]], ["filter", 0, ["gt", 1]]]
  rot = _Rot()
  for p in (["fin", [1, 2]], ["fin", []]):
    for ln in (3, 4):
      for seq in itertools.product(mid, repeat=ln):
        if sum(1 for op in seq if op[0] in ("append", "multi")) < 2:
          continue
        if rng.random() > (0.12 if tier == "quick" else 0.6):
          continue
        yield finish([kinded(p, rot)], decorate([list(op) for op in seq], rot) + [["take", 0, ["int", 9]]],
                     ["reuse", "len=%d" % ln])


def gen_argkinds(tier, rng):
  """kinds of ARGUMENT of the methods: every kind of filter predicate (None, bool, lambda, bound method, predicates
  returning non-bool values) over items that include falsy ones, directly and through a hub; every kind of
  non-iterable datum for thub / tee (numbers, None, functions, class objects that merely have __iter__, an instance
  with __iter__ only as an instance attribute): it must come back as the very same object"""
  rot = _Rot()
  tails = [[["take", 0, ["inf"]]], [["copy", 0], ["take", 1, ["int", 3]], ["take", 0, ["int", 9]]],
           [["peek", 0, ["int", 2]], ["take", 0, ["int", 9]]]]
  for pool in (["fin", [0, 1, 0, 2, -3, 0]], ["fin", [0, 0]], ["cyc", [0, 5]], ["cyc", [0]]):
    for q in FILTERS:
      for tail in tails:
        yield finish([kinded(pool, rot)], [["filter", 0, q]] + tail, ["argkinds", "filter", q[0]])
      # through a hub: hub.filter(..) is Stream(hub).filter(..)
      yield finish([kinded(pool, rot)], [["thub", 0, 2], ["filter", 1, q], ["take", 2, ["int", 4]], ["use", 1],
                                         ["take", 3, ["int", 4]], ["use", 1]], ["argkinds", "hubfilter", q[0]])
      yield finish([kinded(pool, rot)], [["filter", 0, q], ["filter", 0, FILTERS[0]], ["map", 0, ["mul", -2]],
                                         ["filter", 0, q], ["take", 0, ["int", 5]]], ["argkinds", "filter2", q[0]])
  for kind in NONITER_KINDS:
    for n in (0, 1, 3):
      yield finish([["fin", [1, 2]]], [["thubval", 7, n, kind], ["teeval", 7, n, kind], ["take", 0, ["int", 1]],
                                       ["thubval", 7, n, kind]], ["argkinds", "noniter", kind])


def gen_long(tier, rng):
  """runs far longer than any internal buffer (the tee link cells hold 57 items): copies consumed far apart"""
  big = list(range(-5, 400))
  for pool in (["fin", big, "list"], ["fin", big, "gen"], ["cyc", [1, 2, 3], "args"], ["cyc", [0, 5], "it_cycle"]):
    for a, b in ((150, 300), (300, 60), (57, 58), (114, 1)):
      yield finish([pool], [["copy", 0], ["take", 0, ["int", a]], ["copy", 1], ["take", 1, ["int", b]],
                            ["take", 2, ["int", a + 7]], ["filter", 0, ["none", 0]], ["take", 0, ["int", 120]],
                            ["skip", 1, ["int", 200]], ["take", 1, ["int", 5]]], ["long"])
      yield finish([pool], [["tee", 0, 3], ["take", 1, ["int", a]], ["take", 3, ["int", b]], ["peek", 2, ["int", a + b]],
                            ["take", 2, ["int", 3]]], ["long"])


def gen_mutcons(tier, rng):
  """ONE stream object: an in-place method, then k items consumed DIRECTLY (every consumption style, nothing else
  in between, no intermediate observation), then an in-place method again; observed only at the end.  Exhaustive
  and the same for every seed."""
  muts = [["limit", 0, ["int", a]] for a in range(5)] + [["skip", 0, ["int", a]] for a in range(5)]
  muts += [["append", 0, ["fin", [7, 8]]], ["map", 0, ["add", 10]], ["filter", 0, ["gt", 1]], ["copy", 0]]
  cons = [[["take", 0, ["int", k]]] for k in (1, 2, 3, 4)]
  cons += [[["take", 0, ["none"]]], [["next", 0]], [["next", 0], ["next", 0]], [["take", 0, ["int", 2], "tuple"]],
           [["take", 0, ["none"]], ["take", 0, ["int", 1], "deque"]]]
  for pool in (["fin", [1, 2, 3, 4, 5, 6, 7, 8], "list"], ["cyc", [1, 2, 3], "args"]):
    for m1 in muts:
      for c in cons:
        for m2 in muts:
          ops = [list(m1)] + [list(o) for o in c] + [list(m2)]
          kinds = [("s",)]
          for op in ops:
            kinds = advance(op, kinds)
          ops.append(["take", 0, ["int", 9]])
          ops += [["take", i, ["int", 9]] for i in range(1, len(kinds))]
          yield finish([pool], ops, ["mutcons", m1[0], m2[0]])


def gen_hist(tier, rng):
  for c in gen_mutcons(tier, rng):
    yield c
  for c in gen_argkinds(tier, rng):
    yield c
  for c in gen_long(tier, rng):
    yield c
  for c in gen_reuse(tier, rng):
    yield c
  for c in gen_refused(tier, rng):
    yield c
  for c in gen_alias(tier, rng):
    yield c
  for c in gen_hubappend(tier):
    yield c
  rot = _Rot()
  # all pairs of operations on each single-source pool (quick: a seeded 30 % of them)
  for p in POOL:
    for ops in histories(2, [("s",)], COUNTS):
      if tier == "quick" and rng.random() > 0.2:
        continue
      yield finish([kinded(p, rot)], decorate(ops, rot), ["exh2", p[0]])
  if tier != "quick":   # all triples over a reduced set of counts
    for p in POOL[:3]:
      for ops in histories(3, [("s",)], COUNTS3):
        yield finish([kinded(p, rot)], decorate(ops, rot), ["exh3", p[0]])
  # sampled triples / quadruples on the same pools
  n = 1500 if tier == "quick" else 20000
  for _ in range(n):
    p, ln = rng.choice(POOL), rng.choice([3, 4])
    ops, kinds = [], [("s",)]
    for _k in range(ln):
      op = rng.choice(list(alphabet(kinds, COUNTS)))
      ops.append(op); kinds = advance(op, kinds)
    yield finish([kinded(p, rot)], decorate(ops, rot), ["sample%d" % ln, p[0]])
  # random long histories over larger pools
  n = 700 if tier == "quick" else 8000
  for _ in range(n):
    pool = []
    for _k in range(rng.randrange(1, 4)):
      if rng.random() < 0.65:
        pool.append(["fin", [rng.randrange(-9, 10) if rng.random() < 0.95 else rng.choice([2 ** 70, -2 ** 63, 10 ** 18 + 1])
                             for _j in range(rng.randrange(0, 9))]])
      else:
        pool.append(["cyc", [rng.randrange(-9, 10) for _j in range(rng.randrange(1, 5))]])
    ops, kinds = [], [("s",)] * len(pool)
    for _k in range(rng.randrange(5, 26)):
      op = random_op(rng, kinds, COUNTS)
      ops.append(op); kinds = advance(op, kinds)
    yield finish([kinded(q, rot) for q in pool], decorate(ops, rot), ["random"])


def run_hist(c):
  return {"outs": _exec(c, False)}


def lit_count(c):
  k = c[0]
  if k in ("int", "bool"): return "(CInt %s)" % L.z(c[1])   # True / False count as 1 / 0
  if k == "flt": return "(CFlt %s %d%%positive)" % (L.z(c[1]), c[2])
  return {"none": "CNone", "inf": "CInf", "ninf": "CNegInf", "nan": "CNan"}[k]


def lit_op(op):
  k = op[0]
  name = "O" + k.capitalize()
  if k == "mutate":
    return "OMutateResult %s" % L.nat(op[1])
  if k == "refused":
    return "ORefused %s" % L.string(REFUSED[op[1]])
  if k == "multi":
    args = ["MObj %s" % L.nat(a[1]) if a[0] == "obj" else "MFresh %s" % zl(a[1]) for a in op[2]]
    return "OMulti %s %s" % ("None" if op[1] < 0 else "(Some %s)" % L.nat(op[1]), L.lst(args))
  if k in ("next", "copy", "use"):
    return "%s %s" % (name, L.nat(op[1]))
  if k in COUNTED:
    return "%s %s %s" % (name, L.nat(op[1]), lit_count(op[2]))
  if k == "append":
    return "OAppend %s (%s %s)" % (L.nat(op[1]), "PFin" if op[2][0] == "fin" else "PCyc", zl(op[2][1]))
  if k == "map":
    return "OMap %s (%s %s)" % (L.nat(op[1]), {"add": "FAdd", "mul": "FMul"}[op[2][0]], L.z(op[2][1]))
  if k == "filter":
    return "OFilter %s %s" % (L.nat(op[1]), PRED_LIT[op[2][0]] or "(PGt %s)" % L.z(op[2][1]))
  if k in ("thub", "tee"):
    return "%s %s %s" % (name, L.nat(op[1]), L.nat(op[2]))
  if k == "appendobj":
    return "OAppendObj %s %s" % (L.nat(op[1]), L.nat(op[2]))
  return "%s %s %s" % ({"thubval": "OThubVal", "teeval": "OTeeVal"}[k], L.z(op[1]), L.nat(op[2]))


def zl(l):
  return L.lst([L.z(x) for x in l])


def lit_obs(o):
  if o[0] == "items": return "OItems %s" % zl(o[1])
  if o[0] == "item": return "OItem %s" % L.z(o[1])
  if o[0] == "new": return "ONew %s" % L.nat(o[1])
  if o[0] == "news": return "ONews %s %s" % (L.nat(o[1]), L.nat(o[2]))
  if o[0] == "self": return "OSelf"
  if o[0] == "diverge": return "ODiverge"
  return "ORaise %s" % L.string(o[1])


def lit_hist(c, o):
  pool = ["%s %s" % ("PFin" if p[0] == "fin" else "PCyc", zl(p[1])) for p in c["pool"]]
  return "(HC %s %s %s)" % (L.lst(pool), L.lst([lit_op(x) for x in c["ops"]]), L.lst([lit_obs(x) for x in o["outs"]]))


def nontrivial_hist(c, o):
  """two objects of one family (origin, copies, tee outputs, hub uses) are both consumed after the split"""
  root = {}
  for op, ob in zip(c["ops"], o["outs"]):
    if op[0] in ("thubval", "teeval", "mutate", "refused"):
      continue
    src = op[1]
    if op[0] == "multi" and src < 0:
      src = next((a[1] for a in op[2] if a[0] == "obj"), -1)
    r = root.get(src, src)
    if ob[0] == "new":
      root[ob[1]] = r
    elif ob[0] == "news":
      for k in range(ob[2]):
        root[ob[1] + k] = r
  fam = {}
  for op in c["ops"]:
    if op[0] in ("next", "take"):
      fam.setdefault(root.get(op[1], op[1]), set()).add(op[1])
  return any(len(v) >= 2 for v in fam.values())


IMPORTS = "From AL Require Import C03.Spec C03.Model C03.Check."
FAMILIES = {
  "hist": Family("hist", IMPORTS, "hcase", "corr_hist", "holds_hist", gen_hist, run_hist, lit_hist, nontrivial_hist),
}
