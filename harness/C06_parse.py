# -*- coding: utf-8 -*-
"""Fail-closed parser for the generator function text built by LinearFilter.__call__ when
coefficients may be Stream objects.

  def gen(seq, memory, zero[, b<i>]*[, a<j>]*):
    m1 , m2 , ... , = memory          (optional)
    d1 = d2 = ... = zero              (optional)
    for d0 in seq:
      try:                            (either these four lines ...)
        m0 = EXPR
      except StopIteration:
        return
      m0 = EXPR                       (... or this one)
      yield m0
      m<i> = m<j>                     (any number)
      d<i> = d<j>                     (any number)

  EXPR := SUM | -(SUM) | (SUM) / (NUM)
  TERM := the constant forms of C04_parse | next(b<k>) * d<k> | -next(a<k>) * m<k>

or the three-line all-zero program.  Returns a JSON-able dict, or {"error": ...}."""
import re
from C04_parse import NUM, num, ParseError, term as const_term

TERM = r"(?:-?d\d+|\(%s\) \* d\d+|-?m\d+|-\(%s\) \* m\d+|next\(b\d+\) \* d\d+|-next\(a\d+\) \* m\d+)" % (NUM, NUM)
SUM = r"%s(?: \+ %s)*" % (TERM, TERM)


def term(t):
  m = re.fullmatch(r"next\(b(\d+)\) \* d(\d+)", t)
  if m:
    if m.group(1) != m.group(2):
      raise ParseError("term %r" % t)
    return ["NextB", int(m.group(1))]
  m = re.fullmatch(r"-next\(a(\d+)\) \* m(\d+)", t)
  if m:
    if m.group(1) != m.group(2):
      raise ParseError("term %r" % t)
    return ["NextA", int(m.group(1))]
  return const_term(t)


def summ(t):
  if not re.fullmatch(SUM, t):
    raise ParseError("sum %r" % t)
  return [term(x) for x in t.split(" + ")]


def expr(t):
  if re.fullmatch(SUM, t):
    return summ(t), ["one"]
  m = re.fullmatch(r"-\((%s)\)" % SUM, t)
  if m:
    return summ(m.group(1)), ["neg"]
  m = re.fullmatch(r"\((%s)\) / \((%s)\)" % (SUM, NUM), t)
  if m:
    return summ(m.group(1)), ["div", num(m.group(2))]
  raise ParseError("expression %r" % t)


def parse_program(text):
  try:
    return _parse(text)
  except ParseError as e:
    return {"error": str(e)[:200]}


def _parse(text):
  lines = text.split("\n")
  m = re.fullmatch(r"def gen\(seq, memory, zero((?:, b\d+)*)((?:, a\d+)*)\):", lines[0]) if lines else None
  if not m:
    raise ParseError("header %r" % lines[:1])
  bargs = [int(x) for x in re.findall(r"b(\d+)", m.group(1))]
  aargs = [int(x) for x in re.findall(r"a(\d+)", m.group(2))]
  if len(lines) == 3 and lines[1] == "  for unused in seq:":
    m = re.fullmatch(r"    yield (%s)" % NUM, lines[2])
    if not m or bargs or aargs:
      raise ParseError("yield line %r" % lines[2])
    return {"zero": num(m.group(1))}
  i = 1
  mvars, dvars = [], []
  m = re.fullmatch(r"  ((?:m\d+ , )*m\d+ ,) = memory", lines[i]) if i < len(lines) else None
  if m:
    mvars = [int(x) for x in re.findall(r"m(\d+) ,", m.group(1))]
    i += 1
  m = re.fullmatch(r"  ((?:d\d+ = )+)zero", lines[i]) if i < len(lines) else None
  if m:
    dvars = [int(x) for x in re.findall(r"d(\d+) = ", m.group(1))]
    i += 1
  if i + 3 > len(lines) or lines[i] != "  for d0 in seq:":
    raise ParseError("loop header %r" % lines[i:i + 1])
  i += 1
  if lines[i] == "    try:":
    if i + 4 > len(lines) or lines[i + 2] != "    except StopIteration:" or lines[i + 3] != "      return":
      raise ParseError("try block %r" % lines[i:i + 4])
    m = re.fullmatch(r"      m0 = (.*)", lines[i + 1])
    has_try = True
    i += 4
  else:
    m = re.fullmatch(r"    m0 = (.*)", lines[i])
    has_try = False
    i += 1
  if not m:
    raise ParseError("assignment")
  terms, gain = expr(m.group(1))
  if i >= len(lines) or lines[i] != "    yield m0":
    raise ParseError("yield %r" % lines[i:i + 1])
  i += 1
  mshift, dshift = [], []
  while i < len(lines):
    m = re.fullmatch(r"    m(\d+) = m(\d+)", lines[i])
    if not m:
      break
    mshift.append([int(m.group(1)), int(m.group(2))])
    i += 1
  while i < len(lines):
    m = re.fullmatch(r"    d(\d+) = d(\d+)", lines[i])
    if not m:
      raise ParseError("line %r" % lines[i])
    dshift.append([int(m.group(1)), int(m.group(2))])
    i += 1
  return {"mvars": mvars, "dvars": dvars, "terms": terms, "gain": gain, "mshift": mshift, "dshift": dshift,
          "bargs": bargs, "aargs": aargs, "try": has_try}
