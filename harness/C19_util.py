# -*- coding: utf-8 -*-
"""C19 helper: FQ, an exact rational that IS a float for isinstance checks.

Some code paths of the library insist on ``isinstance(x, (int, float, complex))``
(TableLookup operators, ``z ** k``, ``linearize``).  FQ subclasses float only to pass
those checks; every arithmetic / comparison / conversion dunder is overridden and works
on the exact Fraction ``frac`` (plain floats and ints met on the way are absorbed
exactly, since a float is a dyadic rational).  The float payload is never used.
"""
import math, operator, builtins
from fractions import Fraction


def _fr(x):
  if isinstance(x, FQ):
    return x.frac
  if hasattr(x, "frac"):
    return x.frac
  if isinstance(x, bool):
    return Fraction(int(x))
  if isinstance(x, (int, Fraction)):
    return Fraction(x)
  if isinstance(x, float):
    if x != x or x in (float("inf"), float("-inf")):
      return None
    return Fraction(x)
  return None


class FQ(float):
  __slots__ = ("frac",)

  def __new__(cls, n=0, d=1):
    f = _fr(n) / _fr(d)
    try:
      self = float.__new__(cls, float(f))
    except OverflowError:
      self = float.__new__(cls, 0.0)
    self.frac = f
    return self

  def __repr__(self):
    return "FQ(%d,%d)" % (self.frac.numerator, self.frac.denominator)
  __str__ = __repr__

  def __format__(self, spec):
    return repr(self)

  def __hash__(self):
    return hash(self.frac)

  def __bool__(self):
    return self.frac != 0

  def _bin(self, o, f):
    b = _fr(o)
    if b is None:
      if isinstance(o, float):
        return f(float(self.frac), o)
      return NotImplemented
    return FQ(f(self.frac, b))

  def _rbin(self, o, f):
    b = _fr(o)
    if b is None:
      if isinstance(o, float):
        return f(o, float(self.frac))
      return NotImplemented
    return FQ(f(b, self.frac))

  def __add__(self, o): return self._bin(o, operator.add)
  def __radd__(self, o): return self._rbin(o, operator.add)
  def __sub__(self, o): return self._bin(o, operator.sub)
  def __rsub__(self, o): return self._rbin(o, operator.sub)
  def __mul__(self, o): return self._bin(o, operator.mul)
  def __rmul__(self, o): return self._rbin(o, operator.mul)
  def __truediv__(self, o): return self._bin(o, operator.truediv)
  def __rtruediv__(self, o): return self._rbin(o, operator.truediv)
  def __floordiv__(self, o): return self._bin(o, lambda a, b: Fraction(a // b))
  def __rfloordiv__(self, o): return self._rbin(o, lambda a, b: Fraction(a // b))
  def __mod__(self, o): return self._bin(o, operator.mod)
  def __rmod__(self, o): return self._rbin(o, operator.mod)

  def __divmod__(self, o):
    b = _fr(o)
    if b is None:
      return NotImplemented
    d, m = divmod(self.frac, b)
    return (int(d), FQ(m))

  def __pow__(self, o):
    e = _fr(o)
    if e is not None and e.denominator == 1:
      return FQ(self.frac ** int(e))
    return NotImplemented

  def __rpow__(self, o):
    b = _fr(o)
    if b is not None and self.frac.denominator == 1:
      return FQ(b ** int(self.frac))
    return NotImplemented

  def __neg__(self): return FQ(-self.frac)
  def __pos__(self): return self
  def __abs__(self): return FQ(abs(self.frac))

  def _cmp(self, o, f):
    b = _fr(o)
    if b is None:
      if isinstance(o, float):
        return f(float(self.frac), o)
      return NotImplemented
    return f(self.frac, b)

  def __eq__(self, o):
    r = self._cmp(o, operator.eq)
    return False if r is NotImplemented else r

  def __ne__(self, o):
    r = self._cmp(o, operator.ne)
    return True if r is NotImplemented else r

  def __lt__(self, o): return self._cmp(o, operator.lt)
  def __le__(self, o): return self._cmp(o, operator.le)
  def __gt__(self, o): return self._cmp(o, operator.gt)
  def __ge__(self, o): return self._cmp(o, operator.ge)

  def __int__(self): return int(self.frac)
  def __trunc__(self): return math.trunc(self.frac)
  def __floor__(self): return math.floor(self.frac)
  def __ceil__(self): return math.ceil(self.frac)
  def __round__(self, nd=None):
    return round(self.frac) if nd is None else FQ(round(self.frac, nd))
  def __float__(self): return float(self.frac)

  def is_integer(self):
    return self.frac.denominator == 1

  def as_integer_ratio(self):
    # Fraction(FQ) - hence ExactQ <op> FQ, which converts its right operand with Fraction() - stays exact
    return (self.frac.numerator, self.frac.denominator)

  def __index__(self):
    if self.frac.denominator != 1:
      raise TypeError("FQ is not integral: %r" % self)
    return int(self.frac)

  @property
  def real(self): return self
  @property
  def imag(self): return FQ(0)
  def conjugate(self): return self


builtins.FQ = FQ   # repr round-trips through the filter code generator


def frac_of(x):
  """Exact Fraction of an observed number (ExactQ, FQ, int, Fraction, finite float)."""
  f = _fr(x)
  if f is None:
    raise ValueError("not an exact finite number: %r" % (x,))
  return f
