# -*- coding: utf-8 -*-
"""C16 helpers: step-wise runners of the REAL Streamix / ControlStream for histories that also contain
object-lifetime operations (derive a stream from the object, drop the last strong reference), event data of every
kind, argument styles and number types.  The Coq model is unchanged: only Add/Next (Set/Next) reach the literal."""
import gc
import collections
import itertools
from fractions import Fraction
from vlib.exactq import ExactQ, to_frac


def fr(x):
  return [x.numerator, x.denominator]


def F(p):
  return Fraction(p[0], p[1])


def _dyadic(f):
  return f.denominator in (1, 2, 4, 8)


def mk_delta(p, kind):
  """delta as int / bool / float / Fraction / ExactQ; floats and Fractions only where the mixer's float clock stays
  exact (dyadic), otherwise ExactQ (which absorbs the float clock exactly)."""
  f = F(p)
  if kind == "bool" and f in (0, 1):
    return bool(f)
  if kind in ("int", "bool") and f.denominator == 1:
    return int(f)
  if kind == "oldfloat":    # round-1 behaviour
    return (float(f) if f.denominator != 1 else int(f)) if f.denominator in (1, 2, 4) else ExactQ(f)
  if kind in ("float", "int", "bool") and _dyadic(f):
    return float(f)
  if kind == "frac" and _dyadic(f):
    return Fraction(f)
  return ExactQ(f)


def mk_zero(kind, p):
  f = F(p)
  if kind == "int" and f.denominator == 1:
    return int(f)
  if kind == "bool" and f == 0:
    return False
  if kind == "float" and _dyadic(f):
    return float(f)
  if kind == "frac":
    return Fraction(f)
  return ExactQ(f)


class IterOnly(object):
  def __init__(self, items):
    self.items = items

  def __iter__(self):
    return iter(self.items)


def mk_item(p, kind):
  """a data item as int / bool / float / Fraction where that is exact (dyadic: float sums stay exact), else ExactQ"""
  f = F(p)
  if kind == "bool" and f in (0, 1): return bool(f)
  if kind in ("int", "bool") and f.denominator == 1: return int(f)
  if kind in ("float", "int", "bool") and _dyadic(f): return float(f)
  if kind == "frac" and _dyadic(f): return Fraction(f)
  return ExactQ(f)


def mk_event(al, kind, items):
  """event data of the requested KIND holding `items`; returns (object, container to re-check afterwards or None)."""
  if kind == "tuple": return tuple(items), None
  if kind == "gen": return (x for x in items), None
  if kind == "iter": return iter(items), None
  if kind == "deque":
    d = collections.deque(items); return d, d
  if kind == "iteronly": return IterOnly(items), None
  if kind == "stream": return al.Stream(items), None
  if kind == "thub": return al.thub(al.Stream(items), 1), None
  if kind == "smix":       # another mixer, known only to the outer one
    inner = al.Streamix(zero=0)
    inner.add(0, items)
    return inner, None
  if kind == "smixiter":
    inner = al.Streamix(zero=ExactQ(0))
    inner.add(delta=0.0, data=tuple(items))
    return iter(inner), None
  if kind == "ctlmul":     # temporary ControlStream inside an expression
    return al.Stream(items) * al.ControlStream(ExactQ(1)), None
  if kind == "ctladd":
    return al.ControlStream(ExactQ(0)) + al.Stream(items), None
  if kind in ("ctl", "ctlinf", "repeat") and items and all(to_frac(x) == to_frac(items[0]) for x in items):
    if kind == "ctl": return al.ControlStream(items[0]).limit(len(items)), None
    if kind == "ctlinf": return al.ControlStream(items[0]), None   # generator made it longer than all reads
    return itertools.repeat(items[0], len(items)), None
  lst = list(items)
  return lst, lst


def derive(al, via, obj):
  """an object through which `obj` (Streamix or ControlStream) is read from now on -> (reader, uses_next)."""
  if via == "iter": return iter(obj), True
  if via == "stream": return al.Stream(obj), False
  if via == "add0": return obj + 0, False
  if via == "radd0": return 0 + obj, False
  if via == "mul1": return obj * 1, False
  if via == "sigadd": return al.Stream(ExactQ(0)) + obj, False
  if via == "sigmul": return al.Stream(ExactQ(1)) * obj, False
  if via == "map": return obj.map(lambda x: x), False
  if via == "copy": return obj.copy(), False
  if via == "thub": return al.Stream(al.thub(obj, 1)), False
  if via == "mix":
    outer = al.Streamix(zero=0); outer.add(0, obj); return iter(outer), True
  if via == "mixkw":
    outer = al.Streamix(keep=False, zero=ExactQ(0)); outer.add(data=obj, delta=0); return outer * 1, False
  if via == "filt":        # the object is the coefficient of a (time variant) gain filter
    return (obj * al.z ** 0)(al.Stream(ExactQ(1))), False
  if via == "filtpole":    # y[n] = x[n] + c[n] y[n-1] with x = 1, 0, 0... is not the value itself: used by ctl only
    raise ValueError(via)
  raise ValueError(via)


def helper_signal(al, v):
  """the helper of the C16-r3 demo: the ControlStream is a local of a function that returns sig * ctrl."""
  ctrl = al.ControlStream(v)
  sig = al.Stream(ExactQ(1))
  return sig * ctrl


VTYPES = {"str": str, "bytes": bytes, "tuple": tuple, "list": list, "bytearray": bytearray, "float": float}


def conv_val(vk, x):
  """tokens -> value: str / bytes / tuple / list of ints; float from its hex string"""
  if vk == "str": return "".join(chr(t) for t in x)
  if vk == "bytes": return bytes(x)
  if vk == "bytearray": return bytearray(x)
  if vk == "tuple": return tuple(x)
  if vk == "list": return list(x)
  return float.fromhex(x)


def obs_val(vk, v):
  if type(v) is not VTYPES[vk]:
    raise TypeError("WrongType")
  if vk == "str": return [ord(ch) for ch in v]
  if vk == "float": return v.hex()
  return [int(t) for t in v]


class MixRunner(object):
  def __init__(self, c):
    import audiolazy
    self.al = audiolazy
    zk, zv = c["zero"]
    keep, kk = c["keep"], c.get("keepk", "kw")
    self.vk = c.get("vkind")      # round 3: str / bytes / tuple / float values instead of exact rationals
    if self.vk: kw = {"zero": conv_val(self.vk, zv)}
    else: kw = {} if zk == "default" else {"zero": mk_zero(zk, zv)}
    self.zero_obj = kw.get("zero")
    self.zero_copy = conv_val(self.vk, zv) if self.vk else None
    self.seen = []            # mutable outputs handed out so far (each sample must be a fresh object)
    if kk == "pos" and kw: self.sm = audiolazy.Streamix(keep, kw["zero"])
    elif kk == "int": self.sm = audiolazy.Streamix(int(keep), **kw)
    elif kk == "attr":
      self.sm = audiolazy.Streamix(**kw); self.sm.keep = keep
    else: self.sm = audiolazy.Streamix(keep=keep, **kw)
    self.dkind = c.get("dkind", "q")
    self.der, self.unext = None, False
    self.objs, self.watch = [], []

  def _derive(self, via):
    self.der, self.unext = derive(self.al, via, self.sm)

  def step(self, op):
    try:
      if op[0] == "derive":
        self._derive(op[1]); return None
      if op[0] == "drop":
        if self.der is None: self._derive("iter")
        self.sm = None
        if len(op) < 2 or op[1]: gc.collect(1)   # young generations: the object under test was created within this case
        return None
      if op[0] == "add":
        o = op[3] if len(op) > 3 else {}
        items = [conv_val(self.vk, x) for x in op[2]] if self.vk else [mk_item(x, o.get("ik", "q")) for x in op[2]]
        if "same" in o: data = self.objs[o["same"]]
        else:
          data, w = mk_event(self.al, o.get("ek", "list"), items)
          if w is not None: self.watch.append((w, list(items)))
        self.objs.append(data)
        d = mk_delta(op[1], o.get("dk", "oldfloat" if self.dkind == "float" else "q"))
        try:
          call = o.get("call", "pos")
          if call == "kw": self.sm.add(delta=d, data=data)
          elif call == "mixed": self.sm.add(d, data=data)
          elif call == "kwrev": self.sm.add(data=data, delta=d)
          else: self.sm.add(d, data)
          return ["added"]
        except ValueError:
          return ["rejected"]
      src = self.sm if self.der is None else self.der
      try:
        v = next(src) if (self.unext and self.der is not None) else src.take()
        if self.vk in ("list", "bytearray"):
          # a sample with nothing due may BE the zero object ("continues with the zero value"): allowed; its content
          # is compared like any other sample and the zero is re-checked at the end.  Any other sample must be fresh.
          if v is not self.zero_obj:
            if any(v is w for w in self.seen): return ["raise", "SampleIsEarlierSample"]
            self.seen.append(v)
        return ["item", obs_val(self.vk, v) if self.vk else fr(to_frac(v))]
      except StopIteration:
        return ["stop"]
    except Exception as e:
      return ["raise", type(e).__name__]

  def finish(self):
    """aliasing: containers handed to add() still hold what the caller put in"""
    if self.vk and self.vk != "float" and (type(self.zero_obj) is not type(self.zero_copy) or self.zero_obj != self.zero_copy):
      return [["raise", "ZeroMutated"]]
    for w, orig in self.watch:
      if len(w) != len(orig) or any(a is not b for a, b in zip(w, orig)):
        return [["raise", "ArgMutated"]]
    return []


class CtlRunner(object):
  def __init__(self, c):
    import audiolazy
    self.al = audiolazy
    self.c = c
    self.v0 = self.mkval(c["v0"])
    self.der, self.unext = None, False
    self.cs = None if c.get("helper") else audiolazy.ControlStream(self.v0)
    if c.get("helper") == "func": self.der = helper_signal(audiolazy, self.v0)
    elif c.get("helper") == "temp": self.der = audiolazy.Stream(ExactQ(0)) + audiolazy.ControlStream(self.v0)
    elif c.get("helper") == "tempmix":
      self.der = audiolazy.Streamix(zero=0); self.der.add(0, audiolazy.ControlStream(self.v0))

  def step(self, op):
    """returns a value for a read, None otherwise; exceptions propagate to the caller"""
    if op[0] == "set":
      self.cs.value = self.mkval(op[1]); return None
    if op[0] == "derive":
      self.der, self.unext = derive(self.al, op[1], self.cs); return None
    if op[0] == "drop":
      if self.der is None: self.der, self.unext = derive(self.al, "iter", self.cs)
      self.cs = None
      if len(op) < 2 or op[1]: gc.collect(1)   # young generations: the object under test was created within this case
      return None
    src = self.cs if self.der is None else self.der
    v = next(src) if (self.unext and self.der is not None) else src.take()
    return self.obs(v)

  def mkval(self, spec):
    return ExactQ(F(spec))

  def obs(self, v):
    return fr(to_frac(v))


OBJ_KINDS = ["nan", "inf", "ninf", "list", "emptylist", "tuple0", "tuple", "stream", "func", "type", "cstream", "dict",
             "object", "complex", "ellipsis", "notimpl", "stopiter", "stopinst", "bytes", "set"]


def mk_obj(al, kind):
  return {"nan": lambda: float("nan"), "inf": lambda: float("inf"), "ninf": lambda: -float("inf"),
          "list": lambda: [1, 2], "emptylist": lambda: [], "tuple0": lambda: (), "tuple": lambda: (0, None),
          "stream": lambda: al.Stream([1, 2, 3]), "func": lambda: (lambda: None), "type": lambda: int,
          "cstream": lambda: al.ControlStream(None), "dict": lambda: {}, "object": lambda: object(),
          "complex": lambda: complex(2, 0), "ellipsis": lambda: Ellipsis, "notimpl": lambda: NotImplemented,
          "stopiter": lambda: StopIteration, "stopinst": lambda: StopIteration("x"), "bytes": lambda: b"",
          "set": lambda: frozenset()}[kind]()


class ValRunner(CtlRunner):
  """ControlStream with values of any kind; a read is classified by identity against the case's object table, else by
  type - independently of what was assigned.  StopIteration / exceptions are observations, reading goes on."""
  def __init__(self, c):
    import audiolazy
    self.table = [mk_obj(audiolazy, k) for k in c.get("objs", [])]
    CtlRunner.__init__(self, c)

  def mkval(self, spec):
    k = spec[0]
    if k == "none": return None
    if k == "obj": return self.table[spec[1]]
    if k == "bool": return bool(spec[1])
    if k == "int": return int(spec[1])
    if k == "float": return float(F(spec[1]))
    if k == "frac": return Fraction(F(spec[1]))
    if k == "q": return ExactQ(F(spec[1]))
    if k == "str": return str(spec[1])
    raise ValueError(k)

  def obs(self, v):
    for i, o in enumerate(self.table):
      if v is o: return ["obj", i]
    if v is None: return ["none"]
    if isinstance(v, bool): return ["bool", v]
    if isinstance(v, int): return ["int", v]
    if isinstance(v, float) and v == v and abs(v) != float("inf"): return ["float", fr(Fraction(v))]
    if isinstance(v, (Fraction, ExactQ)): return ["q", fr(to_frac(v))]
    if isinstance(v, str): return ["str", v]
    return ["raise", "Unknown_" + type(v).__name__]

  def step(self, op):
    try:
      return CtlRunner.step(self, op)
    except StopIteration:
      return ["stopped"]
    except Exception as e:
      return ["raise", type(e).__name__]
