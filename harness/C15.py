# -*- coding: utf-8 -*-
"""C15 - MultiKeyDict / StrategyDict histories against Model_C15 and the stamped abstract map."""
import itertools
from vlib.framework import Family
from vlib import coqlit as L
import C15_util as U
from C15_util import NAMES, ops_universe

PID = "C15"
PROP_FILES = ["Prop"]
ALLOWED_AXIOMS = []
RULE = ("histories of set k v / set (k,k') v / del k / delattr k (StrategyDict) / REJECTED assignment of an unhashable value "
        "(list, dict, set, bytearray, object with __eq__ and no __hash__: TypeError, a MultiKeyDict must be unchanged) / "
        "read-only lookups (d[k], d[(k,)], key2keys, value2keys of stored and never stored values, in, iteration, len/keys/"
        "values/items/repr, hasattr, calling the dict, lookups with unhashable arguments) on a fresh dict or on "
        "MultiKeyDict(dict); values of one equality class are given through DIFFERENT objects (1 / 1.0 / Fraction / Decimal / "
        "complex / True, equal tuples, strings, frozensets built separately, bound methods of one object, callables with "
        "__eq__); before the first and after EVERY step the harness observes d[k] and key2keys(k) for all keys, "
        "value2keys(v) for all values and one never stored, len, keys(), iteration (and getattr / default / calling the dict "
        "for StrategyDict); a lookup must leave every observable exactly as it was. Quick: all histories of length 2 over "
        "3 keys x 2 values + seeded random longer ones for every value kind; non-trivial = at least one value owning >= 2 "
        "keys at some point and at least one deletion or overwrite of an existing key")
EXHAUSTIVE = {"quick": False, "thorough": True}
trusted_base = ["keys are modelled as naturals (ints for MultiKeyDict, attribute-safe names 'aa'..'gg' for StrategyDict; equal keys are given through different objects: 1 / 1.0 / Fraction / Decimal, separately built strings); "
                "names colliding with class attributes of StrategyDict ('default', 'strategy', dict methods) are outside the model",
                "values are modelled by their equality class (a natural); which of several equal objects is kept is not modelled"]
ASSUMPTIONS = ["CPython dict ordering semantics (insertion order, update in place)",
               "a StrategyDict assignment rejected with TypeError has already released its names (the code deletes them "
               "first); the specification states that behaviour for StrategyDict and 'unchanged' for MultiKeyDict"]

_GEN_CALLS = []   # tiers gen_dict was called with in this process: a 'thorough' call after a 'quick' one is the
                  # driver's widened search after a broken obligation and must stay bounded


def _legacy(strategy, ops, tag, nk=3, nv=2):
  return {"strategy": strategy, "nk": nk, "nv": nv, "vk": "fn" if strategy else "int", "init": [],
          "ops": list(ops), "tags": [tag, "sd" if strategy else "mkd"]}


def gen_dict(tier, rng):
  widened = tier == "thorough" and "quick" in _GEN_CALLS
  _GEN_CALLS.append(tier)
  for strategy in (False, True):
    kinds = U.SD_KINDS if strategy else U.MKD_KINDS
    Uo = ops_universe(3, 2, strategy)
    if not widened:
      for h in itertools.product(Uo, repeat=2):
        yield _legacy(strategy, h, "exh2")
    if tier == "thorough" and not widened:
      for n in (3, 4):
        for h in itertools.product(Uo, repeat=n):
          yield _legacy(strategy, h, "exh%d" % n)
    else:
      for _ in range(900 if not widened else 1000):
        yield _legacy(strategy, [rng.choice(Uo) for _ in range(rng.choice([3, 3, 4, 5, 6]))], "rand3-6")
    U2 = ops_universe(6, 4, strategy) + [["set", [rng.randrange(6) for _ in range(3)], v] for v in range(1, 5) for _ in range(10)]
    for _ in range(100 if tier == "quick" else (100 if widened else 3000)):
      yield _legacy(strategy, [rng.choice(U2) for _ in range(rng.randrange(8, 41))], "long", 6, 4)
    # round 2: value kinds, rejected assignments, lookups, constructor argument
    per = {"quick": 1400, "thorough": 20000}[tier] if not widened else 2000   # widened search: ~6 000 extra cases in all
    for i in range(per):
      kind = kinds[i % len(kinds)]
      if i % 10 == 0:
        yield U.rand_case(rng, strategy, 6, 4, kind, 8, 30, "kinds-long")
      else:
        yield U.rand_case(rng, strategy, 3, 2, kind, 2, 8, "kinds")
    if not widened:
      for kind in kinds:
        if kind not in ("int", "fn"):
          for c in U.targeted(strategy, kind):
            yield c


def _expect(op):
  """exception type an operation may raise (recorded as raised); anything else aborts the case"""
  if op[0] == "del": return (KeyError,)
  if op[0] == "delattr": return (AttributeError,)
  if op[0] == "setbad": return (TypeError,)
  if op[0] == "obs":
    if op[1] in ("get", "k2k"): return (KeyError,)
    if op[1] == "bad": return (TypeError,)
  return ()


def _observe(d, op, K, V, strategy):
  qk, arg, var = op[1], op[2], op[3]
  if qk == "get": d[K(arg)]
  elif qk == "gett":
    try: d[(K(arg),)]
    except KeyError: pass
  elif qk == "k2k": d.key2keys(K(arg))
  elif qk == "v2k": d.value2keys(V(arg, var))
  elif qk == "in": (K(arg) in d, (K(arg),) in d, d.__contains__(K(arg)))
  elif qk == "iter":
    list(d); next(iter(d), None)
    for _ in d: break
  elif qk == "misc": (len(d), list(d.keys()), list(d.values()), list(d.items()), repr(d), bool(d), d.copy(), d == d)
  elif qk == "hasattr": (hasattr(d, NAMES[arg] * 2), getattr(d, NAMES[arg] * 2, None), hasattr(d, "default"))
  elif qk == "call":
    if strategy: (d(), d.default)
    else: len(d)
  elif qk == "bad":
    bad = U.make_bad(U.BAD_KINDS[var % len(U.BAD_KINDS)])
    [lambda: d[bad], lambda: d.key2keys(bad), lambda: d.value2keys(bad)][arg % 3]()


def _view(d, c, K, unK, vals, raised):
  strategy, nk, nv = c["strategy"], c["nk"], c["nv"]
  view = {"raised": raised}
  get, k2k = [], []
  for k in range(nk):
    try: get.append(vals.cls(d[K(k)]))
    except KeyError: get.append(None)
    try: k2k.append([unK(x) for x in d.key2keys(K(k))])
    except KeyError: k2k.append(None)
  view["get"], view["k2k"] = get, k2k
  view["v2k"] = [[unK(x) for x in d.value2keys(vals.make(v, v))] for v in range(1, nv + 2)]
  view["len"] = len(d)
  view["keys"] = [[unK(x) for x in t] for t in d.keys()]
  view["iter"] = [vals.cls(x) for x in d]
  if strategy:
    view["attr"] = [vals.cls(vars(d)[K(k)]) if K(k) in vars(d) else None for k in range(nk)]
    inst = vars(d).get("default")
    called = d()
    dv = None if called is NotImplemented else called
    if (inst is None) != (dv is None) or (inst is not None and (vals.cls(inst) != dv or d.default is not inst)):
      dv = 999  # calling the dict did not call the stored default
    view["default"] = dv
  else:
    view["attr"], view["default"] = [], None
  return view


def run_dict(c):
  import audiolazy
  from audiolazy.lazy_core import MultiKeyDict, StrategyDict
  strategy, nv = c["strategy"], c["nv"]
  vals = U.Values(c["vk"], nv)
  V = vals.make
  kvar = c.get("kvar", False)   # keys too are given through equal-but-distinct objects
  if strategy:
    d = StrategyDict("verif_sd")
    K0 = lambda k: NAMES[k] * 2
    unK = lambda s: NAMES.index(s[0])
  else:
    K0 = lambda k: k
    unK = int
    d = MultiKeyDict(dict((U.key_variant(k, var, False) if kvar else k, V(v, var)) for k, v, var in c["init"])) \
        if c["init"] else MultiKeyDict()
  views = [_view(d, c, K0, unK, vals, False)]
  for i, op in enumerate(c["ops"]):
    raised = False
    K = (lambda k: U.key_variant(K0(k), i + k, strategy)) if kvar else K0
    try:
      if op[0] == "set":
        ks = [K(k) for k in op[1]]
        var = op[3] if len(op) > 3 else 0
        if len(op) > 4 and strategy:   # through the decorator factory
          keep = c["vk"] == "bound" or var % 2 == 0
          d.strategy(*ks, keep_name=keep)(V(op[2], var))
        else:
          d[tuple(ks) if len(ks) > 1 or var % 3 == 2 else ks[0]] = V(op[2], var)
      elif op[0] == "setbad":
        ks = [K(k) for k in op[1]]
        d[tuple(ks) if len(ks) > 1 else ks[0]] = U.make_bad(op[2])
      elif op[0] == "del":
        del d[K(op[1])]
      elif op[0] == "delattr":
        delattr(d, K(op[1]))
      else:
        _observe(d, op, K, V, strategy)
    except _expect(op):
      raised = True
    views.append(_view(d, c, K0, unK, vals, raised))
  return {"view0": views[0], "views": views[1:]}


def _ot(t):
  return "None" if t is None else "(Some %s)" % L.lst([str(x) for x in t])


def _ov(v):
  return "None" if v is None else "(Some %d)" % v


def _lit_view(v):
  return "VIEW %s %s %s %s %d %s %s %s %s" % (
    L.boolean(v["raised"]), L.lst([_ov(x) for x in v["get"]]), L.lst([_ot(t) for t in v["k2k"]]),
    L.lst([L.lst([str(x) for x in t]) for t in v["v2k"]]), v["len"],
    L.lst([L.lst([str(x) for x in t]) for t in v["keys"]]), L.lst([str(x) for x in v["iter"]]),
    L.lst([_ov(x) for x in v["attr"]]), _ov(v["default"]))


def _lit_op(op):
  ks = lambda l: L.lst([str(k) for k in l])
  if op[0] == "set": return "OSet %s %d" % (ks(op[1]), op[2])
  if op[0] == "setbad": return "OSetBad %s" % ks(op[1])
  if op[0] == "del": return "ODel %d" % op[1]
  if op[0] == "delattr": return "ODelAttr %d" % op[1]
  q = {"get": "(QGet %d)" % op[2], "k2k": "(QK2K %d)" % op[2], "v2k": "(QV2K %d)" % op[2], "bad": "QBad"}.get(op[1], "QPure")
  return "OObs %s" % q


def lit_dict(c, o):
  ops = [_lit_op(op) for op in c["ops"]]
  init = ["OSet [%d] %d" % (k, v) for k, v, _ in c["init"]]
  if "views" in o:
    v0, views = "(%s)" % _lit_view(o["view0"]), [_lit_view(v) for v in o["views"]]
  else:   # the implementation raised an exception no operation may raise: no view can match
    v0, views = "(VIEW true [] [] [] 0 [] [] [] None)", []
  return "(DC %s %s %s %s %s %s %s)" % (L.boolean(c["strategy"]), L.lst([str(k) for k in range(c["nk"])]),
                                       L.lst([str(v) for v in range(1, c["nv"] + 2)]), L.lst(init), v0,
                                       L.lst(ops), L.lst(views))


def nontrivial_dict(c, o):
  views = o.get("views", [])
  multi = any(any(len(t) >= 2 for t in v["v2k"]) for v in views)
  seen, overwrite = set(k for k, _, _ in c["init"]), False
  for op in c["ops"]:
    if op[0] in ("set", "setbad"):
      if any(k in seen for k in op[1]): overwrite = True
      if op[0] == "set": seen.update(op[1])
    elif op[0] in ("del", "delattr") and op[1] in seen:
      overwrite = True
  return multi and overwrite


IMPORTS = "From AL Require Import C15.Model C15.Spec C15.Check.\nOpen Scope nat_scope."
FAMILIES = {"dict": Family("dict", IMPORTS, "dcase", "corr_dict", "holds_dict", gen_dict, run_dict, lit_dict, nontrivial_dict)}
