# -*- coding: utf-8 -*-
"""C15 - MultiKeyDict / StrategyDict histories against Model_C15 and the stamped abstract map."""
import itertools
from vlib.framework import Family
from vlib import coqlit as L

PID = "C15"
PROP_FILES = ["Prop"]
ALLOWED_AXIOMS = []
RULE = ("histories of set k v / set (k,k') v / del k (/ delattr k for StrategyDict) on a fresh dict; after EVERY step the "
        "harness observes d[k] and key2keys(k) for all keys, value2keys(v) for all values, len, keys(), iteration "
        "(and getattr / default / calling the dict for StrategyDict). Quick: all histories of length 3 over 3 keys x 2 "
        "values (exhaustive) + seeded random longer ones over 6 keys x 4 values; non-trivial = at least one value owning "
        ">= 2 keys at some point and at least one deletion or overwrite of an existing key")
EXHAUSTIVE = {"quick": False, "thorough": True}
trusted_base = ["keys are modelled as naturals (ints for MultiKeyDict, attribute-safe names 'a'..'f' for StrategyDict); "
                "names colliding with class attributes of StrategyDict ('default', 'strategy', dict methods) are outside the model"]
ASSUMPTIONS = ["CPython dict ordering semantics (insertion order, update in place)"]

NAMES = "abcdef"


def ops_universe(nk, nv, strategy):
  ops = []
  for k in range(nk):
    for v in range(1, nv + 1):
      ops.append(["set", [k], v])
  for k, k2 in itertools.permutations(range(nk), 2):
    for v in range(1, nv + 1):
      ops.append(["set", [k, k2], v])
  for k in range(nk):
    ops.append(["del", k])
  if strategy:
    for k in range(nk):
      ops.append(["delattr", k])
  return ops


def gen_dict(tier, rng):
  for strategy in (False, True):
    tag = "sd" if strategy else "mkd"
    U = ops_universe(3, 2, strategy)
    for h in itertools.product(U, repeat=2):
      yield {"strategy": strategy, "nk": 3, "nv": 2, "ops": list(h), "tags": ["exh2", tag]}
    if tier == "thorough":
      for n in (3, 4):
        for h in itertools.product(U, repeat=n):
          yield {"strategy": strategy, "nk": 3, "nv": 2, "ops": list(h), "tags": ["exh%d" % n, tag]}
    else:
      for _ in range(3000):
        yield {"strategy": strategy, "nk": 3, "nv": 2, "ops": [rng.choice(U) for _ in range(rng.choice([3, 3, 4, 5, 6]))],
               "tags": ["rand3-6", tag]}
    U2 = ops_universe(6, 4, strategy) + [["set", [rng.randrange(6) for _ in range(3)], v] for v in range(1, 5) for _ in range(10)]
    for _ in range(200 if tier == "quick" else 3000):
      yield {"strategy": strategy, "nk": 6, "nv": 4, "ops": [rng.choice(U2) for _ in range(rng.randrange(8, 41))],
             "tags": ["long", tag]}


class Fn(object):
  """Strategy values: callables with identity equality, calling returns the index."""
  def __init__(self, i): self.i = i
  def __call__(self): return self.i
  def __repr__(self): return "f%d" % self.i


def run_dict(c):
  import audiolazy
  from audiolazy.lazy_core import MultiKeyDict, StrategyDict
  strategy, nk, nv = c["strategy"], c["nk"], c["nv"]
  if strategy:
    d = StrategyDict("verif_sd")
    K = lambda k: NAMES[k]
    vals = {v: Fn(v) for v in range(1, nv + 1)}
    V = lambda v: vals[v]
    unV = lambda f: f.i
  else:
    d = MultiKeyDict()
    K = lambda k: k
    V = lambda v: v
    unV = lambda v: v
  unK = (lambda s: NAMES.index(s)) if strategy else (lambda k: k)
  views = []
  for op in c["ops"]:
    raised = False
    try:
      if op[0] == "set":
        ks = [K(k) for k in op[1]]
        d[tuple(ks) if len(ks) > 1 else ks[0]] = V(op[2])
      elif op[0] == "del":
        del d[K(op[1])]
      else:
        delattr(d, K(op[1]))
    except (KeyError, AttributeError):
      raised = True
    view = {"raised": raised}
    get, k2k = [], []
    for k in range(nk):
      try: get.append(unV(d[K(k)]))
      except KeyError: get.append(None)
      try: k2k.append([unK(x) for x in d.key2keys(K(k))])
      except KeyError: k2k.append(None)
    view["get"], view["k2k"] = get, k2k
    view["v2k"] = [[unK(x) for x in d.value2keys(V(v))] for v in range(1, nv + 1)]
    view["len"] = len(d)
    view["keys"] = [[unK(x) for x in t] for t in d.keys()]
    view["iter"] = [unV(x) for x in d]
    if strategy:
      view["attr"] = [unV(getattr(d, K(k))) if hasattr(d, K(k)) else None for k in range(nk)]
      inst = vars(d).get("default")
      called = d()
      dv = None if called is NotImplemented else called
      if (inst is None) != (dv is None) or (inst is not None and unV(inst) != dv):
        dv = 999  # calling the dict did not call the stored default
      view["default"] = dv
    else:
      view["attr"], view["default"] = [], None
    views.append(view)
  return {"views": views}


def _ot(t):
  return "None" if t is None else "(Some %s)" % L.lst([str(x) for x in t])


def _ov(v):
  return "None" if v is None else "(Some %d)" % v


def lit_dict(c, o):
  ops = []
  for op in c["ops"]:
    if op[0] == "set": ops.append("OSet %s %d" % (L.lst([str(k) for k in op[1]]), op[2]))
    elif op[0] == "del": ops.append("ODel %d" % op[1])
    else: ops.append("ODelAttr %d" % op[1])
  views = []
  for v in o.get("views", []):
    views.append("VIEW %s %s %s %s %d %s %s %s %s" % (
      L.boolean(v["raised"]), L.lst([_ov(x) for x in v["get"]]), L.lst([_ot(t) for t in v["k2k"]]),
      L.lst([L.lst([str(x) for x in t]) for t in v["v2k"]]), v["len"],
      L.lst([L.lst([str(x) for x in t]) for t in v["keys"]]), L.lst([str(x) for x in v["iter"]]),
      L.lst([_ov(x) for x in v["attr"]]), _ov(v["default"])))
  return "(DC %s %s %s %s %s)" % (L.boolean(c["strategy"]), L.lst([str(k) for k in range(c["nk"])]),
                                  L.lst([str(v) for v in range(1, c["nv"] + 1)]), L.lst(ops), L.lst(views))


def nontrivial_dict(c, o):
  views = o.get("views", [])
  multi = any(any(len(t) >= 2 for t in v["v2k"]) for v in views)
  seen, overwrite = set(), False
  for op in c["ops"]:
    if op[0] == "set":
      if any(k in seen for k in op[1]): overwrite = True
      seen.update(op[1])
    elif op[1] in seen:
      overwrite = True
  return multi and overwrite


IMPORTS = "From AL Require Import C15.Model C15.Spec C15.Check.\nOpen Scope nat_scope."
FAMILIES = {"dict": Family("dict", IMPORTS, "dcase", "corr_dict", "holds_dict", gen_dict, run_dict, lit_dict, nontrivial_dict)}
