# -*- coding: utf-8 -*-
"""C15 - MultiKeyDict / StrategyDict histories against Model_C15 and the stamped abstract map."""
import itertools
from vlib.framework import Family
from vlib import coqlit as L
import C15_util as U
from C15_util import NAMES, ops_universe

PID = "C15"
PROP_FILES = ["Prop"]
ALLOWED_AXIOMS = []
RULE = ("histories of set k v / set (k,k') v / del k / delattr k / sd.default = g / del sd.default (StrategyDict) / del d[TUPLE] (empty tuple, 1-tuple, stored key tuple, any other: KeyError and nothing may change) / tuple and non-tuple keys in d[t], t in d, get, pop, key2keys / REJECTED assignment of an unhashable value "
        "(list, dict, set, bytearray, object with __eq__ and no __hash__: TypeError, a MultiKeyDict must be unchanged) / "
        "several objects in one history (fresh ones and MultiKeyDicts built from existing MultiKeyDict / StrategyDict objects in four spellings, every object observed after every step: the copy shows the source's view, afterwards each follows its own model) / "
        "read-only lookups (d[k], d[(k,)], key2keys, value2keys of stored and never stored values, in, iteration, len/keys/"
        "values/items/repr, hasattr, calling the dict, lookups with unhashable arguments) on a fresh dict or on "
        "MultiKeyDict(dict); values of one equality class are given through DIFFERENT objects (1 / 1.0 / Fraction / Decimal / "
        "complex / True, equal tuples, strings, frozensets built separately, bound methods of one object, callables with "
        "__eq__); before the first and after EVERY step the harness observes d[k] and key2keys(k) for all keys, "
        "value2keys(v) for all values and one never stored, len, keys(), iteration (and getattr / default / calling the dict "
        "for StrategyDict); a lookup must leave every observable exactly as it was. Quick: all histories of length 2 over "
        "3 keys x 2 values + seeded random longer ones for every value kind; non-trivial = at least one value owning >= 2 "
        "keys at some point and at least one deletion or overwrite of an existing key")
EXHAUSTIVE = {"quick": False, "thorough": True}
trusted_base = ["keys are modelled as naturals (ints, strings or - for StrategyDict and for objects built from one - names; equal keys "
                "are given through different objects: 1 / 1.0 / Fraction / Decimal / True, separately built strings)",
                "StrategyDict names include names spelled like class attributes (copy, get, pop, update, clear, items, strategy, "
                "value2keys ...) and dunder-like names (__len__, __iter__, __call__, __getitem__, __eq__ ...): on the unchanged code "
                "the instance attribute shadows the class attribute and getattr(sd, name) IS the item. Left out, because the "
                "unchanged code itself stops working once such a name is registered (FINDINGS below): values, keys, key2keys, "
                "default, _keys_dict, _inv_dict, __name__, __doc__, __class__, __dict__",
                "values are modelled by their equality class (a natural); which of several equal objects is kept is not modelled",
                "copy.copy / copy.deepcopy / pickle of a non-empty MultiKeyDict raise KeyError on the unchanged code (the reduce "
                "protocol restores _keys_dict before the items are assigned); the property text does not mention them and the "
                "generators build copies only with MultiKeyDict(other) / MultiKeyDict(dict(other)) / MultiKeyDict(other.copy()) / "
                "MultiKeyDict(list(other.items()))"]
ASSUMPTIONS = ["CPython dict ordering semantics (insertion order, update in place)",
               "a StrategyDict assignment rejected with TypeError has already released its names (the code deletes them "
               "first); the specification states that behaviour for StrategyDict and 'unchanged' for MultiKeyDict"]
FINDINGS = ["StrategyDict names that break the UNCHANGED code (not generated): 'values' (StrategyDict.__iter__ calls self.values()), "
            "'keys' (dict(sd) / MultiKeyDict(sd) call sd.keys()), 'key2keys' (del sd[name] calls self.key2keys), 'default' (the "
            "name is the default slot itself), '_keys_dict' / '_inv_dict' / '__name__' (instance attributes overwritten by setattr), "
            "'__doc__' / '__class__' / '__dict__' (setattr raises AFTER the item was stored: item without attribute)",
            "copy.copy(mkd) / copy.deepcopy(mkd) raise KeyError for a non-empty MultiKeyDict",
            "dict.pop / popitem / clear / update / setdefault are not overridden by MultiKeyDict: d.pop(stored key tuple) "
            "removes the storage entry only (len 0, iteration still yields the value, d[k] raises KeyError(tuple)); the "
            "property text speaks of assignments, deletions and lookups, so only REFUSED pops are generated"]

_GEN_CALLS = []   # tiers gen_dict was called with in this process: a 'thorough' call after a 'quick' one is the
                  # driver's widened search after a broken obligation and must stay bounded


def _legacy(strategy, ops, tag, nk=3, nv=2):
  return {"strategy": strategy, "nk": nk, "nv": nv, "vk": "fn" if strategy else "int", "init": [],
          "ops": list(ops), "tags": [tag, "sd" if strategy else "mkd"]}


def gen_dict(tier, rng):
  widened = tier == "thorough" and "quick" in _GEN_CALLS
  _GEN_CALLS.append(tier)
  for strategy in (False, True):
    kinds = U.SD_KINDS if strategy else U.MKD_KINDS
    Uo = ops_universe(3, 2, strategy)
    if not widened:
      for h in itertools.product(Uo, repeat=2):
        yield _legacy(strategy, h, "exh2")
    if tier == "thorough" and not widened:
      for n in (3, 4):   # length 4 without the (always refused) tuple deletions: 21^4 + 24^4 histories
        for h in itertools.product(Uo if n == 3 else ops_universe(3, 2, strategy, False), repeat=n):
          yield _legacy(strategy, h, "exh%d" % n)
    else:
      for _ in range(600 if not widened else 1000):
        yield _legacy(strategy, [rng.choice(Uo) for _ in range(rng.choice([3, 3, 4, 5, 6]))], "rand3-6")
    U2 = ops_universe(6, 4, strategy) + [["set", [rng.randrange(6) for _ in range(3)], v] for v in range(1, 5) for _ in range(10)]
    for _ in range(100 if tier == "quick" else (100 if widened else 3000)):
      yield _legacy(strategy, [rng.choice(U2) for _ in range(rng.randrange(8, 41))], "long", 6, 4)
    # far longer than anything else here: 150-250 operations over 12 (7 names) keys x 6 values
    if not widened:
      nkh = 7 if strategy else 12
      U3 = ops_universe(nkh, 6, strategy)
      for _ in range(3 if tier == "quick" else 30):
        yield _legacy(strategy, [rng.choice(U3) for _ in range(rng.randrange(150, 251))], "huge", nkh, 6)
    # round 2: value kinds, rejected assignments, lookups, constructor argument
    per = {"quick": 900, "thorough": 20000}[tier] if not widened else 2000   # widened search: ~6 000 extra cases in all
    for i in range(per):
      kind = kinds[i % len(kinds)]
      if i % 10 == 0:
        yield U.rand_case(rng, strategy, 6, 4, kind, 8, 30, "kinds-long")
      else:
        yield U.rand_case(rng, strategy, 3, 2, kind, 2, 8, "kinds")
    if not widened:
      for kind in kinds:
        if kind not in ("int", "fn"):
          for c in U.targeted(strategy, kind):
            yield c


def _expect(op):
  """exception type an operation may raise (recorded as raised); anything else aborts the case"""
  if op[0] in ("del", "delt"): return (KeyError,)
  if op[0] in ("delattr", "deldef"): return (AttributeError,)
  if op[0] == "setbad": return (TypeError,)
  if op[0] == "obs":
    if op[1] in ("get", "k2k", "tup", "no"): return (KeyError,)
    if op[1] == "bad": return (TypeError,)
  return ()


def _observe(d, op, K, V, strategy, names):
  from audiolazy.lazy_core import MultiKeyDict, StrategyDict
  qk, arg, var = op[1], op[2], op[3]
  if qk == "get": d[K(arg)]
  elif qk == "gett":
    try: d[(K(arg),)]
    except KeyError: pass
  elif qk == "k2k": MultiKeyDict.key2keys(d, K(arg))
  elif qk == "v2k": MultiKeyDict.value2keys(d, V(arg, var))
  elif qk == "in": (K(arg) in d, (K(arg),) in d, dict.__contains__(d, K(arg)))
  elif qk == "iter":
    list(d); next(iter(d), None)
    for _ in d: break
  elif qk == "misc":
    try: getattr(d, "__doc__")     # StrategyDict: generated from the current strategies at every read
    except Exception: pass
    (len(d), list(dict.keys(d)), list(dict.values(d)), list(dict.items(d)), repr(d), bool(d), dict.copy(d), d == d)
  elif qk == "hasattr": (hasattr(d, names[arg]), getattr(d, names[arg], None), hasattr(d, "default"))
  elif qk == "call":
    if strategy: (d(), d.default)
    else: len(d)
  elif qk == "tup":
    # a tuple as the key of a lookup: subscription, membership and get must agree; "not found" is the step's flag
    t = tuple(K(k) for k in arg)
    S = object()
    try: r1 = d[t]
    except KeyError: r1 = S
    r2, r3 = t in d, dict.get(d, t, S)
    if not ((r1 is S) == (not r2) == (r3 is S)) or (r1 is not S and r1 is not r3):
      raise RuntimeError("tuple lookups disagree")
    if r1 is S:
      raise KeyError(t)
  elif qk == "no":
    # lookups that can never find anything; the refused pop must not touch the dict either
    k = K(arg); S = object()
    probes = [k, (), (k, k)]
    for t in ((), (k,), (k, k)):   # a tuple is never a key of key2keys either
      try: MultiKeyDict.key2keys(d, t); raise RuntimeError("key2keys found a tuple")
      except KeyError: pass
    found = [k in d, dict.get(d, k, S) is not S, dict.pop(d, k, S) is not S, dict.pop(d, (), S) is not S, dict.pop(d, (k, k), S) is not S]
    for p in probes:
      try: dict.pop(d, p); found.append(True)
      except KeyError: pass
    if any(found):
      raise RuntimeError("a lookup that cannot succeed found something: %r" % found)
    raise KeyError(k)
  elif qk == "bad":
    bad = U.make_bad(U.BAD_KINDS[var % len(U.BAD_KINDS)])
    [lambda: d[bad], lambda: MultiKeyDict.key2keys(d, bad), lambda: MultiKeyDict.value2keys(d, bad)][arg % 3]()


def _view(d, strategy, nk, nv, K, unK, vals, raised):
  """every observable of one object; class-level calls, so that a strategy NAMED like a method cannot hide it"""
  from audiolazy.lazy_core import MultiKeyDict
  view = {"raised": raised}
  get, k2k = [], []
  for k in range(nk):
    try: get.append(vals.cls(d[K(k)]))
    except KeyError: get.append(None)
    try: k2k.append([unK(x) for x in MultiKeyDict.key2keys(d, K(k))])
    except KeyError: k2k.append(None)
  view["get"], view["k2k"] = get, k2k
  view["v2k"] = [[unK(x) for x in MultiKeyDict.value2keys(d, vals.make(v, v))] for v in range(1, nv + 2)]
  view["len"] = len(d)
  view["keys"] = [[unK(x) for x in t] for t in dict.keys(d)]
  view["iter"] = [vals.cls(x) for x in d]
  if strategy:
    # the property: every name is exposed as an attribute equal to the item (getattr, not only vars)
    attr = []
    for k in range(nk):
      if K(k) in vars(d):
        x = getattr(d, K(k))
        attr.append(vals.cls(x) if x is vars(d)[K(k)] else 998)
      else:
        attr.append(None)
    view["attr"] = attr
    inst = vars(d).get("default")
    called = d()
    dv = None if called is NotImplemented else called
    if (inst is None) != (dv is None) or (inst is not None and (vals.cls(inst) != dv or d.default is not inst)):
      dv = 999  # calling the dict did not call the stored default
    view["default"] = dv
  else:
    view["attr"], view["default"] = [], None
  return view


def _apply(d, strategy, op, K, V, vk, names):
  """one operation on one object; returns True when it raised the exception it may raise"""
  from audiolazy.lazy_core import StrategyDict
  try:
    if op[0] == "set":
      ks = [K(k) for k in op[1]]
      var = op[3] if len(op) > 3 else 0
      if len(op) > 4 and strategy:   # through the decorator factory
        keep = vk == "bound" or var % 2 == 0
        StrategyDict.strategy(d, *ks, keep_name=keep)(V(op[2], var))
      else:
        d[tuple(ks) if len(ks) > 1 or var % 3 == 2 else ks[0]] = V(op[2], var)
    elif op[0] == "setbad":
      ks = [K(k) for k in op[1]]
      d[tuple(ks) if len(ks) > 1 else ks[0]] = U.make_bad(op[2])
    elif op[0] == "del":
      del d[K(op[1])]
    elif op[0] == "delattr":
      delattr(d, K(op[1]))
    elif op[0] == "delt":      # a TUPLE as the key of a deletion: empty, 1-tuple, stored key tuple, any other
      del d[tuple(K(k) for k in op[1])]
    elif op[0] == "setdef":
      d.default = V(op[1], op[2])
    elif op[0] == "deldef":
      del d.default
    else:
      _observe(d, op, K, V, strategy, names)
  except _expect(op):
    return True
  return False


def _keyfuns(c, strategy_names):
  """K0(k): the k-th key; unK: back to the index.  Names (strings) when the case holds a StrategyDict."""
  if strategy_names:
    names = c.get("names") or [n * 2 for n in NAMES]
    return names, (lambda k: names[k]), (lambda s: names.index(s))
  if c.get("keys") == "str":
    names = ["k%d" % i for i in range(8)]
    return names, (lambda k: names[k]), (lambda s: names.index(s))
  return [n * 2 for n in NAMES], (lambda k: k), int


def run_dict(c):
  import audiolazy
  from audiolazy.lazy_core import MultiKeyDict, StrategyDict
  strategy, nk, nv = c["strategy"], c["nk"], c["nv"]
  vals = U.Values(c["vk"], nv)
  V = vals.make
  kvar = c.get("kvar", False)   # keys too are given through equal-but-distinct objects
  names, K0, unK = _keyfuns(c, strategy)
  isnum = not strategy and c.get("keys") != "str"
  if strategy:
    d = StrategyDict("verif_sd")
  else:
    d = MultiKeyDict(dict((U.key_variant(K0(k), var, not isnum) if kvar else K0(k), V(v, var)) for k, v, var in c["init"])) \
        if c["init"] else MultiKeyDict()
  views = [_view(d, strategy, nk, nv, K0, unK, vals, False)]
  for i, op in enumerate(c["ops"]):
    K = (lambda k: U.key_variant(K0(k), i + k, not isnum)) if kvar else K0
    raised = _apply(d, strategy, op, K, V, c["vk"], names)
    views.append(_view(d, strategy, nk, nv, K0, unK, vals, raised))
  return {"view0": views[0], "views": views[1:]}


def run_multi(c):
  import audiolazy
  from audiolazy.lazy_core import MultiKeyDict, StrategyDict
  nk, nv = c["nk"], c["nv"]
  vals = U.Values(c["vk"], nv)
  V = vals.make
  kvar = c.get("kvar", False)
  names, K0, unK = _keyfuns(c, c["keys"] == "names")
  isnum = c["keys"] == "ints"
  objs, kinds, steps = [], [], []
  for i, m in enumerate(c["ops"]):
    raised = False
    K = (lambda k: U.key_variant(K0(k), i + k, not isnum)) if kvar else K0
    if m[0] == "new":
      objs.append(StrategyDict("verif_sd%d" % i) if m[1] else MultiKeyDict()); kinds.append(bool(m[1]))
    elif m[0] == "cast":
      src = objs[m[1]]
      how = m[2] % 4
      arg = [src, dict(src), dict.copy(src), list(dict.items(src))][how] if how else src
      objs.append(MultiKeyDict(arg)); kinds.append(False)
    else:
      raised = _apply(objs[m[1]], kinds[m[1]], m[2], K, V, c["vk"], names)
    steps.append({"raised": raised, "views": [_view(d, st, nk, nv, K0, unK, vals, False) for d, st in zip(objs, kinds)]})
  return {"steps": steps}


def _ot(t):
  return "None" if t is None else "(Some %s)" % L.lst([str(x) for x in t])


def _ov(v):
  return "None" if v is None else "(Some %d)" % v


def _lit_view(v):
  return "VIEW %s %s %s %s %d %s %s %s %s" % (
    L.boolean(v["raised"]), L.lst([_ov(x) for x in v["get"]]), L.lst([_ot(t) for t in v["k2k"]]),
    L.lst([L.lst([str(x) for x in t]) for t in v["v2k"]]), v["len"],
    L.lst([L.lst([str(x) for x in t]) for t in v["keys"]]), L.lst([str(x) for x in v["iter"]]),
    L.lst([_ov(x) for x in v["attr"]]), _ov(v["default"]))


def _lit_op(op):
  ks = lambda l: L.lst([str(k) for k in l])
  if op[0] == "set": return "OSet %s %d" % (ks(op[1]), op[2])
  if op[0] == "setbad": return "OSetBad %s" % ks(op[1])
  if op[0] == "del": return "ODel %d" % op[1]
  if op[0] == "delattr": return "ODelAttr %d" % op[1]
  if op[0] == "delt": return "ODelT %s" % ks(op[1])
  if op[0] == "setdef": return "OSetDefault %d" % op[1]
  if op[0] == "deldef": return "ODelDefault"
  if op[1] == "tup": q = "(QTup %s)" % ks(op[2])
  elif op[1] in ("get", "k2k", "v2k"): q = "(Q%s %d)" % ({"get": "Get", "k2k": "K2K", "v2k": "V2K"}[op[1]], op[2])
  else: q = {"bad": "QBad", "no": "QNo"}.get(op[1], "QPure")
  return "OObs %s" % q


def lit_dict(c, o):
  ops = [_lit_op(op) for op in c["ops"]]
  init = ["OSet [%d] %d" % (k, v) for k, v, _ in c["init"]]
  if "views" in o:
    v0, views = "(%s)" % _lit_view(o["view0"]), [_lit_view(v) for v in o["views"]]
  else:   # the implementation raised an exception no operation may raise: no view can match
    v0, views = "(VIEW true [] [] [] 0 [] [] [] None)", []
  return "(DC %s %s %s %s %s %s %s)" % (L.boolean(c["strategy"]), L.lst([str(k) for k in range(c["nk"])]),
                                       L.lst([str(v) for v in range(1, c["nv"] + 2)]), L.lst(init), v0,
                                       L.lst(ops), L.lst(views))


def nontrivial_dict(c, o):
  views = o.get("views", [])
  multi = any(any(len(t) >= 2 for t in v["v2k"]) for v in views)
  seen, overwrite = set(k for k, _, _ in c["init"]), False
  for op in c["ops"]:
    if op[0] in ("set", "setbad"):
      if any(k in seen for k in op[1]): overwrite = True
      if op[0] == "set": seen.update(op[1])
    elif op[0] == "delt":
      pass
    elif op[0] in ("del", "delattr") and op[1] in seen:
      overwrite = True
  return multi and overwrite


def lit_multi(c, o):
  ms = []
  for m in c["ops"]:
    if m[0] == "new": ms.append("MNew %s" % L.boolean(m[1]))
    elif m[0] == "cast": ms.append("MCast %d" % m[1])
    else: ms.append("MOn %d (%s)" % (m[1], _lit_op(m[2])))
  steps = ["(%s, %s)" % (L.boolean(st["raised"]), L.lst([_lit_view(v) for v in st["views"]])) for st in o.get("steps", [])]
  return "(HC %s %s %s %s)" % (L.lst([str(k) for k in range(c["nk"])]), L.lst([str(v) for v in range(1, c["nv"] + 2)]),
                              L.lst(ms), L.lst(steps))


def gen_multi(tier, rng):
  widened = tier == "thorough" and "quick" in _GEN_CALLS_M
  _GEN_CALLS_M.append(tier)
  n = 1500 if widened else {"quick": 800, "thorough": 15000}[tier]
  for i in range(n):
    if i % 8 == 0:
      yield U.rand_multi(rng, 5, 3, 10, 24, "multi-long")
    else:
      yield U.rand_multi(rng, 3, 2, 3, 10, "multi")


def nontrivial_multi(c, o):
  """a MultiKeyDict built from a non-empty object, and an update of source or copy afterwards"""
  seen_cast = False
  for m, st in zip(c["ops"], o.get("steps", [])):
    if m[0] == "cast" and st["views"][m[1]]["len"] > 0:
      seen_cast = True
    elif seen_cast and m[0] == "on" and m[2][0] in ("set", "del", "delattr"):
      return True
  return False


_GEN_CALLS_M = []
IMPORTS = "From AL Require Import C15.Model C15.Spec C15.Check.\nOpen Scope nat_scope."
FAMILIES = {"dict": Family("dict", IMPORTS, "dcase", "corr_dict", "holds_dict", gen_dict, run_dict, lit_dict, nontrivial_dict),
            "multi": Family("multi", IMPORTS, "hcase", "corr_multi", "holds_multi", gen_multi, run_multi, lit_multi, nontrivial_multi)}
