# -*- coding: utf-8 -*-
"""C19 - signal generators (lazy_synth.py) and resample (lazy_poly.py) against Model/Spec of coq/theories/C19."""
import itertools, math
from fractions import Fraction
from vlib.framework import Family
from vlib import coqlit as L
from vlib.exactq import ExactQ
from C19_util import FQ, frac_of
import C19_hist
import C19_float

PID = "C19"
PROP_FILES = ["Prop", "PropR", "PropTies"]
EXTRA_COQ_DIRS = ["C04", "C07"]    # PropTies.v: karplus_strong = C04's filter model, resample's Lagrange = C07's
# Prop.v (and all it imports) is axiom-free: enforced syntactically by extra() below.  PropR.v (sinusoid over
# the reals) uses Coq's Reals: exactly the four classical axioms below.
ALLOWED_AXIOMS = [r"ClassicalDedekindReals\.sig_forall_dec$", r"ClassicalDedekindReals\.sig_not_dec$",
                  r"Classical_Prop\.classic$", r"FunctionalExtensionality\.functional_extensionality_dep$"]
RULE = ("modulo_counter: all 8 numbers-vs-streams combinations x a rational grid of (start, modulo, step) with "
        "modulo/step in {<1, 1, 2, 5, non-integers}, negative / zero steps and steps that are multiples of the modulo, "
        "constant and varying streams of unequal length, 40 pulls (the batched path re-bases several times), zero and "
        "negative moduli; durations of every class (integer, x.5, x.49, 0, negative, +-inf, None) for line / fades / ones / "
        "zeros / impulse / noise / adsr / attack; tables of size 0..8 with rational frequencies, getitem, operators, "
        "normalize, harmonize; resample ratios {1/3,1/2,1,3/2,2,7/3,...} x orders 0..4(6) x short and long inputs and "
        "step streams; sinusoid through a patched sin (argument observed); karplus_strong with e**x and the random "
        "memory as recorded oracles.  Everything is run in exact arithmetic (ExactQ / FQ); non-trivial = at least 3 "
        "outputs and not an error case")
EXHAUSTIVE = {"quick": False, "thorough": False}
trusted_base = [
  "numbers are exact rationals: ExactQ (and FQ, a float subclass with exact arithmetic, where the library insists on "
  "isinstance(x, float)) absorb the library's float constants (.5, 1., 2*pi) exactly",
  "TableLookup cycles are given as exact rationals, so len/(cycles*2*pi) is computed without float rounding",
  "math.sin is replaced by a recorder (the property is checked on the argument handed to sin); random.uniform / "
  "random.gauss / e**x are replaced by recorded oracles",
]
ASSUMPTIONS = ["CPython generator / itertools.islice / deque(maxlen) semantics as documented",
               "Fraction arithmetic (%, //, int, ceil) of the standard library is exact"]

TWO_PI = Fraction(2 * math.pi)


def fr(x):
  x = Fraction(x)
  return [x.numerator, x.denominator]


def F(p):
  return Fraction(p[0], p[1])


def q(p):
  return "(qc (%d) %d)" % (p[0], p[1])


def qlist(l):
  return L.lst([q(x) for x in l])


def arg_lit(a):
  return "(Num %s)" % q(a["num"]) if "num" in a else "(Str %s)" % qlist(a["str"])


def end_lit(o):
  e = o["end"]
  if e == "stop": return "EStop"
  if e == "more": return "EMore"
  return "(ERaise %s)" % L.string(e)


def dur_lit(d):
  if isinstance(d, dict): return "(DFin %s)" % q(d["fin"])
  return {"pinf": "DPInf", "ninf": "DNInf", "none": "DNone"}[d]


def observe(make, k):
  """k pulls (itertools.islice(gen, k)); exceptions of the call itself count as raised on the first pull."""
  outs = []
  try:
    it = iter(make())
    for _ in range(k):
      outs.append(fr(frac_of(next(it))))
    return {"outs": outs, "end": "more"}
  except StopIteration:
    return {"outs": outs, "end": "stop"}
  except Exception as e:
    return {"outs": outs, "end": type(e).__name__}


def num(p, kind="q"):
  f = F(p)
  if kind == "fq": return FQ(f)
  if kind == "float" and f.denominator in (1, 2, 4, 8) and abs(f) < 4096:
    return float(f)
  if kind == "int" and f.denominator == 1:
    return int(f)
  return ExactQ(f)


def mk_arg(a, kind="q", stream=False):
  if "num" in a:
    return num(a["num"], kind)
  l = [num(x, kind) for x in a["str"]]
  if stream:
    import audiolazy
    return audiolazy.Stream(l)
  return l


# ====================================================================== modulo_counter
STARTS = [Fraction(0), Fraction(1, 3), Fraction(-7, 2), Fraction(5), Fraction(41, 4)]
MODS = [Fraction(1), Fraction(5, 2), Fraction(7), Fraction(1, 3), Fraction(256)]
RATIOS = [Fraction(1, 2), Fraction(3, 4), Fraction(1), Fraction(2), Fraction(5), Fraction(5, 2), Fraction(199, 100),
          Fraction(13, 3), Fraction(40), Fraction(3, 2), Fraction(2, 1) + Fraction(1, 1000)]


def steps_for(m):
  res = [m / r for r in RATIOS]                 # modulo/step = r  (steps = int(r))
  res += [-m / r for r in (Fraction(1, 2), Fraction(2), Fraction(5), Fraction(7, 3))]
  res += [Fraction(0), 2 * m, -3 * m, m, -m, 7 * m + Fraction(1, 5)]
  return res


def _mkkind(val, kind, n, rng, vary):
  if kind == "n":
    return {"num": fr(val)}
  if not vary:
    return {"str": [fr(val)] * n}
  return {"str": [fr(val + Fraction(rng.randrange(-6, 7), rng.choice([1, 2, 3, 4]))) for _ in range(n)]}


def gen_mc(tier, rng):
  combos = list(itertools.product("sn", repeat=3))
  grid = [(p, m, s) for p in STARTS for m in MODS for s in steps_for(m)]
  per = 1 if tier == "quick" else 6
  for (ks, km, kst) in combos:
    tagc = "kinds=" + ks + km + kst
    sel = grid if tier == "thorough" else rng.sample(grid, 60)
    for (p, m, s) in sel:
      for rep in range(per if tier == "thorough" else 1):
        vary = rep > 0 or rng.random() < 0.35
        k = 40 if rng.random() < 0.8 else rng.randrange(0, 30)
        lens = [rng.choice([40, 45, 60, 25, 12]) for _ in range(3)]
        a = _mkkind(p, ks, lens[0], rng, vary)
        b = _mkkind(m, km, lens[1], rng, False)
        if km == "s" and vary:
          b = {"str": [fr(rng.choice(MODS + [m, m, m])) for _ in range(lens[1])]}
        c = _mkkind(s, kst, lens[2], rng, vary and rng.random() < 0.7)
        r = m / s if s != 0 else None
        tags = [tagc, "vary" if vary else "const",
                "step<0" if s < 0 else ("step=0" if s == 0 else "step>0"),
                "steps=" + ("na" if r is None else str(min(int(r), 6)))]
        yield {"start": a, "modulo": b, "step": c, "k": k, "nk": rng.choice(["q", "q", "q", "fq"]), "tags": tags}
  # edge stream: zero / negative moduli, zeros inside a modulo stream, empty streams, dyadic floats and ints
  n_edge = 120 if tier == "quick" else 1500
  for _ in range(n_edge):
    ks, km, kst = rng.choice(combos)
    p = rng.choice(STARTS); s = rng.choice([Fraction(1), Fraction(-1, 2), Fraction(0), Fraction(3, 4), Fraction(9, 4)])
    m = rng.choice([Fraction(0), Fraction(-5, 2), Fraction(-1), Fraction(3), Fraction(-7, 3)])
    ln = rng.choice([0, 1, 2, 7, 40])
    a = _mkkind(p, ks, ln if rng.random() < 0.3 else 40, rng, rng.random() < 0.5)
    b = _mkkind(m, km, 40, rng, False)
    if km == "s" and rng.random() < 0.7:
      b = {"str": [fr(rng.choice([Fraction(3), Fraction(5, 2), Fraction(-2), Fraction(0) if rng.random() < 0.15 else Fraction(4)]))
                   for _ in range(rng.choice([5, 20, 40]))]}
    c = _mkkind(s, kst, rng.choice([3, 40]), rng, rng.random() < 0.5)
    yield {"start": a, "modulo": b, "step": c, "k": rng.choice([40, 40, 10, 1, 0]), "nk": "q",
           "tags": ["edge", "kinds=" + ks + km + kst, "mod<=0" if m <= 0 else "mod>0"]}
  for _ in range(60 if tier == "quick" else 600):
    # machine floats / ints, dyadic values only (float arithmetic is exact on them)
    ks, km, kst = rng.choice(combos)
    p = Fraction(rng.randrange(-40, 80), 8); m = Fraction(rng.randrange(1, 64), rng.choice([1, 2, 4]))
    s = Fraction(rng.randrange(-64, 64), 8)
    yield {"start": _mkkind(p, ks, 40, rng, False), "modulo": _mkkind(m, km, 40, rng, False),
           "step": _mkkind(s, kst, 40, rng, False), "k": 40, "nk": "float", "tags": ["float-dyadic", "kinds=" + ks + km + kst]}


def run_mc(c):
  import audiolazy
  a, b, s = (mk_arg(c[x], c["nk"]) for x in ("start", "modulo", "step"))
  return observe(lambda: audiolazy.modulo_counter(a, b, s), c["k"])


def lit_mc(c, o):
  return "(MCC %s %s %s %s %s %s)" % (arg_lit(c["start"]), arg_lit(c["modulo"]), arg_lit(c["step"]), L.nat(c["k"]),
                                      qlist(o["outs"]), end_lit(o))


def nontrivial(c, o):
  return len(o.get("outs", [])) >= 3 and o["end"] in ("stop", "more")


# ====================================================================== durations / envelopes
def dur_classes(rng, n_extra):
  ds = [Fraction(0), Fraction(1), Fraction(2), Fraction(7), Fraction(1, 2), Fraction(5, 2), Fraction(13, 2),
        Fraction(249, 100), Fraction(49, 100), Fraction(51, 100), Fraction(3, 4), Fraction(1, 4), Fraction(-1),
        Fraction(-1, 2), Fraction(-5, 2), Fraction(-49, 100), Fraction(12), Fraction(33, 4), Fraction(10) + Fraction(1, 3)]
  for _ in range(n_extra):
    ds.append(Fraction(rng.randrange(-4, 60), rng.choice([1, 2, 2, 3, 4, 100])))
  return ds


def dclass(d):
  if not isinstance(d, dict): return "dur=" + d
  f = F(d["fin"])
  if f < 0: return "dur<0"
  if f == 0: return "dur=0"
  if f.denominator == 1: return "dur=int"
  if f.denominator == 2: return "dur=x.5"
  return "dur=frac"


def gen_dur(tier, rng):
  ds = dur_classes(rng, 6 if tier == "quick" else 60)
  inf_ds = ["pinf", "ninf", "none"]
  vals = [(Fraction(0), Fraction(1)), (Fraction(1, 3), Fraction(-5, 2)), (Fraction(-2), Fraction(-2)), (Fraction(7, 4), Fraction(9))]
  def mk(call, k=None, us=None, extra=()):
    d = call.get("d")
    return {"call": call, "k": 30 if k is None else k, "us": us or [], "nk": rng.choice(["q", "q", "fq"]),
            "tags": [call["f"]] + ([dclass(d)] if d is not None else []) + list(extra)}
  for d in ds:
    dd = {"fin": fr(d)}
    for (b, e) in (vals if tier == "thorough" else vals[:2]):
      for fin in (False, True):
        yield mk({"f": "line", "d": dd, "b": fr(b), "e": fr(e), "fin": fin})
    yield mk({"f": "fadein", "d": dd}); yield mk({"f": "fadeout", "d": dd})
    yield mk({"f": "ones", "d": dd}); yield mk({"f": "zeros", "d": dd})
    yield mk({"f": "ones", "d": dd}, k=rng.randrange(0, 9))
    yield mk({"f": "impulse", "d": dd, "one": fr(1), "zero": fr(0)})
    yield mk({"f": "impulse", "d": dd, "one": fr(Fraction(5, 3)), "zero": fr(Fraction(-1, 7))}, k=rng.choice([30, 1, 2, 0]))
    us = [fr(Fraction(rng.randrange(0, 1001), 1000)) for _ in range(30)]
    lo, hi = rng.choice([(Fraction(-1), Fraction(1)), (Fraction(1, 3), Fraction(5, 2)), (Fraction(-7), Fraction(-2))])
    yield mk({"f": "white", "d": dd, "lo": fr(lo), "hi": fr(hi)}, us=us)
    yield mk({"f": "gauss", "d": dd, "lo": fr(lo), "hi": fr(hi)}, us=[fr(Fraction(rng.randrange(-3000, 3001), 1000)) for _ in range(30)])
  for d in inf_ds:
    yield mk({"f": "line", "d": d, "b": fr(0), "e": fr(1), "fin": False}) if d != "none" else mk({"f": "ones", "d": d})
    for f in ("ones", "zeros"):
      yield mk({"f": f, "d": d}, k=rng.choice([5, 17]))
    yield mk({"f": "impulse", "d": d, "one": fr(2), "zero": fr(Fraction(1, 9))}, k=9)
    us = [fr(Fraction(rng.randrange(0, 1001), 1000)) for _ in range(12)]
    if d != "ninf":
      yield mk({"f": "white", "d": d, "lo": fr(-1), "hi": fr(1)}, k=12, us=us)
      yield mk({"f": "gauss", "d": d, "lo": fr(Fraction(1, 2)), "hi": fr(3)}, k=12, us=us)
  # adsr / attack: structured grid + random, zero-length segments included (known finding C19-line-zero-division)
  segs = [Fraction(0), Fraction(1), Fraction(2), Fraction(5, 2), Fraction(1, 2), Fraction(49, 100), Fraction(7, 3), Fraction(4)]
  n = 120 if tier == "quick" else 2500
  for i in range(n):
    a, d_, r = (rng.choice(segs[1:]) for _ in range(3))
    if rng.random() < 0.08:
      z = rng.randrange(3); a, d_, r = (Fraction(0) if z == 0 else a, Fraction(0) if z == 1 else d_, Fraction(0) if z == 2 else r)
    if rng.random() < 0.04:
      a = -a
    s = rng.choice([Fraction(1, 2), Fraction(1), Fraction(0), Fraction(3, 4), Fraction(-1, 3), Fraction(2)])
    dur = rng.choice([Fraction(10), Fraction(25, 2), Fraction(3), Fraction(0), Fraction(20) + Fraction(49, 100), Fraction(-2), Fraction(8)])
    yield mk({"f": "adsr", "dur": fr(dur), "a": fr(a), "dd": fr(d_), "s": fr(s), "r": fr(r)}, k=40,
             extra=["zero-seg" if 0 in (a, d_, r) else "pos-seg"])
    if i % 2 == 0:
      if rng.random() < 0.5:
        sa = {"num": fr(s)}
      else:
        sa = {"str": [fr(Fraction(rng.randrange(-4, 5), rng.choice([1, 2, 3]))) for _ in range(rng.choice([0, 1, 3, 6, 30]))]}
      yield mk({"f": "attack", "a": fr(a), "dd": fr(d_), "s": sa}, k=rng.choice([25, 25, 4, 0]),
               extra=["zero-seg" if 0 in (a, d_) else "pos-seg", "sustain=" + ("num" if "num" in sa else "stream")])


def mk_dur(d, kind):
  if isinstance(d, dict):
    return num(d["fin"], kind)
  return {"pinf": float("inf"), "ninf": float("-inf"), "none": None}[d]


def run_dur(c):
  import audiolazy
  from audiolazy import lazy_synth as ls
  call, k, nk = c["call"], c["k"], c["nk"]
  f = call["f"]
  us = [F(u) for u in c["us"]]
  calls = []
  def uniform(lo, hi):
    u = us[len(calls)]; calls.append(1)
    return lo + (hi - lo) * ExactQ(u)
  def gauss(mu, sigma):
    u = us[len(calls)]; calls.append(1)
    return mu + sigma * ExactQ(u)
  old = (ls.random.uniform, ls.random.gauss)
  ls.random.uniform, ls.random.gauss = uniform, gauss
  try:
    if f == "line":
      mk = lambda: audiolazy.line(mk_dur(call["d"], nk), num(call["b"], nk), num(call["e"], nk), finish=call["fin"])
    elif f in ("fadein", "fadeout", "ones", "zeros"):
      mk = lambda: getattr(audiolazy, f)(mk_dur(call["d"], nk))
    elif f == "impulse":
      mk = lambda: audiolazy.impulse(mk_dur(call["d"], nk), num(call["one"], nk), num(call["zero"], nk))
    elif f == "white":
      mk = lambda: audiolazy.white_noise(mk_dur(call["d"], "fq"), num(call["lo"], nk), num(call["hi"], nk))
    elif f == "gauss":
      mk = lambda: audiolazy.gauss_noise(mk_dur(call["d"], "fq"), num(call["lo"], nk), num(call["hi"], nk))
    elif f == "adsr":
      mk = lambda: audiolazy.adsr(num(call["dur"], nk), num(call["a"], nk), num(call["dd"], nk), num(call["s"], nk), num(call["r"], nk))
    elif f == "attack":
      mk = lambda: audiolazy.attack(num(call["a"], nk), num(call["dd"], nk), mk_arg(call["s"], nk))
    else:
      raise ValueError(f)
    return observe(mk, k)
  finally:
    ls.random.uniform, ls.random.gauss = old


def lit_dur(c, o):
  call = c["call"]; f = call["f"]
  if f == "line":
    cl = "(CLine %s %s %s %s)" % (dur_lit(call["d"]), q(call["b"]), q(call["e"]), L.boolean(call["fin"]))
  elif f in ("fadein", "fadeout", "ones", "zeros"):
    cl = "(C%s %s)" % (f.capitalize(), dur_lit(call["d"]))
  elif f == "impulse":
    cl = "(CImpulse %s %s %s)" % (dur_lit(call["d"]), q(call["one"]), q(call["zero"]))
  elif f == "white":
    cl = "(CWhite %s %s %s)" % (dur_lit(call["d"]), q(call["lo"]), q(call["hi"]))
  elif f == "gauss":
    cl = "(CGauss %s %s %s)" % (dur_lit(call["d"]), q(call["lo"]), q(call["hi"]))
  elif f == "adsr":
    cl = "(CAdsr %s %s %s %s %s)" % tuple(q(call[x]) for x in ("dur", "a", "dd", "s", "r"))
  else:
    cl = "(CAttack %s %s %s)" % (q(call["a"]), q(call["dd"]), arg_lit(call["s"]))
  return "(DC %s %s %s %s %s)" % (cl, L.nat(c["k"]), qlist(c["us"]), qlist(o["outs"]), end_lit(o))


def known_dur(c, o):
  """C19-line-zero-division: ZeroDivisionError on the first pull, 0 outputs, from line / fadein / fadeout with
  dur - finish == 0 or adsr / attack with a zero-length a, d or r segment."""
  if o.get("end") != "ZeroDivisionError" or o.get("outs"):
    return None
  call = c["call"]; f = call["f"]
  if f in ("line", "fadein", "fadeout") and isinstance(call["d"], dict):
    d = F(call["d"]["fin"]) - (1 if call.get("fin") else 0)
    return "C19-line-zero-division" if d == 0 else None
  if f == "adsr" and 0 in (F(call["a"]), F(call["dd"]), F(call["r"])):
    return "C19-line-zero-division"
  if f == "attack" and 0 in (F(call["a"]), F(call["dd"])):
    return "C19-line-zero-division"
  return None


# ====================================================================== TableLookup
OPS = [("OAdd", "add"), ("OSub", "sub"), ("OMul", "mul"), ("ODiv", "truediv"), ("OFloorDiv", "floordiv"), ("OMod", "mod")]


def rnd_table(rng, n, den=(1, 2, 3, 4)):
  return [fr(Fraction(rng.randrange(-9, 10), rng.choice(den))) for _ in range(n)]


def gen_table(tier, rng):
  freqs = [Fraction(1, 3), Fraction(1), Fraction(5, 2), Fraction(-3, 4), Fraction(0), Fraction(7), Fraction(1, 10)]
  reps = 1 if tier == "quick" else 8
  for n in range(0, 9):
    for _ in range(reps):
      tbl = rnd_table(rng, n)
      # cycles chosen so that cycles*2*pi is a small rational c2: table positions are small rationals
      for c2 in ([Fraction(1), Fraction(3, 2)] if tier == "quick" else [Fraction(1), Fraction(3, 2), Fraction(2), Fraction(1, 3)]):
        cycles = c2 / TWO_PI
        for fq_ in rng.sample(freqs, 3):
          kind = rng.choice(["nn", "nn", "sn", "ns", "ss"])
          fa = {"num": fr(fq_)} if kind[0] == "n" else {"str": [fr(fq_ + Fraction(rng.randrange(-3, 4), 4)) for _ in range(rng.choice([5, 20]))]}
          ph = Fraction(rng.randrange(-8, 9), rng.choice([1, 2, 3]))
          pa = {"num": fr(ph)} if kind[1] == "n" else {"str": [fr(ph + Fraction(rng.randrange(-3, 4), 4)) for _ in range(rng.choice([7, 20]))]}
          yield {"t": "call", "tbl": tbl, "cycles": fr(cycles), "freq": fa, "phase": pa, "k": 16,
                 "tags": ["call", "size=%d" % n, "args=" + kind]}
      # cycles an exact rational (1, 2, 1/2): positions carry fl(2*pi)
      yield {"t": "call", "tbl": tbl, "cycles": fr(rng.choice([Fraction(1), Fraction(2), Fraction(1, 2), Fraction(0)])),
             "freq": {"num": fr(rng.choice(freqs))}, "phase": {"num": fr(Fraction(rng.randrange(-4, 5), 3))}, "k": 8,
             "tags": ["call", "size=%d" % n, "cycles=rational"]}
      # machine int / float cycles (and the default cycles=1): the constant len/(cycles*2*pi) is a rounded float
      for cyc in (["default", ["int", 1], ["int", 3], ["float", [1, 2]]] if tier == "thorough"
                  else [rng.choice(["default", ["int", 1]]), rng.choice([["int", 2], ["float", [1, 2]], ["float", [3, 1]]])]):
        kind = rng.choice(["nn", "nn", "sn", "ns", "ss"])
        fq_ = rng.choice(freqs)
        fa = {"num": fr(fq_)} if kind[0] == "n" else {"str": [fr(fq_ + Fraction(rng.randrange(-3, 4), 4)) for _ in range(rng.choice([5, 12]))]}
        ph = Fraction(rng.randrange(-8, 9), rng.choice([1, 2, 3]))
        pa = {"num": fr(ph)} if kind[1] == "n" else {"str": [fr(ph + Fraction(rng.randrange(-3, 4), 4)) for _ in range(rng.choice([7, 12]))]}
        yield {"t": "callf", "tbl": tbl, "cyc": cyc, "freq": fa, "phase": pa, "k": 10,
               "tags": ["call", "size=%d" % n, "cycles=" + (cyc if cyc == "default" else cyc[0]), "args=" + kind]}
      for idx in [Fraction(0), Fraction(1, 2), Fraction(n), Fraction(2 * n) + Fraction(1, 3), Fraction(n) - Fraction(1, 4),
                  Fraction(-1), Fraction(-7, 2), Fraction(rng.randrange(-20, 40), rng.choice([1, 2, 3, 7]))]:
        yield {"t": "get", "tbl": tbl, "idx": fr(idx), "tags": ["getitem", "size=%d" % n, "idx<0" if idx < 0 else "idx>=0"]}
      for (oc, _) in OPS:
        t2 = rnd_table(rng, n if rng.random() < 0.85 else n + 1)
        c1 = Fraction(rng.choice([1, 1, 2])); c2_ = c1 if rng.random() < 0.85 else c1 + 1
        yield {"t": "bintt", "op": oc, "t1": tbl, "c1": fr(c1), "t2": t2, "c2": fr(c2_), "tags": ["op-tt", oc, "size=%d" % n]}
        x = Fraction(rng.randrange(-5, 6), rng.choice([1, 2, 4]))
        yield {"t": "bints", "op": oc, "t1": tbl, "c1": fr(c1), "x": fr(x), "tags": ["op-ts", oc, "size=%d" % n]}
        yield {"t": "binst", "op": oc, "t1": tbl, "c1": fr(c1), "x": fr(x), "tags": ["op-st", oc, "size=%d" % n]}
      yield {"t": "neg", "t1": tbl, "c1": fr(1), "tags": ["op-neg", "size=%d" % n]}
      yield {"t": "pos", "t1": tbl, "c1": fr(3), "tags": ["op-pos", "size=%d" % n]}
      yield {"t": "norm", "t1": tbl, "c1": fr(2), "tags": ["normalize", "size=%d" % n]}
      yield {"t": "norm", "t1": [fr(0)] * n, "c1": fr(1), "tags": ["normalize", "zeros"]}
      for _h in range(2):
        parts = rng.sample(range(0, 7), rng.choice([0, 1, 2, 3]))
        h = [[p, fr(Fraction(rng.randrange(-4, 5), rng.choice([1, 2, 3])))] for p in parts]
        yield {"t": "harm", "t1": tbl, "c1": fr(1), "h": h, "tags": ["harmonize", "size=%d" % n, "partials=%d" % len(h)]}


def run_table(c):
  import audiolazy, operator
  TL = audiolazy.TableLookup
  t = c["t"]
  tab = lambda l: [FQ(F(x)) for x in l]
  def tbl_obs(r):
    return {"tbl": [fr(frac_of(x)) for x in r.table], "cycles": fr(frac_of(r.cycles))}
  try:
    if t == "call":
      T = TL([ExactQ(F(x)) for x in c["tbl"]], cycles=ExactQ(F(c["cycles"])))
      return observe(lambda: T(mk_arg(c["freq"], "q", stream=True), mk_arg(c["phase"], "q", stream=True)), c["k"])
    if t == "callf":
      from audiolazy import lazy_synth as ls
      cyc = c["cyc"]
      tb = [ExactQ(F(x)) for x in c["tbl"]]
      T = TL(tb) if cyc == "default" else TL(tb, cycles=(int(cyc[1]) if cyc[0] == "int" else float(F(cyc[1]))))
      # the implementation's own constant: with freq = 1 the step handed to modulo_counter is cycle_length * 1
      seen = []
      orig = ls.modulo_counter
      def spy(part, modulo, step):
        seen.append(step)
        return orig(part, modulo, step)
      ls.modulo_counter = spy
      try:
        T(ExactQ(1), ExactQ(0))
      finally:
        ls.modulo_counter = orig
      o = observe(lambda: T(mk_arg(c["freq"], "q", stream=True), mk_arg(c["phase"], "q", stream=True)), c["k"])
      o["cl"] = fr(frac_of(seen[0]))
      return o
    if t == "get":
      T = TL([ExactQ(F(x)) for x in c["tbl"]])
      return {"val": fr(frac_of(T[ExactQ(F(c["idx"]))]))}
    if t in ("bintt", "bints", "binst"):
      f = getattr(operator, dict((a, b) for a, b in OPS)[c["op"]])
      T1 = TL(tab(c["t1"]), cycles=FQ(F(c["c1"])))
      if t == "bintt":
        return tbl_obs(f(T1, TL(tab(c["t2"]), cycles=FQ(F(c["c2"])))))
      x = FQ(F(c["x"]))
      return tbl_obs(f(T1, x) if t == "bints" else f(x, T1))
    T1 = TL(tab(c["t1"]), cycles=FQ(F(c["c1"])))
    if t == "neg": return tbl_obs(-T1)
    if t == "pos": return tbl_obs(+T1)
    if t == "norm": return tbl_obs(T1.normalize())
    if t == "harm": return tbl_obs(T1.harmonize(dict((p, FQ(F(a))) for p, a in c["h"])))
    raise ValueError(t)
  except Exception as e:
    if type(e).__name__ == "ValueError" and str(e) == t:
      raise
    return {"err": type(e).__name__}


def lit_table(c, o):
  t = c["t"]
  if t == "call":
    cl = "(TCall %s %s %s %s %s)" % (qlist(c["tbl"]), q(c["cycles"]), arg_lit(c["freq"]), arg_lit(c["phase"]), L.nat(c["k"]))
  elif t == "callf":
    cyc = c["cyc"]
    cycles = [1, 1] if cyc == "default" else (fr(cyc[1]) if cyc[0] == "int" else cyc[1])
    cl = "(TCallF %s %s %s %s %s %s)" % (qlist(c["tbl"]), q(cycles), q(o.get("cl", [987654321, 1])), arg_lit(c["freq"]),
                                         arg_lit(c["phase"]), L.nat(c["k"]))
  elif t == "eq":
    cl = "(TEq %s %s %s %s)" % (qlist(c["t1"]), q(c["c1"]), qlist(c["t2"]), q(c["c2"]))
  elif t == "get":
    cl = "(TGet %s %s)" % (qlist(c["tbl"]), q(c["idx"]))
  elif t == "bintt":
    cl = "(TBinTT %s %s %s %s %s)" % (c["op"], qlist(c["t1"]), q(c["c1"]), qlist(c["t2"]), q(c["c2"]))
  elif t == "bints":
    cl = "(TBinTS %s %s %s %s)" % (c["op"], qlist(c["t1"]), q(c["c1"]), q(c["x"]))
  elif t == "binst":
    cl = "(TBinST %s %s %s %s)" % (c["op"], q(c["x"]), qlist(c["t1"]), q(c["c1"]))
  elif t in ("neg", "pos", "norm"):
    cl = "(T%s %s %s)" % (t.capitalize(), qlist(c["t1"]), q(c["c1"]))
  else:
    cl = "(THarm %s %s %s)" % (qlist(c["t1"]), q(c["c1"]), L.lst(["(%s, %s)" % (L.nat(p), q(a)) for p, a in c["h"]]))
  if "outs" in o:
    ob = "(ORes %s %s)" % (qlist(o["outs"]), end_lit(o))
  elif "val" in o:
    ob = "(OVal %s)" % q(o["val"])
  elif "tbl" in o:
    ob = "(OTbl %s %s)" % (qlist(o["tbl"]), q(o["cycles"]))
  else:
    ob = "(OErr %s)" % L.string(o.get("err", o.get("raise", "?")))
  return "(TC %s %s)" % (cl, ob)


def nontrivial_table(c, o):
  if "outs" in o: return nontrivial(c, o) and len(c["tbl"]) >= 2
  if "val" in o: return len(c["tbl"]) >= 2 and F(c["idx"]).denominator != 1
  return "tbl" in o and len(o["tbl"]) >= 2


# ====================================================================== resample
def gen_resample(tier, rng):
  ratios = [Fraction(1, 3), Fraction(1, 2), Fraction(1), Fraction(3, 2), Fraction(2), Fraction(7, 3)]
  more = [Fraction(5), Fraction(1, 7), Fraction(4, 3), Fraction(0), Fraction(-1, 2), Fraction(13, 5)]
  orders = range(0, 5) if tier == "quick" else range(0, 7)
  lens = [0, 1, 2, 3, 5, 9] if tier == "quick" else [0, 1, 2, 3, 4, 5, 7, 9, 14]
  for order in orders:
    for ln in lens:
      for ratio in ratios + (more if tier == "thorough" or ln in (3, 9) else []):
        for rep in range(1 if tier == "quick" else 3):
          sig = [fr(Fraction(rng.randrange(-9, 10), rng.choice([1, 1, 2, 3]))) for _ in range(ln)]
          # step = old/new = 1/ratio  (ratio = new/old samples per input sample)
          if ratio > 0:
            new = ratio * rng.choice([1, 1, 2, Fraction(1, 3)]); old = new / ratio
          else:
            old, new = ratio, Fraction(1)
          zero = rng.choice([Fraction(0), Fraction(0), Fraction(7, 2), Fraction(-1)])
          yield {"sig": sig, "old": {"num": fr(old)}, "new": fr(new), "order": order, "zero": fr(zero),
                 "k": 40 if rng.random() < 0.85 else rng.randrange(0, 6), "ints": False,
                 "tags": ["order=%d" % order, "len=%d" % ln, "ratio=%s" % ratio, "const-step"]}
  n = 60 if tier == "quick" else 900
  for _ in range(n):
    order = rng.choice(list(orders)); ln = rng.choice([2, 4, 6, 9, 12])
    sig = [fr(Fraction(rng.randrange(-9, 10), rng.choice([1, 2, 3]))) for _ in range(ln)]
    steps = [fr(Fraction(rng.randrange(0 if rng.random() < 0.9 else -3, 9), rng.choice([1, 2, 3, 4]))) for _ in range(rng.choice([3, 10, 40]))]
    yield {"sig": sig, "old": {"str": steps}, "new": fr(rng.choice([Fraction(1), Fraction(2), Fraction(3, 2)])), "order": order,
           "zero": fr(0), "k": 40, "ints": False, "tags": ["order=%d" % order, "len=%d" % ln, "step-stream"]}
  for order in orders:
    for ln in (0, 1, 2, 3, 6):
      # machine ints for old / new (step is an int or a float), default zero.  Only combinations that stay in the
      # exact domain BY THEIR TYPES: lagrange divides (k - rk) / (rj - rk) in Python's float arithmetic when idx is
      # an int or a float, which is exact iff the position is an integer (a zero factor / factors 1.0) or every
      # quotient is dyadic (order <= 2: divisors 1 and 2, step a multiple of 1/8)
      sig = [fr(Fraction(rng.randrange(-9, 10))) for _ in range(ln)]
      old, new = rng.choice([(1, 1), (1, 2), (2, 1), (1, 4), (3, 1), (1, 0), (4, 2), (3, 8)])
      if not int_args_exact(order, old, new):
        old, new = rng.choice([(1, 1), (2, 1), (3, 1), (4, 2), (1, 0)])
      assert int_args_exact(order, old, new)
      yield {"sig": sig, "old": {"num": fr(old)}, "new": fr(new), "order": order, "zero": fr(0), "k": 40, "ints": True,
             "tags": ["order=%d" % order, "len=%d" % ln, "int-args"]}


def int_args_exact(order, old, new):
  """resample(sig, old, new) with machine ints: decided from the inputs alone (never from the result)"""
  if new == 0 or old % new == 0:
    return True                      # ZeroDivisionError, or integer positions only
  return order <= 2 and new in (2, 4, 8)


def run_resample(c):
  import audiolazy
  sig = [ExactQ(F(x)) for x in c["sig"]]
  if c["ints"]:
    old, new = int(F(c["old"]["num"])), int(F(c["new"]))
    if not int_args_exact(c["order"], old, new):      # (corpus / replayed cases too) outside the exact domain: feed exactly
      old, new = ExactQ(old), ExactQ(new)
    return observe(lambda: audiolazy.resample(sig, old, new, order=c["order"]), c["k"])
  old = mk_arg(c["old"], "q", stream=True); new = ExactQ(F(c["new"]))
  return observe(lambda: audiolazy.resample(sig, old, new, order=c["order"], zero=ExactQ(F(c["zero"]))), c["k"])


def lit_resample(c, o):
  return "(RC %s %s %s %s %s %s %s %s)" % (qlist(c["sig"]), arg_lit(c["old"]), q(c["new"]), L.nat(c["order"]), q(c["zero"]),
                                           L.nat(c["k"]), qlist(o["outs"]), end_lit(o))


# ====================================================================== sinusoid / karplus_strong
def gen_osc(tier, rng):
  n = 80 if tier == "quick" else 1500
  for _ in range(n):
    kind = rng.choice(["nn", "nn", "sn", "ns", "ss"])
    f = Fraction(rng.randrange(-30, 60), rng.choice([1, 2, 3, 7, 10]))
    p = Fraction(rng.randrange(-30, 30), rng.choice([1, 2, 3]))
    fa = {"num": fr(f)} if kind[0] == "n" else {"str": [fr(f + Fraction(rng.randrange(-3, 4), 4)) for _ in range(rng.choice([6, 20]))]}
    pa = {"num": fr(p)} if kind[1] == "n" else {"str": [fr(p + Fraction(rng.randrange(-3, 4), 4)) for _ in range(rng.choice([9, 20]))]}
    yield {"t": "sin", "freq": fa, "phase": pa, "k": 16, "tags": ["sinusoid", "args=" + kind,
                                                                "steps=" + ("na" if f == 0 else str(min(int(TWO_PI / f), 6)))]}
  n = 100 if tier == "quick" else 2000
  delays = [Fraction(1), Fraction(2), Fraction(3), Fraction(7, 2), Fraction(5, 2), Fraction(1, 2), Fraction(4, 3), Fraction(6), Fraction(29, 4), Fraction(1, 4)]
  for i in range(n):
    delay = rng.choice(delays) if rng.random() < 0.9 else Fraction(rng.randrange(1, 40), rng.choice([1, 2, 3, 5]))
    freq = TWO_PI / delay if rng.random() < 0.9 else Fraction(rng.randrange(1, 12), rng.choice([1, 2, 3]))
    tau = Fraction(rng.randrange(1, 30), rng.choice([1, 2]))
    alpha = Fraction(rng.randrange(1, 16), 16) * rng.choice([1, 1, 1, -1])
    if rng.random() < 0.7:
      mem = [fr(Fraction(rng.randrange(-8, 9), rng.choice([1, 2]))) for _ in range(rng.choice([0, 1, 2, 3, 4, 8, 12]))]
      yield {"t": "ks", "freq": fr(freq), "tau": fr(tau), "alpha": fr(alpha), "mem": mem, "default_mem": False, "k": 14,
             "tags": ["karplus", "delay=%s" % (delay if delay in delays else "other"), "mem=list"]}
    else:
      us = [fr(Fraction(rng.randrange(0, 101), 100)) for _ in range(64)]
      yield {"t": "ks", "freq": fr(freq), "tau": fr(tau), "alpha": fr(alpha), "mem": us, "default_mem": True, "k": 14,
             "tags": ["karplus", "delay=%s" % (delay if delay in delays else "other"), "mem=white_noise"]}


class _E(object):
  """stands for math.e inside lazy_filters: e ** x returns the recorded oracle value"""
  def __init__(self, alpha):
    self.alpha, self.args = alpha, []
  def __pow__(self, x):
    self.args.append(x)
    return self.alpha


def run_osc(c):
  import audiolazy
  from audiolazy import lazy_synth as ls, lazy_filters as lf
  if c["t"] == "sin":
    old = ls.sin
    ls.sin = lambda x: x
    try:
      return observe(lambda: audiolazy.sinusoid(mk_arg(c["freq"], "q"), mk_arg(c["phase"], "q")), c["k"])
    finally:
      ls.sin = old
  e = _E(FQ(F(c["alpha"])))
  us = [F(u) for u in c["mem"]]
  calls = []
  def uniform(lo, hi):
    u = us[len(calls)]; calls.append(1)
    return lo + (hi - lo) * FQ(u)
  old = (lf.e, ls.random.uniform)
  lf.e, ls.random.uniform = e, uniform
  try:
    if c["default_mem"]:
      o = observe(lambda: audiolazy.karplus_strong(FQ(F(c["freq"])), FQ(F(c["tau"]))), c["k"])
      o["ncalls"] = len(calls)
      o["mem"] = [fr(-1 + 2 * u) for u in us[:len(calls)]]
    else:
      o = observe(lambda: audiolazy.karplus_strong(FQ(F(c["freq"])), FQ(F(c["tau"])), memory=[FQ(F(x)) for x in c["mem"]]), c["k"])
    o["expo"] = fr(frac_of(e.args[0])) if len(e.args) == 1 else None
    return o
  finally:
    lf.e, ls.random.uniform = old


def lit_osc(c, o):
  if c["t"] == "sin":
    cl = "(OSin %s %s %s)" % (arg_lit(c["freq"]), arg_lit(c["phase"]), L.nat(c["k"]))
  else:
    mem = o["mem"] if c["default_mem"] else c["mem"]
    expo = o.get("expo") or [987654321, 1]
    cl = "(OKarplus %s %s %s %s %s %s %s)" % (q(c["freq"]), q(c["tau"]), q(c["alpha"]), qlist(mem), L.nat(c["k"]), q(expo),
                                              L.option(o.get("ncalls") if c["default_mem"] else None, L.nat))
  return "(OC %s %s %s)" % (cl, qlist(o.get("outs", [])), end_lit(o) if "end" in o else '(ERaise "harness")')


IMPORTS = "From AL Require Import C19.Lib C19.Model C19.Spec C19.Check."
FAMILIES = {
  "mc": Family("mc", IMPORTS, "mc_case", "corr_mc", "holds_mc", gen_mc, run_mc, lit_mc, nontrivial),
  "dur": Family("dur", IMPORTS, "d_case", "corr_dur", "holds_dur", gen_dur, run_dur, lit_dur, nontrivial, known_dur),
  "table": Family("table", IMPORTS, "t_case", "corr_table", "holds_table", gen_table, run_table, lit_table, nontrivial_table),
  "resample": Family("resample", IMPORTS, "r_case", "corr_resample", "holds_resample", gen_resample, run_resample,
                     lit_resample, nontrivial),
  "hist": Family("hist", IMPORTS, "list any_case", "corr_hist", "holds_hist", C19_hist.gen_hist, C19_hist.run_hist,
                 C19_hist.lit_hist, C19_hist.nontrivial_hist),
  "fmc": Family("fmc", IMPORTS, "fmc_case", "corr_fmc", "holds_fmc", C19_float.gen_fmc, C19_float.run_fmc,
                C19_float.lit_fmc, C19_float.nontrivial_f),
  "ftab": Family("ftab", IMPORTS, "ftab_case", "corr_ftab", "holds_ftab", C19_float.gen_ftab, C19_float.run_ftab,
                 C19_float.lit_ftab, C19_float.nontrivial_f),
  "osc": Family("osc", IMPORTS, "o_case", "corr_osc", "holds_osc", gen_osc, run_osc, lit_osc, nontrivial),
}


def extra(chk, tier, rng):
  """Prop.v must stay axiom-free: nothing it can import may mention Reals / classical logic / Interval."""
  import os, re, glob
  from vlib.framework import strip_comments
  d = chk.coqdir()
  for f in sorted(glob.glob(os.path.join(d, "*.v"))):
    if os.path.basename(f) in ("ProofsR.v", "PropR.v", "NumR.v"):
      continue
    txt = strip_comments(open(f).read())
    m = re.search(r"\b(Reals|Interval|Classical\w*|FunctionalExtensionality|ProofsR|Coquelicot|Flocq)\b", txt)
    if m:
      chk.broken.append(("proof", "assumptions", "%s mentions %s: Prop.v would no longer be axiom-free"
                         % (os.path.basename(f), m.group(1))))
