# -*- coding: utf-8 -*-
"""C18 - histories: several live WavStreams pulled alternately (family wavhist); several chunks calls on the
caller's own objects of every kind, sequential (ckinds) or with the generators alive together (cinter)."""
import struct, itertools
from fractions import Fraction
from vlib import coqlit as L

FMTW = {"b": 1, "h": 2, "i": 4, "f": 4, "d": 8}


def dbits(x):
  return struct.unpack("<Q", struct.pack("<d", x))[0]


def _zl(l):
  return L.lst([str(int(x)) for x in l])


# ------------------------------------------------------------------------------------------------ wavhist
def _wav_samples(bits, n, rng):
  lo, hi = (0, 255) if bits == 8 else (-(1 << (bits - 1)), (1 << (bits - 1)) - 1)
  pool = [lo, hi, 0, 1, lo + 1, hi - 1, 128 if bits == 8 else -1, 127 if bits == 8 else -2]
  return [rng.choice(pool) if rng.random() < 0.4 else rng.randrange(lo, hi + 1) for _ in range(n)]


def max_rate(bits, ch):
  """the largest sample rate a wave header can hold: rate and rate * channels * width are 32-bit fields"""
  return ((1 << 32) - 1) // (ch * (bits // 8))


def wav_rate(rng, bits, ch):
  """header sample rates: the usual ones, the low end of the range (1..19 and the next few), the high end"""
  r = rng.random()
  if r < 0.35:
    return rng.choice([8000, 11025, 22050, 44100, 48000, 96000])
  if r < 0.7:
    return rng.randrange(1, 20)
  if r < 0.82:
    return rng.choice([20, 21, 39, 40, 41, 50, 99, 100])
  m = max_rate(bits, ch)
  return rng.choice([m, m - 1, m // 2, (1 << 31) // (ch * (bits // 8)), 1 << 24, 1000003])


def _schedule(kind, ns, totals, rng):
  """ns streams holding totals[i] samples each; 'over' = pulls beyond the end (StopIteration seen, maybe twice)"""
  if kind == "alt":                      # zip / a + b: one sample of each in turn, until all have stopped
    return [i for _ in range(max(totals) + 2) for i in range(ns)]
  if kind == "frames":                   # two pulls (a stereo frame) of each in turn
    return [i for _ in range(max(totals) // 2 + 2) for i in range(ns) for _ in range(2)]
  if kind == "seq":                      # one after the other
    return [i for i in range(ns) for _ in range(totals[i] + 1)]
  if kind == "partial":                  # random order, stops early: some streams are deleted half read
    n = rng.randrange(1, max(2, sum(totals)))
    return [rng.randrange(ns) for _ in range(n)]
  sched = [i for i in range(ns) for _ in range(totals[i] + rng.choice([1, 2]))]
  rng.shuffle(sched)
  return sched


def gen_wavhist(tier, rng):
  reps = 1 if tier == "quick" else 6
  kinds = ["alt", "frames", "seq", "random", "partial"]
  for _ in range(reps):
    for bits in (8, 16, 24, 32):
      for ch in (1, 2):
        for same in (True, False):
          for ns in (2, 3):
            for sk in kinds:
              nfiles = 1 if same else ns
              files = [{"bits": bits, "channels": ch, "rate": wav_rate(rng, bits, ch),
                        "samples": _wav_samples(bits, ch * rng.choice([0, 1, 2, 3, 5, 8]), rng)} for _ in range(nfiles)]
              streams = [{"file": 0 if same else i, "keep": rng.random() < 0.6} for i in range(ns)]
              totals = [len(files[s["file"]]["samples"]) for s in streams]
              yield {"files": files, "streams": streams, "sched": _schedule(sk, ns, totals, rng),
                     "pull": rng.choice(["next", "take"]),
                     "tags": ["bits=%d" % bits, "ch=%d" % ch, "same" if same else "diff", "sched=" + sk, "n=%d" % ns]}
    # different widths / channel counts alive together, and the 0- and 1-frame files next to longer ones
    for k in range(24 if tier == "quick" else 200):
      ns = rng.choice([2, 3])
      files = []
      for i in range(ns):
        bits = rng.choice([8, 16, 24, 24, 32]); ch = rng.choice([1, 2, 2])
        files.append({"bits": bits, "channels": ch, "rate": wav_rate(rng, bits, ch),
                      "samples": _wav_samples(bits, ch * rng.choice([0, 1, 1, 2, 4, 7]), rng)})
      streams = [{"file": i, "keep": rng.random() < 0.6} for i in range(ns)]
      totals = [len(f["samples"]) for f in files]
      sk = rng.choice(kinds)
      yield {"files": files, "streams": streams, "sched": _schedule(sk, ns, totals, rng), "pull": rng.choice(["next", "take"]),
             "tags": ["mixed", "sched=" + sk, "n=%d" % ns]}


def run_wavhist(c):
  import builtins, gc, os, shutil, tempfile, wave
  import audiolazy
  from audiolazy.lazy_wav import WavStream
  tmp = tempfile.mkdtemp(prefix="c18h_")
  real_open = builtins.open
  opened = []                                        # (path, file object) for everything opened under tmp

  def tracking_open(file, *a, **k):
    f = real_open(file, *a, **k)
    if isinstance(file, str) and file.startswith(tmp):
      opened.append(f)
    return f
  try:
    raws = []
    for i, fd in enumerate(c["files"]):
      w = fd["bits"] // 8
      raw = b"".join((v % (1 << fd["bits"])).to_bytes(w, "little") for v in fd["samples"])
      wf = wave.open(os.path.join(tmp, "f%d.wav" % i), "wb")
      wf.setnchannels(fd["channels"]); wf.setsampwidth(w); wf.setframerate(fd["rate"])
      wf.writeframes(raw); wf.close()
      raws.append(list(raw))
    builtins.open = tracking_open
    live, res = [], []
    for s in c["streams"]:
      before = len(opened)
      ws = WavStream(os.path.join(tmp, "f%d.wav" % s["file"]), keep=s["keep"])
      mine = opened[before:]
      live.append([ws, iter(ws) if c["pull"] == "next" else None, mine])
      res.append({"raw": raws[s["file"]], "attrs": [ws.rate, ws.channels, ws.bits], "events": [], "bad": None,
                  "open0": bool(mine) and not any(f.closed for f in mine)})
    ws = it = mine = None
    for i in c["sched"]:
      ws, it, mine = live[i]
      try:
        v = next(it) if it is not None else ws.take()
        if isinstance(v, bool) or not isinstance(v, (int, float)):
          res[i]["bad"] = "BadType:" + type(v).__name__; v = 0
        ev = ["i", v] if isinstance(v, int) else ["f", [Fraction(v).numerator, Fraction(v).denominator]]
      except StopIteration:
        ev = None
      except Exception as e:
        res[i]["bad"] = type(e).__name__; ev = None
      res[i]["events"].append([ev, bool(mine) and all(f.closed for f in mine)])
    files_of = [l[2] for l in live]
    live = ws = it = mine = None
    gc.collect()
    for r, mine in zip(res, files_of):
      r["closed_del"] = bool(mine) and all(f.closed for f in mine)
    return {"streams": res}
  finally:
    builtins.open = real_open
    shutil.rmtree(tmp, ignore_errors=True)


def _wout(ev):
  if ev is None:
    return "None"
  return "(Some (WInt %s))" % L.z(ev[1]) if ev[0] == "i" else "(Some (WFlt (qc (%d) %d)))" % (ev[1][0], ev[1][1])


def lit_wavhist(c, o):
  ss = []
  for i, s in enumerate(c["streams"]):
    fd = c["files"][s["file"]]
    r = o["streams"][i] if "streams" in o else {"raw": [], "attrs": [0, 0, 0], "events": [], "bad": o.get("raise"),
                                                 "open0": False, "closed_del": False}
    evs = L.lst(["(%s, %s)" % (_wout(e), L.boolean(cl)) for e, cl in r["events"]])
    ss.append("(HS %s %s %s %s %s %s (%s, %s, %s) %s %s %s %s)" % (
      L.z(fd["bits"]), L.nat(fd["channels"]), L.boolean(s["keep"]), L.lst([L.z(v) for v in fd["samples"]]), _zl(r["raw"]),
      L.z(fd["rate"]), L.z(r["attrs"][0]), L.z(r["attrs"][1]), L.z(r["attrs"][2]), L.boolean(r["open0"]), evs,
      L.boolean(r["bad"] is not None), L.boolean(r["closed_del"])))
  return "(HC %s %s)" % (L.lst([L.nat(i) for i in c["sched"]]), L.lst(ss))


def nontrivial_wavhist(c, o):
  # at least two streams really interleaved (a switch of stream while both still hold samples)
  if "streams" not in o:
    return False
  left = [len(c["files"][s["file"]]["samples"]) for s in c["streams"]]
  prev, switches = None, 0
  for i in c["sched"]:
    if prev is not None and prev != i and left[i] > 0 and left[prev] > 0:
      switches += 1
    left[i] -= 1; prev = i
  return switches >= 2


# ------------------------------------------------------------------------------------------------ chunks histories
KINDS = ["list", "tuple", "gen", "iter", "stream", "deque", "arrsame", "arrother", "range", "iteronly", "repeat", "thub"]
KCOQ = {"list": "KList", "tuple": "KTuple", "gen": "KGen", "iter": "KIter", "stream": "KStream", "deque": "KDeque",
        "arrsame": "KArrSame", "arrother": "KArrOther", "range": "KRange", "iteronly": "KIterOnly", "repeat": "KRepeat",
        "thub": "KThub"}
ONESHOT = ("gen", "iter", "stream", "repeat")
OTHER_TC = {"b": "hil", "h": "bil", "i": "bhl", "f": "d", "d": "f"}    # array typecodes that differ from dfmt
FVALS = [0.0, 1.0, -1.0, 0.5, 0.1, -0.3, 0.999999, -2.5, 3.0e10, 1 / 3.0, 2.0 ** -130, 1e-3]


def _f32(x):
  return struct.unpack("<f", struct.pack("<f", x))[0]


def _val(fmt, v):
  return v if fmt in "bhi" else struct.unpack("<d", struct.pack("<Q", v))[0]


def _enc(fmt, v):
  """a value read back from the caller's object -> the model's Z (None when it is not what was put in)"""
  if fmt in "bhi":
    return v if isinstance(v, int) and not isinstance(v, bool) else None
  return dbits(float(v)) if isinstance(v, (int, float)) and not isinstance(v, bool) else None


def gen_obj(kind, fmt, n, rng):
  """one caller's object: kind, kind-specific argument, contents as model integers"""
  w = FMTW[fmt]
  lo, hi = -(1 << (8 * w - 1)), (1 << (8 * w - 1)) - 1
  arg = None
  if kind == "range":
    start = rng.randrange(-5, 6) if fmt != "b" or n < 100 else -3
    step = rng.choice([1, 1, 2, -1, 3])
    arg = [start, start + step * n, step]
    vals = list(range(*arg))
    xs = vals if fmt in "bhi" else [dbits(float(v)) for v in vals]
  elif kind == "repeat":
    v = rng.choice([lo, hi, -1, 7]) if fmt in "bhi" else rng.choice(FVALS)
    if fmt == "f":
      v = _f32(v)
    xs = [v if fmt in "bhi" else dbits(v)] * n
  elif fmt in "bhi":
    if kind == "arrother":
      arg = rng.choice(OTHER_TC[fmt])
      if FMTW.get(arg, 8) < w:                       # a narrower array: its own range
        lo, hi = -(1 << (8 * FMTW[arg] - 1)), (1 << (8 * FMTW[arg] - 1)) - 1
    pool = [lo, hi, 0, 1, -1, lo + 1, hi - 1, -37]
    xs = [rng.choice(pool) if rng.random() < 0.4 else rng.randrange(lo, hi + 1) for _ in range(n)]
  else:
    vs = [rng.choice(FVALS) if rng.random() < 0.6 else rng.uniform(-1, 1) for _ in range(n)]
    if kind == "arrother":
      arg = OTHER_TC[fmt]
    if kind == "arrsame" and fmt == "f" or kind == "arrother" and fmt == "d":
      vs = [_f32(v) for v in vs]                     # what an array("f") holds
    xs = [dbits(v) for v in vs]
  if kind == "deque":
    arg = rng.choice([None, n, n + 3])
  return {"kind": kind, "arg": arg, "xs": xs}


def build_obj(o, fmt, ncalls):
  import array, collections
  from audiolazy import Stream, thub
  vals = [_val(fmt, v) for v in o["xs"]]
  k = o["kind"]
  if k == "list": return list(vals)
  if k == "tuple": return tuple(vals)
  if k == "gen": return (v for v in vals)
  if k == "iter": return iter(vals)
  if k == "stream": return Stream(vals)
  if k == "deque": return collections.deque(vals, maxlen=o["arg"]) if o["arg"] is not None else collections.deque(vals)
  if k == "arrsame": return array.array(fmt, vals)
  if k == "arrother": return array.array(o["arg"], vals)
  if k == "range": return range(*o["arg"])
  if k == "repeat": return itertools.repeat(vals[0], len(vals)) if vals else iter(())
  if k == "thub": return thub(vals, 2 * ncalls + 2)
  class IterOnly(object):
    def __init__(self, l): self._l = l
    def __iter__(self): return iter(self._l)
  return IterOnly(list(vals))


def snapshot(o, fmt, obj):
  """the caller's object read again (one-shot kinds: what is left in them)"""
  import array, collections
  k = o["kind"]
  try:
    if k == "deque" and (not isinstance(obj, collections.deque) or obj.maxlen != o["arg"]):
      return None
    if k in ("arrsame", "arrother") and (not isinstance(obj, array.array) or obj.typecode != (fmt if k == "arrsame" else o["arg"])):
      return None
    if k == "range" and obj != range(*o["arg"]):
      return None
    vals = list(obj._l) if k == "iteronly" else list(obj)
  except Exception:
    return None
  enc = [_enc(fmt, v) for v in vals]
  return None if any(e is None for e in enc) else enc


def do_call(chunks, call, seq, fmt):
  """every way of reaching a strategy and of passing the arguments"""
  strat, via, style = call["strat"], call["via"], call["style"]
  if via == "default":                               # through the user-settable default strategy
    saved = chunks.default
    chunks.default = chunks[strat]
    try:
      return do_call(chunks, dict(call, via="dict"), seq, fmt)
    finally:
      chunks.default = saved
  f = chunks[strat] if via == "item" else getattr(chunks, strat) if via == "attr" else chunks
  size, order, pad = call["size"], call["order"], _val(fmt, call["pad"])
  if style == "pos":
    return f(seq, size, fmt, order, pad)
  if style == "omit":                                # leave out what equals the default
    kw = {}
    if fmt != "f": kw["dfmt"] = fmt
    if order is not None: kw["byte_order"] = order
    if not (fmt in "fd" and call["pad"] == 0): kw["padval"] = pad
    return f(seq, size, **kw) if size is not None else f(seq, **kw)
  return f(seq, size=size, dfmt=fmt, byte_order=order, padval=pad)


ORDERS = [None, "<", ">", "!", "=", "@"]
ORD_COQ = {None: "Native", "@": "Native", "<": "Little", "=": "Little", ">": "Big", "!": "Big"}


def _pad(fmt, rng):
  return rng.choice([0, 0, -1, 5, 9]) if fmt in "bhi" else dbits(rng.choice([0.0, 0.0, 0.25, 9.0]))


def _call(obj, fmt, rng, size=None, strat=None):
  strat = strat or rng.choice(["struct", "array"])
  return {"obj": obj, "strat": strat, "via": rng.choice(["item", "attr", "default", "dict"] if strat == "struct" else ["item", "attr", "default"]),
          "style": rng.choice(["kw", "pos", "omit"]), "size": size or rng.randrange(1, 10),
          "order": rng.choice(ORDERS), "pad": _pad(fmt, rng)}


def _nondividing(n, rng):
  cands = [s for s in range(2, 10) if n % s != 0]
  return rng.choice(cands) if cands else rng.randrange(2, 10)


def gen_ckinds(tier, rng):
  reps = 3 if tier == "quick" else 24
  for _ in range(reps):
    for fmt in "bhifd":
      for kind in KINDS:
        n = rng.choice([0, 1, 2, 3, 5, 7, 7, 10, 11, 13, 20])
        obj = gen_obj(kind, fmt, n, rng)
        # first call: a size that does not divide the length (a padded tail), mostly in native order; then other
        # size / pad / strategy / order on the SAME object; a final size-1 call shows what the object now holds
        c0 = _call(0, fmt, rng, size=_nondividing(n, rng))
        if rng.random() < 0.7:
          c0["order"] = rng.choice([None, "<", "=", "@"])
        calls = [c0] + [_call(0, fmt, rng) for _ in range(rng.choice([1, 1, 2]))]
        if rng.random() < 0.3:                       # same size again, only the pad value differs
          calls[1]["size"] = c0["size"]
        if fmt in "bhi" and rng.random() < 0.3:      # a refused call (pad value out of range: the error comes with the
          bad = _call(0, fmt, rng, size=_nondividing(n, rng))   # padded tail) must leave the object as it was
          bad["pad"] = rng.choice([1 << (8 * FMTW[fmt] - 1), -(1 << (8 * FMTW[fmt] - 1)) - 1])
          calls.insert(1, bad)
        if rng.random() < 0.15:                      # size left to chunks.size, which the user has set
          calls[-1]["setsize"] = calls[-1]["size"]; calls[-1]["size"] = None
        probe = _call(0, fmt, rng, size=1, strat=rng.choice(["struct", "array"]))
        yield {"fmt": fmt, "objs": [obj], "calls": calls + [probe], "sched": None,
               "tags": ["fmt=" + fmt, "kind=" + kind] + ["strat0=" + c0["strat"]]}
  # size=None: the default chunks.size (2048 samples), given explicitly or left out
  for fmt, kind in [("b", "list"), ("b", "arrsame"), ("h", "arrsame"), ("h", "gen")][:4 if tier == "quick" else 4]:
    obj = gen_obj(kind, fmt, 5, rng)
    calls = [_call(0, fmt, rng), _call(0, fmt, rng), _call(0, fmt, rng, size=1)]
    calls[0]["size"] = None; calls[0]["order"] = None
    yield {"fmt": fmt, "objs": [obj], "calls": calls, "sched": None, "tags": ["fmt=" + fmt, "kind=" + kind, "defsize"]}


def gen_cinter(tier, rng):
  reps = 2 if tier == "quick" else 16
  for _ in range(reps):
    for fmt in "bhifd":
      for kind in KINDS:
        for shared in ((False, True) if kind not in ONESHOT else (False,)):
          ncalls = rng.choice([2, 2, 3])
          n = rng.choice([1, 2, 3, 5, 7, 10, 11, 13])
          objs = [gen_obj(kind, fmt, n, rng)] if shared else \
                 [gen_obj(kind if i == 0 or rng.random() < 0.5 else rng.choice(KINDS), fmt, rng.choice([n, n, n + 2, 3]), rng)
                  for i in range(ncalls)]
          strat = rng.choice(["struct", "array", "array"])
          size = rng.randrange(2, 6)
          calls = []
          for i in range(ncalls):
            cl = _call(0 if shared else i, fmt, rng, size=size, strat=strat)
            if rng.random() < 0.25:
              cl["size"] = rng.randrange(1, 6)       # now and then another size / strategy next to it
            if rng.random() < 0.2:
              cl["strat"] = "struct" if strat == "array" else "array"; cl["via"] = "item"
            calls.append(cl)
          nch = [-(-len(objs[cl["obj"]]["xs"]) // cl["size"]) for cl in calls]
          if rng.random() < 0.5:
            sched = [i for _ in range(max(nch) + 1) for i in range(ncalls)]
          else:
            sched = [i for i in range(ncalls) for _ in range(nch[i] + 1)]; rng.shuffle(sched)
          yield {"fmt": fmt, "objs": objs, "calls": calls, "sched": sched,
                 "tags": ["fmt=" + fmt, "kind=" + kind, "shared" if shared else "distinct", "strat=" + strat]}


def run_chist(c):
  import sys
  import audiolazy
  from audiolazy.lazy_io import chunks
  assert sys.byteorder == "little"
  fmt, calls = c["fmt"], c["calls"]
  objs = [build_obj(o, fmt, len(calls)) for o in c["objs"]]
  res = [{"chunks": [], "raised": None, "after": None} for _ in calls]
  kept = [[] for _ in calls]                         # the chunk objects themselves: looked at again at the end

  def pull(i, g):
    try:
      ch = next(g)
    except StopIteration:
      return False
    except Exception as e:
      res[i]["raised"] = type(e).__name__; return False
    kept[i].append(ch); res[i]["chunks"].append(list(bytes(ch)))
    if len(kept[i]) > 400:
      res[i]["raised"] = "TooMany"; return False
    return True

  def start(i):
    try:
      return iter(do_call(chunks, calls[i], objs[calls[i]["obj"]], fmt))
    except Exception as e:
      res[i]["raised"] = type(e).__name__; return iter(())
  if c["sched"] is None:
    for i, cl in enumerate(calls):
      if cl.get("setsize"):
        chunks.size = cl["setsize"]
      try:
        g = start(i)
        while pull(i, g):
          pass
      finally:
        if cl.get("setsize"):
          del chunks.size
      res[i]["after"] = snapshot(c["objs"][cl["obj"]], fmt, objs[cl["obj"]])
  else:
    gens = [start(i) for i in range(len(calls))]
    alive = [True] * len(calls)
    for i in c["sched"] + [i for _ in range(401) for i in range(len(calls))]:
      if alive[i]:
        alive[i] = pull(i, gens[i])
      if not any(alive):
        break
    snaps = [snapshot(o, fmt, obj) for o, obj in zip(c["objs"], objs)]
    for i, cl in enumerate(calls):
      res[i]["after"] = snaps[cl["obj"]]
  for i in range(len(calls)):
    if res[i]["raised"] is None and [list(bytes(ch)) for ch in kept[i]] != res[i]["chunks"]:
      res[i]["raised"] = "ChunkChangedAfterYield"
  return {"calls": res}


def lit_chist(c, o):
  objs = L.lst(["(KO %s %s)" % (KCOQ[ob["kind"]], L.lst([L.z(v) for v in ob["xs"]])) for ob in c["objs"]])
  ks = []
  for i, cl in enumerate(c["calls"]):
    r = o["calls"][i] if "calls" in o else {"chunks": [], "raised": o.get("raise", "?"), "after": None}
    after = "None" if r["after"] is None else "(Some %s)" % L.lst([L.z(v) for v in r["after"]])
    ks.append("(KK %s %s %s %s %s (CO %s %s) %s)" % (
      L.nat(cl["obj"]), "SStruct" if cl["strat"] == "struct" else "SArray", L.nat((cl.get("setsize") or 2048) if cl["size"] is None else cl["size"]),
      ORD_COQ[cl["order"]], L.z(cl["pad"]), L.lst([_zl(ch) for ch in r["chunks"]]), L.boolean(r["raised"] is not None), after))
  return "(KC F%s %s %s %s)" % (c["fmt"], objs, L.lst([L.nat(i) for i in (c["sched"] or [])]), L.lst(ks))


def nontrivial_chist(c, o):
  # a padded tail in the first call and a later call on the same object
  c0 = c["calls"][0]
  n = len(c["objs"][c0["obj"]]["xs"]); s = c0["size"] or c0.get("setsize") or 2048
  return n % s != 0 and len(c["calls"]) >= 2
