# -*- coding: utf-8 -*-
"""C17 - AudioIO / AudioThread under a baton scheduler: every explored schedule of the real threads is
replayed on the Gallina interleaving model (coq/theories/C17/Model.v) and must give the same enabled
set and operation at every step, the same device event trace, the same final state and the same
verdict (completed / deadlock); the property is evaluated on the implementation's observation."""
import itertools, hashlib, json
from vlib.framework import Family
from vlib import coqlit as L
import C17_sched as S

PID = "C17"
PROP_FILES = ["Prop"]
ALLOWED_AXIOMS = []
EXTRA_COQ_DIRS = []
RULE = ("a case = (wait flag, control script over play/pause/resume/stop/close issued by the main thread, chunks "
        "strategy used as chunks.default (struct / array), entry point of close (close / terminate / __exit__), complete "
        "schedule = list of thread ids chosen at the synchronisation points); play commands vary the sample format "
        "(f/h/i/b), channels (1/2), ragged lengths, the argument kind of the audio (list, tuple, generator, iterator, "
        "Stream, and instrumented sources whose every next() is a yield point so that players are pre-empted in "
        "mid-chunk), the call style (explicit keywords, defaults omitted, rate=, deprecated nchannels=) and iterables "
        "that raise after k chunks; audio also given as array.array (typecodes equal / unequal to the stream format), "
        "deque, bytes, bytearray; a second family runs 2-3 managers alive at once (own players, closed in either order, "
        "wait mixed) and requires the run as each manager saw it to be a run of its own model; sample values include the extremes of every integer format (most negative / most "
        "positive / 0 / -1) and non-integer float32 values; every close is reached through close / terminate / __exit__ / "
        "a with-block left normally or by an exception raised inside it; the backend records the open() parameters and, per write, the frame count and "
        "the buffer length; schedules are discovered on the IMPLEMENTATION: all schedules with <= 2 pre-emptions (<= 1 "
        "for the larger ones) for the small configurations, including 2-3 concurrent players with instrumented "
        "sources under both strategies, seeded random walks beyond; each one is re-executed and replayed in Coq; "
        "non-trivial = at least one pre-emption and at least one control call")
EXHAUSTIVE = {"quick": False, "thorough": False}
trusted_base = [
  "harness/C17_sched.py: baton scheduler over real OS threads; fake pyaudio/_portaudio (sys.modules), "
  "lazy_io.threading shim (Lock/Event), AudioThread.halting descriptor, AudioThread.start/join/run/__init__ "
  "wrappers, manager._threads list subclass, AudioIO.__del__ neutralised",
  "atomicity of one primitive operation (GIL): no pre-emption inside Lock/Event methods, a flag access or a list method",
  "sample values are small integers stored as float32 (exact), decoded back by struct.unpack",
]
ASSUMPTIONS = [
  "one control thread (all play/pause/stop/close calls come from the main thread, as the property states)",
  "finite audio; the backend never blocks or fails; PortAudio's own threads are not modelled",
  "interleaving granularity = synchronisation points (see Model.v header)",
]



# ---------------------------------------------------------------------------- schedule discovery
def default_choice(i, en, cur):
  return cur if cur in en else en[0]


def follow(prefix, after=default_choice):
  def ch(i, en, cur):
    if i < len(prefix):
      return prefix[i]
    return after(i, en, cur) if after else None
  return ch


def preemptions(steps):
  n, prev = 0, 0
  for st_ in steps:
    t, en = st_[0], st_[2]
    if t != prev and prev in en:
      n += 1
    prev = t
  return n


_abnormal = [False]
MAX_STEPS = 1000     # no legitimate schedule of the generated configurations comes near (measure <= ~500)


def explore(wait, script, bound, cap, strategy="struct"):
  """All schedules of the implementation with at most `bound` pre-emptions (depth first, at most `cap`).
  A run that does not end by itself (step bound, hang, exception) is reported once and not expanded."""
  res, stack = [], [([], 0)]
  while stack and len(res) < cap:
    prefix, used = stack.pop()
    obs = S.run_schedule(wait, script, follow(prefix), max_steps=MAX_STEPS, strategy=strategy)
    steps = obs["steps"]
    sched = [s[0] for s in steps]
    res.append(sched)
    if obs["status"] not in ("completed", "deadlock"):
      _abnormal[0] = True
      return res[-1:], False
    for i in range(len(steps) - 1, len(prefix) - 1, -1):
      prev = steps[i - 1][0] if i > 0 else 0
      en = steps[i][2]
      for alt in en:
        if alt == steps[i][0]:
          continue
        cost = 1 if (prev in en and alt != prev) else 0
        if used + cost <= bound:
          stack.append((sched[:i] + [alt], used + cost))
  return res, not stack


def random_walk(wait, script, rng, pswitch, strategy="struct", close_via="close"):
  def ch(i, en, cur):
    if cur in en and rng.random() >= pswitch:
      return cur
    return en[rng.randrange(len(en))]
  obs = S.run_schedule(wait, script, ch, max_steps=MAX_STEPS, strategy=strategy, close_via=close_via)
  if obs["status"] not in ("completed", "deadlock"):
    _abnormal[0] = True
  return [s[0] for s in obs["steps"]]


def audio(k, nchunks, size, ragged):
  n = nchunks * size - (1 if ragged and size > 1 else 0)
  return [((7 * k + 3 * j) % 19) - 9 for j in range(n)]


EXTREMES = {"b": [-128, 127, 0, -1, -127, 1], "h": [-32768, 32767, 0, -1, -32767, 255],
            "i": [-2 ** 31, 2 ** 31 - 1, 0, -1, 1 - 2 ** 31, 65536],
            "f": [-(2 ** 20 + 1), 2 ** 20 + 1, 0, -1, 3, -5]}      # floats are played as v / 8


def extreme_audio(fmt, n, k=0):
  """n samples cycling through the extreme / special values of the format (most negative first)."""
  pool = EXTREMES[fmt]
  return [pool[(j + k) % len(pool)] for j in range(n)]


def with_format(cmd, fmt, rng=None):
  """The play command with sample format fmt and a content that contains the extremes of that format."""
  vals = list(cmd[3])
  if rng is None:
    vals = extreme_audio(fmt, len(vals))
  else:
    for j in range(len(vals)):
      if rng.random() < 0.5:
        vals[j] = rng.choice(EXTREMES[fmt])
  return cmd[:3] + [vals, fmt] + cmd[5:]


def play(k, nchunks, size=2, channels=1, ragged=False):
  return ["play", size, channels, audio(k, nchunks, size * channels, ragged)]


def ctl_alphabet(np_):
  a = [["close"]]
  for t in range(np_):
    a += [["pause", t], ["resume", t], ["stop", t]]
  return a


def small_configs(tier):
  """(wait, script, pre-emption bound, tag): every schedule within the bound is generated"""
  out = []

  def add(np_, nch, n, bound, bad=None, via=None):
    for seq in itertools.product(ctl_alphabet(np_), repeat=n):
      for wait in (False, True):
        plays_ = [play(k, nch if k == 0 else max(1, nch - 1), 2, 1, ragged=(nch == 2)) for k in range(np_)]
        if bad is not None:      # the iterable of the first player raises after `bad` chunks
          plays_[0] = ["playbad", 2, 1, audio(0, nch, 2, False), bad]
        elif nch == 2 and n == 1:
          # an integer sample format, padded with the integer 0, content = the extremes of the format
          plays_[0] = with_format(plays_[0], "hib"[len(out) % 3])
        elif nch == 2 and n == 0:
          plays_[0] = with_format(plays_[0], "f")
        script = plays_ + [list(x) for x in seq] + [["close"] if via is None else ["close", via]]
        out.append((wait, script, bound, "np=%d nch=%d ctl=%d bound=%d%s" % (
          np_, nch, n, bound, ("" if bad is None else " bad=%d" % bad) + ("" if via is None else " via=" + via))))

  if tier == "quick":
    add(1, 1, 0, 2)
    add(1, 2, 0, 2)
    add(1, 2, 1, 2)
    add(2, 1, 0, 1)
    add(1, 2, 0, 2, bad=0)
    add(1, 2, 0, 2, bad=1)
    add(1, 2, 1, 1, bad=1)
    add(1, 3, 0, 1, via="exc")      # the with-block is left by an exception
    add(1, 3, 1, 1, via="exc")
    add(1, 2, 0, 1, via="with")
  else:
    for nch in (1, 2, 3):
      for n in (0, 1, 2):
        add(1, nch, n, 2)
    add(1, 2, 3, 1)
    for nch in (1, 2):
      add(2, nch, 0, 2)
      add(2, nch, 1, 1)
    for bad in (0, 1, 2):
      add(1, 2, 0, 2, bad=bad)
      add(1, 2, 1, 2, bad=bad)
      add(1, 3, 2, 1, bad=bad)
    add(2, 2, 0, 1, bad=1)
    for via in ("exc", "with", "terminate", "exit"):
      add(1, 3, 0, 2, via=via)
      add(1, 3, 1, 2 if via == "exc" else 1, via=via)
    add(2, 2, 0, 1, via="exc")
    add(1, 2, 2, 1, via="exc")
  return out


VIAS = ["close", "close", "terminate", "exit", "with", "exc"]
KINDS = ["list", "tuple", "gen", "iter", "stream", "src", "src_stream", "src_gen"]


def src_configs(tier):
  """Players alive at the same time whose audio sources are yield points (pre-emption in mid-chunk), with
  both chunk strategies as chunks.default: (wait, script, bound, strategy, tag)"""
  out = []
  for strategy in ("array", "struct"):
    for (fa, fb, sa, sb) in [("f", "f", 2, 2), ("h", "h", 2, 2), ("f", "f", 2, 3), ("f", "h", 2, 2)]:
      if tier == "quick" and ((fa, fb, sa, sb) not in [("f", "f", 2, 2), ("h", "h", 2, 2)]
                              or (strategy == "struct" and fa == "h")):
        continue
      script = [["play", sa, 1, extreme_audio(fa, 5) if fa == "h" else [1, 2, 3, 4, 5], fa, "src", "kw"],
                ["play", sb, 1, [105, 106, 107, 108], fb, "src_stream" if fa == "h" else "src", "kw"], ["close"]]
      out.append((True, script, 1, strategy, "src2 %s%s %d/%d %s" % (fa, fb, sa, sb, strategy)))
    # stereo, one instrumented and one plain player, a control call in between
    script = [["play", 1, 2, [1, 2, 3, 4, 5, 6], "i", "src_gen", "kw"], ["play", 1, 2, [101, 102, 103], "i", "gen", "kw"],
              ["pause", 0], ["close"]]
    if tier != "quick" or strategy == "array":
      out.append((False, script, 1, strategy, "src+gen stereo %s" % strategy))
    if tier != "quick":
      script = [["play", 2, 1, [1, 2, 3, 4], "f", "src", "kw"], ["play", 2, 1, [105, 106, 107, 108], "f", "src", "kw"],
                ["play", 2, 1, [205, 206], "f", "src", "kw"], ["close"]]
      out.append((True, script, 1, strategy, "src3 %s" % strategy))
  return out


def kind_cases():
  """(kind, dfmt, samples): every combination the implementation can play (integers pack into every
  format; float arrays only into the float format; float samples are played as v / 8)"""
  out = []
  small = [-100, 100, 0, -1, 7, 64, 3]                 # fits every integer typecode and format
  for tc in ("b", "h", "i", "l", "q", "B", "H", "I", "L"):
    vals = [abs(v) for v in small] if tc.isupper() else small
    for fmt in ("f", "h", "i", "b"):
      out.append(("arr_" + tc, fmt, [8 * v for v in vals] if fmt == "f" else vals))
  for tc in ("f", "d"):
    out.append(("arr_" + tc, "f", [-(2 ** 20 + 1), 2 ** 20 + 1, 0, -1, 3, -5, 12]))
  for fmt in ("f", "h", "i", "b"):
    out.append(("deque", fmt, extreme_audio(fmt, 5)))
    byt = [0, 100, 1, 127, 64]
    out.append(("bytes", fmt, [8 * v for v in byt] if fmt == "f" else byt))
    out.append(("bytearray", fmt, [8 * v for v in byt] if fmt == "f" else byt))
  return out


def gen_sched(tier, rng):
  seen = set()
  _abnormal[0] = False

  def emit(wait, script, sched, tags, strategy="struct", close_via="close"):
    key = json.dumps([wait, script, sched, strategy])
    if key in seen:
      return None
    seen.add(key)
    return {"wait": wait, "script": script, "sched": sched, "tags": tags, "strategy": strategy,
            "close_via": close_via}

  # witnesses of the two defects repaired by 978c428 and bdb2b32 (schedule prefixes of the old code)
  for wait, script, sched in WITNESSES:
    c = emit(wait, script, sched, ["witness"])
    if c:
      yield c
  # bounded pre-emption exploration of the small configurations (all schedules within the bound)
  for wait, script, bound, tag in small_configs(tier):
    scheds, complete = explore(wait, script, bound, 6000)
    for sc in scheds:
      c = emit(wait, script, sc, [tag, "wait" if wait else "nowait", "bounded"])
      if c:
        yield c
    if _abnormal[0]:
      return        # a run did not end by itself: one witness is enough, do not pile up runaway threads
  # concurrent players with instrumented sources, both chunk strategies
  for wait, script, bound, strategy, tag in src_configs(tier):
    scheds, complete = explore(wait, script, bound, 1500 if tier == "quick" else 6000, strategy)
    for sc in scheds:
      c = emit(wait, script, sc, [tag, "src", "bounded"], strategy)
      if c:
        yield c
    if _abnormal[0]:
      return
  # the deprecated keyword nchannels= (fixed by 4cd2dcb: the stream is opened with that channel count)
  for ch in (1, 2):
    script = [["play", 1, ch, [1, 2, 3, 4], "f", "list", "nchannels"], ["close"]]
    sched = random_walk(True, script, rng, 0.0)
    c = emit(True, script, sched, ["nchannels=%d" % ch])
    if c:
      yield c
  # argument kinds of the audio: array.array with a typecode equal / unequal to the stream format, deque,
  # bytes-like; the delivered bytes must decode (with the format of the stream) to the played samples
  for kind, fmt, vals in kind_cases():
    for size, channels in ((2, 1), (1, 2)) if tier != "quick" else ((2, 1),):
      script = [["play", size, channels, vals, fmt, kind, "kw"], ["close"]]
      for pswitch in ((0.3,) if tier == "quick" else (0.0, 0.5)):
        sched = random_walk(True, script, rng, pswitch)
        c = emit(True, script, sched, ["kind " + kind, "fmt " + fmt])
        if c:
          yield c
        if _abnormal[0]:
          return
  # seeded random walks over bigger configurations
  n = 400 if tier == "quick" else 3000
  for _ in range(n):
    np_ = rng.choice([1, 2, 2, 3, 3])
    size, channels = rng.choice([(1, 1), (2, 1), (3, 1), (2, 2)])
    script = [play(k, rng.randrange(0, 5), size, channels, rng.random() < 0.5) for k in range(np_)]
    for k in range(np_):
      r = rng.random()
      if r < 0.15:        # an iterable that raises after some whole chunks
        nfull = len(script[k][3]) // (size * channels)
        script[k] = ["playbad", size, channels, script[k][3], rng.randrange(0, nfull + 1)]
      else:
        fmt = rng.choice(["h", "i", "b"]) if r < 0.4 else "f"
        kind = rng.choice(KINDS) if rng.random() < 0.6 else "list"
        if kind.startswith("src") and len(script[k][3]) > 8:
          kind = "gen"                       # keep instrumented schedules short
        how = rng.choice(["kw", "kw", "rate", "omit"])
        script[k] = with_format(script[k], fmt, rng) + [kind, how]
    alphabet = ctl_alphabet(np_)[1:]
    for _k in range(rng.randrange(0, 7)):
      x = ["close", rng.choice(VIAS)] if rng.random() < 0.08 else list(rng.choice(alphabet))
      # control calls mostly after the plays, sometimes between them
      pos = len(script) if rng.random() < 0.6 else rng.randrange(1, len(script) + 1)
      script.insert(pos, x)
    if rng.random() < 0.85:
      script.append(["close", rng.choice(VIAS)])
    if rng.random() < 0.2:
      script += [play(7, 1, size, channels)] + ([["close", rng.choice(VIAS)]] if rng.random() < 0.5 else [])
    wait = rng.random() < 0.5
    strategy = rng.choice(["struct", "struct", "array"])
    close_via = rng.choice(["close", "close", "terminate", "exit"])
    sched = random_walk(wait, script, rng, rng.choice([0.05, 0.15, 0.4, 0.8]), strategy, close_via)
    c = emit(wait, script, sched, ["random", "np=%d" % np_, "wait" if wait else "nowait", strategy, close_via],
             strategy, close_via)
    if c:
      yield c
    if _abnormal[0]:
      return


WITNESSES = []

# ---------------------------------------------------------------------------- running and printing

def run_sched(c):
  """A hang observation is re-tried twice: a machine under heavy load can starve a thread hand-over past the
  watchdog, a genuine hang (runaway thread, lost baton) reproduces every time."""
  obs = _run_sched(c)
  for _ in range(2):
    if obs.get("status") != "hang":
      break
    obs = _run_sched(c)
  return obs


def _run_sched(c):
  if c.get("lenient"):
    # corpus witnesses: the listed schedule is followed as far as it applies to the code as it is now,
    # then the non-pre-emptive default; the steps actually taken are what Coq replays
    pre = c["sched"]
    def ch(i, en, cur):
      if i < len(pre) and pre[i] in en:
        return pre[i]
      return default_choice(i, en, cur)
    return S.run_schedule(c["wait"], c["script"], ch, max_steps=MAX_STEPS + 50,
                          strategy=c.get("strategy", "struct"), close_via=c.get("close_via", "close"))
  return S.run_schedule(c["wait"], c["script"], follow(c["sched"], None), max_steps=MAX_STEPS + 50,
                        strategy=c.get("strategy", "struct"), close_via=c.get("close_via", "close"))


def lit_cmd(cmd):
  k = cmd[0]
  if k == "play":
    ctor = "CPlaySrc" if (len(cmd) > 5 and cmd[5].startswith("src")) else "CPlay"
    return "%s %s %s" % (ctor, L.nat(cmd[1] * cmd[2]), L.lst([L.z(v) for v in cmd[3]]))
  if k == "playbad":
    return "CPlayBad %s %s %s" % (L.nat(cmd[1] * cmd[2]), L.lst([L.z(v) for v in cmd[3]]), L.nat(cmd[4]))
  if k == "close":
    return "CClose"
  return "%s %s" % ({"pause": "CPause", "resume": "CResume", "stop": "CStop"}[k], L.nat(cmd[1]))


WIDTH = {"f": 4, "i": 4, "h": 2, "b": 1}
FORMAT = {"f": 1, "i": 2, "h": 8, "b": 16}      # the PyAudio constants of lazy_io._STRUCT2PYAUDIO


def lit_chunk(ch):
  return L.lst([L.z(v) for v in ch])


def lit_case(c, o):
  fin = o.get("final") or {"players": [], "finished": False, "hlock": False, "mlock": False, "threads": [],
                           "started": [], "terminated": 0, "pending": []}
  if "players" not in fin:          # the snapshot itself failed (harness error kept visible)
    fin = {"players": [], "finished": False, "hlock": False, "mlock": False, "threads": [], "started": [],
           "terminated": 0, "pending": []}
    o = dict(o); o["status"] = "snapshot_error"; o["events"] = []
  status = {"completed": 0, "deadlock": 1}.get(o.get("status"), 3)
  if "raise" in o or "exception" in o:
    status = 3
  steps = L.lst(["(%d, %d, %s)" % (st_[0], st_[1], L.lst([str(x) for x in st_[2]])) for st_ in o.get("steps", [])])
  evs = []
  for e in o.get("events", []):
    k = e[0]
    if k == "open": evs.append("EOpen %d" % e[1])
    elif k == "write":
      evs.append("EWrite %d %s" % (e[1], lit_chunk(fin["players"][e[1]]["written"][e[2]])))
    elif k == "stop": evs.append("EStopS %d" % e[1])
    elif k == "start": evs.append("EStartS %d" % e[1])
    elif k == "close": evs.append("ECloseS %d" % e[1])
    elif k == "halt": evs.append("EHalt %d" % e[1])
    elif k == "terminate": evs.append("ETerminate")
    elif k == "play_raise": evs.append("EPlayRaise")
    elif k in ("assert_fail", "close_raise"): evs.append("EAssertFail")      # a close that raised
    elif k == "close_ret":
      evs.append("ECloseRet %s" % L.lst(["(%s, %s)" % (L.boolean(a), L.boolean(h)) for a, h in e[1]]))
  pls = []
  for p in fin["players"]:
    kw = p.get("open_kw", {})
    rate = kw.get("rate", 0)
    okw = "(%d, %d, %d, %d)" % (kw.get("format", 0), kw.get("channels", 0),
                                rate // 100 if rate % 100 == 0 else 4999, kw.get("frames_per_buffer", 0))
    pls.append("FP %d %s %s %s %s %s %s %s %s" % (
      p["status"], L.boolean(p["halting"]), L.boolean(p["go"]), L.boolean(p["tlock"]), L.boolean(p["open"]),
      L.lst([lit_chunk(ch) for ch in p["written"]]),
      L.lst([str(min(n, 4999)) for n in p.get("nframes", [])]),
      L.lst([str(min(n, 4999)) for n in p.get("nbytes", [])]), okw))
  final = "(FS %s %s %s %s %s %s %d %s)" % (
    L.lst(pls), L.boolean(fin["finished"]), L.boolean(fin["hlock"]), L.boolean(fin["mlock"]),
    L.lst([str(t) for t in fin["threads"]]), L.lst([str(t) for t in fin.get("started", [])]), fin["terminated"],
    L.lst([str(99 if x < 0 else x) for x in fin["pending"]]))
  params = []
  for cmd in c["script"]:
    if cmd[0] == "close":
      break
    if cmd[0] in ("play", "playbad"):
      fmt = cmd[4] if (cmd[0] == "play" and len(cmd) > 4) else "f"
      how = cmd[6] if (cmd[0] == "play" and len(cmd) > 6) else "kw"
      params.append("PP %d %d %d %d %d" % (cmd[1], cmd[2], WIDTH[fmt], FORMAT[fmt], 80 if how == "rate" else 441))
  return "(SC %s %s %s %d %s %s %s)" % (L.boolean(c["wait"]), L.lst([lit_cmd(x) for x in c["script"]]),
                                        steps, status, L.lst(evs), final, L.lst(params))


def nontrivial(c, o):
  ctl = sum(1 for x in c["script"] if x[0] != "play")
  return ctl >= 1 and preemptions(o.get("steps", [])) >= 1


# ---------------------------------------------------------------------------- several managers at once
def tag_cmds(m, cmds):
  return [["@", m, c] for c in cmds]


def multi_configs(tier):
  """(waits, script, bound, tag): two or three managers alive at the same time, each with its own players,
  closed in either order, wait true / false mixed"""
  out = []
  for waits in ([True, False], [False, True], [True, True], [False, False]):
    for order in ("BA", "AB"):
      for ctl in ([], [["pause", 0]]):
        if tier == "quick" and ctl and waits[0] == waits[1]:
          continue
        a = tag_cmds(0, [["play", 2, 1, [1, 2, 3, 4, 5], "f"]] + ctl)
        b = tag_cmds(1, [["play", 2, 1, [105, 106, 107], "h"]])
        closes = tag_cmds(1, [["close"]]) + tag_cmds(0, [["close", "with"]])
        if order == "AB":
          closes = closes[::-1]
        out.append((waits, a + b + closes, 1, "2 managers %s ctl=%d" % (order, len(ctl))))
  if tier != "quick":
    s3 = (tag_cmds(0, [["play", 2, 1, [1, 2, 3], "f"]]) + tag_cmds(1, [["play", 1, 2, [5, 6, 7, 8], "i"]])
          + tag_cmds(2, [["play", 2, 1, [9, 10, 11, 12], "f", "src"]]) + tag_cmds(1, [["close"]])
          + tag_cmds(0, [["play", 2, 1, [21, 22], "f"]]) + tag_cmds(2, [["close", "exc"]]) + tag_cmds(0, [["close"]]))
    out.append(([True, False, True], s3, 1, "3 managers"))
  return out


def gen_multi(tier, rng):
  _abnormal[0] = False
  for waits, script, bound, tag in multi_configs(tier):
    scheds, complete = explore(waits, script, bound, 400 if tier == "quick" else 600)
    if tier == "quick" and len(scheds) > 25:
      scheds = [scheds[0]] + rng.sample(scheds[1:], 24)
    for sc in scheds:
      yield {"waits": waits, "script": script, "sched": sc, "tags": [tag, "multi"]}
    if _abnormal[0]:
      return
  for _ in range(40 if tier == "quick" else 400):
    nm = rng.choice([2, 2, 3])
    waits = [rng.random() < 0.5 for _m in range(nm)]
    script = []
    for m in range(nm):
      for k in range(rng.choice([1, 1, 2])):
        fmt = rng.choice(["f", "h", "i", "b"])
        cmd = with_format(play(3 * m + k, rng.randrange(0, 4), rng.choice([1, 2]), rng.choice([1, 2]), rng.random() < 0.5),
                          fmt, rng)
        script.insert(rng.randrange(len(script) + 1), ["@", m, cmd])
    for _k in range(rng.randrange(0, 4)):
      m = rng.randrange(nm)
      script.insert(rng.randrange(1, len(script) + 1), ["@", m, [rng.choice(["pause", "resume", "stop"]), rng.randrange(2)]])
    order = list(range(nm))
    rng.shuffle(order)
    for m in order:
      if rng.random() < 0.9:
        script.append(["@", m, ["close", rng.choice(VIAS)]])
    strategy = rng.choice(["struct", "array"])
    sched = random_walk(waits, script, rng, rng.choice([0.05, 0.3, 0.7]), strategy)
    yield {"waits": waits, "script": script, "sched": sched, "strategy": strategy,
           "tags": ["multi random", "nm=%d" % nm]}
    if _abnormal[0]:
      return


def run_multi(c):
  def once():
    return S.run_schedule(c["waits"], c["script"], follow(c["sched"], None), max_steps=MAX_STEPS + 50,
                          strategy=c.get("strategy", "struct"))
  obs = once()
  for _ in range(2):
    if obs.get("status") != "hang":
      break
    obs = once()
  return obs


def lit_multi(c, o):
  lits = []
  for m, w in enumerate(c["waits"]):
    cm = {"wait": w, "script": [x[2] for x in c["script"] if x[0] == "@" and x[1] == m]}
    pr = (o.get("mgrs") or [None] * len(c["waits"]))[m] if "mgrs" in o else None
    if pr is None:      # the run did not produce projections (time-out, harness error): visible as a mismatch
      pr = {"status": "hang", "steps": [], "events": [], "final": None}
    if "raise" in o or "exception" in o:
      pr = dict(pr); pr["status"] = "exception"
    lits.append(lit_case(cm, pr))
  return L.lst(lits)


def nontrivial_multi(c, o):
  return preemptions(o.get("steps", [])) >= 1


# ---------------------------------------------------------------------------- recordings (Rec.v)
def gen_rec(tier, rng):
  """Histories with 0..3 record() calls mixed with play / pause / stop; some recordings are stopped and
  consumed before close (also in non-last positions), some finish by themselves on a device error while
  others are still open; then close (sometimes twice, sometimes followed by stop / take)."""
  n = 260 if tier == "quick" else 4000
  fixed = [
    [["record", 4, 9], ["record", 4, 9], ["close"]],                       # C17-close-two-recordings
    [["record", 2, 9], ["record", 2, 9], ["record", 2, 9], ["close", "with"]],
    [["record", 2, 5], ["record", 2, 5], ["record", 3, 1], ["rec_take", 1, 3], ["rec_stop", 1], ["rec_take", 1, 9],
     ["rec_take", 0, 2], ["rec_take", 2, 4], ["close"]],
    [["record", 1, 0], ["record", 2, 3], ["rec_take", 0, 1], ["close"]],   # finishes by itself, other still open
  ]
  for h in fixed:
    yield {"wait": True, "script": h, "seed": 0, "tags": ["rec fixed"]}
  for _ in range(n):
    nrec = rng.choice([0, 1, 2, 2, 3, 3])
    h = []
    for i in range(nrec):
      h.append(["record", rng.choice([1, 2, 3, 4]), rng.choice([0, 1, 2, 9, 9])])
    nplay = rng.choice([0, 0, 1, 2])
    for k in range(nplay):
      h.insert(rng.randrange(len(h) + 1), with_format(play(k, rng.randrange(0, 4), 2, 1, rng.random() < 0.5), "f", rng))
    for _k in range(rng.randrange(0, 7)):
      r = rng.random()
      if nrec and r < 0.45:
        x = ["rec_take", rng.randrange(nrec), rng.choice([1, 2, 3, 5, 9])]
      elif nrec and r < 0.7:
        x = ["rec_stop", rng.randrange(nrec)]
      elif nplay:
        x = [rng.choice(["pause", "resume", "stop"]), rng.randrange(nplay)]
      else:
        continue
      # an operation on a recording only after that recording exists
      lo = 0
      if x[0].startswith("rec_"):
        lo = [j for j, c in enumerate(h) if c[0] == "record"][x[1]] + 1
      h.insert(rng.randrange(lo, len(h) + 1), x)
    if rng.random() < 0.9:
      h.append(["close", rng.choice(VIAS)])
      for _k in range(rng.randrange(0, 3)):
        r = rng.random()
        h.append(["close", rng.choice(VIAS)] if r < 0.4 or not nrec else
                 (["rec_take", rng.randrange(nrec), 2] if r < 0.7 else ["rec_stop", rng.randrange(nrec)]))
    yield {"wait": rng.random() < 0.5, "script": h, "seed": rng.getrandbits(30),
           "tags": ["rec random", "nrec=%d" % nrec, "nplay=%d" % nplay]}


def run_rec(c):
  import random
  r = random.Random(c["seed"])
  def ch(i, en, cur):
    if cur in en and r.random() >= 0.3:
      return cur
    return en[r.randrange(len(en))]
  return S.run_schedule(c["wait"], c["script"], ch, max_steps=MAX_STEPS)


def lit_rec(c, o):
  ops = []
  for cmd in c["script"]:
    if cmd[0] == "record": ops.append("ORecord %d %d" % (cmd[1], cmd[2]))
    elif cmd[0] == "rec_stop": ops.append("ORStop %d" % cmd[1])
    elif cmd[0] == "rec_take": ops.append("ORTake %d %d" % (cmd[1], cmd[2]))
    elif cmd[0] == "close": ops.append("ORClose")
  fin = o.get("final") or {}
  rec = fin.get("rec") or {"outs": [], "recs": [], "open": [], "reads": []}
  outs = []
  for x in rec["outs"]:
    outs.append("RNone" if x is None else ("RRaise" if x == "raise" else "RSamples %s" % L.lst([L.z(v) for v in x])))
  raised = any(e[0] in ("close_raise", "assert_fail") for e in o.get("events", [])) or o.get("status") not in (
    "completed", "deadlock")
  outputs_closed = all(not p["open"] for p in fin.get("players", []))
  return "(RC %s %s %s %s %s %d %s %s)" % (
    L.lst(ops), L.lst(outs), L.lst([str(min(x, 999)) for x in rec["recs"]]), L.lst([L.boolean(b) for b in rec["open"]]),
    L.lst([str(min(x, 4999)) for x in rec["reads"]]), fin.get("terminated", 0), L.boolean(raised),
    L.boolean(outputs_closed))


def nontrivial_rec(c, o):
  k = [x[0] for x in c["script"]]
  return k.count("record") >= 2 and "close" in k


IMPORTS = "From AL Require Import C17.Model C17.Spec C17.Check."
PRE = "Open Scope nat_scope."

FAMILIES = {
  "sched": Family("sched", IMPORTS, "scase", "corr_sched", "holds_sched", gen_sched, run_sched, lit_case,
                  nontrivial, None, timeout=150, preamble=PRE),
  "rec": Family("rec", "From AL Require Import C17.Rec.", "rcase", "corr_rec", "holds_rec", gen_rec, run_rec, lit_rec,
                nontrivial_rec, None, timeout=150, preamble=PRE),
  "multi": Family("multi", IMPORTS, "list scase", "corr_multi", "holds_multi", gen_multi, run_multi, lit_multi,
                  nontrivial_multi, None, timeout=150, preamble=PRE),
}
