# -*- coding: utf-8 -*-
"""C17 - AudioIO / AudioThread under a baton scheduler: every explored schedule of the real threads is
replayed on the Gallina interleaving model (coq/theories/C17/Model.v) and must give the same enabled
set and operation at every step, the same device event trace, the same final state and the same
verdict (completed / deadlock); the property is evaluated on the implementation's observation."""
import itertools, hashlib, json
from vlib.framework import Family
from vlib import coqlit as L
import C17_sched as S

PID = "C17"
PROP_FILES = ["Prop"]
ALLOWED_AXIOMS = []
EXTRA_COQ_DIRS = []
RULE = ("a case = (wait flag, control script over play/pause/resume/stop/close issued by the main thread, "
        "complete schedule = list of thread ids chosen at the synchronisation points); play commands use float32 or "
        "integer sample formats (b/h/i), ragged lengths (zero padding), and iterables that raise after k chunks "
        "(playbad); schedules are discovered on the IMPLEMENTATION: all schedules with <= 2 pre-emptions (<= 1 for the "
        "larger ones) for the small configurations (1-2 players, 1-3 chunks, <= 2-3 control calls before close), seeded "
        "random walks beyond (up to 3 players, 6 control calls, close in the middle, repeated close, play after close, "
        "scripts without close); each one is re-executed and replayed in Coq; non-trivial = at least one pre-emption "
        "and at least one control call")
EXHAUSTIVE = {"quick": False, "thorough": False}
trusted_base = [
  "harness/C17_sched.py: baton scheduler over real OS threads; fake pyaudio/_portaudio (sys.modules), "
  "lazy_io.threading shim (Lock/Event), AudioThread.halting descriptor, AudioThread.start/join/run/__init__ "
  "wrappers, manager._threads list subclass, AudioIO.__del__ neutralised",
  "atomicity of one primitive operation (GIL): no pre-emption inside Lock/Event methods, a flag access or a list method",
  "sample values are small integers stored as float32 (exact), decoded back by struct.unpack",
]
ASSUMPTIONS = [
  "one control thread (all play/pause/stop/close calls come from the main thread, as the property states)",
  "finite audio; the backend never blocks or fails; PortAudio's own threads are not modelled",
  "interleaving granularity = synchronisation points (see Model.v header)",
]



# ---------------------------------------------------------------------------- schedule discovery
def default_choice(i, en, cur):
  return cur if cur in en else en[0]


def follow(prefix, after=default_choice):
  def ch(i, en, cur):
    if i < len(prefix):
      return prefix[i]
    return after(i, en, cur) if after else None
  return ch


def preemptions(steps):
  n, prev = 0, 0
  for t, _, en in steps:
    if t != prev and prev in en:
      n += 1
    prev = t
  return n


_abnormal = [False]
MAX_STEPS = 1000     # no legitimate schedule of the generated configurations comes near (measure <= ~500)


def explore(wait, script, bound, cap):
  """All schedules of the implementation with at most `bound` pre-emptions (depth first, at most `cap`).
  A run that does not end by itself (step bound, hang, exception) is reported once and not expanded."""
  res, stack = [], [([], 0)]
  while stack and len(res) < cap:
    prefix, used = stack.pop()
    obs = S.run_schedule(wait, script, follow(prefix), max_steps=MAX_STEPS)
    steps = obs["steps"]
    sched = [s[0] for s in steps]
    res.append(sched)
    if obs["status"] not in ("completed", "deadlock"):
      _abnormal[0] = True
      return res[-1:], False
    for i in range(len(steps) - 1, len(prefix) - 1, -1):
      prev = steps[i - 1][0] if i > 0 else 0
      en = steps[i][2]
      for alt in en:
        if alt == steps[i][0]:
          continue
        cost = 1 if (prev in en and alt != prev) else 0
        if used + cost <= bound:
          stack.append((sched[:i] + [alt], used + cost))
  return res, not stack


def random_walk(wait, script, rng, pswitch):
  def ch(i, en, cur):
    if cur in en and rng.random() >= pswitch:
      return cur
    return en[rng.randrange(len(en))]
  obs = S.run_schedule(wait, script, ch, max_steps=MAX_STEPS)
  if obs["status"] not in ("completed", "deadlock"):
    _abnormal[0] = True
  return [s[0] for s in obs["steps"]]


def audio(k, nchunks, size, ragged):
  n = nchunks * size - (1 if ragged and size > 1 else 0)
  return [((7 * k + 3 * j) % 19) - 9 for j in range(n)]


def play(k, nchunks, size=2, channels=1, ragged=False):
  return ["play", size, channels, audio(k, nchunks, size * channels, ragged)]


def ctl_alphabet(np_):
  a = [["close"]]
  for t in range(np_):
    a += [["pause", t], ["resume", t], ["stop", t]]
  return a


def small_configs(tier):
  """(wait, script, pre-emption bound, tag): every schedule within the bound is generated"""
  out = []

  def add(np_, nch, n, bound, bad=None):
    for seq in itertools.product(ctl_alphabet(np_), repeat=n):
      for wait in (False, True):
        plays_ = [play(k, nch if k == 0 else max(1, nch - 1), 2, 1, ragged=(nch == 2)) for k in range(np_)]
        if bad is not None:      # the iterable of the first player raises after `bad` chunks
          plays_[0] = ["playbad", 2, 1, audio(0, nch, 2, False), bad]
        elif nch == 2 and n == 1:
          plays_[0] = plays_[0] + ["h"]      # an integer sample format, padded with the integer 0
        script = plays_ + [list(x) for x in seq] + [["close"]]
        out.append((wait, script, bound, "np=%d nch=%d ctl=%d bound=%d%s" % (
          np_, nch, n, bound, "" if bad is None else " bad=%d" % bad)))

  if tier == "quick":
    for nch in (1, 2):
      for n in (0, 1):
        add(1, nch, n, 2)
    add(1, 2, 2, 1)
    add(2, 1, 0, 1)
    add(1, 2, 0, 2, bad=0)
    add(1, 2, 0, 2, bad=1)
    add(1, 2, 1, 1, bad=1)
  else:
    for nch in (1, 2, 3):
      for n in (0, 1, 2):
        add(1, nch, n, 2)
    add(1, 2, 3, 1)
    for nch in (1, 2):
      add(2, nch, 0, 2)
      add(2, nch, 1, 1)
    for bad in (0, 1, 2):
      add(1, 2, 0, 2, bad=bad)
      add(1, 2, 1, 2, bad=bad)
      add(1, 3, 2, 1, bad=bad)
    add(2, 2, 0, 1, bad=1)
  return out


def gen_sched(tier, rng):
  seen = set()
  _abnormal[0] = False

  def emit(wait, script, sched, tags):
    key = json.dumps([wait, script, sched])
    if key in seen:
      return None
    seen.add(key)
    return {"wait": wait, "script": script, "sched": sched, "tags": tags}

  # witnesses of the two defects repaired by 978c428 and bdb2b32 (schedule prefixes of the old code)
  for wait, script, sched in WITNESSES:
    c = emit(wait, script, sched, ["witness"])
    if c:
      yield c
  # bounded pre-emption exploration of the small configurations (all schedules within the bound)
  for wait, script, bound, tag in small_configs(tier):
    scheds, complete = explore(wait, script, bound, 6000)
    for sc in scheds:
      c = emit(wait, script, sc, [tag, "wait" if wait else "nowait", "bounded"])
      if c:
        yield c
    if _abnormal[0]:
      return        # a run did not end by itself: one witness is enough, do not pile up runaway threads
  # seeded random walks over bigger configurations
  n = 400 if tier == "quick" else 4000
  for _ in range(n):
    np_ = rng.choice([1, 2, 2, 3, 3])
    size, channels = rng.choice([(1, 1), (2, 1), (3, 1), (2, 2)])
    script = [play(k, rng.randrange(0, 5), size, channels, rng.random() < 0.5) for k in range(np_)]
    for k in range(np_):
      r = rng.random()
      if r < 0.15:        # an iterable that raises after some whole chunks
        nfull = len(script[k][3]) // (size * channels)
        script[k] = ["playbad", size, channels, script[k][3], rng.randrange(0, nfull + 1)]
      elif r < 0.35:
        script[k] = script[k] + [rng.choice(["h", "i", "b"])]
    alphabet = ctl_alphabet(np_)[1:]
    for _k in range(rng.randrange(0, 7)):
      x = ["close"] if rng.random() < 0.08 else list(rng.choice(alphabet))
      # control calls mostly after the plays, sometimes between them
      pos = len(script) if rng.random() < 0.6 else rng.randrange(1, len(script) + 1)
      script.insert(pos, x)
    if rng.random() < 0.85:
      script.append(["close"])
    if rng.random() < 0.2:
      script += [play(7, 1, size, channels)] + ([["close"]] if rng.random() < 0.5 else [])
    wait = rng.random() < 0.5
    sched = random_walk(wait, script, rng, rng.choice([0.05, 0.15, 0.4, 0.8]))
    c = emit(wait, script, sched, ["random", "np=%d" % np_, "wait" if wait else "nowait"])
    if c:
      yield c
    if _abnormal[0]:
      return


WITNESSES = []

# ---------------------------------------------------------------------------- running and printing

def run_sched(c):
  if c.get("lenient"):
    # corpus witnesses: the listed schedule is followed as far as it applies to the code as it is now,
    # then the non-pre-emptive default; the steps actually taken are what Coq replays
    pre = c["sched"]
    def ch(i, en, cur):
      if i < len(pre) and pre[i] in en:
        return pre[i]
      return default_choice(i, en, cur)
    return S.run_schedule(c["wait"], c["script"], ch, max_steps=MAX_STEPS + 50)
  return S.run_schedule(c["wait"], c["script"], follow(c["sched"], None), max_steps=MAX_STEPS + 50)


def lit_cmd(cmd):
  k = cmd[0]
  if k == "play":
    return "CPlay %s %s" % (L.nat(cmd[1] * cmd[2]), L.lst([L.z(v) for v in cmd[3]]))
  if k == "playbad":
    return "CPlayBad %s %s %s" % (L.nat(cmd[1] * cmd[2]), L.lst([L.z(v) for v in cmd[3]]), L.nat(cmd[4]))
  if k == "close":
    return "CClose"
  return "%s %s" % ({"pause": "CPause", "resume": "CResume", "stop": "CStop"}[k], L.nat(cmd[1]))


def lit_chunk(ch):
  return L.lst([L.z(v) for v in ch])


def lit_case(c, o):
  fin = o.get("final") or {"players": [], "finished": False, "hlock": False, "mlock": False, "threads": [],
                           "started": [], "terminated": 0, "pending": []}
  status = {"completed": 0, "deadlock": 1}.get(o.get("status"), 3)
  if "raise" in o or "exception" in o:
    status = 3
  steps = L.lst(["(%d, %d, %s)" % (t, op, L.lst([str(x) for x in en])) for t, op, en in o.get("steps", [])])
  evs = []
  for e in o.get("events", []):
    k = e[0]
    if k == "open": evs.append("EOpen %d" % e[1])
    elif k == "write":
      evs.append("EWrite %d %s" % (e[1], lit_chunk(fin["players"][e[1]]["written"][e[2]])))
    elif k == "stop": evs.append("EStopS %d" % e[1])
    elif k == "start": evs.append("EStartS %d" % e[1])
    elif k == "close": evs.append("ECloseS %d" % e[1])
    elif k == "halt": evs.append("EHalt %d" % e[1])
    elif k == "terminate": evs.append("ETerminate")
    elif k == "play_raise": evs.append("EPlayRaise")
    elif k == "assert_fail": evs.append("EAssertFail")
    elif k == "close_ret":
      evs.append("ECloseRet %s" % L.lst(["(%s, %s)" % (L.boolean(a), L.boolean(h)) for a, h in e[1]]))
  pls = []
  for p in fin["players"]:
    pls.append("FP %d %s %s %s %s %s" % (p["status"], L.boolean(p["halting"]), L.boolean(p["go"]),
                                         L.boolean(p["tlock"]), L.boolean(p["open"]),
                                         L.lst([lit_chunk(ch) for ch in p["written"]])))
  final = "(FS %s %s %s %s %s %s %d %s)" % (
    L.lst(pls), L.boolean(fin["finished"]), L.boolean(fin["hlock"]), L.boolean(fin["mlock"]),
    L.lst([str(t) for t in fin["threads"]]), L.lst([str(t) for t in fin.get("started", [])]), fin["terminated"],
    L.lst([str(99 if x < 0 else x) for x in fin["pending"]]))
  return "(SC %s %s %s %d %s %s)" % (L.boolean(c["wait"]), L.lst([lit_cmd(x) for x in c["script"]]),
                                     steps, status, L.lst(evs), final)


def nontrivial(c, o):
  ctl = sum(1 for x in c["script"] if x[0] != "play")
  return ctl >= 1 and preemptions(o.get("steps", [])) >= 1


IMPORTS = "From AL Require Import C17.Model C17.Spec C17.Check."
PRE = "Open Scope nat_scope."

FAMILIES = {
  "sched": Family("sched", IMPORTS, "scase", "corr_sched", "holds_sched", gen_sched, run_sched, lit_case,
                  nontrivial, None, timeout=40, preamble=PRE),
}
