# -*- coding: utf-8 -*-
"""
C14 translator (fail-closed).  Reads audiolazy/lazy_analysis.py of the CURRENT repository with `ast` and writes
coq/theories/C14/Gen_Windows.v:

  * every row of window._content_generation_table: names, formula (as a term of C14.Model.wexpr), distinct flag,
    default of the alpha parameter (params_def);
  * window._code_template and wsymm._code_template as terms of C14.Model.template.

Anything that is not recognised (an unknown AST node in a formula, an unknown keyword in a table row, a template
that is not `[optional: if size == k: return [consts]] [rebindings of size / an xrange name] return [FORMULA for n
in <xrange>]`, a changed _generate_window_strategies, different imports of sin/cos/pi) is an ERROR: the tie between
the proofs and the code is then reported as broken.  The file is rewritten only when its content changes.
"""
import ast, os, re, math
from fractions import Fraction

ROOT = os.path.dirname(os.path.dirname(os.path.abspath(__file__)))
OUT = os.path.join(ROOT, "coq", "theories", "C14", "Gen_Windows.v")


class TranslateError(Exception):
  pass


def repo():
  return os.environ.get("VERIF_REPO", "/repo")


# ---------------------------------------------------------------------------------------------- formulas
BINOPS = {ast.Add: "Badd", ast.Sub: "Bsub", ast.Mult: "Bmul", ast.Div: "Bdiv", ast.Pow: "Bpow"}
VARS = {"n": "Vn", "size": "Vsize", "alpha": "Valpha"}
FUNS = {"cos": "Fcos", "sin": "Fsin", "abs": "Fabs"}


def parse_formula(src, what):
  """formula string -> nested tuple term:
     ("var", v) ("int", z) ("dec", num, den, float) ("pi",) ("neg", a) ("bin", op, a, b) ("app", f, a)"""
  try:
    tree = ast.parse(src.strip(), mode="eval")
  except SyntaxError as e:
    raise TranslateError("%s: formula does not parse: %r (%s)" % (what, src, e))
  text = src.strip()

  def conv(node):
    if isinstance(node, ast.Name):
      if node.id in VARS:
        return ("var", VARS[node.id])
      if node.id == "pi":
        return ("pi",)
      raise TranslateError("%s: unknown name %r in formula %r" % (what, node.id, src))
    if isinstance(node, ast.Constant):
      v = node.value
      if isinstance(v, bool) or not isinstance(v, (int, float)):
        raise TranslateError("%s: unsupported constant %r" % (what, v))
      if isinstance(v, int):
        return ("int", v)
      seg = ast.get_source_segment(text, node)
      if seg is None or not re.match(r"^[0-9]*\.?[0-9]*([eE][-+]?[0-9]+)?$", seg) or not re.search(r"[0-9]", seg):
        raise TranslateError("%s: cannot read the float literal %r" % (what, seg))
      dec = Fraction(seg)
      if float(seg) != v or math.isinf(v) or math.isnan(v):
        raise TranslateError("%s: literal %r is not the float %r" % (what, seg, v))
      return ("dec", dec.numerator, dec.denominator, v)
    if isinstance(node, ast.UnaryOp) and isinstance(node.op, ast.USub):
      return ("neg", conv(node.operand))
    if isinstance(node, ast.UnaryOp) and isinstance(node.op, ast.UAdd):
      return conv(node.operand)
    if isinstance(node, ast.BinOp) and type(node.op) in BINOPS:
      return ("bin", BINOPS[type(node.op)], conv(node.left), conv(node.right))
    if isinstance(node, ast.Call) and isinstance(node.func, ast.Name) and node.func.id in FUNS \
       and len(node.args) == 1 and not node.keywords:
      return ("app", FUNS[node.func.id], conv(node.args[0]))
    raise TranslateError("%s: unsupported construct %s in formula %r" % (what, ast.dump(node)[:80], src))

  return conv(tree.body)


def uses_alpha(t):
  if t[0] == "var":
    return t[1] == "Valpha"
  return any(uses_alpha(x) for x in t[1:] if isinstance(x, (tuple, list)))


def coq_z(z):
  return "(%d)%%Z" % z


def coq_float(v):
  h = float(v).hex()
  return "(%s)%%float" % h


def coq_expr(t):
  k = t[0]
  if k == "var":
    return "(WVar %s)" % t[1]
  if k == "int":
    return "(WInt %s)" % coq_z(t[1])
  if k == "dec":
    return "(WDec %s %d%%positive %s)" % (coq_z(t[1]), t[2], coq_float(t[3]))
  if k == "pi":
    return "WPi"
  if k == "neg":
    return "(WNeg %s)" % coq_expr(t[1])
  if k == "bin":
    return "(WBin %s %s %s)" % (t[1], coq_expr(t[2]), coq_expr(t[3]))
  if k == "app":
    return "(WApp %s %s)" % (t[1], coq_expr(t[2]))
  raise TranslateError("internal: %r" % (t,))


# ---------------------------------------------------------------------------------------------- templates
def sexpr_of(node, env, what):
  """integer expression over names bound to size-expressions"""
  if isinstance(node, ast.Constant) and isinstance(node.value, int) and not isinstance(node.value, bool):
    return ("SInt", node.value)
  if isinstance(node, ast.Name) and node.id in env and env[node.id][0] != "range":
    return env[node.id]
  if isinstance(node, ast.BinOp) and isinstance(node.op, (ast.Add, ast.Sub)):
    return ("SAdd" if isinstance(node.op, ast.Add) else "SSub", sexpr_of(node.left, env, what), sexpr_of(node.right, env, what))
  raise TranslateError("%s: unsupported size expression %s" % (what, ast.dump(node)[:100]))


def value_of(node, env, what):
  if isinstance(node, ast.Call) and isinstance(node.func, ast.Name) and node.func.id == "xrange" \
     and len(node.args) == 1 and not node.keywords:
    return ("range", sexpr_of(node.args[0], env, what))
  if isinstance(node, ast.Name) and node.id in env:
    return env[node.id]
  return sexpr_of(node, env, what)


def coq_sexpr(s):
  if s[0] == "SSize":
    return "SSize"
  if s[0] == "SInt":
    return "(SInt %s)" % coq_z(s[1])
  return "(%s %s %s)" % (s[0], coq_sexpr(s[1]), coq_sexpr(s[2]))


def parse_template(src, what):
  """-> (special, t_size, t_count); special = None | (k, [const terms])"""
  MARK = "FORMULA__MARK"
  if src.count("{formula}") != 1 or src.count("{sname}") != 1 or src.count("{params_def}") != 1:
    raise TranslateError("%s: template must use {sname} {params_def} {formula} exactly once" % what)
  if not re.search(r"def \{sname\}\(size\{params_def\}\):", src):
    raise TranslateError("%s: template header is not `def {sname}(size{params_def}):`" % what)
  try:
    code = src.format(sname="f", params_def="", formula=MARK)
    tree = ast.parse(code)
  except Exception as e:
    raise TranslateError("%s: template does not format/parse (%s)" % (what, e))
  if len(tree.body) != 1 or not isinstance(tree.body[0], ast.FunctionDef):
    raise TranslateError("%s: template is not a single def" % what)
  fn = tree.body[0]
  a = fn.args
  if [x.arg for x in a.args] != ["size"] or a.vararg or a.kwarg or a.kwonlyargs or a.defaults or fn.decorator_list \
     or getattr(a, "posonlyargs", []):
    raise TranslateError("%s: unexpected signature" % what)
  env = {"size": ("SSize",)}
  special = None
  body = list(fn.body)
  if not body or not isinstance(body[-1], ast.Return):
    raise TranslateError("%s: last statement is not a return" % what)
  for k, st in enumerate(body[:-1]):
    if isinstance(st, ast.If):
      t = st.test
      ok = (k == 0 and special is None and not st.orelse and isinstance(t, ast.Compare) and len(t.ops) == 1
            and isinstance(t.ops[0], ast.Eq) and isinstance(t.left, ast.Name) and t.left.id == "size"
            and isinstance(t.comparators[0], ast.Constant) and type(t.comparators[0].value) is int
            and len(st.body) == 1 and isinstance(st.body[0], ast.Return)
            and isinstance(st.body[0].value, ast.List))
      if not ok:
        raise TranslateError("%s: unsupported `if` (only a leading `if size == k: return [consts]`)" % what)
      consts = []
      for e in st.body[0].value.elts:
        seg = ast.get_source_segment(code, e)
        term = parse_formula(seg, what + " special case")
        if term[0] not in ("int", "dec"):
          raise TranslateError("%s: special case returns a non-literal" % what)
        consts.append(term)
      special = (t.comparators[0].value, consts)
    elif isinstance(st, ast.Assign) and len(st.targets) == 1:
      tg, val = st.targets[0], st.value
      if isinstance(tg, ast.Name):
        env = dict(env, **{tg.id: value_of(val, env, what)})
      elif isinstance(tg, ast.Tuple) and isinstance(val, ast.Tuple) and len(tg.elts) == len(val.elts) \
           and all(isinstance(x, ast.Name) for x in tg.elts) and len(set(x.id for x in tg.elts)) == len(tg.elts):
        new = [value_of(v, env, what) for v in val.elts]     # right-hand side first (simultaneous assignment)
        env = dict(env)
        for x, v in zip(tg.elts, new):
          env[x.id] = v
      else:
        raise TranslateError("%s: unsupported assignment %s" % (what, ast.dump(st)[:100]))
    else:
      raise TranslateError("%s: unsupported statement %s" % (what, ast.dump(st)[:100]))
  ret = body[-1].value
  ok = (isinstance(ret, ast.ListComp) and isinstance(ret.elt, ast.Name) and ret.elt.id == MARK
        and len(ret.generators) == 1 and not ret.generators[0].ifs and not ret.generators[0].is_async
        and isinstance(ret.generators[0].target, ast.Name) and ret.generators[0].target.id == "n")
  if not ok:
    raise TranslateError("%s: return is not `[{formula} for n in ...]`" % what)
  it = value_of(ret.generators[0].iter, env, what)
  if it[0] != "range":
    raise TranslateError("%s: the comprehension does not iterate over an xrange" % what)
  if env["size"][0] == "range" or "n" in env or "alpha" in env or "pi" in env:
    raise TranslateError("%s: a formula variable is rebound in an unsupported way" % what)
  return special, env["size"], it[1]


def coq_template(t):
  special, tsize, tcount = t
  if special is None:
    sp = "None"
  else:
    sp = "(Some (%s, [%s]))" % (coq_z(special[0]), "; ".join(coq_expr(c) for c in special[1]))
  return "{| t_special := %s; t_size := %s; t_count := %s |}" % (sp, coq_sexpr(tsize), coq_sexpr(tcount))


# ---------------------------------------------------------------------------------------------- the module
EXPECTED_GENERATE = (
  "for wnd_dict in window._content_generation_table:\n"
  "    names = wnd_dict['names']\n"
  "    sname = wnd_dict['sname'] = names[0]\n"
  "    wnd_dict.setdefault('params_def', '')\n"
  "    for sdict in [window, wsymm]:\n"
  "        docs_dict = window._doc_kwargs(symm=sdict is wsymm, **wnd_dict)\n"
  "        decorators = [format_docstring(**docs_dict), sdict.strategy(*names)]\n"
  "        ns = dict(pi=pi, sin=sin, cos=cos, xrange=xrange, __name__=__name__)\n"
  "        exec(sdict._code_template.format(**wnd_dict), ns, ns)\n"
  "        reduce(lambda func, dec: dec(func), decorators, ns[sname])\n"
  "        if not wnd_dict.get('distinct', True):\n"
  "            wsymm[names] = window[sname]\n"
  "            break\n"
  "    wsymm[sname].periodic = window[sname].periodic = window[sname]\n"
  "    wsymm[sname].symm = window[sname].symm = wsymm[sname]")
EXPECTED_TOP = ["window = StrategyDict('window')", "wsymm = StrategyDict('wsymm')",
                "window.symm = wsymm.symm = wsymm", "window.periodic = wsymm.periodic = window",
                "_generate_window_strategies()"]
IGNORED_STRING_KEYS = {"math", "math_symm", "name", "bib", "seealso", "out", "params"}   # docstring material


def attr_target(st, obj, attr):
  return (isinstance(st, ast.Assign) and len(st.targets) == 1 and isinstance(st.targets[0], ast.Attribute)
          and isinstance(st.targets[0].value, ast.Name) and st.targets[0].value.id == obj
          and st.targets[0].attr == attr)


def const_str(node, what):
  if isinstance(node, ast.Constant) and isinstance(node.value, str):
    return node.value
  raise TranslateError("%s is not a string literal" % what)


def read_source(path=None):
  path = path or os.path.join(repo(), "audiolazy", "lazy_analysis.py")
  src = open(path).read()
  try:
    mod = ast.parse(src)
  except SyntaxError as e:
    raise TranslateError("lazy_analysis.py does not parse: %s" % e)
  table_node = tw = ts = gen = None
  soft = []      # errors about the surrounding code: the tie is broken, but table and templates are still translated,
                 # so that Gen_Windows.v reflects the CURRENT table and the search for a failing input can go on
  math_names, division = set(), False
  tops = []
  for st in mod.body:
    if isinstance(st, ast.ImportFrom) and st.module == "math":
      math_names |= set(a.name for a in st.names if a.asname in (None, a.name))
    if isinstance(st, ast.ImportFrom) and st.module == "__future__":
      division = division or any(a.name == "division" for a in st.names)
    if attr_target(st, "window", "_content_generation_table"):
      if table_node is not None:
        raise TranslateError("two assignments of window._content_generation_table")
      table_node = st.value
    elif attr_target(st, "window", "_code_template"):
      if tw is not None:
        raise TranslateError("two assignments of window._code_template")
      tw = const_str(st.value, "window._code_template")
    elif attr_target(st, "wsymm", "_code_template"):
      if ts is not None:
        raise TranslateError("two assignments of wsymm._code_template")
      ts = const_str(st.value, "wsymm._code_template")
    elif isinstance(st, ast.FunctionDef) and st.name == "_generate_window_strategies":
      gen = st
    elif isinstance(st, (ast.Assign, ast.Expr, ast.AugAssign, ast.Delete)):
      txt = ast.unparse(st)
      if txt.startswith("__all__ ="):
        continue
      if re.search(r"\b(window|wsymm|_generate_window_strategies)\b", txt) and not attr_target(st, "window", "_doc_kwargs"):
        tops.append(txt)
  if not {"sin", "cos", "pi"} <= math_names:
    raise TranslateError("sin, cos, pi are not imported from math")
  if not division:
    raise TranslateError("`from __future__ import division` is missing (the model uses true division)")
  if table_node is None or tw is None or ts is None or gen is None:
    raise TranslateError("table / templates / _generate_window_strategies not found")
  if tops != EXPECTED_TOP:
    soft.append("module-level statements about window/wsymm changed: %r" % (tops,))
  body = [s for s in gen.body if not (isinstance(s, ast.Expr) and isinstance(s.value, ast.Constant))]
  got = "\n".join(ast.unparse(s) for s in body)
  if got != EXPECTED_GENERATE or gen.args.args or gen.decorator_list:
    soft.append("_generate_window_strategies changed (the model gen_strategies in C14/Model.v mirrors the "
                "old text); now:\n" + got)
  if not isinstance(table_node, ast.List):
    raise TranslateError("window._content_generation_table is not a list display")
  rows = []
  seen = set()
  for i, row in enumerate(table_node.elts):
    what = "table row %d" % i
    if not (isinstance(row, ast.Call) and isinstance(row.func, ast.Name) and row.func.id == "dict" and not row.args):
      raise TranslateError("%s is not dict(key=...)" % what)
    kw = {}
    for k in row.keywords:
      if k.arg is None or k.arg in kw:
        raise TranslateError("%s: ** or repeated keyword" % what)
      kw[k.arg] = k.value
    unknown = set(kw) - IGNORED_STRING_KEYS - {"names", "formula", "distinct", "params_def"}
    if unknown:
      raise TranslateError("%s: unknown keys %s" % (what, sorted(unknown)))
    for k in IGNORED_STRING_KEYS & set(kw):
      const_str(kw[k], "%s: %s" % (what, k))
    if "names" not in kw or "formula" not in kw:
      raise TranslateError("%s: names/formula missing" % what)
    nn = kw["names"]
    if not (isinstance(nn, ast.Tuple) and nn.elts):
      raise TranslateError("%s: names is not a non-empty tuple" % what)
    names = [const_str(e, "%s: a name" % what) for e in nn.elts]
    for nm in names:
      if not re.match(r"^[a-z][a-z0-9_]*$", nm) or nm in seen:
        raise TranslateError("%s: bad or repeated strategy name %r" % (what, nm))
      seen.add(nm)
    formula_src = const_str(kw["formula"], "%s: formula" % what)
    formula = parse_formula(formula_src, what + " (%s)" % names[0])
    distinct = True
    if "distinct" in kw:
      if not (isinstance(kw["distinct"], ast.Constant) and isinstance(kw["distinct"].value, bool)):
        raise TranslateError("%s: distinct is not True/False" % what)
      distinct = kw["distinct"].value
    default = None
    pdef = const_str(kw["params_def"], "%s: params_def" % what) if "params_def" in kw else ""
    if pdef:
      try:
        f = ast.parse("def f(size%s): pass" % pdef).body[0]
      except SyntaxError as e:
        raise TranslateError("%s: params_def %r does not parse" % (what, pdef))
      if [x.arg for x in f.args.args] != ["size", "alpha"] or len(f.args.defaults) != 1 or f.args.vararg \
         or f.args.kwarg or f.args.kwonlyargs:
        raise TranslateError("%s: params_def %r is not `, alpha=<literal>`" % (what, pdef))
      seg = ast.get_source_segment("def f(size%s): pass" % pdef, f.args.defaults[0])
      default = parse_formula(seg, what + " default of alpha")
      if default[0] not in ("int", "dec"):
        raise TranslateError("%s: default of alpha is not a literal" % what)
    if uses_alpha(formula) and default is None:
      raise TranslateError("%s: formula uses alpha but params_def does not declare it" % what)
    rows.append({"names": names, "formula": formula, "formula_src": formula_src, "distinct": distinct,
                 "default": default})
  return {"soft_errors": soft, "rows": rows,
          "tmpl_window": parse_template(tw, "window._code_template"),
          "tmpl_wsymm": parse_template(ts, "wsymm._code_template")}


def render(d):
  if math.pi.hex() != "0x1.921fb54442d18p+1":
    raise TranslateError("math.pi is not the binary64 the model uses")
  out = ["(* GENERATED by harness/C14_translate.py from audiolazy/lazy_analysis.py - do not edit.",
         "   window._content_generation_table and the two _code_template strings, as data. *)",
         "From Coq Require Import List ZArith String Floats.PrimFloat.",
         "From AL Require Import C14.Model.",
         "Import ListNotations.",
         "Open Scope string_scope.", ""]
  for r in d["rows"]:
    s = r["names"][0]
    out.append("(* %s : %s *)" % (", ".join(r["names"]), r["formula_src"].replace("*)", "* )")))
    out.append("Definition f_%s : wexpr :=\n  %s." % (s, coq_expr(r["formula"])))
    out.append("Definition e_%s : wentry :=\n  {| w_names := [%s]; w_formula := f_%s; w_distinct := %s; w_default := %s |}."
               % (s, "; ".join('"%s"' % n for n in r["names"]), s, "true" if r["distinct"] else "false",
                  "None" if r["default"] is None else "Some %s" % coq_expr(r["default"])))
    out.append("")
  out.append("Definition win_table : list wentry :=\n  [%s]." % "; ".join("e_%s" % r["names"][0] for r in d["rows"]))
  out.append("")
  out.append("(* window._code_template *)")
  out.append("Definition tmpl_window : template :=\n  %s." % coq_template(d["tmpl_window"]))
  out.append("(* wsymm._code_template *)")
  out.append("Definition tmpl_wsymm : template :=\n  %s." % coq_template(d["tmpl_wsymm"]))
  out.append("")
  return "\n".join(out)


REF = os.path.join(ROOT, "harness", "C14_ref_table.json")


def load_ref():
  """The committed reference translation (table + templates of the unchanged repository), written only by
  `python harness/C14_translate.py --write-ref`.  Used ONLY to keep the search for a failing input going when the
  current source cannot be translated: the tie is reported broken all the same."""
  try:
    import json
    d = json.load(open(REF))
    d["from_ref"] = True
    return d
  except Exception:
    return None


def translate(write=True):
  """-> (data or None, [errors]).  On a hard failure the data (and Gen_Windows.v) are those of the committed
  reference, data["from_ref"] is set, and the errors say that the tie is broken."""
  try:
    d = read_source()
    text = render(d)
  except Exception as e:  # fail closed on anything unexpected
    msg = ("C14 translator: " + str(e)) if isinstance(e, TranslateError) else \
          "C14 translator crashed: %s: %s" % (type(e).__name__, e)
    d = load_ref()
    if d is None:
      return None, [msg]
    try:
      text = render(d)
    except Exception as e2:
      return None, [msg, "C14 translator: reference table unusable: %s" % e2]
    if write:
      old = open(OUT).read() if os.path.exists(OUT) else None
      if old != text:
        with open(OUT, "w") as f:
          f.write(text)
    return d, [msg + "  [search continues against the committed reference table]"]
  if write:
    os.makedirs(os.path.dirname(OUT), exist_ok=True)
    old = open(OUT).read() if os.path.exists(OUT) else None
    if old != text:
      with open(OUT, "w") as f:
        f.write(text)
  return d, ["C14 translator: " + e for e in d.get("soft_errors", [])]


if __name__ == "__main__":
  import sys
  if "--write-ref" in sys.argv:
    import json
    d = read_source()
    assert not d["soft_errors"], d["soft_errors"]
    with open(REF, "w") as f:
      json.dump(d, f, indent=1, sort_keys=True)
    print("reference written:", REF)
    sys.exit(0)
  d, errs = translate()
  print(errs or "ok: %d rows" % len(d["rows"]))
