# -*- coding: utf-8 -*-
"""C07 - Poly (exact commutative ring, evaluation, composition, calculus) and lagrange
against coq/theories/C07/Model.v and the Spec definitions."""
import itertools
from fractions import Fraction
from vlib.framework import Family
from vlib import coqlit as L
from vlib.exactq import ExactQ, to_frac

PID = "C07"
PROP_FILES = ["Prop"]
ALLOWED_AXIOMS = []
EXTRA_COQ_DIRS = []
RULE = ("expr: random operator trees (depth <= 3) over Laurent polynomial literals (support in [-4, 6], <= 5 terms, "
        "stored zeros, repeated keys, integer-valued float keys), all operators incl. scalar/reflected forms, pow "
        "-2..5, diff 0..3, integrate, /, setitem, p(q); non-trivial = at least one operator and a result with >= 2 "
        "terms. pair: both sides of each ring/calculus law on generated operands (comm, assoc, distrib, p-p, "
        "p**n n-fold, diff linear/product, diff(integrate)), equal polynomials built along different paths and "
        "with different coefficient types (ExactQ, int, dyadic float, Fraction) for ==/!=/hash, and near-miss "
        "unequal pairs; non-trivial = both sides evaluate and one has >= 2 terms. eval: p(v) under the three "
        "schemes, (p+q)(v), (p*q)(v), p(q), p(q)(v), p(q(v)); non-trivial = v != 0 and p has >= 2 terms. lagr: "
        "1..5 points (exhaustive small grids + random), f(x_j), poly(x_j), f(v), poly(v); non-trivial = >= 2 "
        "distinct abscissae. lagh: histories of 2-4 lagrange calls in one process on the same abscissa VALUES in "
        "different numeric types (float on power-of-two grids / Fraction / ExactQ), orders, ordinates, list or one-shot "
        "iterator arguments; every call must equal the per-call model; non-trivial = two types, >= 2 points. hist: "
        "histories on live Poly objects (near-miss pairs -1/-2, 1/2 compared before and after hash / set / dict "
        "insertion; the caller's dict / OrderedDict / list mutated after construction; item assignment on operands "
        "and results of diff(0), copy, +p, p+0, p*1, p**1, Poly(p), ... with fresh equal polynomials hashed for "
        "stale-hash detection; random histories); after every step all variables' terms, the ==, != and hash-equality "
        "matrices and set sizes are observed; non-trivial = a hash step plus a mutation or two constructions. "
        "Distinct = distinct case hash.")
EXHAUSTIVE = {"quick": False, "thorough": False}
trusted_base = [
  "coefficients are exact rationals (ExactQ / int / Fraction / dyadic floats whose arithmetic is exact on the generated "
  "cases); powers are Python ints after compaction; the polynomial's zero is numeric 0 (0, 0.0, ExactQ(0))",
  "hash: the model says only that hash depends on the SET of (power, coefficient) items; that numerically equal "
  "int/float/Fraction/ExactQ values hash alike is CPython's numeric-hash invariant, not modelled",
]
ASSUMPTIONS = ["coefficient arithmetic stays inside the exact rationals: the model has one numeric type (Qc); Python ints "
               "(int / int is float division) are kept away from integrate and / by construction of the inputs",
               "OrderedDict keeps insertion order, re-assignment keeps the position (CPython)",
               "Stream-valued coefficients and non-integer powers are outside the property's quantifier and not modelled"]

# ----------------------------------------------------------------------------- values
COEFS = [Fraction(1), Fraction(-1), Fraction(2), Fraction(-3), Fraction(1, 2), Fraction(-2, 3), Fraction(5, 4),
         Fraction(3), Fraction(7, 5), Fraction(-1, 4)]
DYADIC = [Fraction(1), Fraction(-1), Fraction(2), Fraction(-3), Fraction(1, 2), Fraction(-5, 4), Fraction(3, 2),
          Fraction(4), Fraction(-1, 4)]
INTS = [Fraction(1), Fraction(-1), Fraction(2), Fraction(-3), Fraction(3), Fraction(5), Fraction(-2)]
POINTS = [Fraction(0), Fraction(1), Fraction(-1), Fraction(2), Fraction(1, 2), Fraction(-2, 3), Fraction(3), Fraction(-5, 2),
          Fraction(7, 3)]


SCALE_COEFS = [Fraction(10 ** 12), Fraction(1, 10 ** 15), 1 + Fraction(1, 2 ** 40), 1 - Fraction(1, 2 ** 40),
               Fraction(-1, 10 ** 7), -1 - Fraction(1, 2 ** 40)]
SCALE_POINTS = [Fraction(1, 2 ** 40), Fraction(-1, 2 ** 40), Fraction(10 ** 6), 1 + Fraction(1, 2 ** 40), Fraction(1, 10 ** 7)]


def fr(x):
  x = Fraction(x)
  return [x.numerator, x.denominator]


def num(frl, ty):
  f = Fraction(frl[0], frl[1])
  if ty == "int" and f.denominator == 1:
    return int(f)
  if ty == "float" and (f.denominator & (f.denominator - 1)) == 0:
    return float(f)
  if ty == "frac":
    return f
  return ExactQ(f)


def pool_for(ty):
  return {"q": COEFS, "frac": COEFS, "int": INTS, "float": DYADIC}[ty]


def rand_pairs(rng, ty="q", lo=-4, hi=6, maxterms=5, zeros=True, dups=True, minterms=0):
  n = rng.randrange(minterms, maxterms + 1)
  res = []
  for _ in range(n):
    k = rng.randrange(lo, hi + 1)
    c = rng.choice(pool_for(ty))
    if ty in ("q", "frac") and rng.random() < 0.04:
      c = rng.choice(SCALE_COEFS)       # class (l): the ring laws are scale free; a hair away from the special value 1
    if zeros and rng.random() < 0.08:
      c = Fraction(0)
    res.append([k, fr(c)])
  if not dups:
    seen, out = set(), []
    for k, c in res:
      if k not in seen:
        seen.add(k); out.append([k, c])
    res = out
  return res


def rand_leaf(rng, ty="q", lo=-4, hi=6, rawok=True):
  r = rng.random()
  if r < 0.62:
    return ["pairs", rand_pairs(rng, ty, lo, hi)]
  if r < 0.70 and rawok:
    return ["raw", [[k, rng.random() < 0.5, c] for k, c in rand_pairs(rng, ty, lo, hi, maxterms=4)]]
  if r < 0.80:
    cs = [fr(rng.choice(pool_for(ty) + [Fraction(0)])) for _ in range(rng.randrange(0, 5))]
    return ["list", cs]
  if r < 0.88:
    return ["const", fr(rng.choice(pool_for(ty) + [Fraction(0)]))]
  if r < 0.92:
    return ["none"]
  return ["x"]


ALL_OPS = ["neg", "pos", "add", "sub", "mul", "adds", "sadd", "subs", "ssub", "muls", "smul", "pow", "divs", "divp",
           "diff", "int", "call", "set", "copy"]
SAFE_OPS = ["neg", "pos", "add", "sub", "mul", "adds", "sadd", "subs", "ssub", "muls", "smul", "pow", "diff", "copy", "set"]


def rand_expr(rng, depth, ty="q", ops=ALL_OPS, lo=-4, hi=6, negpow=True, maxpow=5):
  if depth == 0 or rng.random() < 0.15:
    return rand_leaf(rng, ty, lo, hi)
  op = rng.choice(ops)
  sub = lambda: rand_expr(rng, depth - 1, ty, ops, lo, hi, negpow, maxpow)
  c = fr(rng.choice(pool_for(ty) + ([Fraction(0)] if rng.random() < 0.2 else [])))
  if op in ("neg", "pos", "copy", "int"):
    return [op, sub()]
  if op in ("add", "sub", "mul"):
    return [op, sub(), sub()]
  if op == "call":
    return [op, rand_expr(rng, depth - 1, ty, ops, max(lo, -2), min(hi, 3), negpow, maxpow),
            rand_expr(rng, max(depth - 2, 0), ty, ops, max(lo, -2), min(hi, 3), negpow, maxpow)]
  if op == "divp":
    b = sub() if rng.random() < 0.4 else ["pairs", rand_pairs(rng, ty, lo, hi, maxterms=1, zeros=False, minterms=0 if rng.random() < 0.2 else 1)]
    return [op, sub(), b]
  if op in ("adds", "subs", "muls", "divs"):
    return [op, sub(), c]
  if op in ("sadd", "ssub", "smul"):
    return [op, c, sub()]
  if op == "pow":
    n = rng.choice([m for m in [0, 1, 2, 2, 3, 3, 4, 5] if m <= maxpow] + ([-1, -2] if negpow else []))
    inner = rand_expr(rng, max(depth - 2, 0), ty, ops, max(lo, -2), min(hi, 3), negpow, maxpow) if n > 2 else sub()
    return [op, inner, n]
  if op == "diff":
    return [op, sub(), rng.choice([0, 1, 1, 1, 2, 3])]
  if op == "set":
    return [op, sub(), rng.randrange(lo, hi + 1), c]
  raise ValueError(op)


def no_int_under_integrate(e, under=False):
  """Domain rule decided from the INPUT: p ** 0 is Poly(1) with a Python int coefficient, and integrate() divides by
  the int k + 1 (int / int is float division in Python 3, and the float then contaminates Fraction arithmetic).
  Below an integrate node every exponent 0 is replaced by 1, so no int-typed coefficient reaches that division."""
  if not isinstance(e, list) or not e or not isinstance(e[0], str):
    return e
  if e[0] == "pow":
    return ["pow", no_int_under_integrate(e[1], under), 1 if (under and e[2] == 0) else e[2]]
  if e[0] in ("pairs", "raw", "list", "const", "none", "x"):
    return e
  u = under or e[0] == "int"
  return [e[0]] + [no_int_under_integrate(a, u) if isinstance(a, list) and a and isinstance(a[0], str) else a for a in e[1:]]


def has_op(e):
  return e[0] not in ("pairs", "raw", "list", "const", "none", "x")


# ----------------------------------------------------------------------------- running the implementation
# class (f): the `zero` attribute in its kinds.  All of them are the number zero, so the model (one numeric zero)
# is unchanged; the kind is part of the object on the Python side only, like the coefficient types.  Every leaf
# constructor of an expression takes the next kind of the side's cycle, so operands carry different kinds.
ZKINDS = ["default", "none", "int", "float", "frac", "false", "q"]
_ZK = {"kinds": ["default"], "i": 0}


def set_zero_kinds(kinds):
  _ZK["kinds"] = list(kinds) if kinds else ["default"]
  _ZK["i"] = 0


def zero_kw(kind=None):
  if kind is None:
    kind = _ZK["kinds"][_ZK["i"] % len(_ZK["kinds"])]
    _ZK["i"] += 1
  if kind == "default":
    return {}
  return {"zero": {"none": None, "int": 0, "float": 0.0, "frac": Fraction(0), "false": False, "q": ExactQ(0)}[kind]}


def rand_zk(rng, p=0.5):
  if rng.random() > p:
    return ["default"]
  return [rng.choice(ZKINDS) for _ in range(rng.randrange(1, 4))]


def build(e, ty):
  """Evaluates an expression tree with the real Poly class."""
  from collections import OrderedDict
  import audiolazy
  Poly = audiolazy.Poly
  t = e[0]
  if t == "pairs":
    return Poly(OrderedDict((k, num(c, ty)) for k, c in e[1]), **zero_kw())
  if t == "raw":
    return Poly(OrderedDict(((float(k) if f else k), num(c, ty)) for k, f, c in e[1]), **zero_kw())
  if t == "list":
    return Poly([num(c, ty) for c in e[1]], **zero_kw())
  if t == "const":
    return Poly(num(e[1], ty), **zero_kw())
  if t == "none":
    return Poly(**zero_kw())
  if t == "x":
    # a fresh x with a coefficient of the case's numeric type (the library's own x = Poly({1: 1}) carries a Python
    # int, whose true division is float division: Python semantics, outside the exact domain)
    return Poly({1: num([1, 1], ty)}, **zero_kw())
  if t == "neg": return -build(e[1], ty)
  if t == "pos": return +build(e[1], ty)
  if t == "copy": return build(e[1], ty).copy()
  if t == "int": return build(e[1], ty).integrate()
  if t in ("add", "sub", "mul", "divp", "call"):
    a = build(e[1], ty); b = build(e[2], ty)
    if t == "add": return a + b
    if t == "sub": return a - b
    if t == "mul": return a * b
    if t == "divp": return a / b
    return a(b)
  if t in ("adds", "subs", "muls", "divs"):
    a = build(e[1], ty); c = num(e[2], ty)
    if t == "adds": return a + c
    if t == "subs": return a - c
    if t == "muls": return a * c
    return a / c
  if t in ("sadd", "ssub", "smul"):
    c = num(e[1], ty); a = build(e[2], ty)
    if t == "sadd": return c + a
    if t == "ssub": return c - a
    return c * a
  if t == "pow": return build(e[1], ty) ** e[2]
  if t == "diff": return build(e[1], ty).diff(e[2])
  if t == "set":
    q = Poly(build(e[1], ty)); q[e[2]] = num(e[3], ty); return q
  raise ValueError(t)


_FLOATS_SEEN = [False]


def terms_of(p):
  out = []
  for k, v in p.terms(sort=False):
    if isinstance(k, bool) or not isinstance(k, int):
      raise TypeError("non-int power stored: %r" % (k,))
    if isinstance(v, float):
      _FLOATS_SEEN[0] = True
    out.append([k, fr(to_frac(v))])
  return out


def exact_ty(ty):
  return ty in ("q", "frac")


def safe(f):
  try:
    return ["ok", f()]
  except Exception as e:
    return ["raise", type(e).__name__]


def run_expr(c):
  _FLOATS_SEEN[0] = False
  set_zero_kinds(c.get("zk"))
  r = safe(lambda: build(c["e"], c["ty"]))
  if r[0] == "raise":
    return {"terms": r}
  p = r[1]
  o = {"terms": ["ok", terms_of(p)],
       "order": safe(lambda: int(p.order)),
       "values": safe(lambda: [fr(to_frac(v)) for v in p.values()])}
  if _FLOATS_SEEN[0] and exact_ty(c["ty"]):
    o["inexact"] = True   # a float coefficient although every operand was an exact rational
  return o


def run_pair(c):
  _FLOATS_SEEN[0] = False
  set_zero_kinds(c.get("zkl"))
  l = safe(lambda: build(c["lhs"], c["tyl"]))
  set_zero_kinds(c.get("zkr"))
  r = safe(lambda: build(c["rhs"], c["tyr"]))
  o = {"l": l if l[0] == "raise" else ["ok", terms_of(l[1])],
       "r": r if r[0] == "raise" else ["ok", terms_of(r[1])]}
  if l[0] == "ok" and r[0] == "ok":
    p, q = l[1], r[1]
    o["eq"] = bool(p == q)
    o["ne"] = bool(p != q)
    o["heq"] = bool(hash(p) == hash(q))
  if _FLOATS_SEEN[0] and exact_ty(c["tyl"]) and exact_ty(c["tyr"]):
    o["inexact"] = True
  return o


def qv(x):
  return fr(to_frac(x))


def run_eval(c):
  _FLOATS_SEEN[0] = False
  set_zero_kinds(c.get("zk"))
  l = safe(lambda: build(c["p"], c["ty"]))
  r = safe(lambda: build(c["q"], c["ty"]))
  o = {"pt": l if l[0] == "raise" else ["ok", terms_of(l[1])],
       "qt": r if r[0] == "raise" else ["ok", terms_of(r[1])]}
  if l[0] == "ok" and r[0] == "ok":
    p, q = l[1], r[1]
    v = ExactQ(Fraction(*c["v"]))
    o["pa"] = qv(p(v)); o["ph"] = qv(p(v, horner=True)); o["pd"] = qv(p(v, horner=False))
    o["qa"] = qv(q(v))
    o["sa"] = qv((p + q)(v))
    m = p * q
    o["ma"] = qv(m(v)); o["mh"] = qv(m(v, horner=True)); o["md"] = qv(m(v, horner=False))
    comp = p(q)
    o["ct"] = ["ok", terms_of(comp)]
    o["ca"] = qv(comp(v))
    o["pqa"] = qv(p(q(v)))
  if _FLOATS_SEEN[0] and exact_ty(c["ty"]):
    o["inexact"] = True
  return o


def run_lagr(c):
  import audiolazy
  pts = [(ExactQ(Fraction(*a)), ExactQ(Fraction(*b))) for a, b in c["pts"]]
  v = ExactQ(Fraction(*c["v"]))
  o = {"fv": safe(lambda: qv(audiolazy.lagrange.func(pts)(v))),
       "poly": safe(lambda: terms_of(audiolazy.lagrange.poly(pts))),
       "pv": safe(lambda: qv(audiolazy.lagrange.poly(pts)(v))), "fx": [], "px": []}
  if pts:
    f = audiolazy.lagrange.func(pts)
    pl = audiolazy.lagrange.poly(pts)
    o["fx"] = [qv(f(xj)) for xj, _ in pts]
    o["px"] = [qv(pl(xj)) for xj, _ in pts]
  return o


# ----------------------------------------------------------------------------- Coq literals
def q(frl):
  return "(qc (%d) %d)" % (frl[0], frl[1])


def zl(n):
  return "(%d)%%Z" % n


def pairs_lit(l):
  return L.lst(["(%s, %s)" % (zl(k), q(c)) for k, c in l])


def expr_lit(e):
  t = e[0]
  if t == "pairs": return "(EPairs %s)" % pairs_lit(e[1])
  if t == "raw": return "(ERaw %s)" % L.lst(["(%s, %s, %s)" % (zl(k), L.boolean(f), q(c)) for k, f, c in e[1]])
  if t == "list": return "(EList %s)" % L.lst([q(c) for c in e[1]])
  if t == "const": return "(EConst %s)" % q(e[1])
  if t == "none": return "ENone"
  if t == "x": return "EX"
  un = {"neg": "ENeg", "pos": "EPos", "copy": "ECopy", "int": "EInt"}
  if t in un: return "(%s %s)" % (un[t], expr_lit(e[1]))
  bi = {"add": "EAdd", "sub": "ESub", "mul": "EMul", "divp": "EDivP", "call": "ECall"}
  if t in bi: return "(%s %s %s)" % (bi[t], expr_lit(e[1]), expr_lit(e[2]))
  sc = {"adds": "EAddS", "subs": "ESubS", "muls": "EMulS", "divs": "EDivS"}
  if t in sc: return "(%s %s %s)" % (sc[t], expr_lit(e[1]), q(e[2]))
  cs = {"sadd": "ESAdd", "ssub": "ESSub", "smul": "ESMul"}
  if t in cs: return "(%s %s %s)" % (cs[t], q(e[1]), expr_lit(e[2]))
  if t == "pow": return "(EPow %s %s)" % (expr_lit(e[1]), zl(e[2]))
  if t == "diff": return "(EDiff %s %s)" % (expr_lit(e[1]), L.nat(e[2]))
  if t == "set": return "(ESet %s %s %s)" % (expr_lit(e[1]), zl(e[2]), q(e[3]))
  raise ValueError(t)


def res_lit(r, f):
  if r is None:
    return '(Raise "-")'
  if r[0] == "ok":
    return "(Ok %s)" % f(r[1])
  return "(Raise %s)" % L.string(r[1])


def lit_expr(c, o):
  return "(EC %s %s %s %s)" % (expr_lit(c["e"]), res_lit(o.get("terms"), pairs_lit),
                               res_lit(o.get("order"), zl),
                               res_lit(o.get("values"), lambda l: L.lst([q(x) for x in l])))


def lit_pair(c, o):
  return "(PC %s %s %s %s %s %s %s %s)" % (
    expr_lit(c["lhs"]), expr_lit(c["rhs"]), L.boolean(c["must"]),
    res_lit(o.get("l"), pairs_lit), res_lit(o.get("r"), pairs_lit),
    L.boolean(o.get("eq", False)), L.boolean(o.get("ne", False)), L.boolean(o.get("heq", False)))


def lit_eval(c, o):
  z = [0, 1]
  g = lambda k: q(o.get(k, z))
  return "(VC %s %s %s %s %s %s %s %s %s %s %s %s %s %s %s %s)" % (
    expr_lit(c["p"]), expr_lit(c["q"]), q(c["v"]),
    res_lit(o.get("pt"), pairs_lit), res_lit(o.get("qt"), pairs_lit),
    g("pa"), g("ph"), g("pd"), g("qa"), g("sa"), g("ma"), g("mh"), g("md"),
    res_lit(o.get("ct"), pairs_lit), g("ca"), g("pqa"))


def lit_lagr(c, o):
  return "(LC %s %s %s %s %s %s %s)" % (
    L.lst(["(%s, %s)" % (q(a), q(b)) for a, b in c["pts"]]), q(c["v"]),
    res_lit(o.get("fv"), q), res_lit(o.get("poly"), pairs_lit), res_lit(o.get("pv"), q),
    L.lst([q(x) for x in o.get("fx", [])]), L.lst([q(x) for x in o.get("px", [])]))


# ----------------------------------------------------------------------------- generators
def gen_expr(tier, rng):
  # fixed edge stream
  edge = [
    ["none"], ["x"], ["const", [0, 1]], ["list", []], ["list", [[0, 1], [0, 1]]], ["pairs", [[-1, [1, 1]]]],
    ["sub", ["x"], ["x"]], ["pow", ["x"], 0], ["pow", ["none"], 0], ["pow", ["none"], 3], ["pow", ["none"], -1],
    ["pow", ["add", ["x"], ["const", [1, 1]]], -1], ["pow", ["add", ["x"], ["const", [1, 1]]], 1],
    ["pow", ["pairs", [[2, [2, 1]]]], -2], ["int", ["pairs", [[-1, [1, 1]]]]], ["int", ["pairs", [[-1, [0, 1]]]]],
    ["divs", ["x"], [0, 1]], ["divs", ["none"], [0, 1]], ["divp", ["x"], ["none"]],
    ["divp", ["x"], ["add", ["x"], ["const", [1, 1]]]], ["divp", ["pairs", [[3, [1, 2]], [0, [2, 1]]]], ["pairs", [[2, [-2, 1]]]]],
    ["call", ["pairs", [[-1, [1, 1]]]], ["add", ["x"], ["const", [1, 1]]]],
    ["call", ["pairs", [[2, [1, 1]], [0, [3, 1]]]], ["add", ["x"], ["const", [1, 1]]]],
    ["call", ["none"], ["x"]], ["call", ["x"], ["none"]], ["call", ["pairs", [[-2, [1, 1]]]], ["none"]],
    ["set", ["x"], 1, [0, 1]], ["set", ["x"], 3, [0, 1]], ["set", ["x"], 1, [5, 1]], ["set", ["x"], -2, [5, 1]],
    ["raw", [[1, True, [1, 1]], [0, False, [2, 1]]]], ["raw", [[1, True, [0, 1]], [2, True, [3, 1]], [0, False, [1, 1]]]],
    ["raw", [[1, True, [1, 1]], [1, False, [2, 1]], [3, False, [0, 1]]]],
    ["pairs", [[1, [1, 1]], [2, [0, 1]], [1, [0, 1]]]], ["pairs", [[1, [0, 1]], [2, [3, 1]], [1, [4, 1]]]],
    ["diff", ["pairs", [[0, [5, 1]], [-1, [2, 1]], [3, [1, 2]]]], 1], ["diff", ["pairs", [[2, [1, 1]]]], 3],
    ["diff", ["pairs", [[2, [1, 1]], [-2, [1, 1]]]], 0],
    ["add", ["pairs", [[1, [1, 1]], [2, [1, 1]]]], ["pairs", [[2, [-1, 1]], [1, [3, 1]], [5, [1, 1]]]]],
    ["mul", ["pairs", [[1, [1, 1]], [-1, [1, 1]]]], ["pairs", [[1, [1, 1]], [-1, [-1, 1]]]]],
  ]
  for e in edge:
    yield {"e": e, "ty": "q", "tags": ["edge", e[0]]}
  n = 700 if tier == "quick" else 9000
  for i in range(n):
    depth = rng.choice([1, 1, 2, 2, 3])
    r = rng.random()
    if r < 0.8:
      ty, ops = "q", ALL_OPS
    elif r < 0.9:
      ty, ops = "frac", ALL_OPS
    elif r < 0.95:
      ty, ops = "int", SAFE_OPS
    else:
      ty, ops = "float", SAFE_OPS
    if ty == "float":   # keep float arithmetic exact: shallow trees, small exponents
      depth = min(depth, 2)
    e = no_int_under_integrate(rand_expr(rng, depth, ty, ops, negpow=(ty in ("q", "frac")), maxpow=(3 if ty == "float" else 5)))
    yield {"e": e, "ty": ty, "tags": ["random", "depth=%d" % depth, "ty=" + ty, "top=" + e[0]]}


def with_zk(gen, keys, p=0.5):
  """adds the zero kinds of the leaf constructors (class (f)) to every generated case"""
  def g(tier, rng):
    for c in gen(tier, rng):
      for k in keys:
        c[k] = rand_zk(rng, p)
      if any(c[k] != ["default"] for k in keys):
        c["tags"] = list(c["tags"]) + ["zero-kinds"]
      yield c
  return g


def nontrivial_expr(c, o):
  t = o.get("terms")
  return bool(has_op(c["e"]) and t and t[0] == "ok" and len(t[1]) >= 2)


def nfold(a, n):
  if n == 0:
    return ["const", [1, 1]]
  e = a
  for _ in range(n - 1):
    e = ["mul", e, a]
  return e


def laws(rng, a, b, c3, k, n):
  """(name, lhs, rhs) for every law of the property text on operands a, b, c3, scalar k, exponent n."""
  yield "add_comm", ["add", a, b], ["add", b, a]
  yield "add_assoc", ["add", ["add", a, b], c3], ["add", a, ["add", b, c3]]
  yield "mul_comm", ["mul", a, b], ["mul", b, a]
  yield "mul_assoc", ["mul", ["mul", a, b], c3], ["mul", a, ["mul", b, c3]]
  yield "distrib_l", ["mul", a, ["add", b, c3]], ["add", ["mul", a, b], ["mul", a, c3]]
  yield "distrib_r", ["mul", ["add", a, b], c3], ["add", ["mul", a, c3], ["mul", b, c3]]
  yield "sub_self", ["sub", a, a], ["none"]
  yield "sub_def", ["sub", a, b], ["add", a, ["neg", b]]
  yield "sub_distrib", ["mul", a, ["sub", b, c3]], ["sub", ["mul", a, b], ["mul", a, c3]]
  yield "neg_inv", ["add", a, ["neg", a]], ["const", [0, 1]]
  yield "pow_nfold", ["pow", a, n], nfold(a, n)
  yield "pow_add", ["pow", a, n + 1], ["mul", ["pow", a, n], a]
  yield "one", ["mul", a, ["const", [1, 1]]], ["pos", a]
  yield "zero", ["add", ["none"], a], ["copy", a]
  yield "scalar_mul", ["muls", a, k], ["smul", k, a]
  yield "scalar_add", ["adds", a, k], ["sadd", k, a]
  yield "scalar_sub", ["ssub", k, a], ["neg", ["subs", a, k]]
  yield "diff_add", ["diff", ["add", a, b], 1], ["add", ["diff", a, 1], ["diff", b, 1]]
  yield "diff_scale", ["diff", ["smul", k, a], 1], ["smul", k, ["diff", a, 1]]
  yield "diff_product", ["diff", ["mul", a, b], 1], ["add", ["mul", ["diff", a, 1], b], ["mul", a, ["diff", b, 1]]]
  yield "diff_twice", ["diff", a, 2], ["diff", ["diff", a, 1], 1]


def gen_pair(tier, rng):
  rounds = 24 if tier == "quick" else 280
  for i in range(rounds):
    r = rng.random()
    tyl = "q" if r < 0.6 else rng.choice(["int", "float", "frac"])
    tyr = rng.choice(["q", tyl, tyl])
    mk = lambda mt=4: ["pairs", rand_pairs(rng, tyl, -3, 4, maxterms=mt, dups=rng.random() < 0.3)]
    a, b, c3 = mk(), mk(), mk(3)
    if rng.random() < 0.3 and tyl != "float":
      a = rand_expr(rng, 1, tyl, SAFE_OPS, -2, 3, negpow=False)
    k = fr(rng.choice(pool_for(tyl)))
    n = rng.randrange(0, 6) if (i % 2 and tyl != "float") else rng.randrange(0, 4)
    if i % 4 == 3 and tyl != "float":
      # class (f): exponents well beyond the first few (a two-term base keeps the products small)
      a = ["pairs", rand_pairs(rng, tyl, -2, 3, maxterms=2, dups=False, minterms=1)]
      n = rng.randrange(6, 13) if len(a[1]) == 2 else rng.randrange(6, 21)
    for name, lhs, rhs in laws(rng, a, b, c3, k, n):
      yield {"lhs": lhs, "rhs": rhs, "must": True, "tyl": tyl, "tyr": tyr, "tags": ["law", name, "ty=%s/%s" % (tyl, tyr)]}
    # calculus / division laws needing exact division: rational types only
    if tyl in ("q", "frac") and tyr in ("q", "frac"):
      a1 = ["pairs", [kc for kc in rand_pairs(rng, tyl, -4, 5, maxterms=5) if kc[0] != -1]]
      yield {"lhs": ["diff", ["int", a1], 1], "rhs": ["copy", a1], "must": True, "tyl": tyl, "tyr": tyr,
             "tags": ["law", "diff_integrate"]}
      mono = ["pairs", [[rng.randrange(-3, 4), k]]]
      yield {"lhs": ["mul", ["divp", a, mono], mono], "rhs": ["pos", a], "must": True, "tyl": tyl, "tyr": tyr,
             "tags": ["law", "div_mono"]}
      yield {"lhs": ["muls", ["divs", a1, k], k], "rhs": ["pos", a1], "must": True, "tyl": tyl, "tyr": tyr,
             "tags": ["law", "div_scalar"]}
      yield {"lhs": ["pow", ["pairs", [[2, k]]], -n], "rhs": ["divp", ["const", [1, 1]], ["pow", ["pairs", [[2, k]]], n]],
             "must": True, "tyl": tyl, "tyr": tyr, "tags": ["law", "mono_negpow"]}
  # equal polynomials along different paths / orders / coefficient types; near misses
  n = 350 if tier == "quick" else 5000
  for i in range(n):
    tyl = rng.choice(["q", "int", "float", "frac"])
    tyr = rng.choice(["q", "int", "float", "frac"])
    pool = INTS if "int" in (tyl, tyr) else DYADIC if "float" in (tyl, tyr) else COEFS
    ks = rng.sample(range(-4, 7), rng.randrange(0, 6))
    base = [[k, fr(rng.choice(pool))] for k in ks]
    other = list(base)
    rng.shuffle(other)
    kind = rng.choice(["same", "same", "coef", "key", "drop", "extra", "zero", "rand"])
    must = kind in ("same", "zero")
    if kind == "coef" and other:
      j = rng.randrange(len(other)); other[j] = [other[j][0], fr(Fraction(*other[j][1]) + rng.choice([1, -1, Fraction(1, 2)]))]
    elif kind == "key" and other:
      j = rng.randrange(len(other)); nk = rng.choice([k for k in range(-5, 8) if k not in ks]); other[j] = [nk, other[j][1]]
    elif kind == "drop" and other:
      other.pop(rng.randrange(len(other)))
    elif kind == "extra":
      other.append([rng.choice([k for k in range(-5, 8) if k not in ks]), fr(rng.choice(pool))])
    elif kind == "zero":
      other.insert(rng.randrange(len(other) + 1), [rng.choice([k for k in range(-5, 8) if k not in ks]), [0, 1]])
    elif kind == "rand":
      other = rand_pairs(rng, "q", maxterms=3)
    if kind in ("coef", "key", "drop") and not base:
      must = True
    if kind == "coef" and tyr in ("int", "float"):
      tyr = "q"
    lhs, rhs = ["pairs", base], ["pairs", other]
    if kind == "same" and rng.random() < 0.5:
      # sum of monomials in another order
      rhs = ["none"]
      for k, c in other:
        rhs = ["add", rhs, ["muls", ["pow", ["x"], k], c]]
    yield {"lhs": lhs, "rhs": rhs, "must": must, "tyl": tyl, "tyr": tyr, "tags": ["eqhash", kind, "ty=%s/%s" % (tyl, tyr)]}


def nontrivial_pair(c, o):
  return o.get("l", ["raise"])[0] == "ok" and o.get("r", ["raise"])[0] == "ok" and \
         max(len(o["l"][1]), len(o["r"][1])) >= 2


def gen_eval(tier, rng):
  n = 550 if tier == "quick" else 7000
  edge = [(["pairs", [[-1, [1, 1]]]], ["x"], [0, 1]), (["pairs", [[7, [1, 1]], [6, [1, 1]], [0, [4, 1]]]], ["x"], [2, 1]),
          (["none"], ["none"], [3, 1]), (["pairs", [[-1, [1, 1]]]], ["add", ["x"], ["const", [1, 1]]], [2, 1]),
          (["pairs", [[2, [1, 1]], [1, [2, 1]], [0, [1, 1]]]], ["pairs", [[-1, [1, 2]], [1, [1, 1]]]], [1, 2]),
          (["pairs", [[-2, [1, 1]], [3, [2, 1]]]], ["pairs", [[-2, [3, 1]]]], [-2, 3]),
          (["pairs", [[2, [1, 1]]]], ["sub", ["x"], ["const", [1, 1]]], [1, 1])]
  for p, qq, v in edge:
    yield {"p": p, "q": qq, "v": v, "ty": "q", "tags": ["edge"]}
  for i in range(n):
    shape = rng.choice(["poly", "poly", "laurent", "laurent", "mono_q", "expr"])
    if shape == "poly":
      p = ["pairs", rand_pairs(rng, "q", 0, 6, dups=False)]
      qq = ["pairs", rand_pairs(rng, "q", 0, 4, maxterms=4, dups=False)]
      if i % 5 == 0:   # compositions needing powers of q well beyond 5
        p = ["pairs", rand_pairs(rng, "q", 6, 14, maxterms=3, dups=False, minterms=1)]
        qq = ["pairs", rand_pairs(rng, "q", -1, 2, maxterms=2, dups=False, minterms=1)]
    elif shape == "laurent":
      p = ["pairs", rand_pairs(rng, "q", -4, 6)]
      qq = ["pairs", rand_pairs(rng, "q", -3, 4, maxterms=4)]
      if rng.random() < 0.5:
        p = ["pairs", rand_pairs(rng, "q", 0, 5)]
    elif shape == "mono_q":
      p = ["pairs", rand_pairs(rng, "q", -4, 5)]
      qq = ["pairs", rand_pairs(rng, "q", -3, 3, maxterms=1, zeros=False, minterms=1)]
    else:
      p = rand_expr(rng, 2, "q", SAFE_OPS, -2, 3, negpow=False)
      qq = rand_expr(rng, 1, "q", SAFE_OPS, -2, 3, negpow=False)
    v = fr(rng.choice(POINTS + [Fraction(rng.randrange(-9, 10), rng.choice([1, 2, 3, 5]))]))
    if i % 12 == 7:
      v = fr(rng.choice(SCALE_POINTS))  # a hair away from the x = 0 shortcut, far-out points
    yield {"p": p, "q": qq, "v": v, "ty": "q", "tags": ["random", shape, "v=0" if v[0] == 0 else "v!=0"]}


def nontrivial_eval(c, o):
  return c["v"][0] != 0 and o.get("pt", ["raise"])[0] == "ok" and len(o["pt"][1]) >= 2 and "ca" in o


def gen_lagr(tier, rng):
  yield {"pts": [], "v": [1, 1], "tags": ["empty"]}
  xs = [Fraction(0), Fraction(1), Fraction(-1), Fraction(1, 2)] if tier == "quick" else \
       [Fraction(0), Fraction(1), Fraction(-1), Fraction(1, 2), Fraction(3)]
  ys = [Fraction(0), Fraction(2), Fraction(-1, 3)]
  # exhaustive: every sequence of 1..3 abscissae from xs (repeats included), ordinates by position
  for npts in (1, 2, 3):
    for xsel in itertools.product(xs, repeat=npts):
      for shift in range(len(ys) if npts < 3 else 1):
        pts = [[fr(xj), fr(ys[(j + shift + (1 if xj == 1 else 0)) % len(ys)])] for j, xj in enumerate(xsel)]
        yield {"pts": pts, "v": fr(Fraction(5, 3)), "tags": ["exh", "n=%d" % npts, "distinct" if len(set(xsel)) == npts else "repeated"]}
  n = 200 if tier == "quick" else 2500
  for i in range(n):
    npts = rng.randrange(1, 6)
    if rng.random() < 0.85:
      xsel = rng.sample([Fraction(a, b) for a in range(-6, 7) for b in (1, 2, 3) if Fraction(a, b).denominator == b or b == 1], npts)
      tag = "distinct"
    else:
      xsel = [Fraction(rng.randrange(-2, 3)) for _ in range(npts)]
      tag = "distinct" if len(set(xsel)) == npts else "repeated"
    pts = [[fr(xj), fr(Fraction(rng.randrange(-9, 10), rng.choice([1, 2, 3])))] for xj in xsel]
    v = fr(rng.choice(POINTS + [Fraction(rng.randrange(-9, 10), rng.choice([1, 2, 3, 5]))]))
    yield {"pts": pts, "v": v, "tags": ["random", "n=%d" % npts, tag]}


def nontrivial_lagr(c, o):
  xs = [tuple(a) for a, _ in c["pts"]]
  return len(xs) >= 2 and len(set(xs)) == len(xs)


# Finding C07-pow-unit-coef-int (fixed by 6609ca4): its witness lives in corpus/C07/ and must pass.
# Domain rule, decided from the INPUT types only: in the exact palettes ("q", "frac") every leaf coefficient,
# scalar and x itself is an ExactQ / Fraction, so no Python int ever reaches a true division except the constant 1
# of p ** 0 (power 0, divided by 0 + 1 = 1 in integrate: exact).  The "int" and "float" palettes never divide.
def known(c, o):
  return None


# ----------------------------------------------------------------------------- lagh: histories of lagrange calls
# class (a): state surviving between calls.  2-4 interpolators are built in ONE process on the same abscissa VALUES
# given in different numeric types (float / Fraction / ExactQ), orders and with different ordinates; every call
# must equal the per-call model.  Plain Fractions are used as the exact type here on purpose: ExactQ absorbs a
# float operand exactly and would hide a float that leaked in from an earlier call.
P2_GRIDS = [[0, 1, 2], [0, 2, 4], [-1, 0, 1], [0, Fraction(1, 2), 1], [1, 2, 3], [0, 1], [0, 2], [-1, 1], [0, 4],
            [1, 3], [2, 4, 6], [Fraction(-1, 2), 0, Fraction(1, 2)], [3], [0]]
ANY_GRIDS = [[0, 1, 3], [0, 1, 2, 3], [-2, 1, 5], [Fraction(1, 3), 1, 2], [0, 3], [1, 2, 4, 7], [0, 1, 2, 3, 4]]
YS_EXACT = [Fraction(1, 3), Fraction(-2, 7), Fraction(5, 11), Fraction(2), Fraction(-1, 6), Fraction(0), Fraction(7, 9)]
YS_DYADIC = [Fraction(1, 4), Fraction(-3, 2), Fraction(17, 8), Fraction(2), Fraction(-1), Fraction(0)]


def typed(frl, ty):
  f = Fraction(frl[0], frl[1])
  if ty == "float":
    return float(f)
  if ty == "frac":
    return f
  if ty == "int" and f.denominator == 1:
    return int(f)
  return ExactQ(f)


def lagr_obs(pts, v):
  import audiolazy
  o = {"fv": safe(lambda: qv(audiolazy.lagrange.func(pts)(v))),
       "poly": safe(lambda: terms_of(audiolazy.lagrange.poly(pts))),
       "pv": safe(lambda: qv(audiolazy.lagrange.poly(pts)(v))), "fx": [], "px": []}
  if pts:
    f = audiolazy.lagrange.func(pts)
    pl = audiolazy.lagrange.poly(pts)
    o["fx"] = [qv(f(xj)) for xj, _ in pts]
    o["px"] = [qv(pl(xj)) for xj, _ in pts]
  return o


def run_lagh(c):
  outs = []
  for call in c["calls"]:
    pts = [(typed(a, call["xty"]), typed(b, call["yty"])) for a, b in call["pts"]]
    v = typed(call["v"], call["vty"])
    if call.get("iter"):          # argument kind: a one-shot iterator of pairs instead of a list
      o = lagr_obs_iter(pts, v)
    else:
      o = lagr_obs(pts, v)
    outs.append(o if call["observe"] else None)
  return {"calls": outs}


def lagr_obs_iter(pts, v):
  import audiolazy
  o = {"fv": safe(lambda: qv(audiolazy.lagrange.func(iter(pts))(v))),
       "poly": safe(lambda: terms_of(audiolazy.lagrange.poly(tuple(pts)))),
       "pv": safe(lambda: qv(audiolazy.lagrange.poly(p for p in pts)(v))), "fx": [], "px": []}
  if pts:
    f = audiolazy.lagrange.func(iter(pts))
    pl = audiolazy.lagrange.poly(iter(pts))
    o["fx"] = [qv(f(xj)) for xj, _ in pts]
    o["px"] = [qv(pl(xj)) for xj, _ in pts]
  return o


def lit_lagh(c, o):
  calls = o.get("calls") or [None] * len(c["calls"])
  lits = []
  for call, oc in zip(c["calls"], calls):
    if not call["observe"]:
      continue
    lits.append(lit_lagr({"pts": call["pts"], "v": call["v"]}, oc or {}))
  return "(LH %s)" % L.lst(lits)


def gen_lagh(tier, rng):
  n = 220 if tier == "quick" else 2600
  for i in range(n):
    floatable = rng.random() < 0.7
    grid = [Fraction(g) for g in rng.choice(P2_GRIDS if floatable else ANY_GRIDS)]
    ncalls = rng.randrange(2, 5)
    calls = []
    for j in range(ncalls):
      g = list(grid)
      if rng.random() < 0.25:
        rng.shuffle(g)
      r = rng.random()
      xty = "float" if r < 0.4 else "frac" if r < 0.8 else "q"
      if j == 0 and i % 2 == 0:
        xty = "float"               # a float interpolator first, exact ones on the same abscissae afterwards
      elif j > 0 and i % 2 == 0 and rng.random() < 0.7:
        xty = "frac"
      observe = True
      if xty == "float":
        yty = rng.choice(["float", "float", "frac"])
        ys = [rng.choice(YS_DYADIC) for _ in g]
        if not floatable:
          observe = False           # float arithmetic is not exact on this grid: run for its side effects only
        vty = "float" if rng.random() < 0.5 else "frac"
        v = rng.choice([Fraction(1, 2), Fraction(3), Fraction(-5, 4), Fraction(0), Fraction(7, 8)])
      else:
        yty = rng.choice(["frac", "frac", "q"])
        ys = [rng.choice(YS_EXACT) for _ in g]
        vty = rng.choice(["frac", "q"])
        v = rng.choice([Fraction(7, 5), Fraction(0), Fraction(-2, 3), Fraction(3), Fraction(1, 2)])
      calls.append({"pts": [[fr(a), fr(b)] for a, b in zip(g, ys)], "xty": xty, "yty": yty, "v": fr(v), "vty": vty,
                    "observe": observe, "iter": rng.random() < 0.15})
    if not any(cl["observe"] for cl in calls):
      calls[-1]["observe"] = True; calls[-1]["xty"] = "frac"; calls[-1]["yty"] = "frac"; calls[-1]["vty"] = "frac"
      calls[-1]["pts"] = [[p[0], fr(rng.choice(YS_EXACT))] for p in calls[-1]["pts"]]
    kinds = "".join(cl["xty"][0] for cl in calls)
    yield {"calls": calls, "tags": ["hist", "types=" + kinds, "floatable" if floatable else "anygrid"]}


def nontrivial_lagh(c, o):
  tys = set(cl["xty"] for cl in c["calls"])
  return len(tys) >= 2 and len(c["calls"][0]["pts"]) >= 2

IMPORTS = "From AL Require Import C07.Model C07.Spec C07.Check."
FAMILIES_BASE = {
  "expr": Family("expr", IMPORTS, "ecase", "corr_expr", "holds_expr", with_zk(gen_expr, ["zk"], 0.3), run_expr, lit_expr, nontrivial_expr, known),
  "pair": Family("pair", IMPORTS, "pcase", "corr_pair", "holds_pair", with_zk(gen_pair, ["zkl", "zkr"], 0.5), run_pair, lit_pair, nontrivial_pair, known),
  "eval": Family("eval", IMPORTS, "vcase", "corr_eval", "holds_eval", with_zk(gen_eval, ["zk"], 0.3), run_eval, lit_eval, nontrivial_eval, known),
  "lagr": Family("lagr", IMPORTS, "lcase", "corr_lagr", "holds_lagr", gen_lagr, run_lagr, lit_lagr, nontrivial_lagr, known),
}
FAMILIES = dict(FAMILIES_BASE)
FAMILIES["lagh"] = Family("lagh", IMPORTS, "lhcase", "corr_lagh", "holds_lagh", gen_lagh, run_lagh, lit_lagh, nontrivial_lagh, known)
import C07_hist as _HH
FAMILIES["hist"] = Family("hist", IMPORTS, "hcase", "corr_hist", "holds_hist", _HH.gen_hist, _HH.run_hist, _HH.lit_hist,
                          _HH.nontrivial_hist, known)
