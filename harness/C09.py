# -*- coding: utf-8 -*-
"""C09 - overlap_add.list and the stft wrapper against Model/Spec of coq/theories/C09."""
import itertools, math, json
from fractions import Fraction
from vlib.framework import Family
from vlib import coqlit as L
from vlib.exactq import ExactQ, to_frac

PID = "C09"
PROP_FILES = ["Prop"]
ALLOWED_AXIOMS = []
EXTRA_COQ_DIRS = ["C08"]
RULE = ("ola: every (number of blocks m, size, hop<=size) in a grid x window kind (none, list, tuple, generator, Stream, "
        "callable returning list/generator, given by a table so that the argument it is called with matters) x normalize, "
        "exact rational samples and windows (negative and zero entries), size/hop given or defaulted/detected, block "
        "containers list/generator/Stream, plus a malformed stream (block too short/long at position j, unusable or "
        "wrong-length windows, empty window, all-zero window); non-trivial = at least two blocks that overlap (hop < size) "
        "with a window or normalisation. stft: keyword layers in decorator / partial / direct style with overrides, "
        "ola_* routing observed through a recording overlap-add, unknown keys, ola=None, hop>size, missing size; "
        "pure-Python stages (None or small list functions, the 2-argument ones depend on size); end-to-end through "
        "overlap_add.list; non-trivial = at least two blocks and at least one stage or window or ola_ option.")
EXHAUSTIVE = {"quick": False, "thorough": False}
trusted_base = [
  "samples and window values are exact rationals (ExactQ absorbs the library's float constants 0., 0.0 pad and 1/ceil(size/hop) exactly)",
  "the float constant 1/ceil(size/hop) is a parameter gc of the model; the harness supplies Fraction(1.0/ceil(size/hop)) and Coq "
  "checks that it equals float_recip (ceil_div size hop), an integer model of IEEE-754 round-to-nearest division (Spec.v)",
  "window callables are finite tables (value at the size used + other sizes + default); stage functions come from an 8-element "
  "language of list functions (theorems quantify over all functions, the tie over these)",
  "observations of blocks are snapshots taken when the block is yielded (blocks/blk_gen reuse one container)",
]
ASSUMPTIONS = ["CPython semantics of map/zip truncation, slice assignment from an iterator, dict insertion order and **kwargs",
               "1 <= hop <= size for overlap_add (the stft wrapper enforces hop <= size itself); size < 2^53"]


def fr(x):
  x = Fraction(x)
  return [x.numerator, x.denominator]


def unfr(p):
  return Fraction(p[0], p[1])


def q(p):
  return "(qc (%d) %d)" % (p[0], p[1])


def qlist(ps):
  return L.lst([q(p) for p in ps])


def gconst(size, hop):
  """The library's float expression 1 / ceil(size / hop), exactly."""
  try:
    return fr(Fraction(1 / math.ceil(size / hop)))
  except Exception:
    return [1, 1]


# ---------------------------------------------------------------------------- windows
def wvals(n, a, b):
  """deterministic rational window with negative and zero entries"""
  return [fr(Fraction(((i * 7 + a * 3 + b) % 11) - 4, (i + a) % 3 + 1)) for i in range(n)]


def cola_window(size, hop):
  """a window whose hop-shifted copies sum to one: w[j] = c[j % hop] weights splitting 1 over the j = p mod hop"""
  w = [None] * size
  for p in range(hop):
    idx = list(range(p, size, hop))
    parts = [Fraction(i + 1 + p, 1) for i in range(len(idx))]
    if len(parts) > 1:
      parts[0] = -parts[0]                     # negative entries allowed as long as the sum is one
    tot = sum(parts)
    if tot == 0:
      parts[-1] += 1; tot = sum(parts)
    for i, j in enumerate(idx):
      w[j] = parts[i] / tot
  return [fr(x) for x in w]


def wres_lit(r):
  if r[0] == "list":
    return "(RList %s)" % qlist(r[1])
  return {"none": "RNone", "bad": "RBad"}[r[0]]


def wres_py(r, flavour):
  if r[0] == "list":
    vals = [ExactQ(unfr(p)) for p in r[1]]
    return vals if flavour % 2 == 0 else (v for v in vals)
  return None if r[0] == "none" else 7


def wdesc_lit(w):
  """w: ["iter", kind, vals] | ["call", [[n, wres]...], wres] | ["bad"]"""
  if w[0] == "iter":
    return "(DIter %s)" % qlist(w[2])
  if w[0] == "call":
    return "(DCall %s %s)" % (L.lst(["(%s, %s)" % (L.nat(n), wres_lit(r)) for n, r in w[1]]), wres_lit(w[2]))
  if w[0] == "memo":                       # memoised callable: the same list object whatever the size
    return "(DCall [] (RList %s))" % qlist(w[1])
  return "DBad"


def wndarg_lit(w):
  if w is None:
    return "WNone"
  if w[0] == "iter":
    return "(WIter %s)" % qlist(w[2])
  if w[0] == "call":
    return "(WCall (tblfun %s %s))" % (L.lst(["(%s, %s)" % (L.nat(n), wres_lit(r)) for n, r in w[1]]), wres_lit(w[2]))
  return "WBad"


def wnd_py(w, flavour=0):
  import audiolazy
  if w is None:
    return None
  if w[0] == "iter":
    vals = [ExactQ(unfr(p)) for p in w[2]]
    kind = w[1]
    if kind == "list": return vals
    if kind == "tuple": return tuple(vals)
    if kind == "gen": return (v for v in vals)
    if kind == "stream": return audiolazy.Stream(vals)
    raise ValueError(kind)
  if w[0] == "call":
    table = {n: r for n, r in w[1]}
    dflt = w[2]
    g = lambda n: wres_py(table.get(n, dflt), flavour + n)
    if flavour % 7 == 6:                   # a callable window object whose truth value is False
      return falsy_callable(None, g, flavour)
    return as_kind(g, flavour)             # def / lambda / partial / bound method / object with __call__
  return 5


def mk_window(kind, size, a, b, vals=None):
  vals = vals if vals is not None else wvals(size, a, b)
  if kind == "none":
    return None
  if kind in ("list", "tuple", "gen", "stream"):
    return ["iter", kind, vals]
  if kind == "call":
    return ["call", [[size + 1, ["list", wvals(size + 1, b, a)]], [size, ["list", vals]],
                     [max(size - 1, 0), ["bad"]]], ["none"]]
  raise ValueError(kind)


# ---------------------------------------------------------------------------- overlap_add.list
def mk_blocks(m, size, rng, shift=0):
  return [[fr(Fraction(rng.randrange(-9, 10), rng.choice([1, 1, 2, 3]))) for _ in range(size)] for _ in range(m)]


def ola_case(size, hop, w, norm, blks, tags, size_given=True, hop_given=True, cont="list"):
  eff_size = size if size_given else (len(blks[0]) if blks else None)
  eff_hop = hop if hop_given else eff_size
  gc = gconst(eff_size, eff_hop) if eff_size and eff_hop else [1, 1]
  return {"size": size if size_given else None, "hop": hop if hop_given else None, "wnd": w, "norm": norm,
          "blks": blks, "gc": gc, "cont": cont, "tags": tags}


WKINDS = ["none", "list", "call", "gen", "tuple", "stream"]


def gen_ola(tier, rng):
  mmax, smax = (5, 6) if tier == "quick" else (7, 9)
  n = 0
  for m in range(0, mmax + 1):
    for size in range(1, smax + 1):
      for hop in range(1, size + 1):
        for wk in WKINDS:
          if wk in ("tuple", "stream") and (m + size + hop) % 3 and tier == "quick":
            continue
          for norm in (True, False):
            n += 1
            w = mk_window(wk, size, m + hop, n)
            cont = ["list", "gen", "stream", "tuples"][n % 4]
            # size / hop given explicitly most of the time; detection and default otherwise
            sg = not (m > 0 and n % 5 == 0)
            hg = not (hop == size and n % 3 == 0)
            if not sg and cont == "gen":
              cont = "list"
            yield ola_case(size, hop, w, norm, mk_blocks(m, size, rng), ["grid", "wnd=" + wk, "norm" if norm else "raw",
                           "size-detected" if not sg else "size-given", "m=%d" % min(m, 3)], sg, hg, cont)
  # windows whose hop-shifted copies sum to one, no normalisation (the reconstruction setting)
  for size in range(1, smax + 1):
    for hop in range(1, size + 1):
      for m in (1, 3, 4):
        w = mk_window(["list", "call", "gen"][(size + hop + m) % 3], size, 0, 0, cola_window(size, hop))
        yield ola_case(size, hop, w, bool((size + m) % 2), mk_blocks(m, size, rng), ["cola"])
  # malformed stream
  for size in range(1, 6):
    for hop in range(1, size + 1):
      for m in (1, 2, 4):
        for j in sorted(set([0, m - 1, m // 2])):
          for delta in (-size, -2, -1, 1, 2):
            if size + delta < 0 or (delta == -size and size < 3):
              continue
            if tier == "quick" and rng.random() < 0.5:
              continue
            blks = mk_blocks(m, size, rng)
            blks[j] = blks[j][:size + delta] if delta < 0 else blks[j] + mk_blocks(1, delta, rng)[0]
            wk = rng.choice(["none", "list", "call"])
            yield ola_case(size, hop, mk_window(wk, size, j, delta), rng.random() < 0.5, blks,
                           ["badblock", "short" if delta < 0 else "long"])
      blks = mk_blocks(2, size, rng)
      bad = [["bad"], ["iter", "list", wvals(size + 1, 1, 2)], ["iter", "list", wvals(size - 1, 1, 2)],
             ["iter", "gen", []], ["iter", "list", [[0, 1]] * size], ["iter", "tuple", [[0, 1]] * (size + 1)],
             ["call", [], ["bad"]], ["call", [], ["none"]], ["call", [[size, ["list", wvals(size + 2, 0, 1)]]], ["bad"]],
             ["call", [[size, ["list", []]]], ["bad"]]]
      for w in bad:
        for norm in (True, False):
          yield ola_case(size, hop, w, norm, blks, ["badwnd"])
  # nothing to detect the size from (observation outside the property)
  yield ola_case(3, 2, None, True, [], ["empty-nosize"], size_given=False)
  yield ola_case(3, 3, ["iter", "list", wvals(3, 0, 0)], False, [], ["empty-nosize"], size_given=False, hop_given=False)
  if tier != "quick":
    for _ in range(6000):
      size = rng.randrange(1, 17); hop = rng.randrange(1, size + 1); m = rng.randrange(0, 9)
      wk = rng.choice(WKINDS)
      yield ola_case(size, hop, mk_window(wk, size, rng.randrange(50), rng.randrange(50)), rng.random() < 0.5,
                     mk_blocks(m, size, rng), ["random", "wnd=" + wk], rng.random() < 0.8 or m == 0, rng.random() < 0.8,
                     rng.choice(["list", "stream", "tuples"]))


def blocks_py(blks, cont):
  import audiolazy
  data = [[ExactQ(unfr(p)) for p in b] for b in blks]
  if cont == "list": return data
  if cont == "gen": return (b for b in data)
  if cont == "stream": return audiolazy.Stream(data)
  if cont == "tuples": return [tuple(b) for b in data]
  raise ValueError(cont)


def drain(it, limit=5000):
  out = []
  try:
    for v in it:
      out.append(fr(to_frac(v)))
      if len(out) > limit:
        return out, "TooManyItems"
  except Exception as e:
    return out, type(e).__name__
  return out, None


def run_ola(c):
  import audiolazy
  kw = {"normalize": c["norm"]}
  if c["size"] is not None: kw["size"] = c["size"]
  if c["hop"] is not None: kw["hop"] = c["hop"]
  if c["wnd"] is not None: kw["wnd"] = wnd_py(c["wnd"], len(c["blks"]))
  try:
    g = audiolazy.overlap_add.list(blocks_py(c["blks"], c["cont"]), **kw)
  except Exception as e:
    return {"out": [], "exn": type(e).__name__}
  out, exn = drain(g)
  return {"out": out, "exn": exn}


def ostr(s):
  return L.option(s, L.string)


def lit_ola(c, o):
  return "(OC %s %s %s %s %s %s %s %s)" % (
    L.option(c["size"], L.nat), L.option(c["hop"], L.nat), wndarg_lit(c["wnd"]), L.boolean(c["norm"]), q(c["gc"]),
    L.lst([qlist(b) for b in c["blks"]]), qlist(o.get("out", [])), ostr(o.get("exn", o.get("raise"))))


def nontrivial_ola(c, o):
  size = c["size"] or (len(c["blks"][0]) if c["blks"] else 0)
  hop = c["hop"] or size
  return len(c["blks"]) >= 2 and hop < size and o.get("exn") is None and (c["wnd"] is not None or c["norm"])


# ---------------------------------------------------------------------------- stft
FCODES = ["id", "rev", ["scale", [3, 2]], "sq", "mulsize", "addsize", "droplast", "ramp"]


def is_falsy_code(f):
  return isinstance(f, list) and f[0] == "falsy"


def fcode_lit(f):
  if is_falsy_code(f):
    return "(FFalsy %s)" % fcode_lit(f[1])
  if isinstance(f, list):
    return "(FScale %s)" % q(f[1])
  return {"id": "FId", "rev": "FRev", "sq": "FSq", "mulsize": "FMulSize", "addsize": "FAddSize",
          "droplast": "FDropLast", "ramp": "FRamp", "zero": "FZero"}[f]


def base1(f):
  if is_falsy_code(f):
    return base1(f[1])
  if isinstance(f, list):
    k = ExactQ(unfr(f[1]))
    return lambda b: [k * x for x in b]
  return {"id": lambda b: b, "mulsize": lambda b: b, "addsize": lambda b: b,
          "rev": lambda b: list(b)[::-1], "sq": lambda b: [x * x for x in b],
          "droplast": lambda b: list(b)[:-1], "zero": lambda b: [0 * x for x in b],
          "ramp": lambda b: [x + i for i, x in enumerate(b)]}[f]


def base2(f):
  if is_falsy_code(f):
    return base2(f[1])
  if f == "mulsize": return lambda b, n: [x * n for x in b]
  if f == "addsize": return lambda b, n: [x + n for x in b]
  g = base1(f)
  return lambda b, n: g(b)


class _Holder(object):
  def __init__(self, g): self.g = g
  def meth(self, *a): return self.g(*a)


class _CallObj(object):
  def __init__(self, g): self.g = g
  def __call__(self, *a): return self.g(*a)


def _falsy_classes():
  class EmptyList(list):                   # like an empty ParallelFilter / gain bank
    def __call__(self, *a): return self.g(*a)
  class EmptyDict(dict):
    def __call__(self, *a): return self.g(*a)
  class LenZero(object):
    def __len__(self): return 0
    def __call__(self, *a): return self.g(*a)
  class BoolFalse(object):
    def __bool__(self): return False
    def __call__(self, *a): return self.g(*a)
  return [EmptyList, EmptyDict, LenZero, BoolFalse]


def as_kind(g, kind):
  """The same function as a def / lambda / functools.partial / bound method / object with __call__."""
  import functools
  kind = kind % 5
  if kind == 0: return g
  if kind == 1: return lambda *a: g(*a)
  if kind == 2: return functools.partial(lambda tag, *a: g(*a), "tag")
  if kind == 3: return _Holder(g).meth
  return _CallObj(g)


def falsy_callable(f, g, kind):
  """A callable OBJECT with truth value False computing g (real library objects where they compute it)."""
  import audiolazy
  if f == "zero" and kind % 2 == 0:
    class ExactParallel(audiolazy.ParallelFilter):     # a real empty ParallelFilter; its float zeros made exact again
      def __call__(self, seq, *a):
        return [ExactQ(v) for v in audiolazy.ParallelFilter.__call__(self, seq)]
    return ExactParallel()
  if f == "id" and kind % 2 == 0: return audiolazy.CascadeFilter()
  o = _falsy_classes()[kind % 4]()
  o.g = g
  assert callable(o) and not o
  return o


def f1_py(f, kind=0):
  if is_falsy_code(f):
    return falsy_callable(f[1], base1(f), kind)
  return as_kind(base1(f), kind)


def f2_py(f, kind=0):
  if is_falsy_code(f):
    g1, g2 = base1(f), base2(f)            # called with the block only when the library drops the size
    return falsy_callable(f[1], lambda b, n=None: g1(b) if n is None else g2(b, n), kind)
  return as_kind(base2(f), kind)


def val_lit(v):
  t = v[0]
  if t == "none": return "cNone"
  if t == "nat": return "(cNat %s)" % L.nat(v[1])
  if t == "bool": return "(cBool %s)" % L.boolean(v[1])
  if t == "wnd": return "(cWnd %s)" % wdesc_lit(v[1])
  if t == "fun": return "(cFun %s)" % fcode_lit(v[1])
  if t == "ola": return "(cOla OlaList)" if v[1] == "list" else "(cOla (OlaUser %s))" % L.nat(v[1][1])
  if t == "opaque": return "(cOpq %s)" % L.nat(v[1])
  raise ValueError(v)


def kwl_lit(d):
  return L.lst(["(kv %s %s)" % (L.string(k), val_lit(v)) for k, v in d])


class Opaque(object):
  def __init__(self, i): self.i = i


class StftRun(object):
  """Builds the Python objects of one case and maps what the overlap-add received back to case values."""
  def __init__(self):
    self.back = {}      # id(obj) -> val json
    self.keep = []
    self.user_log = []
    self.list_called = False
    self.memo = {}

  def obj(self, key, v, salt):
    import audiolazy
    t = v[0]
    if t == "none": return None
    if t == "nat": return int(v[1])
    if t == "bool": return bool(v[1])
    if t == "wnd" and v[1][0] == "memo":
      key = json.dumps(v[1])
      if key not in self.memo:
        store = [ExactQ(unfr(p)) for p in v[1][1]]
        self.memo[key] = (lambda size, store=store: store)
      o = self.memo[key]                   # one callable (and one list) shared by every keyword using it
    elif t == "wnd": o = wnd_py(v[1], salt)
    elif t == "fun": o = f2_py(v[1], salt) if key in ("transform", "inverse_transform") else f1_py(v[1], salt)
    elif t == "ola": o = self.list_proxy() if v[1] == "list" else self.recorder(v[1][1])
    elif t == "opaque": o = Opaque(v[1])
    else: raise ValueError(v)
    self.back[id(o)] = v
    self.keep.append(o)
    return o

  def unobj(self, o):
    if o is None: return ["none"]
    if isinstance(o, bool): return ["bool", o]
    if isinstance(o, int): return ["nat", o]
    return self.back.get(id(o), ["opaque", 999])

  def list_proxy(self):
    import audiolazy
    def proxy(blks, **kw):
      self.list_called = True
      return audiolazy.overlap_add.list(blks, **kw)
    return proxy

  def recorder(self, ident):
    def rec(blks, **kw):
      got, err = [], None
      try:
        for b in blks:
          got.append([fr(to_frac(x)) for x in b])
          if len(got) > 500:
            err = "TooManyItems"; break
      except Exception as e:
        err = type(e).__name__
      self.user_log.append({"id": ident, "params": [[k, self.unobj(x)] for k, x in kw.items()], "blocks": got, "exn": err})
      return iter(())
    return rec


def run_stft(c):
  import audiolazy
  R = StftRun()
  layers = [dict((k, R.obj(k, v, 3 * i + j + len(c["sig"]))) for j, (k, v) in enumerate(lay))
            for i, lay in enumerate(c["layers"])]
  func = f1_py(c["func"], len(c["sig"]) + len(c["layers"]))
  sig = [ExactQ(unfr(p)) for p in c["sig"]]
  if c["sigkind"] == "gen":
    sig = (x for x in sig)
  st = audiolazy.stft
  style = c["style"]
  try:
    if style == "direct":            # stft(f, **b)(sig, **c)
      assert len(layers) == 2
      proc = st(func, **layers[0])
    elif style == "partial":         # stft(**a1)(**a2)...(f, **b)(sig, **c)
      cur = st(**layers[0])
      for lay in layers[1:-2]:
        cur = cur(**lay)
      proc = cur(func, **layers[-2])
    else:                            # decorator: @stft(**a1)(**a2)... def f; the layer before the call is empty
      assert c["layers"][-2] == []
      cur = st(**layers[0])
      for lay in layers[1:-2]:
        cur = cur(**lay)
      proc = cur(func)
  except Exception as e:
    return {"kind": "build-raise", "exn": type(e).__name__}
  try:
    res = proc(sig, **layers[-1])
  except Exception as e:
    return {"kind": "call", "exn": type(e).__name__}
  if R.user_log:
    u = R.user_log[0]
    return {"kind": "user", "id": u["id"], "params": u["params"], "blocks": u["blocks"], "exn": u["exn"],
            "calls": len(R.user_log)}
  if R.list_called:
    out, exn = drain(res)
    return {"kind": "samples", "out": out, "exn": exn}
  got, err = [], None
  try:
    for b in res:
      got.append([fr(to_frac(x)) for x in b])      # snapshot at yield time
      if len(got) > 500:
        err = "TooManyItems"; break
  except Exception as e:
    err = type(e).__name__
  return {"kind": "blocks", "blocks": got, "exn": err}


def lit_stft(c, o):
  k = o.get("kind")
  if k == "call":
    ob = "(OCallRaise %s)" % L.string(o["exn"])
  elif k == "blocks":
    ob = "(OBlocks %s %s)" % (L.lst([qlist(b) for b in o["blocks"]]), ostr(o["exn"]))
  elif k == "user":
    ob = "(OUser %s %s %s %s)" % (L.nat(o["id"]), kwl_lit(o["params"]), L.lst([qlist(b) for b in o["blocks"]]), ostr(o["exn"]))
  elif k == "samples":
    ob = "(OSamples %s %s)" % (qlist(o["out"]), ostr(o["exn"]))
  else:
    ob = "(OCallRaise %s)" % L.string("harness-" + str(o.get("exn", o.get("raise", "?"))))
  return "(SC %s %s %s %s %s)" % (q(c["gc"]), L.lst([kwl_lit(l) for l in c["layers"]]), fcode_lit(c["func"]),
                                   qlist(c["sig"]), ob)


NONE4 = [["transform", ["none"]], ["inverse_transform", ["none"]], ["before", ["none"]], ["after", ["none"]]]


def split_layers(rng, items, style):
  """Distributes keyword items over layers (every item in one layer), returns the layer list for the style."""
  nl = {"direct": 2, "partial": rng.choice([3, 3, 4]), "decorator": rng.choice([3, 4])}[style]
  layers = [[] for _ in range(nl)]
  free = [i for i in range(nl) if not (style == "decorator" and i == nl - 2)]
  for k, v in items:
    layers[rng.choice(free)].append([k, v])
  return layers


def add_overrides(rng, layers, style, junk):
  """Earlier layers get values that a later layer overrides."""
  nl = len(layers)
  for i in range(nl - 1, 0, -1):
    for k, v in list(layers[i]):
      if rng.random() < 0.35:
        earlier = [j for j in range(i) if not (style == "decorator" and j == nl - 2) and all(kk != k for kk, _ in layers[j])]
        if earlier:
          layers[rng.choice(earlier)].append([k, rng.choice(junk(k, v))])
  return layers


def junk_values(k, v):
  if k == "size": return [["nat", 1], ["nat", 2], ["nat", 9]]
  if k == "hop": return [["nat", 1], ["nat", 50]]
  if k in ("transform", "inverse_transform", "before", "after"): return [["fun", "sq"], ["fun", "rev"], ["none"]]
  if k == "wnd" or k == "ola_wnd": return [["none"], ["wnd", ["bad"]], ["wnd", ["iter", "list", [[2, 1]]]]]
  if k == "ola": return [["none"], ["ola", ["user", 7]], ["ola", "list"]]
  if k == "ola_normalize": return [["bool", True], ["bool", False]]
  return [["opaque", 41], ["nat", 3], ["none"]]


def stft_case(rng, style, items, func, sig, tags, overrides=True, gc=None, sigkind="list"):
  layers = split_layers(rng, items, style)
  if overrides:
    layers = add_overrides(rng, layers, style, junk_values)
  return {"style": style, "layers": layers, "func": func, "sig": sig, "gc": stft_gc(layers), "sigkind": sigkind,
          "tags": tags + ["style=" + style]}


def stft_gc(layers):
  """The float constant for the size / hop the overlap-add ends up with (only used to feed the model's gc)."""
  last = {}
  for lay in layers:
    for k, v in lay:
      last[k] = v
  def nat(v):
    return v[1] if v is not None and v[0] == "nat" else None
  size = nat(last.get("ola_size", last.get("size")))
  hop = nat(last.get("ola_hop", last.get("hop"))) or size
  return gconst(size, hop) if size and hop else [1, 1]


def mk_sig(n, rng):
  return [fr(Fraction(rng.randrange(-9, 10), rng.choice([1, 1, 2, 3]))) for _ in range(n)]


STYLES = ["direct", "partial", "decorator"]


def gen_stft(tier, rng):
  rep = 1 if tier == "quick" else 6
  n = 0
  # (A) the chain: window first, then before / transform / func / inverse / after; ola=None shows the blocks
  for _ in range(rep):
    for size in range(1, 6):
      for hop in [None] + list(range(1, size + 1)):
        for Ln in (0, 1, size, size + 1, 2 * size + 1, 9):
          for wk in ("absent", "none", "list", "call", "gen"):
            n += 1
            if tier == "quick" and (n % 3):
              continue
            style = STYLES[(n // 3) % 3]
            items = [["size", ["nat", size]], ["ola", ["none"]]]
            if hop is not None: items.append(["hop", ["nat", hop]])
            if wk == "none": items.append(["wnd", ["none"]])
            elif wk != "absent": items.append(["wnd", ["wnd", mk_window(wk, size, n, hop or 0)]])
            for name in ("transform", "inverse_transform", "before", "after"):
              r = rng.random()
              if r < 0.45: items.append([name, ["none"]])
              else:
                pool = (["mulsize", "addsize", "rev", "id", ["scale", [3, 2]], ["falsy", "mulsize"], ["falsy", "rev"]] if "transform" in name
                        else ["rev", "sq", "ramp", "id", ["scale", [-2, 3]], "zero", ["falsy", "zero"], ["falsy", "ramp"], ["falsy", "id"]])
                items.append([name, ["fun", rng.choice(pool)]])
            func = rng.choice(["id", "rev", "sq", "ramp", ["scale", [5, 2]], ["falsy", "zero"], ["falsy", "rev"], ["falsy", "sq"], "zero"])
            yield stft_case(rng, style, items, func, mk_sig(Ln, rng), ["chain", "wnd=" + wk, "falsy-func" if is_falsy_code(func) else "func"], sigkind=["list", "gen"][n % 2])
  # (B) routing, seen by a recording overlap-add
  extra_pool = [["ola_wnd", ["wnd", ["iter", "list", [[1, 2], [1, 3]]]]], ["ola_wnd", ["none"]], ["ola_normalize", ["bool", False]],
                ["ola_normalize", ["bool", True]], ["ola_size", ["nat", 7]], ["ola_hop", ["nat", 1]], ["ola_hop", ["none"]],
                ["ola_foo", ["opaque", 1]], ["ola_", ["opaque", 2]], ["ola_ola_x", ["nat", 4]], ["ola_before", ["fun", "sq"]],
                ["ola_ola", ["opaque", 3]], ["ola_transform", ["none"]]]
  bad_pool = [["foo", ["nat", 1]], ["Ola_wnd", ["none"]], ["ola", ["none"]], ["olawnd", ["none"]], ["sizes", ["nat", 3]],
              ["normalize", ["bool", False]], ["ola", ["ola", "list"]]]
  for _ in range(300 * rep):
    size = rng.randrange(1, 6)
    style = rng.choice(STYLES)
    items = [["size", ["nat", size]]] + [list(x) for x in NONE4]
    r = rng.random()
    tags = ["routing"]
    if r < 0.75:
      items.append(["ola", ["ola", ["user", rng.randrange(1, 4)]]])
    elif r < 0.9:
      items.append(["ola", ["none"]]); tags.append("ola=None")
    else:
      items.append(["ola", ["ola", "list"]]); tags.append("ola=list")
    hr = rng.random()
    if hr < 0.6: items.append(["hop", ["nat", rng.randrange(1, size + 1)]])
    elif hr < 0.7: items.append(["hop", ["nat", size + rng.randrange(1, 3)]]); tags.append("hop>size")
    elif hr < 0.75: items.append(["hop", ["none"]]); tags.append("hop=None")
    seen = set()
    for kv in rng.sample(extra_pool, rng.randrange(0, 5)):
      if kv[0] not in seen:
        seen.add(kv[0]); items.append(list(kv))
    if rng.random() < 0.2:
      kv = rng.choice(bad_pool)
      if kv[0] != "ola":
        items.append(list(kv)); tags.append("unknown-key")
      else:
        items = [it for it in items if it[0] != "ola"] + [list(kv)]
    if rng.random() < 0.07:
      items = [it for it in items if it[0] != "size"]; tags.append("no-size")
    if rng.random() < 0.3:
      items = [it for it in items if it[0] != "wnd"] + [["wnd", ["wnd", mk_window(rng.choice(["list", "call"]), size, 1, 2)]]]
    yield stft_case(rng, style, items, rng.choice(["id", "rev", "ramp", ["falsy", "ramp"]]), mk_sig(rng.randrange(0, 10), rng), tags,
                    gc=gconst(size, size))
  # (C) end to end through overlap_add.list
  for _ in range(rep):
    for size in range(1, 6):
      for hop in range(1, size + 1):
        for Ln in (0, 1, size, 2 * size + 1, 11):
          for mode in ("cola-ola", "cola-analysis", "plain", "normalized", "both", "shared"):
            n += 1
            if tier == "quick" and (n % 2):
              continue
            items = [["size", ["nat", size]], ["hop", ["nat", hop]], ["ola", ["ola", "list"]]] + [list(x) for x in NONE4]
            func = "id"
            cw = mk_window(["list", "call", "gen"][n % 3], size, 0, 0, cola_window(size, hop))
            if mode == "cola-ola":
              items += [["ola_wnd", ["wnd", cw]], ["ola_normalize", ["bool", False]]]
            elif mode == "cola-analysis":
              items += [["wnd", ["wnd", cw]], ["ola_normalize", ["bool", False]]]
            elif mode == "plain":
              items += [["ola_normalize", ["bool", False]]]
              func = rng.choice(["id", "rev", "sq", ["falsy", "zero"], ["falsy", "rev"], ["falsy", "id"]])
            elif mode == "normalized":
              if n % 2: items += [["ola_normalize", ["bool", True]]]
              func = rng.choice(["id", ["scale", [1, 3]]])
            elif mode == "shared":       # one memoised callable as analysis and synthesis window
              mw = ["wnd", ["memo", wvals(size, n, hop) if n % 4 else cola_window(size, hop)]]
              items += [["wnd", mw], ["ola_wnd", mw]]
              if n % 3 == 0: items += [["ola_normalize", ["bool", True]]]
              func = rng.choice(["id", "rev"])
            else:
              items += [["wnd", ["wnd", mk_window("list", size, n, 1)]], ["ola_wnd", ["wnd", mk_window("call", size, n, 2)]]]
              items = [it for it in items if it[0] != "before"] + [["before", ["fun", rng.choice(["rev", "droplast", "ramp"])]]]
            yield stft_case(rng, STYLES[n % 3], items, func, mk_sig(Ln, rng), ["end2end", mode], gc=gconst(size, hop))


def nontrivial_stft(c, o):
  nb = len(o.get("blocks", [])) if o.get("kind") in ("blocks", "user") else (2 if len(o.get("out", [])) > 3 else 0)
  keys = [k for lay in c["layers"] for k, v in lay if v != ["none"]]
  return nb >= 2 and o.get("exn") is None and any(k.startswith("ola_") or k in ("wnd", "transform", "before", "after", "inverse_transform") for k in keys)


# ---------------------------------------------------------------------------- histories sharing one window object
class SubList(list):
  pass


def gen_hist(tier, rng):
  """Sequences of overlap_add.list calls made with the same caller-side window object."""
  seqs = [[True, False], [False, True], [True, True, False], [False, True, False], [True]]
  smax = 5 if tier == "quick" else 8
  n = 0
  for size in range(1, smax + 1):
    for hop in range(1, size + 1):
      for kind in ("memo", "list", "sublist"):
        for norms in seqs:
          n += 1
          if tier == "quick" and kind != "memo" and n % 2:
            continue
          wv = cola_window(size, hop) if n % 3 == 0 else wvals(size, n, hop)
          calls = []
          for i, nm in enumerate(norms):
            h = hop if i % 2 == 0 else max(1, (hop * 2) % (size + 1))   # a different hop changes the gain
            calls.append({"size": size, "hop": h, "norm": nm, "gc": gconst(size, h),
                          "blks": mk_blocks(rng.randrange(1, 4), size, rng)})
          yield {"wnd": wv, "kind": kind, "calls": calls, "tags": ["hist", "kind=" + kind, "n=%d" % len(norms)]}


def run_hist(c):
  import audiolazy
  vals = [ExactQ(unfr(p)) for p in c["wnd"]]
  if c["kind"] == "memo":
    store = list(vals)
    arg = lambda size: store               # memoised: the same list object at every call
  elif c["kind"] == "sublist":
    store = SubList(vals); arg = store
  else:
    store = list(vals); arg = store
  res = []
  for k in c["calls"]:
    try:
      g = audiolazy.overlap_add.list(blocks_py(k["blks"], "list"), size=k["size"], hop=k["hop"], wnd=arg,
                                     normalize=k["norm"])
      out, exn = drain(g)
    except Exception as e:
      out, exn = [], type(e).__name__
    res.append({"out": out, "exn": exn, "wafter": [fr(to_frac(x)) for x in store]})
  return {"calls": res}


def lit_hist(c, o):
  obs = o.get("calls") or [{"out": [], "exn": "harness-" + str(o.get("raise", "?")), "wafter": []}] * len(c["calls"])
  calls = []
  for k, r in zip(c["calls"], obs):
    calls.append("(HC %s %s %s %s %s %s %s %s)" % (L.nat(k["size"]), L.nat(k["hop"]), L.boolean(k["norm"]), q(k["gc"]),
                 L.lst([qlist(b) for b in k["blks"]]), qlist(r["out"]), ostr(r["exn"]), qlist(r["wafter"])))
  return "(HS %s %s %s)" % (qlist(c["wnd"]), L.boolean(c["kind"] == "memo"), L.lst(calls))


def nontrivial_hist(c, o):
  norms = [k["norm"] for k in c["calls"]]
  return True in norms and False in norms[norms.index(True):]


# ---------------------------------------------------------------------------- stft histories
def use_layers(c, use, call):
  """The keyword layers one call depends on: those of its own chain only."""
  if use["mode"] == "direct":
    return [use["flayer"], call["kw"]]
  return c["base"] + use["chain"] + [use["flayer"] if use["mode"] == "partial" else [], call["kw"]]


def drain_blocks(res):
  got, err = [], None
  try:
    for b in res:
      got.append([fr(to_frac(x)) for x in b])      # snapshot at yield time
      if len(got) > 500:
        err = "TooManyItems"; break
  except Exception as e:
    err = type(e).__name__
  return got, err


def run_shist(c):
  import audiolazy
  R = StftRun()
  st = audiolazy.stft
  salt = [0]
  def mk(lay):
    salt[0] += 1
    return dict((k, R.obj(k, v, salt[0])) for k, v in lay)
  obs, pending = [], []
  try:
    P = None
    if c["base"]:
      P = st(**mk(c["base"][0]))
      for lay in c["base"][1:]:
        P = P(**mk(lay))
    for use in c["uses"]:
      func = f1_py(use["func"], salt[0] + len(c["uses"]))
      if use["mode"] == "direct":
        proc = st(func, **mk(use["flayer"]))
      else:
        cur = P
        for lay in use["chain"]:
          cur = cur(**mk(lay))
        proc = cur(func) if use["mode"] == "decorator" else cur(func, **mk(use["flayer"]))
      for call in use["calls"]:
        sig = [ExactQ(unfr(p)) for p in call["sig"]]
        if call.get("sigkind") == "gen":
          sig = (x for x in sig)
        R.user_log, R.list_called = [], False
        try:
          res = proc(sig, **mk(call["kw"]))
        except Exception as e:
          obs.append({"kind": "call", "exn": type(e).__name__}); continue
        if R.user_log:
          u = R.user_log[0]
          obs.append({"kind": "user", "id": u["id"], "params": u["params"], "blocks": u["blocks"], "exn": u["exn"]})
        else:
          obs.append(None)
          pending.append((len(obs) - 1, "samples" if R.list_called else "blocks", res))
          if not c.get("lazy"):
            flush(pending, obs)
    flush(pending, obs)
  except Exception as e:
    return {"raise": type(e).__name__, "harness_msg": str(e)[:200]}
  return {"calls": obs}


def flush(pending, obs):
  """Consumes the results that are still live (all at the end in the lazy variant: alternately, item by item)."""
  its = []
  for i, kind, res in pending:
    obs[i] = {"kind": kind, "out": [], "blocks": [], "exn": None}
    its.append((i, kind, iter(res)))
  del pending[:]
  while its:
    for ent in list(its):
      i, kind, it = ent
      try:
        v = next(it)
        if kind == "samples": obs[i]["out"].append(fr(to_frac(v)))
        else: obs[i]["blocks"].append([fr(to_frac(x)) for x in v])
        if len(obs[i]["out"]) + len(obs[i]["blocks"]) > 2000:
          obs[i]["exn"] = "TooManyItems"; its.remove(ent)
      except StopIteration:
        its.remove(ent)
      except Exception as e:
        obs[i]["exn"] = type(e).__name__; its.remove(ent)


def lit_shist(c, o):
  lits, k = [], 0
  calls = o.get("calls")
  for use in c["uses"]:
    for call in use["calls"]:
      layers = use_layers(c, use, call)
      ob = calls[k] if calls and k < len(calls) and calls[k] else {"kind": "?", "exn": o.get("raise", "missing")}
      lits.append(lit_stft({"gc": stft_gc(layers), "layers": layers, "func": use["func"], "sig": call["sig"]}, ob))
      k += 1
  return L.lst(lits)


def ingredient_values(key, size, rng, n):
  """Alternatives for ONE keyword (None = explicit None, "absent" = not given)."""
  wa = ["wnd", mk_window("call", size, n, 1)]; wb = ["wnd", mk_window("call", size, n + 5, 2)]
  wl = ["wnd", mk_window("list", size, n, 3)]; wm = ["wnd", ["memo", wvals(size, n, 4)]]
  if key in ("wnd", "ola_wnd"): return [wa, wb, wl, wm, ["none"], "absent"]
  if key == "hop": return [["nat", h] for h in range(1, size + 1)] + ["absent"]
  if key in ("transform", "inverse_transform"):
    return [["fun", "mulsize"], ["fun", "addsize"], ["fun", "rev"], ["none"], ["fun", ["falsy", "addsize"]]]
  if key in ("before", "after"):
    return [["fun", "ramp"], ["fun", "sq"], ["fun", "rev"], ["none"], ["fun", ["falsy", "zero"]], ["fun", ["falsy", "ramp"]]]
  if key == "ola_normalize": return [["bool", True], ["bool", False], "absent"]
  if key == "ola": return [["ola", ["user", 1]], ["ola", ["user", 2]], ["ola", "list"], ["none"]]
  if key == "ola_zz": return [["opaque", 1], ["opaque", 2], ["none"], "absent"]
  raise ValueError(key)


VARY = ["wnd", "wnd", "ola_wnd", "hop", "hop", "transform", "before", "ola_normalize", "ola", "ola_zz", "after", "inverse_transform"]


def kw_of(key, v):
  return [] if v == "absent" else [[key, v]]


def gen_shist(tier, rng):
  nrep = 216 if tier == "quick" else 1800
  for n in range(nrep):
    size = rng.randrange(1, 6)
    key = VARY[n % len(VARY)]
    vals = ingredient_values(key, size, rng, n)
    ola = rng.choice([["none"], ["ola", "list"], ["ola", "list"], ["ola", ["user", 3]]])
    if key in ("ola_wnd", "ola_normalize", "ola_zz") and ola == ["none"]:
      ola = ["ola", "list"] if key != "ola_zz" else ["ola", ["user", 3]]
    if key == "ola_zz":
      ola = ["ola", ["user", 3]]
    common = [["size", ["nat", size]]] + [list(x) for x in NONE4] + ([["ola", ola]] if key != "ola" else [])
    if key != "hop" and rng.random() < 0.6:
      common.append(["hop", ["nat", rng.randrange(1, size + 1)]])
    if key not in ("wnd",) and rng.random() < 0.3:
      common.append(["wnd", ["wnd", mk_window("list", size, n, 7)]])
    sig = lambda: mk_sig(rng.choice([0, size, 2 * size + 1, 7]), rng)
    func = lambda: rng.choice(["id", "id", "rev", "ramp", ["falsy", "rev"], ["falsy", "zero"]])
    picks = [rng.choice(vals) for _ in range(3)]
    if picks[0] == picks[1]:
      picks[1] = vals[(vals.index(picks[0]) + 1) % len(vals)]
    if key in ("wnd", "ola_wnd") and (n // len(VARY)) % 3 != 2:
      # systematically: two DIFFERENT callables for the same size one after the other (then anything)
      picks[0], picks[1] = (vals[0], vals[1]) if (n // len(VARY)) % 3 == 0 else (vals[3], vals[0])
    lazy = rng.random() < 0.3
    if n % 2 == 0:
      # (H1) one processor, several calls that differ in one call-time keyword (incl. explicit None over a build value)
      build = list(common)
      if rng.random() < 0.5 and picks[2] != "absent":
        build.append([key, picks[2]])                       # a build-time value the calls override (or not)
      if key == "ola" and not any(k == "ola" for k, _ in build):
        build.append(["ola", ["ola", "list"]])
      mode = ["direct", "partial", "decorator"][(n // 2) % 3]
      calls = [{"kw": kw_of(key, v), "sig": sig(), "sigkind": rng.choice(["list", "gen"])} for v in picks[:rng.choice([2, 3])]]
      if rng.random() < 0.4:
        calls.append(dict(calls[0], sig=sig()))             # back to the first setting
      if mode == "direct":
        yield {"base": [], "uses": [{"mode": "direct", "chain": [], "flayer": build, "func": func(), "calls": calls}],
               "lazy": lazy, "tags": ["one-processor", "vary=" + key, "mode=direct"]}
      else:
        cut = rng.randrange(0, len(build) + 1)
        use = {"mode": mode, "chain": [build[cut:]] if mode == "decorator" else [],
               "flayer": build[cut:] if mode == "partial" else [], "func": func(), "calls": calls}
        yield {"base": [build[:cut]], "uses": [use], "lazy": lazy, "tags": ["one-processor", "vary=" + key, "mode=" + mode]}
    else:
      # (H2) one partial object used as a factory: an earlier use gives the keyword, a later one omits / changes it
      base = list(common)
      if key == "ola":
        base.append(["ola", ["ola", "list"]])
      uses = []
      for i, v in enumerate(picks[:rng.choice([2, 3])] + ["absent"]):
        mode = rng.choice(["partial", "decorator"])
        where = rng.choice(["chain", "flayer"]) if mode == "partial" else "chain"
        extra = kw_of(key, v)
        use = {"mode": mode, "chain": [extra] if where == "chain" and (extra or rng.random() < 0.5) else [],
               "flayer": extra if where == "flayer" else [], "func": func(),
               "calls": [{"kw": [], "sig": sig(), "sigkind": "list"} for _ in range(rng.choice([1, 1, 2]))]}
        uses.append(use)
      cut = rng.randrange(1, len(base) + 1)
      yield {"base": [base[:cut], base[cut:]] if rng.random() < 0.5 else [base], "uses": uses, "lazy": lazy,
             "tags": ["factory", "vary=" + key, "uses=%d" % len(uses)]}


def nontrivial_shist(c, o):
  calls = [x for x in (o.get("calls") or []) if x]
  return len(calls) >= 2 and sum(1 for x in calls if x.get("exn") is None and (x.get("blocks") or x.get("out"))) >= 2


IMPORTS = "From AL Require Import C09.Model C09.Spec C09.Check."
FAMILIES = {
  "ola": Family("ola", IMPORTS, "ocase", "corr_ola", "holds_ola", gen_ola, run_ola, lit_ola, nontrivial_ola),
  "hist": Family("hist", IMPORTS, "hcase", "corr_hist", "holds_hist", gen_hist, run_hist, lit_hist, nontrivial_hist),
  "shist": Family("shist", IMPORTS, "shcase", "corr_shist", "holds_shist", gen_shist, run_shist, lit_shist, nontrivial_shist),
  "stft": Family("stft", IMPORTS, "scase", "corr_stft", "holds_stft", gen_stft, run_stft, lit_stft, nontrivial_stft),
}
